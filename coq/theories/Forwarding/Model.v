(** C09 — executable model (no proofs here).

    (i)  Objects.  A value implementing Collect / Subscribe / Filter is modelled by what a call of one of its
         trait methods does: the list of callbacks that reach *recording leaves* (in order) and the result.
    (ii) The semantics of every provided implementor (Box, Arc, Option, Vec, reload, Identity, Layered as a
         collector and as a subscriber, Dispatch) is *defined from its table row* ([lk : wrapper -> meth -> cls],
         decoded from the generated [TVGen.Gen_forwarding]); `Missing` means the extracted trait default body.
    (iii) Trees of such values ([filt], [sub], [coll]) and a dispatch-level workload ([op]); [run_case] returns
         the call log and the results, which driver/props/c09.py compares with the real crates.

    Scope of the model: stacks without per-layer filters (`Filtered` is C07's).  The root collector is a recording leaf or a
    `Registry` ([b_registry]); `Layered`'s three private flags are parameters computed from the built stack ([flags_of_root]):
    in an unfiltered stack `has_subscriber_filter` is false everywhere, and `inner_is_registry` (hence
    `inner_has_subscriber_filter`) is true exactly for the `Layered` whose `inner` is the `Registry` value itself.
    `downcast_raw` is modelled only through [is_none]. *)
From TV Require Export Forwarding.Syntax.
From TVGen Require Gen_forwarding.
Local Open Scope N_scope.

(** * Values *)
Inductive interest := INever | ISometimes | IAlways.
Definition hint := option N.                 (* None = no hint; Some 0 = OFF, Some 1 = ERROR, ... Some 5 = TRACE *)
Inductive res := RUnit | RBool (b : bool) | RInt (i : interest) | RHint (h : hint) | RId (n : N) | RPoison.

Definition arg : Type := N * N * N.          (* callsite index, span id, second span id (0 when unused) *)
Definition a_cs (a : arg) : N := fst (fst a).
Definition a_id (a : arg) : N := snd (fst a).
Definition a_id2 (a : arg) : N := snd a.
Definition arg0 : arg := (0, 0, 0).

Definition entry : Type := N * meth * arg.   (* which recording leaf, which callback, with which arguments *)
Definition out : Type := list entry * res.
Definition calls : Type := meth -> arg -> out.
Record obj := mkObj { call : calls; is_none : bool }.

Definition poison : out := ([], RPoison).

(** * Tables *)
Record tables := mkTables { lk : wrapper -> meth -> cls; dk : trait -> meth -> dflt }.

Definition collect_meths : list meth :=
  [on_register_dispatch; register_callsite; enabled; max_level_hint; new_span; record; record_follows_from;
   event_enabled; event; enter; exit; clone_span; drop_span; try_close; current_span; downcast_raw].
Definition subscribe_meths : list meth :=
  [on_register_dispatch; on_subscribe; register_callsite; enabled; on_new_span; max_level_hint; on_record;
   on_follows_from; event_enabled; on_event; on_enter; on_exit; on_close; on_id_change; downcast_raw].
Definition filter_meths : list meth :=
  [enabled; callsite_enabled; max_level_hint; event_enabled; on_new_span; on_record; on_enter; on_exit; on_close].
Definition trait_meths (t : trait) : list meth :=
  match t with TCollect => collect_meths | TSubscribe => subscribe_meths | TFilter => filter_meths end.
Definition in_trait (t : trait) (m : meth) : bool := existsb (meth_eqb m) (trait_meths t).

(** Rows are consulted only for the methods of the implementor's own trait. *)
Definition row (tb : tables) (w : wrapper) (m : meth) : cls :=
  if in_trait (wrapper_trait w) m then lk tb w m else Custom "not a method of this trait".
Definition dflt_of (tb : tables) (t : trait) (m : meth) : dflt :=
  if in_trait t m then dk tb t m else DOther "not a method of this trait".

(** Decoding the generated (string-keyed) table. *)
Definition lookup_row (rows : list (string * trait * string * cls)) (w : wrapper) (m : meth) : cls :=
  match find (fun r => match r with (ws, t, ms, _) =>
                trait_eqb t (wrapper_trait w) && String.eqb ws (wrapper_name w) && String.eqb ms (meth_name m) end) rows with
  | Some (_, _, _, c) => c
  | None => Custom "no row"
  end.
Definition lookup_default (ds : list (trait * string * dflt)) (t : trait) (m : meth) : dflt :=
  match find (fun r => match r with (t', ms, _) => trait_eqb t' t && String.eqb ms (meth_name m) end) ds with
  | Some (_, _, d) => d
  | None => DOther "no default row"
  end.
Definition tables_of (rows : list (string * trait * string * cls)) (ds : list (trait * string * dflt)) : tables :=
  mkTables (lookup_row rows) (lookup_default ds).

(** * Semantics of the row classes *)
Definition lit_res (l : lit) (a : arg) : res :=
  match l with
  | LUnit => RUnit | LTrue => RBool true | LFalse => RBool false
  | LAlways => RInt IAlways | LSometimes => RInt ISometimes | LNever => RInt INever
  | LHintNone => RHint None | LHintOff => RHint (Some 0)
  | LIdClone => RId (a_id a) | LOther _ => RPoison
  end.

(** A method body may call other methods of `self` (trait defaults, `Layered::drop_span`); bounded unrolling. *)
Fixpoint tie (n : nat) (f : calls -> calls) : calls :=
  match n with O => fun _ _ => poison | S k => f (tie k f) end.

Definition default_sem (tb : tables) (t : trait) (self : calls) : calls := fun m a =>
  match dflt_of tb t m with
  | DLit l => ([], lit_res l a)
  | DIfSelf ms lt le =>
      match decode_meth ms with
      | Some m' => match self m' a with
                   | (lg, RBool true) => (lg, lit_res lt a)
                   | (lg, RBool false) => (lg, lit_res le a)
                   | (lg, _) => (lg, RPoison)
                   end
      | None => poison
      end
  | DSeqSelf ms l =>
      match decode_meth ms with Some m' => (fst (self m' a), lit_res l a) | None => poison end
  | DRequired | DDowncastSelf | DOther _ => poison
  end.

(** One inner value: Box / Arc / Some / reload / Box<dyn> / Arc<dyn> (and Identity, which has no inner value). *)
Definition fwd_sem (tb : tables) (w : wrapper) (inner : calls) (self : calls) : calls := fun m a =>
  match row tb w m with
  | Fwd | FwdLock _ | FwdOpt _ | FwdTryLock _ => inner m a     (* single-threaded: the lock is never busy; see ReloadConc.v *)
  | Missing => default_sem tb (wrapper_trait w) self m a
  | Const l => ([], lit_res l a)
  | _ => poison
  end.

(** `None`. *)
Definition none_sem (tb : tables) (w : wrapper) (self : calls) : calls := fun m a =>
  match row tb w m with
  | FwdOpt d => ([], lit_res d a)
  | Missing => default_sem tb (wrapper_trait w) self m a
  | _ => poison
  end.

(** `Vec<S>`. *)
Fixpoint vec_unit (xs : list calls) (m : meth) (a : arg) : list entry :=
  match xs with [] => [] | x :: r => fst (x m a) ++ vec_unit r m a end.
Fixpoint vec_all (xs : list calls) (m : meth) (a : arg) : out :=
  match xs with
  | [] => ([], RBool true)
  | x :: r => match x m a with
              | (l, RBool true) => let (l2, r2) := vec_all r m a in (l ++ l2, r2)
              | (l, RBool false) => (l, RBool false)
              | (l, _) => (l, RPoison)
              end
  end.
Definition is_never i := match i with INever => true | _ => false end.
Definition is_sometimes i := match i with ISometimes => true | _ => false end.
Definition is_always i := match i with IAlways => true | _ => false end.
Fixpoint vec_interest (xs : list calls) (m : meth) (a : arg) (acc : interest) : out :=
  match xs with
  | [] => ([], RInt acc)
  | x :: r => match x m a with
              | (l, RInt ni) =>
                  let acc' := if (is_sometimes acc && is_always ni) || (is_never acc && negb (is_never ni)) then ni else acc in
                  let (l2, r2) := vec_interest r m a acc' in (l ++ l2, r2)
              | (l, _) => (l, RPoison)
              end
  end.
Definition interest_all (any_never all_always : bool) : interest :=
  if any_never then INever else if all_always then IAlways else ISometimes.
Fixpoint vec_interest_all (xs : list calls) (m : meth) (a : arg) (any_never all_always : bool) : out :=
  match xs with
  | [] => ([], RInt (interest_all any_never all_always))
  | x :: r => match x m a with
              | (l, RInt ni) =>
                  let (l2, r2) := vec_interest_all r m a (any_never || is_never ni) (all_always && is_always ni) in (l ++ l2, r2)
              | (l, _) => (l, RPoison)
              end
  end.
Fixpoint vec_hint (xs : list calls) (m : meth) (a : arg) (acc : N) : out :=
  match xs with
  | [] => ([], RHint (Some acc))
  | x :: r => match x m a with
              | (l, RHint None) => (l, RHint None)
              | (l, RHint (Some h)) => let (l2, r2) := vec_hint r m a (N.max h acc) in (l ++ l2, r2)
              | (l, _) => (l, RPoison)
              end
  end.
Definition vec_sem (tb : tables) (xs : list calls) (self : calls) : calls := fun m a =>
  match row tb WVecS m with
  | FwdAll CUnit => (vec_unit xs m a, RUnit)
  | FwdAll CAll => vec_all xs m a
  | FwdAll CInterestHighest => vec_interest xs m a INever
  | FwdAll CInterestHighestOrAlways => match xs with [] => ([], RInt IAlways) | _ => vec_interest xs m a INever end
  | FwdAll CInterestAll => vec_interest_all xs m a false true
  | FwdAll CHintMax => vec_hint xs m a 0
  | Missing => default_sem tb TSubscribe self m a
  | _ => poison
  end.

(** `Layered` (both impls).  The three private flags, as `Layered::new` computes them. *)
Record lflags := mkFl { hsf : bool; ihsf : bool; iir : bool }.   (* has_subscriber_filter, inner_has_subscriber_filter, inner_is_registry *)
Definition noflags : lflags := mkFl false false false.

Definition opt_max (x y : hint) : hint :=    (* cmp::max on Option<LevelFilter>: None < Some _ *)
  match x, y with
  | None, _ => y
  | _, None => x
  | Some p, Some q => Some (N.max p q)
  end.
Definition hint_is_none (h : hint) : bool := match h with None => true | Some _ => false end.
(** `Layered::pick_level_hint`, statement by statement (the translator compares the Rust body with its template). *)
Definition pick_level_hint (fl : lflags) (s_none inner_none : bool) (oh ih : hint) : hint :=
  if iir fl then oh
  else if hsf fl && ihsf fl then match oh, ih with Some p, Some q => Some (N.max p q) | _, _ => None end
  else if hsf fl && hint_is_none ih then None
  else if ihsf fl && hint_is_none oh then None
  else if s_none then match ih with None => None | Some i => opt_max oh (Some i) end
  else if inner_none && match ih with Some 0 => true | _ => false end then oh
  else opt_max oh ih.
(** `Layered::pick_interest` once the inner side has been asked ([o] is not `never` unless `has_subscriber_filter`). *)
Definition pick_interest_res (fl : lflags) (o i : interest) : interest :=
  if hsf fl then i
  else if is_sometimes o then ISometimes
  else if is_never i && ihsf fl then ISometimes
  else i.

Definition layered_sem (tb : tables) (w : wrapper) (fl : lflags) (s inner : obj) (self : calls) : calls := fun m a =>
  match row tb w m with
  | Seq2 o mi mo =>
      match decode_meth mi, decode_meth mo with
      | Some mi', Some mo' =>
          let li := fst (call inner mi' a) in let lo := fst (call s mo' a) in
          (match o with InnerOuter => li ++ lo | OuterInner => lo ++ li end, RUnit)
      | _, _ => poison
      end
  | Gate mo mi _ =>
      match decode_meth mo, decode_meth mi with
      | Some mo', Some mi' =>
          match call s mo' a with
          | (lo, RBool true) => let (li, ri) := call inner mi' a in (lo ++ li, ri)
          | (lo, RBool false) => (lo, RBool false)
          | (lo, _) => (lo, RPoison)
          end
      | _, _ => poison
      end
  | PickInterest mo mi =>
      match decode_meth mo, decode_meth mi with
      | Some mo', Some mi' =>
          match call s mo' a with
          | (lo, RInt o) =>
              if negb (hsf fl) && is_never o then (lo, RInt INever)
              else match call inner mi' a with
                   | (li, RInt i) => (lo ++ li, RInt (pick_interest_res fl o i))
                   | (li, _) => (lo ++ li, RPoison)
                   end
          | (lo, _) => (lo, RPoison)
          end
      | _, _ => poison
      end
  | PickHint probe =>
      if String.eqb probe "collector_is_none" || String.eqb probe "subscriber_is_none" then
        match call s max_level_hint a, call inner max_level_hint a with
        | (lo, RHint oh), (li, RHint ih) => (lo ++ li, RHint (pick_level_hint fl (is_none s) (is_none inner) oh ih))
        | (lo, _), (li, _) => (lo ++ li, RPoison)
        end
      else poison
  | NewSpan =>
      match call inner new_span a with
      | (li, RId k) => (li ++ fst (call s on_new_span (a_cs a, k, 0)), RId k)
      | (li, _) => (li, RPoison)
      end
  | CloneSpan =>
      match call inner clone_span a with
      | (li, RId nw) => if N.eqb nw (a_id a) then (li, RId nw)
                        else (li ++ fst (call s on_id_change (a_cs a, a_id a, nw)), RId nw)
      | (li, _) => (li, RPoison)
      end
  | TryClose =>
      match call inner try_close a with
      | (li, RBool true) => (li ++ fst (call s on_close a), RBool true)
      | (li, RBool false) => (li, RBool false)
      | (li, _) => (li, RPoison)
      end
  | SelfCall ms => match decode_meth ms with Some m' => (fst (self m' a), RUnit) | None => poison end
  | Fwd => call inner m a
  | Missing => default_sem tb (wrapper_trait w) self m a
  | _ => poison
  end.

(** `Dispatch`'s public methods, on the collector it owns. *)
Definition dispatch_sem (tb : tables) (c : calls) : calls := fun m a =>
  match row tb WDispatch m with
  | Fwd => c m a
  | EventGate =>
      match c event_enabled a with
      | (l1, RBool true) => let (l2, r2) := c event a in (l1 ++ l2, r2)
      | (l1, RBool false) => (l1, RUnit)
      | (l1, _) => (l1, RPoison)
      end
  | _ => poison
  end.

(** [is_none]: what `subscriber_is_none` / `collector_is_none` answer, from the `downcast_raw` rows. *)
Definition dc_of (tb : tables) (w : wrapper) : option dcast :=
  match row tb w downcast_raw with
  | Downcast d => Some d
  | Missing => match dflt_of tb (wrapper_trait w) downcast_raw with DDowncastSelf => Some DcSelf | _ => None end
  | _ => None
  end.
Definition none_through (tb : tables) (w : wrapper) (inner_none : bool) : bool :=
  match dc_of tb w with
  | Some DcFwd | Some DcSelfOrFwd | Some DcReload | Some DcReloadTry | Some DcOption => inner_none
  | _ => false
  end.
Definition none_itself (tb : tables) (w : wrapper) : bool :=
  match dc_of tb w with Some DcOption => true | _ => false end.
Definition none_vec (tb : tables) (xs : list bool) : bool :=
  match dc_of tb WVecS with
  | Some DcVec => existsb (fun b => b) xs
  | Some DcVecNoneIfEmpty => match xs with [] => true | _ => existsb (fun b => b) xs end
  | _ => false
  end.
Definition none_layered (tb : tables) (w : wrapper) (s inner : bool) : bool :=
  match dc_of tb w with Some DcLayeredC | Some DcLayeredS => s || inner | _ => false end.

(** * Recording leaves (the harness's RecLayer / RecFilter / RecCollector) *)
Record beh := mkBeh {
  b_interest : N -> interest;      (* register_callsite / callsite_enabled, per callsite *)
  b_enabled : N -> bool;
  b_event_enabled : N -> bool;
  b_hint : hint;
  b_close : N -> bool;             (* collector only: try_close(id) *)
  b_clone : N -> N;                (* collector only: clone_span(id) *)
  b_registry : bool                (* collector only: this root is the `Registry` itself (not a recording collector) *)
}.

(** What a root collector answers.  A `Registry` without per-layer filters answers `always` / `true` / no hint, hands the id
    back on `clone_span`, and records nothing in the harness's log; whether `try_close` closes is its reference counting
    (C05's subject): [b_close] is then an oracle for it. *)
Definition r_interest (b : beh) (cs : N) : interest := if b_registry b then IAlways else b_interest b cs.
Definition r_enabled (b : beh) (cs : N) : bool := if b_registry b then true else b_enabled b cs.
Definition r_event_enabled (b : beh) (cs : N) : bool := if b_registry b then true else b_event_enabled b cs.
Definition r_hint (b : beh) : hint := if b_registry b then None else b_hint b.
Definition r_clone (b : beh) (id : N) : N := if b_registry b then id else b_clone b id.

Definition leaf_sub (i : N) (b : beh) : calls := fun m a =>
  ([(i, m, a)],
   match m with
   | register_callsite => RInt (b_interest b (a_cs a))
   | enabled => RBool (b_enabled b (a_cs a))
   | event_enabled => RBool (b_event_enabled b (a_cs a))
   | max_level_hint => RHint (b_hint b)
   | _ => RUnit
   end).
Definition leaf_filt (i : N) (b : beh) : calls := fun m a =>
  ([(i, m, a)],
   match m with
   | callsite_enabled => RInt (b_interest b (a_cs a))
   | enabled => RBool (b_enabled b (a_cs a))
   | event_enabled => RBool (b_event_enabled b (a_cs a))
   | max_level_hint => RHint (b_hint b)
   | _ => RUnit
   end).
Definition leaf_coll (i : N) (b : beh) : calls := fun m a =>
  (if b_registry b then [] else [(i, m, a)],
   match m with
   | register_callsite => RInt (r_interest b (a_cs a))
   | enabled => RBool (r_enabled b (a_cs a))
   | event_enabled => RBool (r_event_enabled b (a_cs a))
   | max_level_hint => RHint (r_hint b)
   | new_span => RId (a_id a)
   | clone_span => RId (r_clone b (a_id a))
   | try_close => RBool (b_close b (a_id a))
   | _ => RUnit
   end).

(** The harness's FilterProbe: a layer that hands each callback to the corresponding `Filter` method. *)
Definition probe_sem (f : calls) : calls := fun m a =>
  match m with
  | register_callsite => f callsite_enabled a
  | enabled | event_enabled | max_level_hint | on_new_span | on_record | on_enter | on_exit | on_close => f m a
  | _ => ([], RUnit)
  end.

(** * Trees *)
Inductive swrap := SwBox | SwBoxDyn | SwSome | SwReload.
Inductive fwrap := FwBoxDyn | FwArcDyn | FwSome | FwReload.
Inductive cwrap := CwBox | CwArc.
Definition swrap_w (w : swrap) : wrapper :=
  match w with SwBox => WBoxS | SwBoxDyn => WBoxDynS | SwSome => WOptionS | SwReload => WReloadS end.
Definition fwrap_w (w : fwrap) : wrapper :=
  match w with FwBoxDyn => WBoxDynF | FwArcDyn => WArcDynF | FwSome => WOptionF | FwReload => WReloadF end.
Definition cwrap_w (w : cwrap) : wrapper := match w with CwBox => WBoxC | CwArc => WArcC end.

Inductive filt := FLeaf (i : N) (b : beh) | FWrap (w : fwrap) (x : filt) | FNone.
Inductive sub :=
| SLeaf (i : N) (b : beh)
| SWrap (w : swrap) (x : sub)
| SNone
| SVec (xs : list sub)
| SPair (outer inner : sub)          (* inner.and_then(outer) = Layered { subscriber: outer, inner } as a Subscribe *)
| SIdentity
| SProbe (f : filt).
Inductive coll :=
| CLeaf (i : N) (b : beh)
| CWrap (w : cwrap) (c : coll)
| CLayered (s : sub) (c : coll).       (* c.with(s) *)

Definition FUEL : nat := 3%nat.

Fixpoint filt_obj (tb : tables) (f : filt) : obj :=
  match f with
  | FLeaf i b => mkObj (leaf_filt i b) false
  | FWrap w x => mkObj (tie FUEL (fwd_sem tb (fwrap_w w) (call (filt_obj tb x)))) false
  | FNone => mkObj (tie FUEL (none_sem tb WOptionF)) false
  end.

Fixpoint sub_obj (tb : tables) (s : sub) : obj :=
  match s with
  | SLeaf i b => mkObj (leaf_sub i b) false
  | SWrap w x => let o := sub_obj tb x in
                 mkObj (tie FUEL (fwd_sem tb (swrap_w w) (call o))) (none_through tb (swrap_w w) (is_none o))
  | SNone => mkObj (tie FUEL (none_sem tb WOptionS)) (none_itself tb WOptionS)
  | SVec xs => let os := map (sub_obj tb) xs in
               mkObj (tie FUEL (vec_sem tb (map call os))) (none_vec tb (map is_none os))
  | SPair o i => let oo := sub_obj tb o in let oi := sub_obj tb i in
                 mkObj (tie FUEL (layered_sem tb WLayeredS noflags oo oi)) (none_layered tb WLayeredS (is_none oo) (is_none oi))
  | SIdentity => mkObj (tie FUEL (fwd_sem tb WIdentityS (fun _ _ => poison))) (none_through tb WIdentityS false)
  | SProbe f => mkObj (probe_sem (call (filt_obj tb f))) false
  end.

(** `Layered::new(subscriber, inner, ..)` for `c'.with(s)`: `inner_is_registry` compares the TYPE of `inner` with `Registry`
    (a `Box<Registry>` or a `Layered<_, Registry>` is not one); `inner_has_subscriber_filter = collector_has_psf(inner) ||
    inner_is_registry`, and no collector of an unfiltered stack answers the per-layer-filter marker. *)
Definition flags_of_root (c' : coll) : lflags :=
  match c' with CLeaf _ b => mkFl false (b_registry b) (b_registry b) | _ => noflags end.

Fixpoint coll_obj (tb : tables) (c : coll) : obj :=
  match c with
  | CLeaf i b => mkObj (leaf_coll i b) false
  | CWrap w c' => let o := coll_obj tb c' in
                  mkObj (tie FUEL (fwd_sem tb (cwrap_w w) (call o))) (none_through tb (cwrap_w w) (is_none o))
  | CLayered s c' => let os := sub_obj tb s in let oc := coll_obj tb c' in
                     mkObj (tie FUEL (layered_sem tb WLayeredC (flags_of_root c') os oc)) (none_layered tb WLayeredC (is_none os) (is_none oc))
  end.

(** * Workloads (what the harness does with `Dispatch::new(stack)`) *)
Inductive op :=
| ORegisterCallsite (cs : N) | OEnabled (cs : N) | OHint
| ONewSpan (cs k : N)                 (* k = the id the root collector hands out (the harness's counter) *)
| ORecord (id : N) | OFollows (id id2 : N) | OEvent (cs : N) | OEnter (id : N) | OExit (id : N)
| OClone (id : N) | OTryClose (id : N) | ODropSpan (id : N) | OCurrent.

Definition op_call (o : op) : meth * arg :=
  match o with
  | ORegisterCallsite cs => (register_callsite, (cs, 0, 0))
  | OEnabled cs => (enabled, (cs, 0, 0))
  | OHint => (max_level_hint, arg0)
  | ONewSpan cs k => (new_span, (cs, k, 0))
  | ORecord id => (record, (0, id, 0))
  | OFollows id id2 => (record_follows_from, (0, id, id2))
  | OEvent cs => (event, (cs, 0, 0))
  | OEnter id => (enter, (0, id, 0))
  | OExit id => (exit, (0, id, 0))
  | OClone id => (clone_span, (0, id, 0))
  | OTryClose id => (try_close, (0, id, 0))
  | ODropSpan id => (drop_span, (0, id, 0))
  | OCurrent => (current_span, arg0)
  end.

(** `max_level_hint` has no public `Dispatch` method: the harness calls it on the stack itself. *)
Definition run_op (tb : tables) (c : obj) (o : op) : out :=
  let (m, a) := op_call o in
  match o with OHint => call c m a | _ => dispatch_sem tb (call c) m a end.

(** `c.with(s)` calls `s.on_subscribe(&mut c)` once, after `c` was built. *)
Fixpoint build_log (tb : tables) (c : coll) : list entry :=
  match c with
  | CLeaf _ _ => []
  | CWrap _ c' => build_log tb c'
  | CLayered s c' => build_log tb c' ++ fst (call (sub_obj tb s) on_subscribe arg0)
  end.

Definition run_case (tb : tables) (c : coll) (ops : list op) : list entry * list entry * list out :=
  let o := coll_obj tb c in
  (build_log tb c, fst (dispatch_sem tb (call o) on_register_dispatch arg0), map (run_op tb o) ops).

(** * The generated table *)
Definition gen_tables : tables := tables_of Gen_forwarding.gen_rows Gen_forwarding.gen_defaults.

(** * Callbacks made while the calling thread is unwinding

    Every callback of `reload::Subscriber` goes through the crate's `try_lock!`.  With the branch order of the source
    ([LockFirst]: the lock result first, `std::thread::panicking()` only for a poisoned lock) a healthy lock is taken whether
    or not the thread is unwinding, so nothing changes.  With `panicking()` consulted first ([PanickingFirst]) every such
    callback made during unwinding is skipped and its fallback literal returned: the rows of the two reload impls then
    behave like [Const d].  Which one the source has is read by the translator ([gen_order]). *)
Inductive tlorder := LockFirst | PanickingFirst | UnknownOrder.
Definition decode_order (s : string) : tlorder :=
  if String.eqb s "lock_first" then LockFirst else if String.eqb s "panicking_first" then PanickingFirst else UnknownOrder.
Definition gen_order : tlorder := decode_order Gen_forwarding.gen_try_lock_order.

Definition unwind_cls (w : wrapper) (m : meth) (c : cls) : cls :=
  match w with
  | WReloadS | WReloadF =>
      match c with
      | FwdLock d => if meth_eqb m on_subscribe then c else Const d
      | Downcast DcReload => Downcast DcSelf
      | _ => c
      end
  | _ => c
  end.
Definition unwind_tables (o : tlorder) (tb : tables) : tables :=
  match o with
  | LockFirst => tb
  | _ => mkTables (fun w m => unwind_cls w m (lk tb w m)) (dk tb)
  end.

(** * Installing a stack: `Dispatch::new(stack)` or `Dispatch::from_static(&'static stack)`
    How many `on_register_dispatch` notifications each constructor issues is counted by the translator (directly in the
    constructor, or through `callsite::register_dispatch`). *)
Inductive install := INew | IFromStatic.
Definition install_name (i : install) : string := match i with INew => "new" | IFromStatic => "from_static" end.
Definition install_count (i : install) : N :=
  match find (fun kv => String.eqb (fst kv) (install_name i)) Gen_forwarding.gen_install_counts with
  | Some (_, n) => n
  | None => 99
  end.
Fixpoint repeat_log (n : nat) (l : list entry) : list entry := match n with O => [] | S k => l ++ repeat_log k l end.
Definition reg_log (tb : tables) (c : coll) (i : install) : list entry :=
  repeat_log (N.to_nat (install_count i)) (fst (call (coll_obj tb c) on_register_dispatch arg0)).

(** A workload whose ops from index [k] on run inside a Drop impl while a panic propagates (caught at the top). *)
Definition run_case_u (tb : tables) (o : tlorder) (c : coll) (ops : list op) (k : nat) : list entry * list entry * list out :=
  let ob := coll_obj tb c in
  let tu := unwind_tables o tb in
  let ou := coll_obj tu c in
  (build_log tb c, fst (dispatch_sem tb (call ob) on_register_dispatch arg0),
   map (run_op tb ob) (firstn k ops) ++ map (run_op tu ou) (skipn k ops)).

(** Names in the generated file this model does not know (a method added to a trait, a new implementor). *)
Definition undecoded : list string :=
  flat_map (fun tm => match tm with (t, ms) =>
              flat_map (fun s => match decode_meth s with
                                 | Some m => if in_trait t m then [] else [s]
                                 | None => [s] end) ms end) Gen_forwarding.gen_trait_methods
  ++ flat_map (fun r => match r with (ws, t, ms, _) =>
              match decode_wrapper t ws with Some _ => [] | None => [ws] end end) Gen_forwarding.gen_rows.

(** Helpers for the driver: leaf behaviours from small tables. *)
Definition nth_or {A} (l : list A) (d : A) (n : N) : A := nth (N.to_nat n) l d.
Definition interest_of (n : N) : interest := match n with 0 => INever | 1 => ISometimes | _ => IAlways end.
Definition beh_of (ints : list N) (en ev : list bool) (h : hint) (close_mask : N) (change : bool) : beh :=
  mkBeh (fun cs => interest_of (nth_or ints 2 cs)) (fun cs => nth_or en true cs) (fun cs => nth_or ev true cs) h
        (fun id => N.testbit close_mask (id mod 8)) (fun id => if change then id + 100 else id) false.
(** The `Registry` as a root; [closes] = the ops (by position in the workload) whose `try_close` it answers with `true`. *)
Definition beh_registry (close_of : N -> bool) : beh :=
  mkBeh (fun _ => IAlways) (fun _ => true) (fun _ => true) None close_of (fun id => id) true.

(** The same for a stack installed with constructor [i]. *)
Definition run_case_i (tb : tables) (o : tlorder) (c : coll) (ops : list op) (k : nat) (i : install) : list entry * list entry * list out :=
  match run_case_u tb o c ops k with (b, _, r) => (b, reg_log tb c i, r) end.
