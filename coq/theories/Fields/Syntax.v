(** Data types the values translator (translators/values.py) emits into; nothing about the code is defined here. *)
From Coq Require Export List NArith ZArith Bool String Ascii.
Export ListNotations.

(** Primitive types of the [impl_values!] table and the [Visit] methods. *)
Inductive prim := U8 | U16 | U32 | U64 | U128 | Usize | I8 | I16 | I32 | I64 | I128 | Isize | F32 | F64 | PBool.
Inductive meth := MU64 | MI64 | MU128 | MI128 | MF64 | MBool | MStr | MBytes | MError | MDebug.
Inductive cast := CastNone | CastAs (p : prim).          (* `$op`: `|this| this`  /  `|this| this as p` *)

(** Hand-written [impl Value for X] blocks. *)
Inductive hty :=
| HStr | HBytes | HDynError (send sync : bool) | HRef | HRefMut | HBox | HString | HArguments
| HDisplayValue | HDebugValue | HEmpty | HWrapping.
Inductive harg := ASelf | ASelfDot0.                     (* `self` (or `self.as_str()`)  /  `&self.0` *)
Inductive hdeleg := DDeref | DField0 | DAsDynError.      (* deref-self .record / self.0.record / (self as &dyn Error).record *)
Inductive hbody :=
| BVisit (m : meth) (a : harg)                           (* visitor.record_m(key, a) *)
| BDelegate (d : hdeleg)                                 (* <inner>.record(key, visitor) *)
| BNothing.                                              (* empty body *)
Inductive wrapper := WDisplayValue | WDebugValue.
Inductive ftrait := TDisplay | TDebug.
Inductive fmtimpl := FDisplayOfSelf | FInnerDisplay | FInnerDebug.

(** Arm tables of [valueset!] / [fieldset!]. *)
Inductive keypat := KPath | KLit | KConst.               (* $($k:ident).+  /  $k:literal  /  { $k:expr } *)
Inductive sigil := SNone | SDebug | SDisplay.            (* none, `?`, `%` *)
Record shape := mk_shape { sh_key : keypat; sh_valued : bool; sh_sig : sigil }.
Inductive armpat :=
| PItem (s : shape) (more : bool)                        (* one field, followed by `, $($rest:tt)*` (more) or by nothing *)
| PRest.                                                 (* $($rest:tt)+ : "must be format args" *)
Inductive wrap := WPlain | WDebug | WDisplay.            (* &x  /  &debug(&x)  /  &display(&x) *)
Inductive vsrc := SrcVal | SrcKey.                       (* x = $val  /  x = $($k).+ *)
Inductive vemit :=
| VAppend (w : wrap) (s : vsrc)                          (* { $($out),*, (&$next, Some(&w(x) as &dyn Value)) } *)
| VPrependFmt                                            (* { (&$next, Some(&format_args!($($rest)+) ..)), $($out),* } *)
| VAppendFmt.                                            (* { $($out),*, (&$next, Some(&format_args!($($rest)+) ..)) } *)
Inductive femit :=
| FAppendStringify                                       (* $($out),*, stringify!($($k).+) *)
| FAppendKey                                             (* $($out),*, $k *)
| FPrependLit (s : string)                               (* "message", $($out),* *)
| FAppendLit (s : string).
Inductive cont := ContRest | ContNone.                   (* recursive call continues with $($rest)* / with nothing *)

(** Macro bodies. *)
Inductive mkind := MEvent | MSpan.
Inductive branch := InThen | InElse | Outside.           (* relative to `if <guard> { .. } else { .. }` *)
(** A `valueset!` occurrence may sit in the `$value_set` argument of `__tracing_log!` or in the block of
    `if_log_enabled!`: code that exists only with the cargo feature `log`. *)
Inductive logwrap := NoLog | InTracingLog | InIfLog.
Inductive logmode := LogOff | LogOn | LogAlways.          (* features: none / `log` / `log` + `log-always` *)
Inductive lcond :=
| LStaticOk                                              (* level_to_log!(lvl) <= log::STATIC_MAX_LEVEL *)
| LNoDispatchEver                                        (* !dispatch::has_been_set() *)
| LMaxLevelOk                                            (* level <= log::max_level() *)
| LLoggerEnabled.                                        (* log::logger().enabled(&log_meta) *)
Inductive dispatch := DEventDispatch | DEventChildOf | DSpanNew | DSpanChildOf.
Inductive msgpos := MsgFirst | MsgLast.
Inductive gconj := GStaticMax | GCurrentMax | GInterestNotNever | GAlwaysOrEnabled.

(** [AsField] impls (tracing/src/field.rs). *)
Inductive asfield_impl := AFField | AFFieldRef | AFStr.
Inductive asfield_how := AFSameCallsite | AFLookupName.
