(** C10 — proofs that the model of the code (Fields/Model.v, an interpreter of TVGen.Gen_values) meets the
    property's statement (Fields/Spec.v).  Facts about the generated tables are obtained by kernel computation
    over the *complete* finite domain (every primitive type, every field shape); everything else is by
    induction over arbitrary field lists / arbitrary values. *)
From Coq Require Import Lia.
From TV Require Import Fields.Spec.
Local Open Scope N_scope.

Local Arguments N.add : simpl never.
Local Arguments N.succ : simpl never.
Local Arguments Z.pow : simpl never.
Local Arguments Z.modulo : simpl never.

(** * 1. Typed routing *)

Definition meth_eqb (a b : meth) : bool :=
  match a, b with
  | MU64, MU64 | MI64, MI64 | MU128, MU128 | MI128, MI128 | MF64, MF64 | MBool, MBool | MStr, MStr | MBytes, MBytes
  | MError, MError | MDebug, MDebug => true
  | _, _ => false
  end.
Lemma meth_eqb_eq a b : meth_eqb a b = true -> a = b.
Proof. destruct a, b; simpl; congruence. Qed.
Lemma prim_eqb_eq a b : prim_eqb a b = true -> a = b.
Proof. destruct a, b; simpl; congruence. Qed.

Definition range_incl (p d : prim) : bool := (lo d <=? lo p)%Z && (hi p <=? hi d)%Z.
Definition cast_ok (p : prim) (c : cast) : bool :=
  match c with
  | CastNone => true
  | CastAs d => (is_int p && is_int d && range_incl p d) || (is_float p && prim_eqb d F64)
  end.
(** One row of the generated table is right: the method is the specified one, the call type-checks, and the
    cast widens (integers) or goes to f64 (floats). *)
Definition row_ok (p : prim) : bool :=
  match lookup_row gen_value_rows p with
  | Some (m, c) =>
      meth_eqb m (spec_method p)
      && match meth_param m with Some q => prim_eqb q (cast_result_ty p c) | None => false end
      && cast_ok p c
  | None => false
  end.
Lemma all_rows_ok : forall p, row_ok p = true.
Proof. destruct p; vm_compute; reflexivity. Qed.

Lemma pow2_vals :
  (2 ^ 7 = 128 /\ 2 ^ 8 = 256 /\ 2 ^ 15 = 32768 /\ 2 ^ 16 = 65536 /\ 2 ^ 31 = 2147483648 /\ 2 ^ 32 = 4294967296
   /\ 2 ^ 63 = 9223372036854775808 /\ 2 ^ 64 = 18446744073709551616
   /\ 2 ^ 127 = 170141183460469231731687303715884105728 /\ 2 ^ 128 = 340282366920938463463374607431768211456)%Z.
Proof. vm_compute. repeat split. Qed.

Ltac pow2 :=
  destruct pow2_vals as (P7 & P8 & P15 & P16 & P31 & P32 & P63 & P64 & P127 & P128);
  cbn [width signed lo hi Z.sub Z.pos_sub Z.succ_double Z.pred_double Z.double Pos.pred_double] in *;
  rewrite ?P7, ?P8, ?P15, ?P16, ?P31, ?P32, ?P63, ?P64, ?P127, ?P128 in *.

(** `as` to a type whose range contains the value leaves the value unchanged — for EVERY value. *)
Lemma wrap_int_id d z : is_int d = true -> in_range d z = true -> wrap_int d z = z.
Proof.
  intros Hi H. unfold in_range in H. apply andb_true_iff in H as [H1 H2].
  apply Z.leb_le in H1. apply Z.leb_le in H2. unfold wrap_int, lo, hi in *.
  destruct d; try discriminate Hi; pow2; rewrite Z.mod_small by lia; lia.
Qed.

Lemma range_incl_in p d z : range_incl p d = true -> in_range p z = true -> in_range d z = true.
Proof.
  unfold range_incl, in_range. intros H1 H2.
  apply andb_true_iff in H1 as [A B]. apply andb_true_iff in H2 as [C D].
  apply Z.leb_le in A, B, C, D. apply andb_true_iff. split; apply Z.leb_le; lia.
Qed.

(** binary32 is a subset of binary64, so `as f64` is exact on every f32 (and trivially on every f64). *)
Lemma pow24_lt_pow53 : (2 ^ 24 < 2 ^ 53)%N.
Proof. vm_compute. reflexivity. Qed.
Lemma fits_f64 p f : is_float p = true -> fits p f = true -> fits F64 f = true.
Proof.
  intros Hp H. destruct f as [| |neg m e]; try reflexivity.
  destruct p; try discriminate Hp; [|exact H].
  cbn [fits] in *. apply andb_true_iff in H as [H H3]. apply andb_true_iff in H as [H1 H2].
  apply N.ltb_lt in H1. apply Z.leb_le in H2, H3.
  apply andb_true_iff; split; [apply andb_true_iff; split|].
  - apply N.ltb_lt. eapply N.lt_trans; [exact H1|exact pow24_lt_pow53].
  - apply Z.leb_le. lia.
  - apply Z.leb_le. lia.
Qed.

Lemma cast_int_preserves p c z :
  is_int p = true -> cast_ok p c = true -> in_range p z = true -> apply_cast p c (PInt z) = Some (PInt z).
Proof.
  intros Hp Hc Hz. destruct c as [|d]; [reflexivity|]. simpl in *.
  apply orb_true_iff in Hc as [Hc|Hc].
  - apply andb_true_iff in Hc as [Hc Hr]. apply andb_true_iff in Hc as [_ Hd].
    rewrite Hp, Hd. simpl. rewrite wrap_int_id; auto. eapply range_incl_in; eauto.
  - apply andb_true_iff in Hc as [Hf _]. destruct p; discriminate.
Qed.
Lemma cast_float_preserves p c f :
  is_float p = true -> cast_ok p c = true -> fits p f = true -> apply_cast p c (PFloat f) = Some (PFloat f).
Proof.
  intros Hp Hc Hf. destruct c as [|d]; [reflexivity|]. simpl in *.
  apply orb_true_iff in Hc as [Hc|Hc].
  - apply andb_true_iff in Hc as [Hc _]. apply andb_true_iff in Hc as [Hc _]. destruct p; discriminate.
  - apply andb_true_iff in Hc as [_ Hd]. apply prim_eqb_eq in Hd. subst d.
    rewrite Hp. simpl. rewrite (fits_f64 p f Hp Hf). reflexivity.
Qed.

(** Row-level statement (C10_typed_table). *)
Lemma typed_table : forall p m c,
  lookup_row gen_value_rows p = Some (m, c) ->
  m = spec_method p
  /\ (forall z, is_int p = true -> in_range p z = true -> apply_cast p c (PInt z) = Some (PInt z))
  /\ (forall f, is_float p = true -> fits p f = true -> apply_cast p c (PFloat f) = Some (PFloat f))
  /\ (forall b, p = PBool -> apply_cast p c (PBoolv b) = Some (PBoolv b)).
Proof.
  intros p m c H. pose proof (all_rows_ok p) as R. unfold row_ok in R. rewrite H in R.
  apply andb_true_iff in R as [R Rc]. apply andb_true_iff in R as [Rm _].
  split; [apply meth_eqb_eq; exact Rm|]. split; [|split].
  - intros; apply cast_int_preserves; auto.
  - intros; apply cast_float_preserves; auto.
  - intros b ->. revert H. vm_compute. intros H. inversion H. reflexivity.
Qed.
Lemma table_complete : forall p, exists m c, lookup_row gen_value_rows p = Some (m, c).
Proof. intros p. pose proof (all_rows_ok p) as R. unfold row_ok in R. destruct (lookup_row gen_value_rows p) as [[m c]|]; [eauto|discriminate]. Qed.

Lemma seen_of_int p z : is_int p = true -> seen_of (spec_method p) (PInt z) = Some (SInt z).
Proof. destruct p; try discriminate; reflexivity. Qed.
Lemma seen_of_float p f : is_float p = true -> seen_of (spec_method p) (PFloat f) = Some (SFloat f).
Proof. destruct p; try discriminate; reflexivity. Qed.

Lemma route_prim_int p z : is_int p = true -> in_range p z = true ->
  route_prim p (PInt z) = Some (spec_method p, SInt z).
Proof.
  intros Hp Hz. pose proof (all_rows_ok p) as R. unfold row_ok in R. unfold route_prim.
  destruct (lookup_row gen_value_rows p) as [[m c]|]; [|discriminate].
  apply andb_true_iff in R as [R Rc]. apply andb_true_iff in R as [Rm Rp].
  apply meth_eqb_eq in Rm. subst m.
  destruct (meth_param (spec_method p)) as [q|]; [|discriminate]. rewrite Rp.
  rewrite cast_int_preserves by auto. rewrite seen_of_int by auto. reflexivity.
Qed.
Lemma route_prim_float p f : is_float p = true -> fits p f = true ->
  route_prim p (PFloat f) = Some (spec_method p, SFloat f).
Proof.
  intros Hp Hf. pose proof (all_rows_ok p) as R. unfold row_ok in R. unfold route_prim.
  destruct (lookup_row gen_value_rows p) as [[m c]|]; [|discriminate].
  apply andb_true_iff in R as [R Rc]. apply andb_true_iff in R as [Rm Rp].
  apply meth_eqb_eq in Rm. subst m.
  destruct (meth_param (spec_method p)) as [q|]; [|discriminate]. rewrite Rp.
  rewrite cast_float_preserves by auto. rewrite seen_of_float by auto. reflexivity.
Qed.
Lemma route_prim_bool b : route_prim PBool (PBoolv b) = Some (MBool, SBool b).
Proof. reflexivity. Qed.

Lemma nonzero_twin p : is_int p = true -> has_nonzero_twin p = true.
Proof. destruct p; try discriminate; intros _; vm_compute; reflexivity. Qed.

(** Route-level statement (C10_typed): for every type of the grammar and EVERY value of that type. *)
Lemma route_typed : forall t v, well_typed t v = true -> route t v = Some (spec_route t v).
Proof.
  induction t; intros v H; simpl in H.
  - (* TPrim *) simpl. destruct (rv_pl v) eqn:E; try discriminate.
    + apply andb_true_iff in H as [A B]. rewrite route_prim_int; auto.
    + apply andb_true_iff in H as [A B]. rewrite route_prim_float; auto.
    + apply prim_eqb_eq in H. subst p. reflexivity.
  - (* TNonZero *) simpl. destruct (rv_pl v) eqn:E; try discriminate.
    apply andb_true_iff in H as [H C]. apply andb_true_iff in H as [A B].
    rewrite nonzero_twin by auto. rewrite route_prim_int; auto.
  - (* TWrapping *) change (route (TWrapping t) v) with (route t v). apply IHt; exact H.
  - (* TStr *) destruct v as [ty pl d g]; simpl in *. destruct pl; try discriminate; reflexivity.
  - (* TString *) destruct v as [ty pl d g]; simpl in *. destruct pl; try discriminate; reflexivity.
  - (* TByteSlice *) destruct v as [ty pl d g]; simpl in *. destruct pl; try discriminate; reflexivity.
  - (* TDynError *) destruct v as [ty pl d g]; simpl in *. destruct pl; try discriminate.
    destruct send, sync; reflexivity.
  - (* TRef *) change (route (TRef t) v) with (route t v). apply IHt; exact H.
  - (* TRefMut *) change (route (TRefMut t) v) with (route t v). apply IHt; exact H.
  - (* TBox *) change (route (TBox t) v) with (route t v). apply IHt; exact H.
  - reflexivity.
  - reflexivity.
  - reflexivity.
  - reflexivity.
  - discriminate.
Qed.

(** * 2. Sigils *)
Definition wrap_of (s : sigil) : wrap := match s with SNone => WPlain | SDebug => WDebug | SDisplay => WDisplay end.

Lemma route_debug_wrapper v :
  route TDebugValue (wrap_value WDebug v) = Some (Some (MDebug, SDbg (rv_dbg v))).
Proof. reflexivity. Qed.
Lemma route_display_wrapper v :
  route TDisplayValue (wrap_value WDisplay v) = Some (Some (MDebug, SDbg (rv_disp v))).
Proof. reflexivity. Qed.

Lemma route_item it : item_ok it = true ->
  let w := wrap_value (wrap_of (item_sigil it)) (item_value it) in
  route (rv_ty w) w = Some (spec_item_seen it).
Proof.
  unfold item_ok, spec_item_seen. destruct (item_sigil it); simpl; intros H.
  - apply route_typed; exact H.
  - reflexivity.
  - reflexivity.
Qed.

(** * 3. The arm tables, by computation over every field shape *)
Definition src_of (it : item) : vsrc := match it with IKV _ _ _ _ => SrcVal | ISh _ _ _ _ => SrcKey end.
Definition femit_of (it : item) : femit :=
  match it with IKV (KeyPath _) _ _ _ | ISh _ _ _ _ => FAppendStringify | _ => FAppendKey end.

Lemma fs_arm it : find_arm gen_fieldset_arms (shape_of it) true = Some (femit_of it, ContRest).
Proof. destruct it as [[?|?|?] [] ? ?|[] ? ? ?]; reflexivity. Qed.
Lemma fs_rest : find_rest gen_fieldset_arms = Some (FPrependLit "message", ContNone).
Proof. reflexivity. Qed.
Lemma vs_arm it more :
  find_arm gen_valueset_arms (shape_of it) more
  = Some (VAppend (wrap_of (item_sigil it)) (src_of it), if more then ContRest else ContNone).
Proof. destruct it as [[?|?|?] [] ? ?|[] ? ? ?], more; reflexivity. Qed.
Lemma vs_rest : find_rest gen_valueset_arms = Some (VPrependFmt, ContNone).
Proof. reflexivity. Qed.

Lemma key_name_of it :
  match femit_of it with
  | FAppendStringify => key_name_stringify it
  | _ => key_name_itself it
  end = Some (declared_name it).
Proof. destruct it as [[?|?|?] ? ? ?|? ? ? ?]; reflexivity. Qed.

Lemma fieldset_go_spec : forall its out fmt,
  fieldset_go gen_fieldset_arms out its fmt
  = Some ((if fmt then [message_name] else []) ++ out ++ map declared_name its).
Proof.
  induction its as [|it its IH]; intros out fmt.
  - cbn [fieldset_go map]. rewrite fs_rest. rewrite app_nil_r. destruct fmt; reflexivity.
  - cbn [fieldset_go]. rewrite fs_arm.
    destruct it as [[segs|s|s] sg tk v|sg segs tk v]; cbn [femit_of key_name_stringify key_name_itself];
      rewrite IH; cbn [map declared_name]; rewrite <- app_assoc; reflexivity.
Qed.

Definition spec_entry (it : item) : ventry :=
  mk_ve (wrap_value (wrap_of (item_sigil it)) (item_value it)) (item_ticks it).

Lemma emit_src_of it : emit_src (src_of it) it = Some (item_value it).
Proof. destruct it; reflexivity. Qed.

Lemma valueset_go_spec : forall its out trailing fmt,
  valueset_go gen_valueset_arms out its trailing fmt
  = Some ((match fmt with Some m => [fmt_entry m] | None => [] end) ++ out ++ map spec_entry its).
Proof.
  induction its as [|it its IH]; intros out trailing fmt.
  - cbn [valueset_go map]. rewrite vs_rest. rewrite app_nil_r. destruct fmt; reflexivity.
  - cbn [valueset_go]. rewrite vs_arm. rewrite emit_src_of.
    set (more := match its with [] => match fmt with Some _ => true | None => trailing end | _ :: _ => true end).
    assert (Hm : more = false -> its = [] /\ fmt = None).
    { unfold more. destruct its; [destruct fmt|]; intros; try discriminate; auto. }
    destruct more.
    + rewrite IH. cbn [map]. rewrite <- app_assoc. reflexivity.
    + destruct (Hm eq_refl) as [-> ->]. reflexivity.
Qed.

(** * 4. Pairing with the FieldSet and recording *)
Fixpoint entries_from (cs i : N) (its : list item) : list (field * option rvalue) :=
  match its with
  | [] => []
  | it :: r => (mk_field cs i (declared_name it), Some (ve_val (spec_entry it))) :: entries_from cs (N.succ i) r
  end.

Lemma pair_up_items cs : forall its i,
  pair_up cs i (map declared_name its) (map spec_entry its) = Some (entries_from cs i its).
Proof. induction its as [|it its IH]; intros i; simpl; [reflexivity|]. rewrite IH. reflexivity. Qed.

Lemma checks_callsite : gen_vs_record_checks_callsite = true.
Proof. reflexivity. Qed.
Lemma skips_none : gen_vs_record_skips_none = true.
Proof. reflexivity. Qed.

Lemma vs_record_items cs : forall its i, forallb item_ok its = true ->
  vs_record cs (entries_from cs i its) = Some (spec_visits_from i its).
Proof.
  induction its as [|it its IH]; intros i H; [reflexivity|].
  simpl in H. apply andb_true_iff in H as [Hi Hr].
  cbn [entries_from vs_record spec_visits_from]. rewrite IH by exact Hr.
  cbn [fd_callsite fd_name fd_index]. rewrite N.eqb_refl. rewrite checks_callsite. cbn [negb andb].
  pose proof (route_item it Hi) as R. cbv zeta in R. cbn [ve_val spec_entry]. rewrite R.
  destruct (spec_item_seen it) as [[m s]|]; reflexivity.
Qed.

(** * 5. The macro bodies *)
Definition else_wrap (k : mkind) : logwrap := match k with MEvent => InTracingLog | MSpan => InIfLog end.
Lemma body_known k p : valid_prefix k p = true ->
  lookup_body gen_bodies k (canon_prefix k p) = Some [(InThen, NoLog); (InElse, else_wrap k)].
Proof.
  destruct k; simpl; rewrite ?orb_true_iff, ?String.eqb_eq; intros H;
    repeat (destruct H as [H|H]; [subst p; reflexivity|]); discriminate.
Qed.
Lemma brace_known p : valid_prefix MEvent p = true -> lookup_brace gen_brace_fmt p = Some MsgFirst.
Proof.
  simpl; rewrite ?orb_true_iff, ?String.eqb_eq; intros H;
    repeat (destruct H as [H|H]; [subst p; reflexivity|]); discriminate.
Qed.

(** How often the value set is built: once in the enabled branch; in the disabled branch only by the log-only code. *)
Lemma evals_count ls k g :
  List.length (filter (occurrence_runs ls g) [(InThen, NoLog); (InElse, else_wrap k)])
  = (if g then 1 else if spec_log_formats ls || known_F101 ls k false then 1 else 0)%nat.
Proof. destruct ls as [[] [] [] [] []], k, g; reflexivity. Qed.

Lemma concat_entries its : List.concat (map ve_ticks (map spec_entry its)) = List.concat (map item_ticks its).
Proof. induction its as [|it its IH]; simpl; [reflexivity|]. rewrite IH. reflexivity. Qed.

Lemma ticks_of_vals f :
  List.concat (map ve_ticks ((match f_fmt f with Some m => [fmt_entry m] | None => [] end) ++ [] ++ map spec_entry (f_items f)))
  = spec_ticks f.
Proof. unfold spec_ticks. destruct f as [its tr [m|]]; cbn; rewrite concat_entries; reflexivity. Qed.

(** The core: a field list in the grammar, run through the base arm. *)
Lemma run_fields ls k p lvl f c :
  valid_prefix k p = true -> forallb item_ok (f_items f) = true ->
  match lookup_body gen_bodies k (canon_prefix k p), fieldset_expand f, valueset_expand f with
  | Some occs, Some names, Some vals =>
      let g := guard c lvl in
      let evals := List.length (filter (occurrence_runs ls g) occs) in
      let ticks := List.concat (repeat (List.concat (map ve_ticks vals)) evals) in
      if g then
        if existsb (fun o => match o with (InThen, NoLog) => true | _ => false end) occs then
          match pair_up the_callsite 0 names vals with
          | Some entries =>
              match vs_record the_callsite entries with
              | Some vis => Some (mk_out names (Some vis) ticks)
              | None => None
              end
          | None => None
          end
        else None
      else Some (mk_out names None ticks)
  | _, _, _ => None
  end
  = Some (mk_out (spec_names f) (if guard c lvl then Some (spec_visits f) else None)
                 (if guard c lvl then spec_ticks f else if spec_log_formats ls || known_F101 ls k false then spec_ticks f else [])).
Proof.
  intros Hp Hi. rewrite body_known by exact Hp.
  unfold fieldset_expand, valueset_expand. rewrite fieldset_go_spec, valueset_go_spec.
  cbv zeta. rewrite evals_count, ticks_of_vals. unfold spec_names, spec_visits.
  destruct (guard c lvl).
  - cbn [existsb orb repeat List.concat]. rewrite app_nil_r.
    destruct f as [its tr fmt]. cbn [f_items f_trailing f_fmt] in *. destruct fmt as [m|]; cbn [app].
    + cbn [pair_up]. rewrite pair_up_items. cbn [option_map vs_record].
      rewrite vs_record_items by exact Hi.
      cbn [fd_callsite]. rewrite N.eqb_refl, checks_callsite. cbn [negb andb ve_val fmt_entry rv_ty].
      change (route TArguments (mk_rv TArguments PNothing (fm_text m) (fm_text m)))
        with (Some (Some (MDebug, SDbg (fm_text m)))).
      reflexivity.
    + rewrite pair_up_items. rewrite vs_record_items by exact Hi. reflexivity.
  - destruct (spec_log_formats ls || known_F101 ls k false); cbn [repeat List.concat]; rewrite ?app_nil_r; destruct (f_fmt f); reflexivity.
Qed.

(** What the model of the code does, unconditionally (the known finding included). *)
Definition model_outcome_log (ls : logstate) (inv : invocation) (g : bool) : outcome :=
  mk_out (spec_names (i_fields inv))
         (if g then Some (spec_visits (i_fields inv)) else None)
         (if g then spec_ticks (i_fields inv)
          else if spec_log_formats ls || known_F101 ls (i_kind inv) false then spec_ticks (i_fields inv) else []).

Lemma run_log_model : forall ls inv c, wf_inv inv = true ->
  run_log ls inv c = Some (model_outcome_log ls inv (guard c (i_level inv))).
Proof.
  intros ls [k p lvl br f] c H. unfold wf_inv in H. cbn [i_kind i_prefix i_brace i_fields] in H.
  apply andb_true_iff in H as [H Hi]. apply andb_true_iff in H as [Hp Hb].
  unfold run_log, model_outcome_log, desugar_brace. cbn [i_kind i_prefix i_brace i_fields i_level].
  destruct br.
  - (* brace form: events only *)
    destruct k; [|discriminate Hb].
    destruct (f_fmt f) as [m|] eqn:Ef.
    + rewrite brace_known by exact Hp.
      set (it := IKV message_key SNone (fm_ticks m) (mk_rv TArguments PNothing (fm_text m) (fm_text m))).
      set (f' := mk_fields (it :: f_items f) (match f_items f with [] => true | _ :: _ => f_trailing f end) None).
      pose proof (run_fields ls MEvent p lvl f' c Hp) as R.
      assert (Hi' : forallb item_ok (f_items f') = true) by (cbn; exact Hi).
      specialize (R Hi'). cbv zeta in R. rewrite R.
      unfold spec_names, spec_visits, spec_ticks. rewrite Ef. reflexivity.
    + apply (run_fields ls MEvent p lvl f c Hp Hi).
  - apply (run_fields ls k p lvl f c Hp Hi).
Qed.

Lemma known_F101_enabled ls k : known_F101 ls k true = false.
Proof. reflexivity. Qed.

(** Outside the known finding the model meets the specification. *)
Lemma run_log_spec : forall ls inv c, wf_inv inv = true ->
  known_F101 ls (i_kind inv) (guard c (i_level inv)) = false ->
  run_log ls inv c = Some (spec_outcome_log ls inv (guard c (i_level inv))).
Proof.
  intros ls inv c W K. rewrite (run_log_model ls inv c W). unfold model_outcome_log, spec_outcome_log.
  destruct (guard c (i_level inv)); [reflexivity|]. rewrite K, orb_false_r. reflexivity.
Qed.

Lemma run_spec : forall inv c, wf_inv inv = true ->
  run inv c = Some (spec_outcome inv (guard c (i_level inv))).
Proof.
  intros inv c H. unfold run. rewrite (run_log_model log_off inv c H). unfold model_outcome_log, spec_outcome.
  destruct (guard c (i_level inv)); [reflexivity|]. destruct (i_kind inv); reflexivity.
Qed.

(** With `log`: enabled -> exactly once, as without; disabled -> nothing reaches the collector, and the expressions are
    evaluated (once) exactly when the log record is actually built - every filtering stage of the `log` side counts.
    Once any dispatcher has been set (and without `log-always`) that never happens.  Hypothesis: not the known F101. *)
Lemma lazy_with_log : forall ls inv c, wf_inv inv = true ->
  known_F101 ls (i_kind inv) (guard c (i_level inv)) = false ->
  exists o, run_log ls inv c = Some o
    /\ (guard c (i_level inv) = true -> o_ticks o = spec_ticks (i_fields inv) /\ o_delivered o <> None)
    /\ (guard c (i_level inv) = false -> o_delivered o = None
         /\ o_ticks o = (if spec_log_formats ls then spec_ticks (i_fields inv) else []))
    /\ (l_mode ls = LogOn -> l_dispatch_ever ls = true -> guard c (i_level inv) = false -> o_ticks o = []).
Proof.
  intros ls inv c W K. rewrite (run_log_spec ls inv c W K). eexists. split; [reflexivity|].
  unfold spec_outcome_log. split; [|split].
  - intros ->. simpl. split; [reflexivity|discriminate].
  - intros ->. simpl. split; reflexivity.
  - intros M D ->. simpl. unfold spec_log_formats, log_reached. rewrite M, D. rewrite andb_false_r. reflexivity.
Qed.

(** F101, concretely: a span, `log` on, no dispatcher ever, the logger rejecting everything. *)
Definition f101_ls : logstate := mk_ls LogOn true false false false.
Definition f101_inv : invocation :=
  mk_inv MSpan "" 3 false (mk_fields [IKV (KeyPath [[97]]) SNone [0] (mk_rv (TPrim U8) (PInt 1) [49] [49])] false None).
Definition f101_coll : collector := mk_coll 5 5 Never false.
Lemma F101_refuted :
  wf_inv f101_inv = true /\ guard f101_coll (i_level f101_inv) = false /\ spec_log_formats f101_ls = false
  /\ known_F101 f101_ls (i_kind f101_inv) false = true
  /\ option_map o_ticks (run_log f101_ls f101_inv f101_coll) = Some [0]
  /\ run_log f101_ls f101_inv f101_coll <> Some (spec_outcome_log f101_ls f101_inv false).
Proof. vm_compute. repeat split; discriminate. Qed.

(** * 6. Readable corollaries of the specification functions *)
Lemma spec_visits_from_names : forall its i,
  map visit_name (spec_visits_from i its) = map declared_name (filter is_visited its).
Proof.
  induction its as [|it its IH]; intros i; [reflexivity|].
  cbn [spec_visits_from filter]. unfold is_visited at 1. rewrite map_app, IH.
  destruct (spec_item_seen it) as [[m s]|]; reflexivity.
Qed.

Lemma spec_visits_from_indices : forall its i v,
  In v (spec_visits_from i its) -> (i <= visit_index v)%N.
Proof.
  induction its as [|it its IH]; intros i v H; [contradiction|].
  cbn [spec_visits_from] in H. apply in_app_or in H as [H|H].
  - destruct (spec_item_seen it) as [[m s]|]; [|contradiction]. destruct H as [<-|[]]. unfold visit_index; simpl. lia.
  - apply IH in H. lia.
Qed.

Lemma spec_visits_from_nodup : forall its i, NoDup (map visit_index (spec_visits_from i its)).
Proof.
  induction its as [|it its IH]; intros i; [constructor|].
  cbn [spec_visits_from]. rewrite map_app.
  destruct (spec_item_seen it) as [[m s]|]; cbn [map app]; [|apply IH].
  constructor; [|apply IH]. intros H. apply in_map_iff in H as (v & Hv & Hin).
  apply spec_visits_from_indices in Hin. unfold visit_index in *. simpl in Hv. lia.
Qed.

(** Index of a visit = position of its field in the declaration (message counted when present). *)
Lemma spec_visits_from_nth : forall its i v,
  In v (spec_visits_from i its) ->
  exists k it, nth_error its k = Some it /\ visit_index v = (i + N.of_nat k)%N /\ visit_name v = declared_name it
               /\ spec_item_seen it = Some (snd (fst v), snd v).
Proof.
  induction its as [|it its IH]; intros i v H; [contradiction|].
  cbn [spec_visits_from] in H. apply in_app_or in H as [H|H].
  - destruct (spec_item_seen it) as [[m s]|] eqn:E; [|contradiction]. destruct H as [<-|[]].
    exists 0%nat, it. unfold visit_index, visit_name; simpl. repeat split; auto. lia.
  - apply IH in H as (k & it' & A & B & C & D). exists (S k), it'. repeat split; auto. rewrite B. lia.
Qed.

(** * 7. Laziness, Empty / unset, undeclared *)
Lemma guard_static c lvl : c_interest c = Never -> guard c lvl = false.
Proof. intros H. unfold guard. simpl. rewrite H. rewrite !andb_false_r. reflexivity. Qed.
Lemma guard_dynamic c lvl : c_interest c = Sometimes -> c_enabled c = false -> guard c lvl = false.
Proof. intros H1 H2. unfold guard. simpl. rewrite H1, H2. rewrite !andb_false_r. reflexivity. Qed.
Lemma guard_cap c lvl : (c_current_max c < lvl)%N -> guard c lvl = false.
Proof. intros H. unfold guard. simpl. apply N.leb_gt in H. rewrite H. rewrite andb_false_r. reflexivity. Qed.
Lemma guard_static_cap c lvl : (c_static_max c < lvl)%N -> guard c lvl = false.
Proof. intros H. unfold guard. simpl. apply N.leb_gt in H. rewrite H. reflexivity. Qed.
Lemma guard_on c lvl :
  (lvl <= c_static_max c)%N -> (lvl <= c_current_max c)%N ->
  (c_interest c = Always \/ (c_interest c = Sometimes /\ c_enabled c = true)) -> guard c lvl = true.
Proof.
  intros H1 H2 H3. unfold guard. simpl. apply N.leb_le in H1, H2. rewrite H1, H2.
  destruct H3 as [->|[-> ->]]; reflexivity.
Qed.

Lemma empty_not_visited v : route TEmpty v = Some None.
Proof. reflexivity. Qed.

Lemma vs_record_unset cs f r : vs_record cs ((f, None) :: r) = vs_record cs r.
Proof.
  cbn [vs_record]. destruct (vs_record cs r); [|reflexivity].
  rewrite checks_callsite, skips_none. destruct (negb (fd_callsite f =? cs)); reflexivity.
Qed.
Lemma vs_record_foreign cs f ov r : fd_callsite f <> cs -> vs_record cs ((f, ov) :: r) = vs_record cs r.
Proof.
  intros H. cbn [vs_record]. destruct (vs_record cs r); [|reflexivity].
  rewrite checks_callsite. apply N.eqb_neq in H. rewrite H. reflexivity.
Qed.
Lemma vs_record_empty cs f v r : rv_ty v = TEmpty -> vs_record cs ((f, Some v) :: r) = vs_record cs r.
Proof.
  intros H. cbn [vs_record]. destruct (vs_record cs r); [|reflexivity].
  rewrite H. rewrite empty_not_visited. destruct (gen_vs_record_checks_callsite && negb (fd_callsite f =? cs)); reflexivity.
Qed.

Lemma position_none : forall names i n, position i names n = None <-> ~ In n names.
Proof.
  assert (E : forall a b, bytes_eqb a b = true <-> a = b).
  { induction a as [|x a IH]; destruct b as [|y b]; simpl; split; try congruence; auto.
    - intros H. apply andb_true_iff in H as [H1 H2]. apply N.eqb_eq in H1. apply IH in H2. congruence.
    - intros H. inversion H; subst. rewrite N.eqb_refl. simpl. apply IH. reflexivity. }
  induction names as [|m r IH]; intros i n; simpl.
  - tauto.
  - destruct (bytes_eqb m n) eqn:B.
    + apply E in B. subst. split; [discriminate|]. intros H. exfalso. apply H. auto.
    + rewrite IH. split; intros H.
      * intros [->|H']; [|tauto]. assert (bytes_eqb n n = true) by (apply E; reflexivity). congruence.
      * tauto.
Qed.

Lemma record_undeclared_name cs names n v : ~ In n names -> span_record cs names (RByName n v) = Some [].
Proof.
  intros H. unfold span_record. change gen_span_record_uses_as_field with true. cbn [negb].
  change (lookup_asfield gen_as_field AFStr) with (Some AFLookupName).
  apply (position_none names 0) in H. rewrite H. reflexivity.
Qed.
Lemma record_foreign_field cs names f v : fd_callsite f <> cs -> span_record cs names (RByField f v) = Some [].
Proof.
  intros H. unfold span_record. change gen_span_record_uses_as_field with true. cbn [negb].
  change (lookup_asfield gen_as_field AFFieldRef) with (Some AFSameCallsite).
  apply N.eqb_neq in H. rewrite H. reflexivity.
Qed.
Lemma record_declared_name cs names n v i : position 0 names n = Some i -> well_typed (rv_ty v) v = true ->
  span_record cs names (RByName n v)
  = Some (match spec_route (rv_ty v) v with Some (m, s) => [(n, i, m, s)] | None => [] end).
Proof.
  intros H W. unfold span_record. change gen_span_record_uses_as_field with true. cbn [negb].
  change (lookup_asfield gen_as_field AFStr) with (Some AFLookupName). rewrite H.
  cbn [vs_record fd_callsite fd_name fd_index]. rewrite N.eqb_refl, checks_callsite. cbn [negb andb].
  rewrite route_typed by exact W. destruct (spec_route (rv_ty v) v) as [[m s]|]; reflexivity.
Qed.

Lemma nothing_unrecognised : gen_unrecognised = [].
Proof. reflexivity. Qed.
Lemma forwarders_recognised : fst gen_forwarders = snd gen_forwarders.
Proof. reflexivity. Qed.

(** * 8. The statements as pinned in Properties/C10.v *)
Definition msg_names (f : fields) : list bytes := match f_fmt f with Some _ => [message_name] | None => [] end.
Definition msg_offset (f : fields) : N := match f_fmt f with Some _ => 1 | None => 0 end.

Lemma order_once_named : forall inv c, wf_inv inv = true -> guard c (i_level inv) = true ->
  let f := i_fields inv in
  exists vis ticks,
    run inv c = Some (mk_out (msg_names f ++ map declared_name (f_items f)) (Some vis) ticks)
    /\ map visit_name vis = msg_names f ++ map declared_name (filter is_visited (f_items f))
    /\ NoDup (map visit_index vis)
    /\ (forall v, In v vis ->
          (v = (message_name, 0, MDebug, SDbg (match f_fmt f with Some m => fm_text m | None => [] end)) /\ f_fmt f <> None)
          \/ exists k it, nth_error (f_items f) k = Some it /\ visit_name v = declared_name it
                          /\ visit_index v = (msg_offset f + N.of_nat k)%N
                          /\ spec_item_seen it = Some (snd (fst v), snd v)).
Proof.
  intros inv c W G f. rewrite (run_spec inv c W). rewrite G. unfold spec_outcome.
  exists (spec_visits f), (spec_ticks f). split; [reflexivity|].
  unfold spec_visits, msg_names, msg_offset. fold f. destruct (f_fmt f) as [m|].
  - split; [|split].
    + cbn [map app]. rewrite spec_visits_from_names. reflexivity.
    + cbn [map]. constructor; [|apply spec_visits_from_nodup].
      intros H. apply in_map_iff in H as (v & Hv & Hin). apply spec_visits_from_indices in Hin.
      change (visit_index (message_name, 0, MDebug, SDbg (fm_text m))) with 0 in *. lia.
    + intros v [<-|H]; [left; split; [reflexivity|discriminate]|right].
      apply spec_visits_from_nth in H as (k & it & A & B & C & D). exists k, it. auto.
  - split; [|split].
    + cbn [app]. apply spec_visits_from_names.
    + apply spec_visits_from_nodup.
    + intros v H. right. apply spec_visits_from_nth in H as (k & it & A & B & C & D). exists k, it. auto.
Qed.

Lemma spec_visits_from_in : forall its i k it m s,
  nth_error its k = Some it -> spec_item_seen it = Some (m, s) ->
  In (declared_name it, (i + N.of_nat k)%N, m, s) (spec_visits_from i its).
Proof.
  induction its as [|x its IH]; intros i k it m s H E; [destruct k; discriminate|].
  cbn [spec_visits_from]. apply in_or_app. destruct k as [|k].
  - simpl in H. inversion H; subst x. left. rewrite E. left. f_equal. f_equal. f_equal. simpl. lia.
  - right. simpl in H. replace (i + N.of_nat (S k))%N with (N.succ i + N.of_nat k)%N by lia. eapply IH; eauto.
Qed.

(** `?x` presents the Debug text, `%x` the Display text — whatever the type of x. *)
Lemma sigils : forall inv c k it, wf_inv inv = true -> guard c (i_level inv) = true ->
  nth_error (f_items (i_fields inv)) k = Some it ->
  forall text, (item_sigil it = SDebug /\ text = rv_dbg (item_value it)) \/ (item_sigil it = SDisplay /\ text = rv_disp (item_value it)) ->
  exists o vis, run inv c = Some o /\ o_delivered o = Some vis
    /\ In (declared_name it, (msg_offset (i_fields inv) + N.of_nat k)%N, MDebug, SDbg text) vis.
Proof.
  intros inv c k it W G H text Hs. rewrite (run_spec inv c W), G. unfold spec_outcome.
  eexists. eexists. split; [reflexivity|]. split; [reflexivity|].
  assert (E : spec_item_seen it = Some (MDebug, SDbg text)).
  { unfold spec_item_seen. destruct Hs as [[-> ->]|[-> ->]]; reflexivity. }
  unfold spec_visits, msg_offset. destruct (f_fmt (i_fields inv)).
  - right. apply spec_visits_from_in; auto.
  - apply spec_visits_from_in; auto.
Qed.

Lemma lazy : forall inv c, wf_inv inv = true ->
  exists o, run inv c = Some o
    /\ (guard c (i_level inv) = false -> o_ticks o = [] /\ o_delivered o = None)
    /\ (guard c (i_level inv) = true -> o_ticks o = spec_ticks (i_fields inv) /\ o_delivered o <> None).
Proof.
  intros inv c W. rewrite (run_spec inv c W). eexists. split; [reflexivity|].
  unfold spec_outcome. split; intros ->; simpl; split; auto. discriminate.
Qed.

(** "evaluated exactly once": when the counters written in the invocation are pairwise distinct, each of them is hit
    once if the callsite is enabled, and no counter at all is hit if it is disabled. *)
Lemma exactly_once : forall inv c, wf_inv inv = true -> NoDup (spec_ticks (i_fields inv)) ->
  exists o, run inv c = Some o /\
    forall i, count_occ N.eq_dec (o_ticks o) i =
      if guard c (i_level inv) then (if in_dec N.eq_dec i (spec_ticks (i_fields inv)) then 1 else 0)%nat else 0%nat.
Proof.
  intros inv c W ND. rewrite (run_spec inv c W). eexists. split; [reflexivity|]. intros i.
  unfold spec_outcome. cbn [o_ticks]. destruct (guard c (i_level inv)); [|reflexivity].
  destruct (in_dec N.eq_dec i (spec_ticks (i_fields inv))) as [H|H].
  - apply (count_occ_In N.eq_dec) in H. pose proof (proj1 (NoDup_count_occ N.eq_dec _) ND i). lia.
  - apply (count_occ_not_In N.eq_dec) in H. exact H.
Qed.

(** `enabled!` (and event_enabled! / span_enabled!): only the field NAMES are used (there is no value to evaluate);
    the answer is the guard and then the collector's own `enabled`. *)
Lemma enabled_macro : forall f lvl c,
  run_enabled f lvl c = Some (spec_names f, guard c lvl && c_enabled c).
Proof.
  intros f lvl c. unfold run_enabled, fieldset_expand. rewrite fieldset_go_spec. unfold spec_names.
  destruct (f_fmt f); reflexivity.
Qed.

Lemma disabled_stages : forall c lvl,
  (c_interest c = Never -> guard c lvl = false)
  /\ (c_interest c = Sometimes -> c_enabled c = false -> guard c lvl = false)
  /\ ((c_current_max c < lvl)%N -> guard c lvl = false)
  /\ ((c_static_max c < lvl)%N -> guard c lvl = false)
  /\ ((lvl <= c_static_max c)%N -> (lvl <= c_current_max c)%N ->
      (c_interest c = Always \/ (c_interest c = Sometimes /\ c_enabled c = true)) -> guard c lvl = true).
Proof.
  intros c lvl. repeat split.
  - apply guard_static. - apply guard_dynamic. - apply guard_cap. - apply guard_static_cap. - apply guard_on.
Qed.

Lemma empty_unset_skipped :
  (forall v, route TEmpty v = Some None)
  /\ (forall cs f v r, rv_ty v = TEmpty -> vs_record cs ((f, Some v) :: r) = vs_record cs r)
  /\ (forall cs f r, vs_record cs ((f, None) :: r) = vs_record cs r)
  /\ (forall it, item_sigil it = SNone -> rv_ty (item_value it) = TEmpty -> is_visited it = false).
Proof.
  repeat split.
  - apply vs_record_empty. - apply vs_record_unset.
  - intros it H1 H2. unfold is_visited, spec_item_seen. rewrite H1, H2. reflexivity.
Qed.

Lemma undeclared_record_ignored :
  (forall cs names n v, ~ In n names -> span_record cs names (RByName n v) = Some [])
  /\ (forall cs names f v, fd_callsite f <> cs -> span_record cs names (RByField f v) = Some [])
  /\ (forall cs f ov r, fd_callsite f <> cs -> vs_record cs ((f, ov) :: r) = vs_record cs r)
  /\ (forall cs names n v i, position 0 names n = Some i -> well_typed (rv_ty v) v = true ->
        span_record cs names (RByName n v)
        = Some (match spec_route (rv_ty v) v with Some (m, s) => [(n, i, m, s)] | None => [] end)).
Proof.
  repeat split.
  - apply record_undeclared_name. - apply record_foreign_field. - apply vs_record_foreign. - apply record_declared_name.
Qed.
