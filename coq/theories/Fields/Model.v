(** C10 — executable model of how the tracing macros present fields to a visitor: an *interpreter* for the
    data the translator extracts from field.rs / macros.rs / span.rs (TVGen.Gen_values).  No proofs here.

    What is modelled (and against which code):
    - [route]: `impl Value for T` — the generated [impl_values!] table (method + `as` cast, NonZero twins through
      `self.get()`) and the hand-written impls (delegations through &T, &mut T, Box<T>, Wrapping<T>, dyn Error+..;
      DisplayValue / DebugValue / fmt::Arguments through record_debug; Empty records nothing);
    - [fieldset_expand] / [valueset_expand]: first-matching-arm interpretation of the generated arm tables over an
      abstract token stream (fields, optional trailing format arguments, optional trailing comma);
    - [pair_up]: the i-th element of the value array is paired with the i-th field of the FieldSet
      (`Iterator::next(&mut iter)` evaluated once per array element, left to right);
    - [vs_record]: `ValueSet::record` (foreign callsite skipped, `None` skipped);
    - [run]: a base arm of event!/span!: `if guard { evaluate valueset!; dispatch } else { }` as laid out in the
      generated body table (feature `log` off: `__tracing_log!` / `if_log_enabled!` expand to nothing);
    - [span_record]: `Span::record` through `AsField` (by name: `FieldSet::field`; by `Field`: same callsite).
    Not modelled: rustc's own `macro_rules!` matching of the *forwarding* arms (their shape is checked by the
    translator and they are exercised by the compiled corpus), `stringify!` (taken to print `a.b.c`). *)
From TV Require Export Fields.Syntax.
From TVGen Require Export Gen_values.
Local Open Scope N_scope.

Definition bytes := list N.

(** * Values *)

(** A float value, abstractly: NaN, an infinity, or (-1)^neg * m * 2^e. *)
Inductive fval := FNaN | FInf (neg : bool) | FFin (neg : bool) (m : N) (e : Z).

Inductive payload :=
| PInt (z : Z) | PFloat (f : fval) | PBoolv (b : bool) | PText (s : bytes) | PByteStr (s : bytes)
| PErr (chain : list bytes)          (* Display text of the error and of each `source()` *)
| PNothing.

(** Static type of a field value expression. *)
Inductive vty :=
| TPrim (p : prim) | TNonZero (p : prim) | TWrapping (t : vty)
| TStr | TString | TByteSlice | TDynError (send sync : bool)
| TRef (t : vty) | TRefMut (t : vty) | TBox (t : vty)
| TArguments | TDisplayValue | TDebugValue | TEmpty
| TOther.                            (* any type that is not a `Value`: usable through `?` / `%` only *)

(** A run-time value: its type, its payload, and what the type's Display / Debug impls print for it
    (user code, arbitrary).  For [TDisplayValue]/[TDebugValue] the two texts are those of the wrapped value,
    for [TArguments] [rv_disp] is the rendered message. *)
Record rvalue := mk_rv { rv_ty : vty; rv_pl : payload; rv_disp : bytes; rv_dbg : bytes }.

(** What a [Visit] method receives. *)
Inductive seen :=
| SInt (z : Z) | SFloat (f : fval) | SBool (b : bool) | SStr (s : bytes) | SByteStr (s : bytes) | SErr (chain : list bytes)
| SDbg (s : bytes).                  (* a `&dyn Debug`, identified by the text its Debug impl prints *)

(** * Equality tests on the syntax *)
Definition prim_eqb (a b : prim) : bool :=
  match a, b with
  | U8, U8 | U16, U16 | U32, U32 | U64, U64 | U128, U128 | Usize, Usize
  | I8, I8 | I16, I16 | I32, I32 | I64, I64 | I128, I128 | Isize, Isize | F32, F32 | F64, F64 | PBool, PBool => true
  | _, _ => false
  end.
Definition keypat_eqb (a b : keypat) : bool :=
  match a, b with KPath, KPath | KLit, KLit | KConst, KConst => true | _, _ => false end.
Definition sigil_eqb (a b : sigil) : bool :=
  match a, b with SNone, SNone | SDebug, SDebug | SDisplay, SDisplay => true | _, _ => false end.
Definition shape_eqb (a b : shape) : bool :=
  keypat_eqb (sh_key a) (sh_key b) && Bool.eqb (sh_valued a) (sh_valued b) && sigil_eqb (sh_sig a) (sh_sig b).
Definition hty_eqb (a b : hty) : bool :=
  match a, b with
  | HStr, HStr | HBytes, HBytes | HRef, HRef | HRefMut, HRefMut | HBox, HBox | HString, HString | HArguments, HArguments
  | HDisplayValue, HDisplayValue | HDebugValue, HDebugValue | HEmpty, HEmpty | HWrapping, HWrapping => true
  | HDynError s y, HDynError s' y' => Bool.eqb s s' && Bool.eqb y y'
  | _, _ => false
  end.
Definition mkind_eqb (a b : mkind) : bool := match a, b with MEvent, MEvent | MSpan, MSpan => true | _, _ => false end.

(** * Integer and float casts (`as`) *)
Definition is_int (p : prim) : bool := match p with F32 | F64 | PBool => false | _ => true end.
Definition is_float (p : prim) : bool := match p with F32 | F64 => true | _ => false end.
Definition signed (p : prim) : bool := match p with I8 | I16 | I32 | I64 | I128 | Isize => true | _ => false end.
(** usize / isize are 64 bits wide (assumption stated in notes/C10.md). *)
Definition width (p : prim) : Z :=
  match p with
  | U8 | I8 => 8 | U16 | I16 => 16 | U32 | I32 | F32 => 32 | U64 | I64 | Usize | Isize | F64 => 64 | U128 | I128 => 128 | PBool => 1
  end%Z.
Definition lo (p : prim) : Z := if signed p then (- 2 ^ (width p - 1))%Z else 0%Z.
Definition hi (p : prim) : Z := if signed p then (2 ^ (width p - 1) - 1)%Z else (2 ^ width p - 1)%Z.
Definition in_range (p : prim) (z : Z) : bool := (lo p <=? z)%Z && (z <=? hi p)%Z.
(** Rust's integer-to-integer `as`: keep the low [width dst] bits, reinterpret in two's complement. *)
Definition wrap_int (dst : prim) (z : Z) : Z :=
  if signed dst then ((z + 2 ^ (width dst - 1)) mod 2 ^ width dst - 2 ^ (width dst - 1))%Z
  else (z mod 2 ^ width dst)%Z.

(** IEEE-754: the finite binary32 values are m * 2^e with m < 2^24, -149 <= e <= 104; binary64: m < 2^53,
    -1074 <= e <= 971.  (The driver hands every float in its own format's canonical decomposition.) *)
Definition fits (p : prim) (f : fval) : bool :=
  match f with
  | FNaN | FInf _ => true
  | FFin _ m e =>
      match p with
      | F32 => (m <? 2 ^ 24) && (-149 <=? e)%Z && (e <=? 104)%Z
      | F64 => (m <? 2 ^ 53) && (-1074 <=? e)%Z && (e <=? 971)%Z
      | _ => false
      end
  end.
(** `x as f64`: exact whenever x is representable in binary64; rounding is *not* modelled ([None]) — it is never
    needed: C10_typed shows every f32 and f64 value is representable. *)
Definition float_as (dst : prim) (f : fval) : option fval :=
  match dst with F64 => if fits F64 f then Some f else None | _ => None end.

Definition apply_cast (src : prim) (c : cast) (pl : payload) : option payload :=
  match c with
  | CastNone => Some pl
  | CastAs dst =>
      match pl with
      | PInt z => if is_int src && is_int dst then Some (PInt (wrap_int dst z)) else None
      | PFloat f => if is_float src && is_float dst then option_map PFloat (float_as dst f) else None
      | _ => None
      end
  end.
Definition cast_result_ty (src : prim) (c : cast) : prim := match c with CastNone => src | CastAs d => d end.

(** The parameter type of each typed [Visit] method. *)
Definition meth_param (m : meth) : option prim :=
  match m with
  | MU64 => Some U64 | MI64 => Some I64 | MU128 => Some U128 | MI128 => Some I128 | MF64 => Some F64 | MBool => Some PBool
  | _ => None
  end.

Definition seen_of (m : meth) (pl : payload) : option seen :=
  match m, pl with
  | MU64, PInt z | MI64, PInt z | MU128, PInt z | MI128, PInt z => Some (SInt z)
  | MF64, PFloat f => Some (SFloat f)
  | MBool, PBoolv b => Some (SBool b)
  | MStr, PText s => Some (SStr s)
  | MBytes, PByteStr s => Some (SByteStr s)
  | MError, PErr c => Some (SErr c)
  | _, _ => None
  end.

(** * `impl Value for T`  *)
Fixpoint lookup_row (tbl : list (prim * meth * cast)) (p : prim) : option (meth * cast) :=
  match tbl with
  | [] => None
  | (q, m, c) :: r => if prim_eqb p q then Some (m, c) else lookup_row r p
  end.
Fixpoint lookup_hand (tbl : list (hty * hbody)) (h : hty) : option hbody :=
  match tbl with
  | [] => None
  | (k, b) :: r => if hty_eqb h k then Some b else lookup_hand r h
  end.
Fixpoint lookup_fmt (tbl : list (wrapper * ftrait * fmtimpl)) (w : wrapper) (t : ftrait) : option fmtimpl :=
  match tbl with
  | [] => None
  | (w', t', f) :: r =>
      if (match w, w' with WDisplayValue, WDisplayValue | WDebugValue, WDebugValue => true | _, _ => false end)
         && (match t, t' with TDisplay, TDisplay | TDebug, TDebug => true | _, _ => false end)
      then Some f else lookup_fmt r w t
  end.

(** `impl_one_value!(normal, ..)`: `visitor.$record(key, $op( *self ))`; the call type-checks only when the cast
    result is the method's parameter type. *)
Definition route_prim (p : prim) (pl : payload) : option (meth * seen) :=
  match lookup_row gen_value_rows p with
  | None => None
  | Some (m, c) =>
      match meth_param m with
      | Some q =>
          if prim_eqb q (cast_result_ty p c) then
            match apply_cast p c pl with
            | Some pl' => option_map (fun s => (m, s)) (seen_of m pl')
            | None => None
            end
          else None
      | None => None
      end
  end.

Definition has_nonzero_twin (p : prim) : bool :=
  negb (existsb (prim_eqb p) gen_only_normal) && existsb (fun x => prim_eqb p (fst x)) gen_nonzero_names.

(** Text printed by `{:?}` of a DisplayValue / DebugValue / fmt::Arguments, following the generated impls. *)
Definition wrapper_text (w : wrapper) (t : ftrait) (v : rvalue) : option bytes :=
  match lookup_fmt gen_wrapper_fmt w t with
  | Some FInnerDisplay => Some (rv_disp v)
  | Some FInnerDebug => Some (rv_dbg v)
  | Some FDisplayOfSelf =>
      match lookup_fmt gen_wrapper_fmt w TDisplay with
      | Some FInnerDisplay => Some (rv_disp v)
      | Some FInnerDebug => Some (rv_dbg v)
      | _ => None
      end
  | None => None
  end.

(** [route t v]: what `<T as Value>::record(&v, key, visitor)` presents.  [None] = no such impl / not modelled;
    [Some None] = records nothing; [Some (Some (m, s))] = one call of method [m] with argument [s]. *)
Fixpoint route (t : vty) (v : rvalue) : option (option (meth * seen)) :=
  let hand h := lookup_hand gen_hand_rows h in
  let direct m := option_map Some (option_map (fun s => (m, s)) (seen_of m (rv_pl v))) in
  match t with
  | TPrim p => option_map Some (route_prim p (rv_pl v))
  | TNonZero p => if has_nonzero_twin p then option_map Some (route_prim p (rv_pl v)) else None
  | TWrapping t' => match hand HWrapping with Some (BDelegate DField0) => route t' v | _ => None end
  | TRef t' => match hand HRef with Some (BDelegate DDeref) => route t' v | _ => None end
  | TRefMut t' => match hand HRefMut with Some (BDelegate DDeref) => route t' v | _ => None end
  | TBox t' => match hand HBox with Some (BDelegate DDeref) => route t' v | _ => None end
  | TStr => match hand HStr with Some (BVisit m ASelf) => direct m | _ => None end
  | TString => match hand HString with Some (BVisit m ASelf) => direct m | _ => None end
  | TByteSlice => match hand HBytes with Some (BVisit m ASelf) => direct m | _ => None end
  | TDynError s y =>
      match hand (HDynError s y) with
      | Some (BVisit m ASelf) => direct m
      | Some (BDelegate DAsDynError) =>
          match hand (HDynError false false) with Some (BVisit m ASelf) => direct m | _ => None end
      | _ => None
      end
  | TArguments =>
      (* std: `Debug for fmt::Arguments` prints the rendered message *)
      match hand HArguments with Some (BVisit MDebug ASelf) => Some (Some (MDebug, SDbg (rv_disp v))) | _ => None end
  | TDisplayValue =>
      match hand HDisplayValue with
      | Some (BVisit MDebug ASelf) => option_map (fun s => Some (MDebug, SDbg s)) (wrapper_text WDisplayValue TDebug v)
      | _ => None
      end
  | TDebugValue =>
      match hand HDebugValue with
      | Some (BVisit MDebug ASelfDot0) => Some (Some (MDebug, SDbg (rv_dbg v)))
      | Some (BVisit MDebug ASelf) => option_map (fun s => Some (MDebug, SDbg s)) (wrapper_text WDebugValue TDebug v)
      | _ => None
      end
  | TEmpty => match hand HEmpty with Some BNothing => Some None | _ => None end
  | TOther => None
  end.

(** * Macro input: the modelled form grammar *)
Inductive key :=
| KeyPath (segs : list bytes)        (* a.b.c ; a segment may be a raw identifier, its bytes then include `r#` *)
| KeyLit (s : bytes)                 (* "a string literal" *)
| KeyConst (s : bytes).              (* { CONST } whose value is s *)
Inductive item :=
| IKV (k : key) (s : sigil) (ticks : list N) (v : rvalue)     (* k = v, k = ?v, k = %v *)
| ISh (s : sigil) (segs : list bytes) (ticks : list N) (v : rvalue).  (* a.b.c, ?a.b.c, %a.b.c: the path is name and expression *)
(** [ticks]: identifiers of the side-effect counters inside the value expression. *)
Record fmtargs := mk_fmt { fm_ticks : list N; fm_text : bytes }.      (* "format string", args..; what it renders *)
Record fields := mk_fields { f_items : list item; f_trailing : bool; f_fmt : option fmtargs }.

Definition item_sigil (it : item) : sigil := match it with IKV _ s _ _ => s | ISh s _ _ _ => s end.
Definition item_ticks (it : item) : list N := match it with IKV _ _ t _ => t | ISh _ _ t _ => t end.
Definition item_value (it : item) : rvalue := match it with IKV _ _ _ v => v | ISh _ _ _ v => v end.
Definition shape_of (it : item) : shape :=
  match it with
  | IKV (KeyPath _) s _ _ => mk_shape KPath true s
  | IKV (KeyLit _) s _ _ => mk_shape KLit true s
  | IKV (KeyConst _) s _ _ => mk_shape KConst true s
  | ISh s _ _ _ => mk_shape KPath false s
  end.

Fixpoint join_dot (segs : list bytes) : bytes :=
  match segs with
  | [] => []
  | [s] => s
  | s :: r => s ++ 46 :: join_dot r
  end.
Fixpoint bytes_of_string (s : string) : bytes :=
  match s with EmptyString => [] | String c r => N_of_ascii c :: bytes_of_string r end.

(** * Arm selection: the first arm (source order) whose pattern matches the head of the stream.
    [PItem s more] matches a head field of shape [s] that is followed by a comma ([more]) / by nothing;
    [PRest] matches any non-empty stream. *)
Fixpoint find_arm {E : Type} (arms : list (armpat * E * cont)) (s : shape) (more : bool) : option (E * cont) :=
  match arms with
  | [] => None
  | (PItem s' m', e, c) :: r => if shape_eqb s s' && Bool.eqb more m' then Some (e, c) else find_arm r s more
  | (PRest, e, c) :: _ => Some (e, c)
  end.
Fixpoint find_rest {E : Type} (arms : list (armpat * E * cont)) : option (E * cont) :=
  match arms with
  | [] => None
  | (PRest, e, c) :: _ => Some (e, c)
  | _ :: r => find_rest r
  end.

(** ** fieldset! : the names.  The entry arm appends a comma, so every field is followed by one. *)
Definition key_name_stringify (it : item) : option bytes :=
  match it with
  | IKV (KeyPath segs) _ _ _ => Some (join_dot segs)
  | ISh _ segs _ _ => Some (join_dot segs)
  | _ => None                        (* `$($k).+` is not bound by a literal / const arm *)
  end.
Definition key_name_itself (it : item) : option bytes :=
  match it with
  | IKV (KeyLit s) _ _ _ => Some s
  | IKV (KeyConst s) _ _ _ => Some s
  | _ => None                        (* `$k` is a path in the ident arms: not an expression of type &str *)
  end.

Fixpoint fieldset_go (arms : list (armpat * femit * cont)) (out : list bytes) (its : list item) (fmt : bool)
  : option (list bytes) :=
  match its with
  | [] =>
      if fmt then
        match find_rest arms with
        | Some (FPrependLit s, ContNone) => Some (bytes_of_string s :: out)
        | Some (FAppendLit s, ContNone) => Some (out ++ [bytes_of_string s])
        | _ => None
        end
      else Some out                  (* base case: &[ $($out),* ] *)
  | it :: rest =>
      match find_arm arms (shape_of it) true with
      | Some (FAppendStringify, ContRest) =>
          match key_name_stringify it with Some n => fieldset_go arms (out ++ [n]) rest fmt | None => None end
      | Some (FAppendKey, ContRest) =>
          match key_name_itself it with Some n => fieldset_go arms (out ++ [n]) rest fmt | None => None end
      | _ => None                    (* a field swallowed by the format-args arm, or dropped: not a modelled expansion *)
      end
  end.
Definition fieldset_expand (f : fields) : option (list bytes) :=
  fieldset_go gen_fieldset_arms [] (f_items f) (match f_fmt f with Some _ => true | None => false end).

(** ** valueset! : the value array. *)
Record ventry := mk_ve { ve_val : rvalue; ve_ticks : list N }.

Definition wrap_value (w : wrap) (v : rvalue) : rvalue :=
  match w with
  | WPlain => v                                               (* &v as &dyn Value *)
  | WDebug => mk_rv TDebugValue PNothing (rv_disp v) (rv_dbg v)      (* &debug(&v) *)
  | WDisplay => mk_rv TDisplayValue PNothing (rv_disp v) (rv_dbg v)  (* &display(&v) *)
  end.
Definition emit_src (s : vsrc) (it : item) : option rvalue :=
  match s, it with
  | SrcVal, IKV _ _ _ v => Some v
  | SrcKey, ISh _ _ _ v => Some v
  | _, _ => None                     (* `$val` unbound / the key used as an expression: not modelled *)
  end.
Definition fmt_entry (m : fmtargs) : ventry :=
  mk_ve (mk_rv TArguments PNothing (fm_text m) (fm_text m)) (fm_ticks m).

Fixpoint valueset_go (arms : list (armpat * vemit * cont)) (out : list ventry) (its : list item) (trailing : bool)
         (fmt : option fmtargs) : option (list ventry) :=
  match its with
  | [] =>
      match fmt with
      | Some m =>
          match find_rest arms with
          | Some (VPrependFmt, ContNone) => Some (fmt_entry m :: out)
          | Some (VAppendFmt, ContNone) => Some (out ++ [fmt_entry m])
          | _ => None
          end
      | None => Some out             (* base case: &[ $($val),* ] *)
      end
  | it :: rest =>
      let more := match rest, fmt with [], None => trailing | _, _ => true end in
      match find_arm arms (shape_of it) more with
      | Some (VAppend w s, c) =>
          match emit_src s it with
          | Some v =>
              let out' := out ++ [mk_ve (wrap_value w v) (item_ticks it)] in
              match c, more with
              | ContRest, true => valueset_go arms out' rest trailing fmt
              | ContNone, false => Some out'
              | _, _ => None         (* tokens dropped / `$rest` unbound *)
              end
          | None => None
          end
      | _ => None
      end
  end.
Definition valueset_expand (f : fields) : option (list ventry) :=
  valueset_go gen_valueset_arms [] (f_items f) (f_trailing f) (f_fmt f).

(** * FieldSet / ValueSet *)
Record field := mk_field { fd_callsite : N; fd_index : N; fd_name : bytes }.
Definition visit := (bytes * N * meth * seen)%type.

(** The i-th array element takes the i-th `Field` of the callsite's FieldSet; running out of fields is the
    `expect("FieldSet corrupted")` panic. *)
Fixpoint pair_up (cs : N) (i : N) (names : list bytes) (vals : list ventry) : option (list (field * option rvalue)) :=
  match vals, names with
  | [], _ => Some []
  | v :: vs, n :: ns => option_map (cons (mk_field cs i n, Some (ve_val v))) (pair_up cs (N.succ i) ns vs)
  | _ :: _, [] => None
  end.

(** `ValueSet::record`. *)
Fixpoint vs_record (cs : N) (entries : list (field * option rvalue)) : option (list visit) :=
  match entries with
  | [] => Some []
  | (f, ov) :: r =>
      match vs_record cs r with
      | None => None
      | Some tl =>
          if gen_vs_record_checks_callsite && negb (fd_callsite f =? cs) then Some tl
          else
            match ov with
            | None => if gen_vs_record_skips_none then Some tl else None
            | Some v =>
                match route (rv_ty v) v with
                | Some (Some (m, s)) => Some ((fd_name f, fd_index f, m, s) :: tl)
                | Some None => Some tl
                | None => None
                end
            end
      end
  end.

(** * A macro invocation *)
Inductive interest := Never | Sometimes | Always.
(** Levels: ERROR = 1 .. TRACE = 5, filters OFF = 0 .. TRACE = 5, in the specification order (C19). *)
Record collector := mk_coll { c_static_max : N; c_current_max : N; c_interest : interest; c_enabled : bool }.
Definition eval_conj (c : collector) (lvl : N) (g : gconj) : bool :=
  match g with
  | GStaticMax => lvl <=? c_static_max c
  | GCurrentMax => lvl <=? c_current_max c
  | GInterestNotNever => match c_interest c with Never => false | _ => true end
  | GAlwaysOrEnabled => match c_interest c with Always => true | _ => c_enabled c end
  end.
Definition guard (c : collector) (lvl : N) : bool := forallb (eval_conj c lvl) gen_guard.

Record invocation := mk_inv {
  i_kind : mkind;
  i_prefix : string;                 (* which of name: / target: / parent: are present, e.g. "name,target" *)
  i_level : N;
  i_brace : bool;                    (* event!(.., { fields }, "fmt", args) *)
  i_fields : fields }.

(** Prefix sets that have no base arm of their own are forwarded to another arm (those without `target:` go to
    the arm with `target: module_path!()`): the generated table of prefix-changing forwarding arms. *)
Fixpoint lookup_forward (tbl : list (mkind * string * string)) (k : mkind) (p : string) : option string :=
  match tbl with
  | [] => None
  | (k', p', q) :: r => if mkind_eqb k k' && String.eqb p p' then Some q else lookup_forward r k p
  end.
Definition canon_prefix (k : mkind) (p : string) : string :=
  match lookup_forward gen_prefix_forward k p with Some q => q | None => p end.

Fixpoint lookup_body (tbl : list (mkind * string * list (branch * logwrap) * dispatch)) (k : mkind) (p : string)
  : option (list (branch * logwrap)) :=
  match tbl with
  | [] => None
  | (k', p', vs, _) :: r => if mkind_eqb k k' && String.eqb p p' then Some vs else lookup_body r k p
  end.
Fixpoint lookup_brace (tbl : list (string * msgpos)) (p : string) : option msgpos :=
  match tbl with
  | [] => None
  | (p', m) :: r => if String.eqb p p' then Some m else lookup_brace r p
  end.

Definition message_key : key := KeyPath [bytes_of_string "message"].
(** The `{ fields }, fmt-args` arm of event! rewrites to `{ message = format_args!(..), fields }`. *)
Definition desugar_brace (inv : invocation) : option fields :=
  let f := i_fields inv in
  if i_brace inv then
    match i_kind inv, f_fmt f with
    | MEvent, Some m =>
        let it := IKV message_key SNone (fm_ticks m) (mk_rv TArguments PNothing (fm_text m) (fm_text m)) in
        match lookup_brace gen_brace_fmt (i_prefix inv) with
        | Some MsgFirst => Some (mk_fields (it :: f_items f) (match f_items f with [] => true | _ => f_trailing f end) None)
        | Some MsgLast => Some (mk_fields (f_items f ++ [it]) false None)
        | None => None
        end
    | MEvent, None => Some f
    | MSpan, _ => None               (* span! has no brace form *)
    end
  else Some f.

Record outcome := mk_out {
  o_names : list bytes;              (* the callsite's FieldSet (static) *)
  o_delivered : option (list visit); (* None: nothing reached the collector *)
  o_ticks : list N }.                (* counters incremented, in evaluation order, with repetition *)

Definition the_callsite : N := 1.

(** The `log` side: which cargo features `tracing` was compiled with, and the run-time facts the log-only code tests. *)
Record logstate := mk_ls {
  l_mode : logmode;
  l_static_ok : bool;                (* the event's level passes log's compile-time cap *)
  l_dispatch_ever : bool;            (* some dispatcher (global or scoped) has been set in this process *)
  l_max_level_ok : bool;             (* the event's level passes log::max_level() *)
  l_logger_enabled : bool }.         (* the installed logger wants records of this level / target *)
Definition log_off : logstate := mk_ls LogOff false false false false.
Definition eval_lcond (ls : logstate) (c : lcond) : bool :=
  match c with
  | LStaticOk => l_static_ok ls
  | LNoDispatchEver => negb (l_dispatch_ever ls)
  | LMaxLevelOk => l_max_level_ok ls
  | LLoggerEnabled => l_logger_enabled ls
  end.
Fixpoint lookup_log (tbl : list (logmode * option (list lcond))) (m : logmode) : option (list lcond) :=
  match tbl with
  | [] => None
  | (m', r) :: tl =>
      if (match m, m' with LogOff, LogOff | LogOn, LogOn | LogAlways, LogAlways => true | _, _ => false end) then r
      else lookup_log tl m
  end.
(** Does the code inside the log-only wrapper run?  ([None] in the table: the wrapper expands to nothing.) *)
Definition log_block_runs (ls : logstate) (tbl : list (logmode * option (list lcond))) : bool :=
  match lookup_log tbl (l_mode ls) with Some cs => forallb (eval_lcond ls) cs | None => false end.
Definition wrap_runs (ls : logstate) (w : logwrap) : bool :=
  match w with
  | NoLog => true
  | InIfLog => log_block_runs ls gen_if_log
  | InTracingLog => log_block_runs ls gen_if_log && log_block_runs ls gen_tracing_log_arg
  end.

(** One valueset! occurrence of the body is evaluated when its branch is taken and, for an occurrence inside
    `__tracing_log!` / `if_log_enabled!`, when that log-only code exists and reaches it. *)
Definition occurrence_runs (ls : logstate) (g : bool) (o : branch * logwrap) : bool :=
  wrap_runs ls (snd o) && match fst o with InThen => g | InElse => negb g | Outside => true end.

Definition run_log (ls : logstate) (inv : invocation) (c : collector) : option outcome :=
  match desugar_brace inv with
  | None => None
  | Some f =>
      match lookup_body gen_bodies (i_kind inv) (canon_prefix (i_kind inv) (i_prefix inv)),
            fieldset_expand f, valueset_expand f with
      | Some occs, Some names, Some vals =>
          let g := guard c (i_level inv) in
          let evals := List.length (filter (occurrence_runs ls g) occs) in
          let ticks := List.concat (repeat (List.concat (map ve_ticks vals)) evals) in
          if g then
            (* the then-branch must build the value set it dispatches *)
            if existsb (fun o => match o with (InThen, NoLog) => true | _ => false end) occs then
              match pair_up the_callsite 0 names vals with
              | Some entries =>
                  match vs_record the_callsite entries with
                  | Some vis => Some (mk_out names (Some vis) ticks)
                  | None => None
                  end
              | None => None
              end
            else None
          else Some (mk_out names None ticks)
      | _, _, _ => None
      end
  end.

(** Feature `log` off: the configuration every statement of C10 except [C10_lazy_with_log] is about. *)
Definition run (inv : invocation) (c : collector) : option outcome := run_log log_off inv c.

(** * Span::record and friends *)
Inductive recop :=
| RByName (name : bytes) (v : rvalue)                    (* span.record("name", v) *)
| RByField (f : field) (v : rvalue)                      (* span.record(&field, v) *)
| RValueSet (entries : list (field * option rvalue)).    (* span.record_all(&fields.value_set(&[..])) *)

Definition bytes_eqb (a b : bytes) : bool :=
  (fix go (a b : bytes) : bool :=
     match a, b with [], [] => true | x :: a', y :: b' => (x =? y) && go a' b' | _, _ => false end) a b.
Fixpoint position (i : N) (names : list bytes) (n : bytes) : option N :=
  match names with
  | [] => None
  | m :: r => if bytes_eqb m n then Some i else position (N.succ i) r n
  end.
Fixpoint lookup_asfield (tbl : list (asfield_impl * asfield_how)) (k : asfield_impl) : option asfield_how :=
  match tbl with
  | [] => None
  | (k', h) :: r =>
      if (match k, k' with AFField, AFField | AFFieldRef, AFFieldRef | AFStr, AFStr => true | _, _ => false end)
      then Some h else lookup_asfield r k
  end.

(** [span_record cs names op]: visits produced by one follow-up operation on an enabled span of callsite [cs]
    whose FieldSet is [names]. *)
Definition span_record (cs : N) (names : list bytes) (op : recop) : option (list visit) :=
  if negb gen_span_record_uses_as_field then None else
  match op with
  | RByName n v =>
      match lookup_asfield gen_as_field AFStr with
      | Some AFLookupName =>
          match position 0 names n with
          | Some i => vs_record cs [(mk_field cs i n, Some v)]
          | None => Some []
          end
      | _ => None
      end
  | RByField f v =>
      match lookup_asfield gen_as_field AFFieldRef with
      | Some AFSameCallsite => if fd_callsite f =? cs then vs_record cs [(f, Some v)] else Some []
      | _ => None
      end
  | RValueSet es => vs_record cs es
  end.

(** `record_all!(span, fields..)`: `valueset!(meta.fields(), fields..)` on the span's own FieldSet — values are
    paired with the span's fields by POSITION (the names written in the macro call are not consulted). *)
Definition record_all_macro (cs : N) (names : list bytes) (f : fields) : option (list visit) :=
  match valueset_expand f with
  | Some vals =>
      match pair_up cs 0 names vals with
      | Some es => vs_record cs es
      | None => None
      end
  | None => None
  end.

(** `enabled!(.., fields)`: only `fieldset!` (names); the answer is the guard and then the collector's `enabled`. *)
Definition run_enabled (f : fields) (lvl : N) (c : collector) : option (list bytes * bool) :=
  option_map (fun names => (names, guard c lvl && c_enabled c)) (fieldset_expand f).
