(** C10 — flat encodings of model results for the correspondence driver (driver/props/c10.py).  No proofs. *)
From TV Require Export Fields.Model.
Local Open Scope N_scope.

Definition enc_fval (f : fval) : N * bool * N * Z :=
  match f with FNaN => (0, false, 0, 0%Z) | FInf n => (1, n, 0, 0%Z) | FFin n m e => (2, n, m, e) end.
Definition enc_meth (m : meth) : N :=
  match m with MU64 => 0 | MI64 => 1 | MU128 => 2 | MI128 => 3 | MF64 => 4 | MBool => 5 | MStr => 6 | MBytes => 7 | MError => 8 | MDebug => 9 end.
Definition nofloat : N * bool * N * Z := (9, false, 0, 0%Z).
Definition enc_seen (s : seen) : N * Z * bytes * list bytes * (N * bool * N * Z) :=
  match s with
  | SInt z => (0, z, [], [], nofloat)
  | SFloat f => (1, 0%Z, [], [], enc_fval f)
  | SBool b => (2, if b then 1%Z else 0%Z, [], [], nofloat)
  | SStr s => (3, 0%Z, s, [], nofloat)
  | SByteStr s => (4, 0%Z, s, [], nofloat)
  | SErr c => (5, 0%Z, [], c, nofloat)
  | SDbg s => (6, 0%Z, s, [], nofloat)
  end.
Definition enc_visit (v : visit) :=
  match v with (n, i, m, s) => (n, i, enc_meth m, enc_seen s) end.
Definition enc_visits (o : option (list visit)) :=
  match o with Some l => (1, map enc_visit l) | None => (0, []) end.

Inductive postop := PRec (op : recop) | PRecordAll (f : fields).

(** (ok, names, delivered?, visits, ticks, per-post-op (ok, visits)) *)
Definition enc_outcome (r : option outcome) (ops : list postop) :=
  match r with
  | Some o =>
      (1, o_names o,
       match o_delivered o with Some _ => 1 | None => 0 end,
       match o_delivered o with Some l => map enc_visit l | None => [] end,
       o_ticks o,
       map (fun op => enc_visits (match op with
                                  | PRec r => span_record the_callsite (o_names o) r
                                  | PRecordAll f => record_all_macro the_callsite (o_names o) f
                                  end)) ops)
  | None => (0, [], 0, [], [], [])
  end.
Definition enc_case (inv : invocation) (c : collector) (ops : list postop) := enc_outcome (run inv c) ops.
Definition enc_case_log (ls : logstate) (inv : invocation) (c : collector) (ops : list postop) := enc_outcome (run_log ls inv c) ops.
Definition enc_enabled (f : fields) (lvl : N) (c : collector) :=
  match run_enabled f lvl c with
  | Some (names, b) => (1, names, if b then 1 else 0)
  | None => (0, [], 0)
  end.

(** One result type for both kinds of case, so a list of cases is homogeneous. *)
Definition cE (f : fields) (lvl : N) (c : collector) :=
  @inl _ (N * list bytes * N * list (bytes * N * N * (N * Z * bytes * list bytes * (N * bool * N * Z))) * list N
          * list (N * list (bytes * N * N * (N * Z * bytes * list bytes * (N * bool * N * Z))))) (enc_enabled f lvl c).
Definition cC (inv : invocation) (c : collector) (ops : list postop) :=
  @inr (N * list bytes * N) _ (enc_case inv c ops).
(** the same under a `log` configuration (tracing compiled with its `log` feature) *)
Definition cL (ls : logstate) (inv : invocation) (c : collector) (ops : list postop) :=
  @inr (N * list bytes * N) _ (enc_case_log ls inv c ops).
