(** C10 — the property's own statement, written WITHOUT reference to the generated tables: which method a
    type is presented through, what the visitor must see, in which order, and how often expressions are
    evaluated.  Fields/Proofs.v shows the model of the code (Fields/Model.v) meets it.  No proofs here. *)
From TV Require Export Fields.Model.
Local Open Scope N_scope.

(** "through the visitor method for its type" *)
Definition spec_method (p : prim) : meth :=
  match p with
  | U8 | U16 | U32 | U64 | Usize => MU64
  | I8 | I16 | I32 | I64 | Isize => MI64
  | U128 => MU128
  | I128 => MI128
  | F32 | F64 => MF64
  | PBool => MBool
  end.

(** The payload is a value of the type: integers within the type's range (non-zero for the NonZero types), floats among
    the format's values, strings for str/String, ... *)
Fixpoint well_typed (t : vty) (v : rvalue) : bool :=
  match t with
  | TPrim p =>
      match rv_pl v with
      | PInt z => is_int p && in_range p z
      | PFloat f => is_float p && fits p f
      | PBoolv _ => prim_eqb p PBool
      | _ => false
      end
  | TNonZero p => match rv_pl v with PInt z => is_int p && in_range p z && negb (z =? 0)%Z | _ => false end
  | TWrapping t' | TRef t' | TRefMut t' | TBox t' => well_typed t' v
  | TStr | TString => match rv_pl v with PText _ => true | _ => false end
  | TByteSlice => match rv_pl v with PByteStr _ => true | _ => false end
  | TDynError _ _ => match rv_pl v with PErr _ => true | _ => false end
  | TArguments | TDisplayValue | TDebugValue | TEmpty => true
  | TOther => false
  end.

(** "with exactly the supplied value"; [None] = the field is not visited (Empty). *)
Fixpoint spec_route (t : vty) (v : rvalue) : option (meth * seen) :=
  match t with
  | TPrim p | TNonZero p =>
      match rv_pl v with
      | PInt z => Some (spec_method p, SInt z)
      | PFloat f => Some (spec_method p, SFloat f)
      | PBoolv b => Some (spec_method p, SBool b)
      | _ => None
      end
  | TWrapping t' | TRef t' | TRefMut t' | TBox t' => spec_route t' v
  | TStr | TString => match rv_pl v with PText s => Some (MStr, SStr s) | _ => None end
  | TByteSlice => match rv_pl v with PByteStr s => Some (MBytes, SByteStr s) | _ => None end
  | TDynError _ _ => match rv_pl v with PErr c => Some (MError, SErr c) | _ => None end
  | TArguments | TDisplayValue => Some (MDebug, SDbg (rv_disp v))   (* "the value's Display text" *)
  | TDebugValue => Some (MDebug, SDbg (rv_dbg v))                   (* "the value's Debug text" *)
  | TEmpty | TOther => None
  end.

(** The declared name of a field: the path as written (`r#` kept), the literal, the constant's value. *)
Definition declared_name (it : item) : bytes :=
  match it with
  | IKV (KeyPath segs) _ _ _ => join_dot segs
  | IKV (KeyLit s) _ _ _ => s
  | IKV (KeyConst s) _ _ _ => s
  | ISh _ segs _ _ => join_dot segs
  end.

(** What the visitor sees for one field: `?` = Debug text, `%` = Display text, otherwise typed. *)
Definition spec_item_seen (it : item) : option (meth * seen) :=
  match item_sigil it with
  | SDebug => Some (MDebug, SDbg (rv_dbg (item_value it)))
  | SDisplay => Some (MDebug, SDbg (rv_disp (item_value it)))
  | SNone => spec_route (rv_ty (item_value it)) (item_value it)
  end.
Definition item_ok (it : item) : bool :=
  match item_sigil it with
  | SNone => well_typed (rv_ty (item_value it)) (item_value it)
  | _ => true
  end.

Definition message_name : bytes := bytes_of_string "message".

Definition spec_names (f : fields) : list bytes :=
  (match f_fmt f with Some _ => [message_name] | None => [] end) ++ map declared_name (f_items f).

Fixpoint spec_visits_from (i : N) (its : list item) : list visit :=
  match its with
  | [] => []
  | it :: r =>
      (match spec_item_seen it with Some (m, s) => [(declared_name it, i, m, s)] | None => [] end)
        ++ spec_visits_from (N.succ i) r
  end.
(** a format-string message first, then every non-empty field in declaration order *)
Definition spec_visits (f : fields) : list visit :=
  match f_fmt f with
  | Some m => (message_name, 0, MDebug, SDbg (fm_text m)) :: spec_visits_from 1 (f_items f)
  | None => spec_visits_from 0 (f_items f)
  end.
Definition spec_ticks (f : fields) : list N :=
  (match f_fmt f with Some m => fm_ticks m | None => [] end) ++ List.concat (map item_ticks (f_items f)).

Definition spec_outcome (inv : invocation) (g : bool) : outcome :=
  mk_out (spec_names (i_fields inv))
         (if g then Some (spec_visits (i_fields inv)) else None)
         (if g then spec_ticks (i_fields inv) else []).

(** With the cargo feature `log`, the DISABLED branch of a macro hands its fields to the `log` crate (documented
    behaviour, property C18): the expressions are then evaluated although no collector sees them.  The `log` side is
    one more filtering stage: the expressions may be evaluated only when the log record is ACTUALLY BUILT, i.e. the
    level passes log's compile-time cap, no dispatcher has ever been set in the process (unless `log-always`), the
    level passes `log::max_level()` and the logger's `enabled` wants the record. *)
Definition log_reached (ls : logstate) : bool :=
  match l_mode ls with
  | LogOff => false
  | LogOn => l_static_ok ls && negb (l_dispatch_ever ls)
  | LogAlways => l_static_ok ls
  end.
Definition spec_log_formats (ls : logstate) : bool :=
  log_reached ls && l_max_level_ok ls && l_logger_enabled ls.
(** Known finding F101: a disabled SPAN builds its value set (`span.record_all(&valueset!(..))` inside
    `if_log_enabled!`) BEFORE `Span::log` tests `log::max_level()` / `Log::enabled`: its field expressions are evaluated
    although the log record is filtered out too.  (Events make both tests before touching the value set.) *)
Definition known_F101 (ls : logstate) (k : mkind) (g : bool) : bool :=
  negb g && (match k with MSpan => true | MEvent => false end) && log_reached ls
  && negb (l_max_level_ok ls && l_logger_enabled ls).
Definition spec_outcome_log (ls : logstate) (inv : invocation) (g : bool) : outcome :=
  mk_out (spec_names (i_fields inv))
         (if g then Some (spec_visits (i_fields inv)) else None)
         (if g then spec_ticks (i_fields inv) else if spec_log_formats ls then spec_ticks (i_fields inv) else []).

(** The modelled form grammar: a known prefix set, the brace form only on events, plain values of `Value` types. *)
Definition valid_prefix (k : mkind) (p : string) : bool :=
  match k with
  | MEvent => existsb (String.eqb p) ["name,target,parent"; "name,target"; "target,parent"; "name,parent"; "name"; "target"; "parent"; ""]%string
  | MSpan => existsb (String.eqb p) ["target,parent"; "target"; "parent"; ""]%string
  end.
Definition wf_inv (inv : invocation) : bool :=
  valid_prefix (i_kind inv) (i_prefix inv)
  && (negb (i_brace inv) || mkind_eqb (i_kind inv) MEvent)
  && forallb item_ok (f_items (i_fields inv)).

Definition visit_name (v : visit) : bytes := fst (fst (fst v)).
Definition visit_index (v : visit) : N := snd (fst (fst v)).
Definition is_visited (it : item) : bool := match spec_item_seen it with Some _ => true | None => false end.
