(** C08 — proofs, part 1: levels, directive sets, filters and filter combinators. *)
From Coq Require Import List NArith Bool String Lia.
Import ListNotations.
From TV Require Import Summary.Model.
Local Open Scope N_scope.
Local Arguments N.add : simpl never.
Local Arguments N.mul : simpl never.
Local Arguments N.sub : simpl never.
Local Arguments N.leb : simpl never.
Local Arguments N.ltb : simpl never.
Local Arguments N.eqb : simpl never.
Local Arguments env_build : simpl never.
Local Arguments targets_set : simpl never.

(** ** Levels *)
Definition above (m : meta) (h : levelfilter) : Prop := frank h < lrank (m_level m).

Lemma lrank_le_5 : forall l, lrank l <= 5.
Proof. intros []; simpl; lia. Qed.
Lemma lrank_pos : forall l, 1 <= lrank l.
Proof. intros []; simpl; lia. Qed.

Lemma level_enabled_iff : forall l f, level_enabled l f = true <-> lrank l <= frank f.
Proof. intros. unfold level_enabled. apply N.leb_le. Qed.
Lemma level_enabled_false_iff : forall l f, level_enabled l f = false <-> frank f < lrank l.
Proof. intros. unfold level_enabled. apply N.leb_gt. Qed.

Lemma frank_lf_max : forall a b, frank (lf_max a b) = N.max (frank a) (frank b).
Proof. intros. unfold lf_max. destruct (N.ltb_spec (frank b) (frank a)); lia. Qed.
Lemma frank_lf_min : forall a b, frank (lf_min a b) = N.min (frank a) (frank b).
Proof. intros. unfold lf_min. destruct (N.ltb_spec (frank b) (frank a)); lia. Qed.

Lemma frank_inj : forall a b, frank a = frank b -> a = b.
Proof.
  intros [[]|] [[]|]; simpl; intros H; try reflexivity; discriminate H.
Qed.
Lemma lf_max_off_l : forall a, lf_max OFF a = a.
Proof. intros. apply frank_inj. rewrite frank_lf_max. simpl. lia. Qed.
Lemma lf_max_off_r : forall a, lf_max a OFF = a.
Proof. intros. apply frank_inj. rewrite frank_lf_max. simpl. lia. Qed.
Lemma lf_eqb_eq : forall a b, lf_eqb a b = true <-> a = b.
Proof.
  intros. unfold lf_eqb. rewrite N.eqb_eq. split; [apply frank_inj | intros ->; reflexivity].
Qed.
Lemma hint_eqb_eq : forall a b, hint_eqb a b = true <-> a = b.
Proof.
  intros [a|] [b|]; simpl; try (split; intros H; [discriminate H || reflexivity | discriminate H || reflexivity]).
  - rewrite lf_eqb_eq. split; [intros ->; reflexivity | intros H; inversion H; reflexivity].
Qed.
Lemma hint_is_off_eq : forall h, hint_is_off h = true <-> h = Some OFF.
Proof.
  intros [[l|]|]; simpl; split; intros H; try discriminate H; try reflexivity.
Qed.
Lemma hint_is_none_eq : forall h, hint_is_none h = true <-> h = None.
Proof. intros [h|]; simpl; split; intros H; try discriminate H; reflexivity. Qed.

Lemma above_mono : forall m a b, frank a <= frank b -> above m b -> above m a.
Proof. unfold above. intros. lia. Qed.
Lemma not_above_trace : forall m, ~ above m (Some TRACE).
Proof. unfold above. intros m. simpl. pose proof (lrank_le_5 (m_level m)). lia. Qed.

(** ** Directive sets: [max_level] bounds every directive, whatever was added, replaced or re-added *)
Section DirectiveSet.
  Variable A : Type.
  Variable cmp : A -> A -> comparison.
  Variable lvl : A -> levelfilter.

  Definition ds_bounded (s : dset A) : Prop := forall d, In d (ds_dirs s) -> frank (lvl d) <= frank (ds_max s).

  Lemma ds_insert_in : forall d l x, In x (ds_insert cmp d l) -> x = d \/ In x l.
  Proof.
    intros d l. induction l as [|y r IH]; simpl; intros x H.
    - destruct H as [H|[]]; auto.
    - destruct (cmp d y); simpl in H.
      + destruct H as [H|H]; auto.
      + destruct H as [H|[H|H]]; auto.
      + destruct H as [H|H]; auto. apply IH in H. destruct H; auto.
  Qed.

  Lemma ds_insert_has : forall d l, In d (ds_insert cmp d l).
  Proof.
    intros d l. induction l as [|y r IH]; simpl; auto.
    destruct (cmp d y); simpl; auto.
  Qed.

  (** the most verbose level of a list of directives, as a number *)
  Definition lmax (l : list A) : N := fold_right (fun d a => N.max (frank (lvl d)) a) 0 l.

  Lemma levels_max_fold : forall l acc,
    frank (fold_left (fun acc d => lf_max acc (lvl d)) l acc) = N.max (frank acc) (lmax l).
  Proof.
    induction l as [|x r IH]; intros acc; simpl; [lia|]. rewrite IH, frank_lf_max. lia.
  Qed.

  Lemma levels_max_frank : forall l, frank (ds_levels_max lvl l) = lmax l.
  Proof. intros l. unfold ds_levels_max. rewrite levels_max_fold. simpl. lia. Qed.

  Lemma lmax_in : forall l d, In d l -> frank (lvl d) <= lmax l.
  Proof.
    induction l as [|x r IH]; intros d H; [destruct H|]. simpl. destruct H as [->|H]; [lia|].
    specialize (IH d H). lia.
  Qed.

  Lemma lmax_attained : forall l, l <> [] -> exists d, In d l /\ frank (lvl d) = lmax l.
  Proof.
    induction l as [|x r IH]; intros Hne; [congruence|]. simpl.
    destruct r as [|y t].
    - exists x. split; [left; reflexivity | simpl; lia].
    - destruct IH as [d [Hin Hd]]; [discriminate|].
      destruct (N.le_ge_cases (frank (lvl x)) (lmax (y :: t))).
      + exists d. split; [right; exact Hin | lia].
      + exists x. split; [left; reflexivity | lia].
  Qed.

  Lemma lmax_insert_fresh : forall d l, ds_replaced cmp d l = false ->
    lmax (ds_insert cmp d l) = N.max (frank (lvl d)) (lmax l).
  Proof.
    intros d l. induction l as [|x r IH]; simpl; intros H; [reflexivity|].
    destruct (cmp d x); simpl; [discriminate H | reflexivity |]. rewrite (IH H). lia.
  Qed.

  (** [max_level] is exactly the most verbose level in the set *)
  Definition ds_exact (s : dset A) : Prop := frank (ds_max s) = lmax (ds_dirs s).

  Lemma ds_add_exact : forall s d, ds_exact s -> ds_exact (ds_add cmp lvl s d).
  Proof.
    intros s d Hs. unfold ds_exact, ds_add in *. cbn [ds_dirs ds_max].
    destruct (ds_replaced cmp d (ds_dirs s)) eqn:E.
    - apply levels_max_frank.
    - rewrite (lmax_insert_fresh d _ E). destruct (N.ltb_spec (frank (ds_max s)) (frank (lvl d))); lia.
  Qed.

  Lemma fold_add_exact : forall ds s, ds_exact s -> ds_exact (fold_left (ds_add cmp lvl) ds s).
  Proof.
    induction ds as [|d r IH]; simpl; intros s Hs; auto. apply IH. apply ds_add_exact. exact Hs.
  Qed.

  Lemma ds_of_exact : forall ds, ds_exact (ds_of cmp lvl ds).
  Proof. intros ds. apply fold_add_exact. reflexivity. Qed.

  Lemma ds_exact_bounded : forall s, ds_exact s -> ds_bounded s.
  Proof. intros s Hs d Hd. rewrite Hs. apply lmax_in. exact Hd. Qed.

  Lemma ds_of_bounded : forall ds, ds_bounded (ds_of cmp lvl ds).
  Proof. intros ds. apply ds_exact_bounded. apply ds_of_exact. Qed.

  (** the headline about [DirectiveSet::add]: however the set was built (any sequence of adds, including
      replacements of an equal directive by one with a lower or a higher level), [max_level] is EXACTLY the most
      verbose level among the directives now in the set: it bounds every one of them, it is [OFF] for the empty
      set, and otherwise some directive in the set has it *)
  Lemma directive_max_exact : forall ds,
    let s := ds_of cmp lvl ds in
    (forall d, In d (ds_dirs s) -> frank (lvl d) <= frank (ds_max s)) /\
    (ds_dirs s = [] -> ds_max s = OFF) /\
    (ds_dirs s <> [] -> exists d, In d (ds_dirs s) /\ lvl d = ds_max s).
  Proof.
    intros ds s. pose proof (ds_of_exact ds) as He. fold s in He. unfold ds_exact in He. split; [|split].
    - apply ds_exact_bounded. exact He.
    - intros Hn. rewrite Hn in He. simpl in He. apply frank_inj. simpl. exact He.
    - intros Hn. destruct (lmax_attained _ Hn) as [d [Hin Hd]]. exists d. split; [exact Hin|].
      apply frank_inj. lia.
  Qed.

  (** one more [add]: the new directive is bounded; adding a directive that replaces nothing never lowers
      [max_level]; a replacement may lower it (that is what makes it exact) *)
  Lemma directive_max_mono : forall ds d,
    let s := ds_of cmp lvl ds in
    frank (lvl d) <= frank (ds_max (ds_add cmp lvl s d)) /\
    (ds_replaced cmp d (ds_dirs s) = false -> frank (ds_max s) <= frank (ds_max (ds_add cmp lvl s d))).
  Proof.
    intros ds d s. split.
    - assert (Hb : ds_bounded (ds_add cmp lvl s d)).
      { apply ds_exact_bounded. apply ds_add_exact. apply ds_of_exact. }
      apply Hb. unfold ds_add. cbn [ds_dirs]. apply ds_insert_has.
    - intros E. unfold ds_add. cbn [ds_max]. rewrite E.
      destruct (N.ltb_spec (frank (ds_max s)) (frank (lvl d))); lia.
  Qed.
End DirectiveSet.

Lemma statics_enabled_bound : forall ds m,
  statics_enabled (ds_of cmp_sdir sd_level ds) m = true -> lrank (m_level m) <= frank (ds_max (ds_of cmp_sdir sd_level ds)).
Proof.
  intros ds m H. unfold statics_enabled in H.
  destruct (find (fun d => sdir_cares d m) (ds_dirs (ds_of cmp_sdir sd_level ds))) as [d|] eqn:E; [|discriminate H].
  apply find_some in E. destruct E as [Hin _].
  apply level_enabled_iff in H.
  pose proof (ds_of_bounded _ cmp_sdir sd_level ds d Hin). lia.
Qed.

(** ** Filters *)

(** The contract of user closures (the only hypotheses about filters): a [with_max_level_hint] is honest, and a
    custom callsite filter of a [DynFilterFn] is consistent with its [enabled] closure. *)
Fixpoint LeafOK (f : filt) : Prop :=
  match f with
  | FFn g h => forall m, g m = true -> below_hint h m = true
  | FDyn g h cs =>
    (forall m n, g m n = true -> below_hint h m = true) /\
    match cs with
    | None => True
    | Some k => forall m, (k m = always -> forall n, g m n = true) /\ (k m = never -> forall n, g m n = false)
    end
  | FAnd a b => LeafOK a /\ LeafOK b
  | FOr a b => LeafOK a /\ LeafOK b
  | FNot a => LeafOK a
  | FSome a => LeafOK a
  | FBox a => LeafOK a
  | FArc a => LeafOK a
  | FReload a => LeafOK a
  | _ => True
  end.

(** [Registered f m cx]: every EnvFilter instance that the [callsite_enabled] pass on [m] reaches, and that stores
    a callsite matcher for [m], is recorded as such in the context — i.e. [callsite_enabled] ran before [enabled]. *)
Fixpoint Registered (f : filt) (m : meta) (cx : ctx) : Prop :=
  match f with
  | FEnv id ds => env_registers (env_build ds) m = true -> cx_reg cx id m = true
  | FAnd a b => Registered a m cx /\ (f_int a m <> never -> Registered b m cx)
  | FOr a b => Registered a m cx /\ Registered b m cx
  | FNot a => Registered a m cx
  | FSome a => Registered a m cx
  | FBox a => Registered a m cx
  | FArc a => Registered a m cx
  | FReload a => Registered a m cx
  | _ => True
  end.

Lemma f_f12_and : forall a b m, f_f12 (FAnd a b) m = false -> f_f12 a m = false /\ f_f12 b m = false.
Proof.
  intros a b m. unfold f_f12. simpl. rewrite existsb_app. apply orb_false_iff.
Qed.
Lemma f_f12_or : forall a b m, f_f12 (FOr a b) m = false -> f_f12 a m = false /\ f_f12 b m = false.
Proof.
  intros a b m. unfold f_f12. simpl. rewrite existsb_app. apply orb_false_iff.
Qed.

Lemma env_acc_static : forall e id m cx,
  level_enabled (m_level m) (ds_max (ev_statics e)) && env_statics_enabled e m = true -> env_acc e id m cx = true.
Proof.
  intros e id m cx H. unfold env_acc. rewrite H.
  destruct (ev_has_dyn e && level_enabled (m_level m) (ds_max (ev_dynamics e))); [|reflexivity].
  destruct (m_span m && cx_reg cx id m); [reflexivity|].
  destruct (existsb _ _); reflexivity.
Qed.

Lemma env_statics_bound : forall ds m,
  env_statics_enabled (env_build ds) m = true ->
  level_enabled (m_level m) (ds_max (ev_statics (env_build ds))) = true.
Proof.
  intros ds m H. apply level_enabled_iff. unfold env_statics_enabled, env_build in *. simpl in *.
  apply statics_enabled_bound. exact H.
Qed.

(** [EnvFilter::register_callsite] against [EnvFilter::enabled], for an arbitrary directive table whose static
    [max_level] is a bound (which [env_build] guarantees, see [env_statics_bound]) *)
Lemma env_interest_sound : forall e id m cx,
  env_f12 e m = false ->
  (env_registers e m = true -> cx_reg cx id m = true) ->
  (env_statics_enabled e m = true -> level_enabled (m_level m) (ds_max (ev_statics e)) = true) ->
  (env_interest e m = never -> env_acc e id m cx = false) /\ (env_interest e m = always -> env_acc e id m cx = true).
Proof.
  intros e id m cx H12 HR Hb. unfold env_interest. split.
  - intros H. destruct (env_registers e m) eqn:Er; [discriminate H|].
    destruct (env_statics_enabled e m) eqn:Es; [discriminate H|].
    destruct (ev_has_dyn e) eqn:Ed; [discriminate H|].
    unfold env_acc. rewrite Ed, Es. simpl. rewrite andb_false_r. reflexivity.
  - intros H. destruct (env_registers e m) eqn:Er.
    + (* the span-directive branch *)
      unfold env_f12 in H12. rewrite Er in H12.
      specialize (HR eq_refl).
      unfold env_registers in Er. apply andb_true_iff in Er. destruct Er as [Er Em].
      apply andb_true_iff in Er. destruct Er as [Ed Esp].
      destruct (level_enabled (m_level m) (ds_max (ev_dynamics e))) eqn:Edm.
      * unfold env_acc. rewrite Ed, Edm, Esp, HR. reflexivity.
      * cbn [negb andb] in H12. apply negb_false_iff in H12. apply env_acc_static. exact H12.
    + destruct (env_statics_enabled e m) eqn:Es.
      * apply env_acc_static. rewrite (Hb eq_refl), Es. reflexivity.
      * destruct (ev_has_dyn e); discriminate H.
Qed.

Lemma interest_cases : forall i, i = never \/ i = sometimes \/ i = always.
Proof. intros []; auto. Qed.

(** the two-sided soundness of the interest, by induction over the expression *)
Lemma filter_interest_sound : forall f, LeafOK f -> forall m cx,
  f_f12 f m = false -> Registered f m cx ->
  (f_int f m = never -> f_acc f m cx = false) /\ (f_int f m = always -> f_acc f m cx = true).
Proof.
  induction f; intros HL m cx H12 HR; simpl in *.
  - (* FLevel *) destruct (level_enabled (m_level m) lf); split; intros H; try discriminate H; reflexivity.
  - (* FTargets *) destruct (statics_enabled (targets_set ds) m); split; intros H; try discriminate H; reflexivity.
  - (* FEnv *)
    unfold f_f12 in H12. simpl in H12. rewrite orb_false_r in H12.
    apply env_interest_sound; [exact H12 | exact HR | apply env_statics_bound].
  - (* FFn *) destruct (f m); split; intros H; try discriminate H; reflexivity.
  - (* FDyn *)
    destruct HL as [Hh Hc]. destruct cs as [k|].
    + destruct (Hc m) as [Ha Hn]. split; intros H; auto.
    + destruct (below_hint h m) eqn:E; split; intros H; try discriminate H.
      destruct (f m (cx_n cx)) eqn:Eg; [|reflexivity]. apply Hh in Eg. congruence.
  - (* FAnd *)
    destruct HL as [HLa HLb]. apply f_f12_and in H12. destruct H12 as [Ha12 Hb12]. destruct HR as [HRa HRb].
    specialize (IHf1 HLa m cx Ha12 HRa). destruct IHf1 as [IHan IHaa].
    destruct (f_int f1 m) eqn:Ea; simpl.
    + split; intros H; [|discriminate H]. rewrite (IHan eq_refl). reflexivity.
    + assert (HRb' : Registered f2 m cx) by (apply HRb; discriminate).
      specialize (IHf2 HLb m cx Hb12 HRb'). destruct IHf2 as [IHbn IHba].
      destruct (f_int f2 m) eqn:Eb; simpl; split; intros H; try discriminate H.
      rewrite (IHbn eq_refl). apply andb_false_r.
    + assert (HRb' : Registered f2 m cx) by (apply HRb; discriminate).
      specialize (IHf2 HLb m cx Hb12 HRb'). destruct IHf2 as [IHbn IHba].
      destruct (f_int f2 m) eqn:Eb; simpl; split; intros H; try discriminate H.
      * rewrite (IHbn eq_refl). apply andb_false_r.
      * rewrite (IHaa eq_refl), (IHba eq_refl). reflexivity.
  - (* FOr *)
    destruct HL as [HLa HLb]. apply f_f12_or in H12. destruct H12 as [Ha12 Hb12]. destruct HR as [HRa HRb].
    specialize (IHf1 HLa m cx Ha12 HRa). destruct IHf1 as [IHan IHaa].
    specialize (IHf2 HLb m cx Hb12 HRb). destruct IHf2 as [IHbn IHba].
    destruct (f_int f1 m) eqn:Ea; destruct (f_int f2 m) eqn:Eb; simpl; split; intros H; try discriminate H;
      try (rewrite (IHan eq_refl), (IHbn eq_refl); reflexivity);
      try (rewrite (IHaa eq_refl); reflexivity);
      try (rewrite (IHba eq_refl); apply orb_true_r).
  - (* FNot *)
    assert (H12' : f_f12 f m = false) by exact H12.
    specialize (IHf HL m cx H12' HR). destruct IHf as [IHn IHa].
    destruct (f_int f m) eqn:Ea; split; intros H; try discriminate H.
    + rewrite (IHn eq_refl). reflexivity.
    + rewrite (IHa eq_refl). reflexivity.
  - (* FSome *) apply IHf; assumption.
  - (* FNone *) split; intros H; [discriminate H | reflexivity].
  - (* FBox *) apply IHf; assumption.
  - (* FArc *) apply IHf; assumption.
  - (* FReload *) apply IHf; assumption.
Qed.

Lemma below_hint_above : forall h lf m, h = Some lf -> above m lf -> below_hint h m = false.
Proof.
  intros h lf m -> H. simpl. apply level_enabled_false_iff. exact H.
Qed.

Lemma env_hint_sound : forall e id m cx h, env_hint e = Some h -> above m h -> env_acc e id m cx = false.
Proof.
  intros e id m cx h Hh Hab. unfold env_hint in Hh.
  destruct (existsb ddir_has_value (ds_dirs (ev_dynamics e))).
  - inversion Hh; subst. exfalso. exact (not_above_trace m Hab).
  - inversion Hh; subst. clear Hh. unfold above in Hab. rewrite frank_lf_max in Hab.
    pose proof (N.le_max_l (frank (ds_max (ev_statics e))) (frank (ds_max (ev_dynamics e)))).
    pose proof (N.le_max_r (frank (ds_max (ev_statics e))) (frank (ds_max (ev_dynamics e)))).
    unfold env_acc.
    assert (Hs : level_enabled (m_level m) (ds_max (ev_statics e)) = false) by (apply level_enabled_false_iff; lia).
    assert (Hd : level_enabled (m_level m) (ds_max (ev_dynamics e)) = false) by (apply level_enabled_false_iff; lia).
    rewrite Hs, Hd. rewrite andb_false_r. reflexivity.
Qed.

(** the hint is an upper bound of what the filter accepts, in every context *)
Lemma filter_hint_sound : forall f, LeafOK f -> forall h, f_hint f = Some h ->
  forall m cx, above m h -> f_acc f m cx = false.
Proof.
  induction f; intros HL hh Hh m cx Hab; simpl in *.
  - (* FLevel *) inversion Hh; subst. apply level_enabled_false_iff. exact Hab.
  - (* FTargets *)
    inversion Hh; subst. destruct (statics_enabled (targets_set ds) m) eqn:E; [|reflexivity].
    unfold targets_set in *. apply statics_enabled_bound in E. unfold above in Hab. lia.
  - (* FEnv *) eapply env_hint_sound; eauto.
  - (* FFn *)
    destruct (f m) eqn:E; [|reflexivity]. apply HL in E. rewrite (below_hint_above _ _ _ Hh Hab) in E. discriminate E.
  - (* FDyn *)
    destruct HL as [HL _]. destruct (f m (cx_n cx)) eqn:E; [|reflexivity]. apply HL in E.
    rewrite (below_hint_above _ _ _ Hh Hab) in E. discriminate E.
  - (* FAnd *)
    destruct HL as [HLa HLb].
    destruct (f_hint f1) as [x|] eqn:Ea; destruct (f_hint f2) as [y|] eqn:Eb; simpl in Hh; try discriminate Hh.
    inversion Hh; subst. clear Hh. unfold above in Hab. rewrite frank_lf_min in Hab.
    destruct (N.le_ge_cases (frank x) (frank y)) as [Hle|Hle].
    + rewrite N.min_l in Hab by exact Hle. rewrite (IHf1 HLa x eq_refl m cx); [reflexivity | exact Hab].
    + rewrite N.min_r in Hab by exact Hle. rewrite (IHf2 HLb y eq_refl m cx); [apply andb_false_r | exact Hab].
  - (* FOr *)
    destruct HL as [HLa HLb].
    destruct (f_hint f1) as [x|] eqn:Ea; destruct (f_hint f2) as [y|] eqn:Eb; try discriminate Hh.
    inversion Hh; subst. clear Hh. unfold above in Hab. rewrite frank_lf_max in Hab.
    pose proof (N.le_max_l (frank x) (frank y)). pose proof (N.le_max_r (frank x) (frank y)).
    rewrite (IHf1 HLa x eq_refl m cx), (IHf2 HLb y eq_refl m cx); [reflexivity | unfold above; lia | unfold above; lia].
  - discriminate Hh.
  - eapply IHf; eauto.
  - discriminate Hh.
  - eapply IHf; eauto.
  - eapply IHf; eauto.
  - eapply IHf; eauto.
Qed.

Theorem filter_sound : forall f, LeafOK f -> forall m cx,
  (f_f12 f m = false -> Registered f m cx ->
   (f_int f m = never -> f_acc f m cx = false) /\ (f_int f m = always -> f_acc f m cx = true)) /\
  (forall h, f_hint f = Some h -> above m h -> f_acc f m cx = false).
Proof.
  intros f HL m cx. split.
  - intros. apply filter_interest_sound; assumption.
  - intros h Hh Ha. eapply filter_hint_sound; eauto.
Qed.

(** the context computed by [real_ctx] from the model's own account of the registration pass satisfies
    [Registered] (instances are told apart by their ids, which the generator keeps distinct) *)
Lemma real_ctx_registered : forall f envs n spans m,
  (forall id ds, In (id, ds) (f_envs f) -> env_lookup envs id = env_build ds) ->
  Registered f m (real_ctx envs (f_asked f) n spans).
Proof.
  intros f envs n spans m. revert envs.
  assert (G : forall f (asked : meta -> list N) envs,
             (forall id ds, In (id, ds) (f_envs f) -> env_lookup envs id = env_build ds) ->
             (forall id, In id (f_asked f m) -> In id (asked m)) ->
             Registered f m (real_ctx envs asked n spans)).
  { clear f. induction f; intros asked envs He Ha; simpl in *; auto.
    - intros Hr. rewrite (He id ds (or_introl eq_refl)), Hr, andb_true_r.
      apply existsb_exists. exists id. split; [apply Ha; left; reflexivity | apply N.eqb_refl].
    - split.
      + apply IHf1; [intros; apply He; apply in_or_app; auto | intros; apply Ha; apply in_or_app; auto].
      + intros Hn. apply IHf2; [intros; apply He; apply in_or_app; auto|].
        intros id Hid. apply Ha. apply in_or_app. right.
        destruct (f_int f1 m); simpl; [congruence | exact Hid | exact Hid].
    - split.
      + apply IHf1; [intros; apply He; apply in_or_app; auto | intros; apply Ha; apply in_or_app; auto].
      + apply IHf2; [intros; apply He; apply in_or_app; auto | intros; apply Ha; apply in_or_app; auto]. }
  intros envs He. apply G; auto.
Qed.
