(** C08 — executable model of the static summaries (Interest, max-level hint) published by filters, filter
    combinators, layers and composed stacks of tracing-subscriber, next to the dynamic decisions they summarise.

    Mirrors, as pure total functions:
      filter/subscriber_filters/combinator.rs   And / Or / Not                      f_int, f_hint, f_acc
      filter/subscriber_filters/mod.rs          LevelFilter, Option<F>, Box/Arc, Filtered, add_interest,
                                                take_interest, the psf downcast marker
      filter/targets.rs, filter/directive.rs    DirectiveSet::add / max_level, Statics::enabled; Targets built by the API or
                                                parsed from a string (field-name directives)
      filter/env/mod.rs, env/directive.rs       EnvFilter::{register_callsite, enabled, max_level_hint},
                                                Dynamics::matcher, SpanMatcher::level (u64 value matchers only)
      filter/filter_fn.rs                       FilterFn / DynFilterFn (closures are Coq functions)
      reload.rs                                 reload::Subscriber as Filter and as Subscribe (downcast rule)
      subscribe/mod.rs                          Option<S>, Vec<S>, Box<S>, Identity; NoneLayerMarker rules
      subscribe/layered.rs                      Layered::new (three flags), pick_interest, pick_level_hint
      registry/sharded.rs                       Registry::{register_callsite, enabled, max_level_hint}

    No proofs in this file. *)
From Coq Require Import List NArith Bool String Ascii.
Import ListNotations.
Local Open Scope N_scope.

(** ** Levels (specification order OFF < ERROR < WARN < INFO < DEBUG < TRACE; C19 ties it to the code) *)
Inductive level := ERROR | WARN | INFO | DEBUG | TRACE.
Definition levelfilter := option level. (* None = OFF *)
Definition OFF : levelfilter := None.

Definition lrank (l : level) : N :=
  match l with ERROR => 1 | WARN => 2 | INFO => 3 | DEBUG => 4 | TRACE => 5 end.
Definition frank (f : levelfilter) : N := match f with None => 0 | Some l => lrank l end.

(** [metadata.level() <= filter] *)
Definition level_enabled (l : level) (f : levelfilter) : bool := lrank l <=? frank f.
Definition lf_max (a b : levelfilter) : levelfilter := if frank b <? frank a then a else b.
Definition lf_min (a b : levelfilter) : levelfilter := if frank b <? frank a then b else a.
Definition lf_eqb (a b : levelfilter) : bool := frank a =? frank b.

(** A max-level hint is [Option<LevelFilter>]; [None] = "no hint".  The code compares hints with the derived
    order of [Option] ([None < Some _]): [cmp::max] / [cmp::min] below are exactly that. *)
Definition hint := option levelfilter.
Definition hint_max (a b : hint) : hint :=
  match a, b with
  | None, x => x
  | x, None => x
  | Some x, Some y => Some (lf_max x y)
  end.
Definition hint_min (a b : hint) : hint :=
  match a, b with
  | Some x, Some y => Some (lf_min x y)
  | _, _ => None
  end.
Definition hint_is_none (h : hint) : bool := match h with None => true | Some _ => false end.
Definition hint_is_off (h : hint) : bool := match h with Some None => true | _ => false end.
Definition hint_eqb (a b : hint) : bool :=
  match a, b with
  | None, None => true
  | Some x, Some y => lf_eqb x y
  | _, _ => false
  end.

(** ** Interest *)
Inductive interest := never | sometimes | always.
Definition is_never (i : interest) := match i with never => true | _ => false end.
Definition is_sometimes (i : interest) := match i with sometimes => true | _ => false end.
Definition is_always (i : interest) := match i with always => true | _ => false end.

(** ** Metadata *)
Record meta := {
  m_id : N;               (* callsite identity (only read by user closures) *)
  m_level : level;
  m_target : string;
  m_name : string;
  m_span : bool;          (* Kind::SPAN, else Kind::EVENT *)
  m_fields : list string
}.

Definition has_field (m : meta) (f : string) : bool := existsb (String.eqb f) (m_fields m).

(** ** Directives and directive sets (filter/directive.rs, filter/env/directive.rs) *)
Record sdir := { sd_target : option string; sd_fields : list string; sd_level : levelfilter }.
Record ddir := {
  dd_target : option string;
  dd_span : option string;
  dd_fields : list (string * option N);   (* field::Match: name, optional (u64) value matcher *)
  dd_level : levelfilter
}.
Definition mkdir := Build_ddir.

Definition then_with (c : comparison) (d : comparison) : comparison :=
  match c with Eq => d | _ => c end.
Definition cmp_opt {A} (cmp : A -> A -> comparison) (a b : option A) : comparison :=
  match a, b with
  | None, None => Eq
  | None, Some _ => Lt
  | Some _, None => Gt
  | Some x, Some y => cmp x y
  end.
Fixpoint cmp_list {A} (cmp : A -> A -> comparison) (a b : list A) : comparison :=
  match a, b with
  | [], [] => Eq
  | [], _ :: _ => Lt
  | _ :: _, [] => Gt
  | x :: a', y :: b' => then_with (cmp x y) (cmp_list cmp a' b')
  end.
Definition cmp_len (a b : string) : comparison := Nat.compare (String.length a) (String.length b).
Definition cmp_bool (a b : bool) : comparison :=
  match a, b with false, true => Lt | true, false => Gt | _, _ => Eq end.

(** [impl Ord for StaticDirective] (note the final [.reverse()]: most specific first) *)
Definition cmp_sdir (a b : sdir) : comparison :=
  CompOpp
    (then_with (cmp_opt cmp_len (sd_target a) (sd_target b))
    (then_with (Nat.compare (List.length (sd_fields a)) (List.length (sd_fields b)))
    (then_with (cmp_opt String.compare (sd_target a) (sd_target b))
               (cmp_list String.compare (sd_fields a) (sd_fields b))))).

(** [impl Ord for field::Match] *)
Definition cmp_fmatch (a b : string * option N) : comparison :=
  then_with (match snd a, snd b with Some _, None => Gt | None, Some _ => Lt | _, _ => Eq end)
  (then_with (String.compare (fst a) (fst b)) (cmp_opt N.compare (snd a) (snd b))).

(** [impl Ord for Directive] *)
Definition is_some {A} (o : option A) : bool := match o with Some _ => true | None => false end.
Definition cmp_ddir (a b : ddir) : comparison :=
  CompOpp
    (then_with (cmp_opt cmp_len (dd_target a) (dd_target b))
    (then_with (cmp_bool (is_some (dd_span a)) (is_some (dd_span b)))
    (then_with (Nat.compare (List.length (dd_fields a)) (List.length (dd_fields b)))
    (then_with (cmp_opt String.compare (dd_target a) (dd_target b))
    (then_with (cmp_opt String.compare (dd_span a) (dd_span b))
               (cmp_list cmp_fmatch (dd_fields a) (dd_fields b))))))).

Record dset (A : Type) := { ds_dirs : list A; ds_max : levelfilter }.
Arguments ds_dirs {A}.
Arguments ds_max {A}.
Definition ds_empty {A} : dset A := {| ds_dirs := []; ds_max := OFF |}.

(** [binary_search] on the sorted vector, then replace ([Ok]) or insert ([Err]) *)
Fixpoint ds_insert {A} (cmp : A -> A -> comparison) (d : A) (l : list A) : list A :=
  match l with
  | [] => [d]
  | x :: r =>
    match cmp d x with
    | Eq => d :: r
    | Lt => d :: x :: r
    | Gt => x :: ds_insert cmp d r
    end
  end.

(** does [binary_search] find an equal directive ([Ok]: it is replaced)? *)
Fixpoint ds_replaced {A} (cmp : A -> A -> comparison) (d : A) (l : list A) : bool :=
  match l with
  | [] => false
  | x :: r =>
    match cmp d x with
    | Eq => true
    | Lt => false
    | Gt => ds_replaced cmp d r
    end
  end.

(** [self.directives.iter().map(|d| *d.level()).max().unwrap_or(LevelFilter::OFF)] *)
Definition ds_levels_max {A} (lvl : A -> levelfilter) (l : list A) : levelfilter :=
  fold_left (fun acc d => lf_max acc (lvl d)) l OFF.

(** [DirectiveSet::add]: raise [max_level]; insert, or replace an equally specific directive and then recompute
    [max_level] over all directives (the replaced one may have been the one that set it) *)
Definition ds_add {A} (cmp : A -> A -> comparison) (lvl : A -> levelfilter) (s : dset A) (d : A) : dset A :=
  let raised := if frank (ds_max s) <? frank (lvl d) then lvl d else ds_max s in
  let dirs := ds_insert cmp d (ds_dirs s) in
  {| ds_dirs := dirs;
     ds_max := if ds_replaced cmp d (ds_dirs s) then ds_levels_max lvl dirs else raised |}.
Definition ds_of {A} (cmp : A -> A -> comparison) (lvl : A -> levelfilter) (ds : list A) : dset A :=
  fold_left (ds_add cmp lvl) ds ds_empty.

Definition target_matches (t : option string) (m : meta) : bool :=
  match t with None => true | Some t => String.prefix t (m_target m) end.

(** [impl Match for StaticDirective]::cares_about *)
Definition sdir_cares (d : sdir) (m : meta) : bool :=
  target_matches (sd_target d) m &&
  (if negb (m_span m) && negb (match sd_fields d with [] => true | _ => false end)
   then forallb (has_field m) (sd_fields d) else true).

(** [DirectiveSet<StaticDirective>::enabled]: the first (most specific) directive that cares decides *)
Definition statics_enabled (s : dset sdir) (m : meta) : bool :=
  match find (fun d => sdir_cares d m) (ds_dirs s) with
  | Some d => level_enabled (m_level m) (sd_level d)
  | None => false
  end.

(** [impl Match for Directive]::cares_about *)
Definition ddir_cares (d : ddir) (m : meta) : bool :=
  target_matches (dd_target d) m &&
  (match dd_span d with None => true | Some n => String.eqb n (m_name m) end) &&
  forallb (fun f => has_field m (fst f)) (dd_fields d).

Definition ddir_has_value (d : ddir) : bool := existsb (fun f => is_some (snd f)) (dd_fields d).
Definition ddir_is_dynamic (d : ddir) : bool :=
  is_some (dd_span d) || negb (match dd_fields d with [] => true | _ => false end).
Definition ddir_to_static (d : ddir) : option sdir :=
  if negb (is_some (dd_span d)) && negb (ddir_has_value d)
  then Some {| sd_target := dd_target d; sd_fields := map fst (dd_fields d); sd_level := dd_level d |}
  else None.

(** ** EnvFilter *)
Record envf := { ev_statics : dset sdir; ev_dynamics : dset ddir; ev_has_dyn : bool }.

Fixpoint filter_map {A B} (f : A -> option B) (l : list A) : list B :=
  match l with
  | [] => []
  | x :: r => match f x with Some y => y :: filter_map f r | None => filter_map f r end
  end.

(** [Builder::from_directives] + [Directive::make_tables] *)
Definition env_build (ds : list ddir) : envf :=
  let dyns := filter ddir_is_dynamic ds in
  let stats := filter (fun d => negb (ddir_is_dynamic d)) ds in
  {| ev_statics := ds_of cmp_sdir sd_level (filter_map ddir_to_static stats ++ filter_map ddir_to_static dyns);
     ev_dynamics := ds_of cmp_ddir dd_level dyns;
     ev_has_dyn := negb (match ds_dirs (ds_of cmp_ddir dd_level dyns) with [] => true | _ => false end) |}.

(** [Dynamics::matcher(metadata).is_some()]: some dynamic directive cares about the metadata *)
Definition env_matcher (e : envf) (m : meta) : bool :=
  existsb (fun d => ddir_cares d m) (ds_dirs (ev_dynamics e)).

(** does [register_callsite] insert the callsite into [by_cs]? *)
Definition env_registers (e : envf) (m : meta) : bool := ev_has_dyn e && m_span m && env_matcher e m.

Definition env_statics_enabled (e : envf) (m : meta) : bool := statics_enabled (ev_statics e) m.

(** [EnvFilter::register_callsite] *)
Definition env_interest (e : envf) (m : meta) : interest :=
  if env_registers e m then always
  else if env_statics_enabled e m then always
  else if ev_has_dyn e then sometimes else never.

(** [EnvFilter::max_level_hint] *)
Definition env_hint (e : envf) : hint :=
  if existsb ddir_has_value (ds_dirs (ev_dynamics e)) then Some (Some TRACE)
  else Some (lf_max (ds_max (ev_statics e)) (ds_max (ev_dynamics e))).

(** [SpanMatcher::level] for an instance of span [s] whose fields (in [m_fields] order) were recorded with the
    u64 values [vals]: the most verbose level among the caring directives whose value matchers all matched,
    [OFF] ([base_level]) when there is none. *)
Fixpoint assoc_val (names : list string) (vals : list N) (f : string) : option N :=
  match names, vals with
  | n :: names', v :: vals' => if String.eqb n f then Some v else assoc_val names' vals' f
  | _, _ => None
  end.
Definition fmatch_matched (s : meta) (vals : list N) (f : string * option N) : bool :=
  match snd f with
  | None => true
  | Some v => match assoc_val (m_fields s) vals (fst f) with Some w => v =? w | None => false end
  end.
Definition env_span_level (e : envf) (s : meta) (vals : list N) : levelfilter :=
  fold_left (fun acc d => if ddir_cares d s && forallb (fmatch_matched s vals) (dd_fields d)
                          then lf_max acc (dd_level d) else acc)
            (ds_dirs (ev_dynamics e)) OFF.

(** ** The context in which a dynamic decision is taken.
    [cx_n] is what user closures may observe; [cx_reg id m] says whether EnvFilter instance [id] holds a callsite
    matcher for [m] ([by_cs]); [cx_scope id] is that instance's stack of entered-span levels ([scope]).
    The theorems quantify over all contexts; [real_ctx] below computes the one a run of the protocol produces. *)
Record ctx := { cx_n : N; cx_reg : N -> meta -> bool; cx_scope : N -> list levelfilter }.

(** [EnvFilter::enabled] *)
Definition env_acc (e : envf) (id : N) (m : meta) (cx : ctx) : bool :=
  let static_part := level_enabled (m_level m) (ds_max (ev_statics e)) && env_statics_enabled e m in
  if ev_has_dyn e && level_enabled (m_level m) (ds_max (ev_dynamics e)) then
    if m_span m && cx_reg cx id m then true
    else if existsb (fun f => level_enabled (m_level m) f) (cx_scope cx id) then true
    else static_part
  else static_part.

(** ** Filters *)
Inductive filt :=
| FLevel (lf : levelfilter)
| FTargets (ds : list (option string * list string * levelfilter))   (* target, field names ([from_str] only), level *)
| FEnv (id : N) (ds : list ddir)
| FFn (f : meta -> bool) (h : hint)
| FDyn (f : meta -> N -> bool) (h : hint) (cs : option (meta -> interest))
| FAnd (a b : filt)
| FOr (a b : filt)
| FNot (a : filt)
| FSome (a : filt)       (* Option<F> = Some *)
| FNone                  (* Option<F> = None *)
| FBox (a : filt)
| FArc (a : filt)
| FReload (a : filt).    (* reload::Subscriber<F> holding [a] now *)

(** [Targets]: a [DirectiveSet<StaticDirective>].  The builder API ([with_target], [with_default]) only makes
    directives without field names; [Targets::from_str] also accepts [target[{field,..}]=level], and
    [Targets::{enabled, register_callsite, callsite_enabled}] all go through [DirectiveSet::enabled], which honours
    the field names for events ([cares_about]) *)
Definition targets_set (ds : list (option string * list string * levelfilter)) : dset sdir :=
  ds_of cmp_sdir sd_level
        (map (fun d => {| sd_target := fst (fst d); sd_fields := snd (fst d); sd_level := snd d |}) ds).

Definition below_hint (h : hint) (m : meta) : bool :=
  match h with None => true | Some lf => level_enabled (m_level m) lf end.

(** [Filter::callsite_enabled] *)
Fixpoint f_int (f : filt) (m : meta) : interest :=
  match f with
  | FLevel lf => if level_enabled (m_level m) lf then always else never
  | FTargets ds => if statics_enabled (targets_set ds) m then always else never
  | FEnv _ ds => env_interest (env_build ds) m
  | FFn g _ => if g m then always else never
  | FDyn _ h cs =>
    match cs with
    | Some g => g m
    | None => if below_hint h m then sometimes else never
    end
  | FAnd a b =>
    let ia := f_int a m in
    if is_never ia then ia
    else let ib := f_int b m in
         if negb (is_always ib) then ib else ia
  | FOr a b =>
    let ia := f_int a m in
    let ib := f_int b m in
    if is_always ia || is_always ib then always
    else if is_sometimes ia || is_sometimes ib then sometimes
    else never
  | FNot a =>
    match f_int a m with always => never | never => always | sometimes => sometimes end
  | FSome a => f_int a m
  | FNone => always
  | FBox a => f_int a m
  | FArc a => f_int a m
  | FReload a => f_int a m
  end.

(** [Filter::max_level_hint] *)
Fixpoint f_hint (f : filt) : hint :=
  match f with
  | FLevel lf => Some lf
  | FTargets ds => Some (ds_max (targets_set ds))
  | FEnv _ ds => env_hint (env_build ds)
  | FFn _ h => h
  | FDyn _ h _ => h
  | FAnd a b => hint_min (f_hint a) (f_hint b)
  | FOr a b => match f_hint a, f_hint b with Some x, Some y => Some (lf_max x y) | _, _ => None end
  | FNot _ => None
  | FSome a => f_hint a
  | FNone => None
  | FBox a => f_hint a
  | FArc a => f_hint a
  | FReload a => f_hint a
  end.

(** [Filter::enabled] *)
Fixpoint f_acc (f : filt) (m : meta) (cx : ctx) : bool :=
  match f with
  | FLevel lf => level_enabled (m_level m) lf
  | FTargets ds => statics_enabled (targets_set ds) m
  | FEnv id ds => env_acc (env_build ds) id m cx
  | FFn g _ => g m
  | FDyn g _ _ => g m (cx_n cx)
  | FAnd a b => f_acc a m cx && f_acc b m cx
  | FOr a b => f_acc a m cx || f_acc b m cx
  | FNot a => negb (f_acc a m cx)
  | FSome a => f_acc a m cx
  | FNone => true
  | FBox a => f_acc a m cx
  | FArc a => f_acc a m cx
  | FReload a => f_acc a m cx
  end.

(** EnvFilter instances reached by a [callsite_enabled] pass (And short-circuits on [never]) *)
Fixpoint f_asked (f : filt) (m : meta) : list N :=
  match f with
  | FEnv id _ => [id]
  | FAnd a b => f_asked a m ++ (if is_never (f_int a m) then [] else f_asked b m)
  | FOr a b => f_asked a m ++ f_asked b m
  | FNot a => f_asked a m
  | FSome a => f_asked a m
  | FBox a => f_asked a m
  | FArc a => f_asked a m
  | FReload a => f_asked a m
  | _ => []
  end.

Fixpoint f_envs (f : filt) : list (N * list ddir) :=
  match f with
  | FEnv id ds => [(id, ds)]
  | FAnd a b => f_envs a ++ f_envs b
  | FOr a b => f_envs a ++ f_envs b
  | FNot a => f_envs a
  | FSome a => f_envs a
  | FBox a => f_envs a
  | FArc a => f_envs a
  | FReload a => f_envs a
  | _ => []
  end.

(** ** Layers and stacks *)
Inductive layer :=
| Rec (name : N)                     (* a recording leaf: default summaries, receives everything it is shown *)
| Glob (f : filt)                    (* a (leaf) filter used as a plain layer: a global filter *)
| Filtered (l : layer) (f : filt)    (* l.with_filter(f) *)
| Pair (a b : layer)                 (* b.and_then(a): Layered { subscriber: a, inner: b } as a Subscribe *)
| LSome (l : layer)
| LNone
| LVec (ls : list layer)
| LBox (l : layer)
| LReload (l : layer)                (* reload::Subscriber<L> holding [l] now *)
| Identity.

Inductive coll :=
| Registry
| With (l : layer) (c : coll).       (* c.with(l): Layered { subscriber: l, inner: c } as a Collect *)

(** downcast to [MagicPsfDowncastMarker] succeeds *)
Fixpoint psf (l : layer) : bool :=
  match l with
  | Rec _ => false
  | Glob _ => false
  | Filtered _ _ => true
  | Pair a b => psf a && psf b
  | LSome l => psf l
  | LNone => false
  | LVec ls => forallb psf ls && negb (match ls with [] => true | _ => false end)
  | LBox l => psf l
  | LReload _ => false
  | Identity => false
  end.

(** downcast to [NoneLayerMarker] succeeds *)
Fixpoint is_none (l : layer) : bool :=
  match l with
  | Rec _ => false
  | Glob _ => false
  | Filtered _ _ => false
  | Pair a b => is_none a || is_none b
  | LSome l => is_none l
  | LNone => true
  | LVec ls => (match ls with [] => true | _ => false end) || existsb is_none ls
  | LBox l => is_none l
  | LReload l => is_none l
  | Identity => false
  end.

Fixpoint c_psf (c : coll) : bool :=
  match c with Registry => false | With l c' => psf l || c_psf c' end.
Fixpoint c_is_none (c : coll) : bool :=
  match c with Registry => false | With l c' => is_none l || c_is_none c' end.
Definition is_registry (c : coll) : bool := match c with Registry => true | _ => false end.

(** the three booleans of [Layered] *)
Record flags := { fl_inner_is_registry : bool; fl_has_psf : bool; fl_inner_has_psf : bool }.

(** [Layered::new] as called by [and_then]: [inner_is_registry] is decided from the type of the INNER VALUE
    ([TypeId::of::<B>() == TypeId::of::<Registry>()]), and the inner value of an [and_then] pair is a subscriber,
    never the registry *)
Definition pair_flags (a b : layer) : flags :=
  {| fl_inner_is_registry := false; fl_has_psf := psf a; fl_inner_has_psf := psf b |}.
(** [Layered::new] as called by [with_collector] *)
Definition with_flags (l : layer) (c : coll) : flags :=
  {| fl_inner_is_registry := is_registry c; fl_has_psf := psf l; fl_inner_has_psf := c_psf c || is_registry c |}.

(** [Layered::pick_level_hint] *)
Definition pick_level_hint (fl : flags) (subscriber_is_none inner_is_none : bool) (outer inner : hint) : hint :=
  if fl_inner_is_registry fl then outer
  else if fl_has_psf fl && fl_inner_has_psf fl then
    match outer, inner with Some o, Some i => Some (lf_max o i) | _, _ => None end
  else if fl_has_psf fl && hint_is_none inner then None
  else if fl_inner_has_psf fl && hint_is_none outer then None
  else if subscriber_is_none then
    match inner with None => None | Some i => hint_max outer (Some i) end
  else if inner_is_none && hint_is_off inner then outer
  else hint_max outer inner.

Definition vec_hint_step (acc : hint) (h : hint) : hint :=
  match acc, h with Some mx, Some x => Some (lf_max x mx) | _, _ => None end.

(** [Subscribe::max_level_hint] *)
Fixpoint l_hint (l : layer) : hint :=
  match l with
  | Rec _ => None
  | Glob f => f_hint f
  | Filtered _ f => f_hint f
  | Pair a b => pick_level_hint (pair_flags a b) (is_none a) (is_none b) (l_hint a) (l_hint b)
  | LSome l => l_hint l
  | LNone => Some OFF
  | LVec ls => fold_left (fun acc e => vec_hint_step acc (l_hint e)) ls (Some OFF)
  | LBox l => l_hint l
  | LReload l => l_hint l
  | Identity => None
  end.

(** [Collect::max_level_hint] of the built stack *)
Fixpoint c_hint (c : coll) : hint :=
  match c with
  | Registry => None
  | With l c' => pick_level_hint (with_flags l c') (is_none l) (c_is_none c') (l_hint l) (c_hint c')
  end.

(** *** The interest pass.  [pend] is the thread-local [FilterState::interest]. *)
Definition pend := option interest.

(** [FilterState::add_interest] *)
Definition add_interest (p : pend) (i : interest) : pend :=
  match p with
  | None => Some i
  | Some c =>
    if (is_always c && negb (is_always i)) || (is_never c && negb (is_never i)) then Some sometimes else Some c
  end.

(** [Layered::pick_interest]; [inner] is the closure that registers the callsite with the inner side *)
Definition pick_interest (fl : flags) (outer : interest) (inner : pend -> interest * pend) (p : pend)
  : interest * pend :=
  if fl_has_psf fl then inner p
  else if is_never outer then (never, None) (* FilterState::take_interest() *)
  else
    let '(i, p') := inner p in
    if is_sometimes outer then (sometimes, p')
    else if is_never i && fl_inner_has_psf fl then (sometimes, p')
    else (i, p').

(** [Vec::register_callsite]: every element is asked; the two accumulators [(any_never, all_always)] *)
Definition vec_flags := (bool * bool)%type.
Definition vec_flags_init : vec_flags := (false, true).
Definition vec_flags_step (st : vec_flags) (i : interest) : vec_flags := (fst st || is_never i, snd st && is_always i).
Definition vec_flags_result (st : vec_flags) : interest :=
  if fst st then never else if snd st then always else sometimes.

(** [Subscribe::register_callsite] *)
Fixpoint l_reg (l : layer) (m : meta) (p : pend) : interest * pend :=
  match l with
  | Rec _ => (always, p)
  | Glob f => (f_int f m, p)
  | Filtered l' f =>
    let i := f_int f m in
    let p1 := if is_never i then p else snd (l_reg l' m p) in
    (always, add_interest p1 i)
  | Pair a b =>
    let '(o, p1) := l_reg a m p in
    pick_interest (pair_flags a b) o (l_reg b m) p1
  | LSome l => l_reg l m p
  | LNone => (always, p)
  | LVec ls =>
    let st := fold_left (fun st e => let '(i, p') := l_reg e m (snd st) in (vec_flags_step (fst st) i, p'))
                        ls (vec_flags_init, p) in
    (vec_flags_result (fst st), snd st)
  | LBox l => l_reg l m p
  | LReload l => l_reg l m p
  | Identity => (always, p)
  end.

Definition l_int (l : layer) (m : meta) : interest := fst (l_reg l m None).

(** number of [Filtered] in a tree ([Registry::next_filter_id] after [on_subscribe]) *)
Fixpoint l_nfilt (l : layer) : N :=
  match l with
  | Filtered l' _ => 1 + l_nfilt l'
  | Pair a b => l_nfilt a + l_nfilt b
  | LSome l => l_nfilt l
  | LVec ls => fold_left (fun n e => n + l_nfilt e) ls 0
  | LBox l => l_nfilt l
  | LReload l => l_nfilt l
  | _ => 0
  end.
Fixpoint c_nfilt (c : coll) : N :=
  match c with Registry => 0 | With l c' => l_nfilt l + c_nfilt c' end.

(** [Collect::register_callsite]; [has] = [Registry::has_per_subscriber_filters()] *)
Fixpoint c_reg (has : bool) (c : coll) (m : meta) (p : pend) : interest * pend :=
  match c with
  | Registry =>
    if has then (match p with Some i => i | None => always end, None) (* take_interest().unwrap_or(always) *)
    else (always, p)
  | With l c' =>
    let '(o, p1) := l_reg l m p in
    pick_interest (with_flags l c') o (c_reg has c' m) p1
  end.

Definition c_has (c : coll) : bool := 0 <? c_nfilt c.
Definition c_interest (c : coll) (m : meta) : interest := fst (c_reg (c_has c) c m None).
(** the thread-local state a whole pass leaves behind *)
Definition c_pend_after (c : coll) (m : meta) : pend := snd (c_reg (c_has c) c m None).

(** *** The dynamic decision.
    [l_en] is [Subscribe::enabled] (a [false] disables the span/event for the whole stack); [l_recv] lists the
    recording leaves whose [on_event] / [on_new_span] runs when the emission follows that [enabled] pass: a
    [Filtered] forwards iff its own filter accepted in that pass (per-layer filter state, C07). *)
Fixpoint l_en (l : layer) (m : meta) (cx : ctx) : bool :=
  match l with
  | Rec _ => true
  | Glob f => f_acc f m cx
  | Filtered l' f => if f_acc f m cx then l_en l' m cx else true
  | Pair a b => l_en a m cx && l_en b m cx
  | LSome l => l_en l m cx
  | LNone => true
  | LVec ls => forallb (fun e => l_en e m cx) ls
  | LBox l => l_en l m cx
  | LReload l => l_en l m cx
  | Identity => true
  end.

Fixpoint l_recv (l : layer) (m : meta) (cx : ctx) : list N :=
  match l with
  | Rec n => [n]
  | Glob _ => []
  | Filtered l' f => if f_acc f m cx then l_recv l' m cx else []
  | Pair a b => l_recv b m cx ++ l_recv a m cx
  | LSome l => l_recv l m cx
  | LNone => []
  | LVec ls => flat_map (fun e => l_recv e m cx) ls
  | LBox l => l_recv l m cx
  | LReload l => l_recv l m cx
  | Identity => []
  end.

(** the leaves reached when [enabled] is NOT consulted (cached [always]): all of them *)
Fixpoint l_all (l : layer) : list N :=
  match l with
  | Rec n => [n]
  | Glob _ => []
  | Filtered l' _ => l_all l'
  | Pair a b => l_all b ++ l_all a
  | LSome l => l_all l
  | LNone => []
  | LVec ls => flat_map l_all ls
  | LBox l => l_all l
  | LReload l => l_all l
  | Identity => []
  end.

(** [Registry::enabled] is [FilterMap::any_enabled], which is [true] (since d650aab also with a full bitmap) *)
Fixpoint c_en (c : coll) (m : meta) (cx : ctx) : bool :=
  match c with Registry => true | With l c' => l_en l m cx && c_en c' m cx end.
Fixpoint c_recv (c : coll) (m : meta) (cx : ctx) : list N :=
  match c with Registry => [] | With l c' => c_recv c' m cx ++ l_recv l m cx end.
Fixpoint c_all (c : coll) : list N :=
  match c with Registry => [] | With l c' => c_all c' ++ l_all l end.

(** who receives an emission of [m] in context [cx] when [enabled] is consulted *)
Definition deliver (c : coll) (m : meta) (cx : ctx) : list N :=
  if c_en c m cx then c_recv c m cx else [].

(** *** Which EnvFilter instances see [register_callsite(m)] (short-circuits of Filtered / pick_interest) *)
Fixpoint l_asked (l : layer) (m : meta) : list N :=
  match l with
  | Glob f => f_asked f m
  | Filtered l' f => f_asked f m ++ (if is_never (f_int f m) then [] else l_asked l' m)
  | Pair a b => l_asked a m ++ (if psf a || negb (is_never (l_int a m)) then l_asked b m else [])
  | LSome l => l_asked l m
  | LVec ls => flat_map (fun e => l_asked e m) ls
  | LBox l => l_asked l m
  | LReload l => l_asked l m
  | _ => []
  end.
Fixpoint c_asked (c : coll) (m : meta) : list N :=
  match c with
  | Registry => []
  | With l c' =>
    l_asked l m ++ (if psf l || negb (is_never (l_int l m)) then c_asked c' m else [])
  end.

Fixpoint l_envs (l : layer) : list (N * list ddir) :=
  match l with
  | Glob f => f_envs f
  | Filtered l' f => f_envs f ++ l_envs l'
  | Pair a b => l_envs a ++ l_envs b
  | LSome l => l_envs l
  | LVec ls => flat_map l_envs ls
  | LBox l => l_envs l
  | LReload l => l_envs l
  | _ => []
  end.
Fixpoint c_envs (c : coll) : list (N * list ddir) :=
  match c with Registry => [] | With l c' => l_envs l ++ c_envs c' end.

(** The context a real run produces: every callsite was registered once (pass 1), then the spans [spans]
    (metadata, recorded u64 values) were created and entered, outermost first, with a clean per-layer state. *)
Definition env_lookup (envs : list (N * list ddir)) (id : N) : envf :=
  match find (fun e => fst e =? id) envs with Some e => env_build (snd e) | None => env_build [] end.
Definition real_ctx (envs : list (N * list ddir)) (asked : meta -> list N) (n : N) (spans : list (meta * list N))
  : ctx :=
  let reg := fun id m => existsb (N.eqb id) (asked m) && env_registers (env_lookup envs id) m in
  {| cx_n := n;
     cx_reg := reg;
     cx_scope := fun id =>
       flat_map (fun s => if reg id (fst s) then [env_span_level (env_lookup envs id) (fst s) (snd s)] else [])
                spans |}.

(** ** Classes of configurations delimited by the known findings (negated in the theorems) *)

(** F12: an EnvFilter answers [always] for a span because a span directive matches it, while the directive set
    can never enable that level and no static directive does *)
Definition env_f12 (e : envf) (m : meta) : bool :=
  env_registers e m && negb (level_enabled (m_level m) (ds_max (ev_dynamics e))) &&
  negb (level_enabled (m_level m) (ds_max (ev_statics e)) && env_statics_enabled e m).
Definition f_f12 (f : filt) (m : meta) : bool :=
  existsb (fun e => env_f12 (env_build (snd e)) m) (f_envs f).

Fixpoint l_filters (l : layer) : list filt :=
  match l with
  | Glob f => [f]
  | Filtered l' f => f :: l_filters l'
  | Pair a b => l_filters a ++ l_filters b
  | LSome l => l_filters l
  | LVec ls => flat_map l_filters ls
  | LBox l => l_filters l
  | LReload l => l_filters l
  | _ => []
  end.
Fixpoint c_filters (c : coll) : list filt :=
  match c with Registry => [] | With l c' => l_filters l ++ c_filters c' end.
Definition c_f12 (c : coll) (m : meta) : bool := existsb (fun f => f_f12 f m) (c_filters c).

(** the answer a Vec gives, as a function of its elements' answers *)
Definition conj_interest (is : list interest) : interest :=
  if existsb is_never is then never else if forallb is_always is then always else sometimes.

(** F82: a Filtered whose filter does not say [never] wraps a layer that does not say [always]
    ([Filtered::register_callsite] ignores the wrapped layer's own Interest, [Filtered::enabled] does ask it) *)
Fixpoint l_f82 (l : layer) (m : meta) : bool :=
  match l with
  | Filtered l' f => (negb (is_never (f_int f m)) && negb (is_always (l_int l' m))) || l_f82 l' m
  | Pair a b => l_f82 a m || l_f82 b m
  | LSome l => l_f82 l m
  | LVec ls => existsb (fun e => l_f82 e m) ls
  | LBox l => l_f82 l m
  | LReload l => l_f82 l m
  | _ => false
  end.
Fixpoint c_f82 (c : coll) (m : meta) : bool :=
  match c with Registry => false | With l c' => l_f82 l m || c_f82 c' m end.

(** F83.  [pick_level_hint] orders hints as [None < Some _], so when one side of a [Layered] has no hint and the
    other side has [Some x], the merged hint can be [Some x]: that is right when the hinted side contains a
    GLOBAL filter bounded by [x] (its [enabled] then rejects everything above [x] for the whole stack).  The code
    tries to make sure of that with the per-subscriber-filter flags and the none-layer marker.  [gbound] is the
    tightest level above which a tree's [enabled] is guaranteed to say no; [merge_bad] says that a merge
    published [Some x] taken from one side only although that side has no global filter bounded by [x]. *)
Definition opt_lf_min (a b : hint) : hint :=
  match a, b with
  | None, x => x
  | x, None => x
  | Some x, Some y => Some (lf_min x y)
  end.
Fixpoint gbound (l : layer) : hint :=
  match l with
  | Glob f => f_hint f
  | Pair a b => opt_lf_min (gbound a) (gbound b)
  | LSome l => gbound l
  | LVec ls => fold_right (fun e acc => opt_lf_min (gbound e) acc) None ls
  | LBox l => gbound l
  | LReload l => gbound l
  | _ => None
  end.
Fixpoint c_gbound (c : coll) : hint :=
  match c with Registry => None | With l c' => opt_lf_min (gbound l) (c_gbound c') end.
Definition gok (g : hint) (x : levelfilter) : bool :=
  match g with Some y => frank y <=? frank x | None => false end.
Definition merge_bad (o i r : hint) (go gi : hint) : bool :=
  match r with
  | None => false
  | Some x => (hint_is_none o && negb (gok gi x)) || (hint_is_none i && negb (gok go x))
  end.
Fixpoint l_f83 (l : layer) : bool :=
  match l with
  | Pair a b => merge_bad (l_hint a) (l_hint b) (l_hint (Pair a b)) (gbound a) (gbound b) || l_f83 a || l_f83 b
  | LSome l => l_f83 l
  | LVec ls => existsb l_f83 ls
  | LBox l => l_f83 l
  | LReload l => l_f83 l
  | _ => false
  end.
Fixpoint c_f83 (c : coll) : bool :=
  match c with
  | Registry => false
  | With l c' =>
    (negb (is_registry c') && merge_bad (l_hint l) (c_hint c') (c_hint (With l c')) (gbound l) (c_gbound c'))
    || l_f83 l || c_f83 c'
  end.

(** the documented restriction of [reload]: a [Filtered] inside a [reload::Subscriber] *)
Fixpoint l_has_filtered (l : layer) : bool :=
  match l with
  | Filtered _ _ => true
  | Pair a b => l_has_filtered a || l_has_filtered b
  | LSome l => l_has_filtered l
  | LVec ls => existsb l_has_filtered ls
  | LBox l => l_has_filtered l
  | LReload l => l_has_filtered l
  | _ => false
  end.
Fixpoint l_reloaded_filtered (l : layer) : bool :=
  match l with
  | Filtered l' _ => l_reloaded_filtered l'
  | Pair a b => l_reloaded_filtered a || l_reloaded_filtered b
  | LSome l => l_reloaded_filtered l
  | LVec ls => existsb l_reloaded_filtered ls
  | LBox l => l_reloaded_filtered l
  | LReload l => l_has_filtered l
  | _ => false
  end.
Fixpoint c_reloaded_filtered (c : coll) : bool :=
  match c with Registry => false | With l c' => l_reloaded_filtered l || c_reloaded_filtered c' end.

(** ** The metadata pool of the correspondence harness (harness/summary/src/bin/h_summary.rs) *)
Definition pool_size : N := 80.
Definition pool_meta (i : N) : meta :=
  let fs := N.modulo i 2 in
  let span := N.eqb (N.modulo (i / 2) 2) 1 in
  {| m_id := i;
     m_level := match i / 16 with 0 => ERROR | 1 => WARN | 2 => INFO | 3 => DEBUG | _ => TRACE end;
     m_target := match N.modulo (i / 4) 4 with 0 => "a" | 1 => "ab" | 2 => "a::b" | _ => "b" end%string;
     m_name := (if negb span then "ev" else if N.eqb fs 0 then "sp" else "sq")%string;
     m_span := span;
     m_fields := if N.eqb fs 0 then [] else ["x"; "y"]%string |}.
Definition pool : list meta := map (fun i => pool_meta (N.of_nat i)) (seq 0 80).

Definition tab_fn (bits : N) (m : meta) : bool := N.testbit bits (m_id m).
Definition tab_dyn (bits : N) (m : meta) (n : N) : bool := N.testbit bits (n * pool_size + m_id m)%N.
Definition tab_cs (al nv : N) (m : meta) : interest :=
  if N.testbit al (m_id m) then always else if N.testbit nv (m_id m) then never else sometimes.

(** encodings for the driver *)
Definition enc_i (i : interest) : N := match i with never => 0 | sometimes => 1 | always => 2 end.
Definition enc_h (h : hint) : N := match h with None => 99 | Some f => frank f end.
Definition enc_b (b : bool) : N := if b then 1 else 0.
Definition enc_p (p : pend) : N := match p with None => 9 | Some i => enc_i i end.

Definition span_insts (spans : list (N * list N)) : list (meta * list N) :=
  map (fun s => (pool_meta (fst s), snd s)) spans.
Definition prefixes {A} (l : list A) : list (list A) := map (fun k => firstn k l) (seq 0 (S (List.length l))).

(** one filter case: (hint, interests, acc per context, F12 class per metadata) *)
Definition eval_filter (f : filt) (spans : list (N * list N)) :=
  let ctxs := map (fun sp => real_ctx (f_envs f) (f_asked f) (N.of_nat (List.length sp)) (span_insts sp))
                  (prefixes spans) in
  (enc_h (f_hint f),
   map (fun m => enc_i (f_int f m)) pool,
   map (fun cx => map (fun m => enc_b (f_acc f m cx)) pool) ctxs,
   map (fun m => enc_b (f_f12 f m)) pool).

(** one stack case: (hint, interests, per context (enabled, deliveries), all leaves, classes).
    [has] is the Registry's [has_per_subscriber_filters()] = "some Filtered registered a FilterId when the stack was
    built"; it can be stale (true although no Filtered is left) after a [Handle::reload] of a layer *)
Definition eval_stack_has (has : bool) (c : coll) (spans : list (N * list N)) :=
  let ctxs := map (fun sp => real_ctx (c_envs c) (c_asked c) (N.of_nat (List.length sp)) (span_insts sp))
                  (prefixes spans) in
  (enc_h (c_hint c),
   map (fun m => enc_i (fst (c_reg has c m None))) pool,
   map (fun cx => (map (fun m => enc_b (c_en c m cx)) pool, map (fun m => c_recv c m cx) pool)) ctxs,
   c_all c,
   (map (fun m => enc_b (c_f12 c m)) pool,
    map (fun m => enc_b (c_f82 c m)) pool,
    [enc_b (c_f83 c); enc_b (c_reloaded_filtered c);
     enc_b (forallb (fun m => match snd (c_reg has c m None) with None => true | Some _ => false end) pool);
     c_nfilt c])).
Definition eval_stack (c : coll) (spans : list (N * list N)) := eval_stack_has (c_has c) c spans.
(** a stack observed while a [reload::Subscriber] layer holds one value ([c0]), and again after [Handle::reload]
    installed another ([c1]): the flags cached by [Layered::new] do not change ([psf (LReload _) = false] whatever
    it holds), the none marker is probed afresh, the Registry keeps the filter ids registered for [c0] *)
Definition eval_swap (c0 c1 : coll) (spans : list (N * list N)) :=
  [eval_stack c0 spans; eval_stack_has (c_has c0 || c_has c1) c1 spans].
