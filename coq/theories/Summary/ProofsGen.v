(** C08 — the tie between the Rust source and the hand-written model of the pure summary-merging functions.
    [TVGen.Gen_summary] is regenerated from /repo's sources by translators/summary_shapes.py on every run; here
    each translated function is proved equal to the model's function on its whole domain (all finite: booleans,
    the three interests, the seven hints), and every shape that is read as a flag is required to be the one the
    model mirrors.  A change of the source that alters one of these functions breaks this file. *)
From Coq Require Import List NArith Bool String.
Import ListNotations.
From TV Require Import Summary.Model.
From TVGen Require Import Gen_summary.
Local Open Scope N_scope.

Ltac all_hints h := destruct h as [[[]|]|].
Ltac all_ints i := destruct i.

(** every source shape was recognised by the translator *)
Lemma source_recognised : gen_summary_unrecognised = [].
Proof. reflexivity. Qed.

(** [Layered::pick_level_hint] *)
Lemma source_pick_level_hint : forall reg has ihas snone inone o i,
  gen_pick_level_hint reg has ihas snone inone o i =
  pick_level_hint {| fl_inner_is_registry := reg; fl_has_psf := has; fl_inner_has_psf := ihas |} snone inone o i.
Proof. intros [] [] [] [] [] o i; all_hints o; all_hints i; reflexivity. Qed.

(** [Layered::pick_interest]: the answer, whether the inner side is asked, whether the pending interest is taken *)
Lemma source_pick_interest : forall has ihas o i (p : pend),
  let fl := {| fl_inner_is_registry := false; fl_has_psf := has; fl_inner_has_psf := ihas |} in
  let '(r, asked, taken) := gen_pick_interest has ihas o i in
  pick_interest fl o (fun q => (i, q)) p = (r, if taken then None else p) /\
  (asked = false -> forall inner, pick_interest fl o inner p = (r, None)).
Proof. intros [] [] o i p; all_ints o; all_ints i; simpl; split; try reflexivity; intros H; try discriminate H; reflexivity. Qed.

(** [Layered::new]: [inner_is_registry] is decided from the inner value's type *)
Lemma source_inner_is_registry : gen_inner_is_registry_from_inner_value = true.
Proof. reflexivity. Qed.

(** the combinators of filter/subscriber_filters/combinator.rs: [f_int] / [f_hint] of And, Or, Not *)
Lemma source_combinators : forall a b m,
  f_int (FAnd a b) m = gen_and_interest (f_int a m) (f_int b m) /\
  f_int (FOr a b) m = gen_or_interest (f_int a m) (f_int b m) /\
  f_int (FNot a) m = gen_not_interest (f_int a m) (f_int a m) /\
  f_hint (FAnd a b) = gen_and_hint (f_hint a) (f_hint b) /\
  f_hint (FOr a b) = gen_or_hint (f_hint a) (f_hint b) /\
  f_hint (FNot a) = gen_not_hint (f_hint a) (f_hint a).
Proof.
  intros a b m. simpl.
  destruct (f_int a m), (f_int b m); destruct (f_hint a) as [[[]|]|], (f_hint b) as [[[]|]|];
    repeat split; reflexivity.
Qed.

(** [FilterState::add_interest] *)
Lemma source_add_interest : forall p i, gen_add_interest p i = add_interest p i.
Proof. intros [[]|] []; reflexivity. Qed.

(** shapes read as flags: the Vec / Option / Filtered / EnvFilter / DirectiveSet summaries the model mirrors *)
Lemma source_flags :
  gen_vec_interest_is_conjunction = true /\ gen_vec_enabled_is_all = true /\ gen_vec_hint_is_max_from_off = true /\
  gen_vec_markers = true /\ gen_layered_markers = true /\ gen_reload_markers = true /\ gen_option_none_summaries = true /\ gen_filtered_summaries = true /\
  gen_targets_summaries = true /\ gen_env_hint = true /\ gen_directive_add_max_exact = true.
Proof. repeat split; reflexivity. Qed.
