(** C08 — proofs, part 2: layers and stacks (interest pass). *)
From Coq Require Import List NArith Bool String Lia.
Import ListNotations.
From TV Require Import Summary.Model Summary.Proofs.
Local Open Scope N_scope.
Local Arguments N.add : simpl never.
Local Arguments N.mul : simpl never.
Local Arguments N.sub : simpl never.
Local Arguments N.leb : simpl never.
Local Arguments N.ltb : simpl never.
Local Arguments N.eqb : simpl never.
Local Arguments env_build : simpl never.

(** ** Structural induction over layer trees (the [Vec] case carries [Forall]) *)
Section LayerInd.
  Variable P : layer -> Prop.
  Hypothesis HRec : forall n, P (Rec n).
  Hypothesis HGlob : forall f, P (Glob f).
  Hypothesis HFiltered : forall l f, P l -> P (Filtered l f).
  Hypothesis HPair : forall a b, P a -> P b -> P (Pair a b).
  Hypothesis HSome : forall l, P l -> P (LSome l).
  Hypothesis HNone : P LNone.
  Hypothesis HVec : forall ls, Forall P ls -> P (LVec ls).
  Hypothesis HBox : forall l, P l -> P (LBox l).
  Hypothesis HReload : forall l, P l -> P (LReload l).
  Hypothesis HIdentity : P Identity.

  Fixpoint layer_ind' (l : layer) : P l :=
    match l with
    | Rec n => HRec n
    | Glob f => HGlob f
    | Filtered l f => HFiltered l f (layer_ind' l)
    | Pair a b => HPair a b (layer_ind' a) (layer_ind' b)
    | LSome l => HSome l (layer_ind' l)
    | LNone => HNone
    | LVec ls =>
      HVec ls ((fix go (ls : list layer) : Forall P ls :=
                  match ls with
                  | [] => Forall_nil P
                  | x :: r => Forall_cons x (layer_ind' x) (go r)
                  end) ls)
    | LBox l => HBox l (layer_ind' l)
    | LReload l => HReload l (layer_ind' l)
    | Identity => HIdentity
    end.
End LayerInd.

(** ** The interest pass splits into a pure answer and a transformer of the pending interest *)
Definition l_pend (l : layer) (m : meta) (p : pend) : pend := snd (l_reg l m p).

Definition pick_int (fl : flags) (o i : interest) : interest :=
  if fl_has_psf fl then i
  else if is_never o then never
  else if is_sometimes o then sometimes
  else if is_never i && fl_inner_has_psf fl then sometimes
  else i.

Lemma pick_interest_eq : forall fl o inner p,
  pick_interest fl o inner p =
  (pick_int fl o (fst (inner p)),
   if fl_has_psf fl then snd (inner p) else if is_never o then None else snd (inner p)).
Proof.
  intros. unfold pick_interest, pick_int. destruct (fl_has_psf fl).
  - destruct (inner p); reflexivity.
  - destruct (is_never o); [reflexivity|]. destruct (inner p) as [i p']. simpl.
    destruct (is_sometimes o); [reflexivity|]. destruct (is_never i && fl_inner_has_psf fl); reflexivity.
Qed.

Definition vec_step (m : meta) (st : vec_flags * pend) (e : layer) : vec_flags * pend :=
  let '(i, p') := l_reg e m (snd st) in (vec_flags_step (fst st) i, p').

Lemma l_reg_vec : forall ls m p,
  l_reg (LVec ls) m p =
  (vec_flags_result (fst (fold_left (vec_step m) ls (vec_flags_init, p))),
   snd (fold_left (vec_step m) ls (vec_flags_init, p))).
Proof. reflexivity. Qed.

Lemma vec_fold_fst : forall m ls,
  Forall (fun e => forall p, fst (l_reg e m p) = l_int e m) ls ->
  forall acc p, fst (fold_left (vec_step m) ls (acc, p)) = fold_left vec_flags_step (map (fun e => l_int e m) ls) acc.
Proof.
  intros m ls H. induction H as [|e t He Ht IH]; intros acc p; simpl; [reflexivity|].
  unfold vec_step at 2. simpl. specialize (He p). destruct (l_reg e m p) as [i p'] eqn:E. simpl in He. subst i.
  apply IH.
Qed.

Lemma vec_fold_snd : forall m ls acc p,
  snd (fold_left (vec_step m) ls (acc, p)) = fold_left (fun q e => l_pend e m q) ls p.
Proof.
  intros m ls. induction ls as [|e t IH]; intros acc p; simpl; [reflexivity|].
  unfold vec_step at 2. simpl. unfold l_pend at 2. destruct (l_reg e m p) as [i p']. simpl. apply IH.
Qed.

(** the two accumulators of [Vec::register_callsite] compute the conjunction of the elements' answers *)
Lemma vec_flags_fold : forall is a b,
  vec_flags_result (fold_left vec_flags_step is (a, b)) =
  if a || existsb is_never is then never else if b && forallb is_always is then always else sometimes.
Proof.
  induction is as [|i t IH]; intros a b; simpl.
  - rewrite orb_false_r, andb_true_r. reflexivity.
  - unfold vec_flags_step at 2. simpl. rewrite IH. rewrite <- orb_assoc, <- andb_assoc. reflexivity.
Qed.

Lemma vec_flags_conj : forall is, vec_flags_result (fold_left vec_flags_step is vec_flags_init) = conj_interest is.
Proof. intros. unfold vec_flags_init. rewrite vec_flags_fold. reflexivity. Qed.

(** the answer does not depend on the pending interest *)
Lemma l_reg_fst : forall l m p, fst (l_reg l m p) = l_int l m.
Proof.
  induction l using layer_ind'; intros m p; unfold l_int; simpl; try reflexivity.
  - (* Pair *)
    destruct (l_reg l1 m p) as [o p1] eqn:E1. destruct (l_reg l1 m None) as [o' p1'] eqn:E2.
    rewrite !pick_interest_eq. simpl.
    assert (o = o') as ->.
    { pose proof (IHl1 m p) as A. pose proof (IHl1 m None) as B. rewrite E1 in A. rewrite E2 in B. simpl in *. congruence. }
    f_equal. rewrite (IHl2 m p1), (IHl2 m p1'). reflexivity.
  - apply IHl.
  - (* Vec *)
    fold (vec_step m).
    assert (F : Forall (fun e => forall p, fst (l_reg e m p) = l_int e m) ls).
    { eapply Forall_impl; [|exact H]. intros e He q. apply He. }
    rewrite !(vec_fold_fst m ls F). reflexivity.
  - apply IHl.
  - apply IHl.
Qed.

Lemma l_reg_eq : forall l m p, l_reg l m p = (l_int l m, l_pend l m p).
Proof. intros. rewrite <- (l_reg_fst l m p). unfold l_pend. destruct (l_reg l m p); reflexivity. Qed.

(** equations *)
Lemma l_int_filtered : forall l f m, l_int (Filtered l f) m = always.
Proof. reflexivity. Qed.
Lemma l_pend_filtered : forall l f m p,
  l_pend (Filtered l f) m p = add_interest (if is_never (f_int f m) then p else l_pend l m p) (f_int f m).
Proof. reflexivity. Qed.

Lemma l_int_pair : forall a b m,
  l_int (Pair a b) m = pick_int (pair_flags a b) (l_int a m) (l_int b m).
Proof.
  intros. unfold l_int at 1. simpl. rewrite (l_reg_eq a m None). rewrite pick_interest_eq. simpl.
  rewrite l_reg_fst. reflexivity.
Qed.
Lemma l_pend_pair : forall a b m p,
  l_pend (Pair a b) m p =
  if psf a then l_pend b m (l_pend a m p)
  else if is_never (l_int a m) then None else l_pend b m (l_pend a m p).
Proof.
  intros. unfold l_pend at 1. simpl. rewrite (l_reg_eq a m p). rewrite pick_interest_eq. simpl. reflexivity.
Qed.

Lemma l_int_vec : forall ls m,
  l_int (LVec ls) m = conj_interest (map (fun e => l_int e m) ls).
Proof.
  intros. unfold l_int at 1. rewrite l_reg_vec. simpl. rewrite vec_fold_fst.
  - apply vec_flags_conj.
  - apply Forall_forall. intros e _ p. apply l_reg_fst.
Qed.
Lemma l_pend_vec : forall ls m p,
  l_pend (LVec ls) m p = fold_left (fun q e => l_pend e m q) ls p.
Proof. intros. unfold l_pend at 1. rewrite l_reg_vec. simpl. apply vec_fold_snd. Qed.

Lemma c_reg_with : forall has l c m p,
  c_reg has (With l c) m p =
  (pick_int (with_flags l c) (l_int l m) (fst (c_reg has c m (l_pend l m p))),
   if psf l then snd (c_reg has c m (l_pend l m p))
   else if is_never (l_int l m) then None
   else snd (c_reg has c m (l_pend l m p))).
Proof.
  intros. simpl. rewrite (l_reg_eq l m p). rewrite pick_interest_eq. reflexivity.
Qed.

(** facts about the conjunction *)
Lemma conj_never_ex : forall is, conj_interest is = never -> Exists (fun i => i = never) is.
Proof.
  intros is H. unfold conj_interest in H. destruct (existsb is_never is) eqn:E.
  - apply existsb_exists in E. destruct E as [i [Hi Hn]]. apply Exists_exists. exists i. split; [exact Hi|].
    destruct i; try discriminate Hn; reflexivity.
  - destruct (forallb is_always is); discriminate H.
Qed.

Lemma conj_all_always : forall is, Forall (fun i => i = always) is -> conj_interest is = always.
Proof.
  intros is H. unfold conj_interest.
  assert (E : existsb is_never is = false /\ forallb is_always is = true).
  { induction H as [|i t Hi Ht IH]; simpl; [split; reflexivity|]. subst i. simpl. exact IH. }
  destruct E as [E1 E2]. rewrite E1, E2. reflexivity.
Qed.

Lemma conj_always_all : forall is, conj_interest is = always -> Forall (fun i => i = always) is.
Proof.
  intros is H. unfold conj_interest in H. destruct (existsb is_never is); [discriminate H|].
  destruct (forallb is_always is) eqn:E; [|discriminate H].
  rewrite forallb_forall in E. apply Forall_forall. intros i Hi. specialize (E i Hi). destruct i; try discriminate E. reflexivity.
Qed.

(** ** What "sound filters" means along the part of a tree that a registration pass reaches *)
Definition FS (f : filt) (m : meta) (cx : ctx) : Prop :=
  (f_int f m = never -> f_acc f m cx = false) /\ (f_int f m = always -> f_acc f m cx = true).

Fixpoint LSound (l : layer) (m : meta) (cx : ctx) : Prop :=
  match l with
  | Glob f => FS f m cx
  | Filtered l' f => FS f m cx /\ (f_int f m <> never -> LSound l' m cx)
  | Pair a b => LSound a m cx /\ ((psf a = true \/ l_int a m <> never) -> LSound b m cx)
  | LSome l => LSound l m cx
  | LVec ls => fold_right (fun e P => LSound e m cx /\ P) True ls
  | LBox l => LSound l m cx
  | LReload l => LSound l m cx
  | _ => True
  end.

Fixpoint CSound (c : coll) (m : meta) (cx : ctx) : Prop :=
  match c with
  | Registry => True
  | With l c' =>
    LSound l m cx /\
    ((psf l = true \/ l_int l m <> never) -> CSound c' m cx)
  end.

Lemma LSound_vec : forall ls m cx, LSound (LVec ls) m cx <-> Forall (fun e => LSound e m cx) ls.
Proof.
  intros. simpl. induction ls as [|e t IH]; simpl.
  - split; auto.
  - rewrite IH. split; [intros [A B]; constructor; auto | intros H; inversion H; auto].
Qed.

(** [Registered] lifted to trees, with the same reach as the registration pass *)
Fixpoint LRegistered (l : layer) (m : meta) (cx : ctx) : Prop :=
  match l with
  | Glob f => Registered f m cx
  | Filtered l' f => Registered f m cx /\ (f_int f m <> never -> LRegistered l' m cx)
  | Pair a b => LRegistered a m cx /\ ((psf a = true \/ l_int a m <> never) -> LRegistered b m cx)
  | LSome l => LRegistered l m cx
  | LVec ls => fold_right (fun e P => LRegistered e m cx /\ P) True ls
  | LBox l => LRegistered l m cx
  | LReload l => LRegistered l m cx
  | _ => True
  end.
Fixpoint CRegistered (c : coll) (m : meta) (cx : ctx) : Prop :=
  match c with
  | Registry => True
  | With l c' =>
    LRegistered l m cx /\
    ((psf l = true \/ l_int l m <> never) -> CRegistered c' m cx)
  end.

Definition LLeafOK (l : layer) : Prop := Forall LeafOK (l_filters l).
Definition CLeafOK (c : coll) : Prop := Forall LeafOK (c_filters c).
Definition l_f12 (l : layer) (m : meta) : bool := existsb (fun f => f_f12 f m) (l_filters l).

Lemma Forall_flat_map : forall {A B} (P : B -> Prop) (f : A -> list B) l,
  Forall P (flat_map f l) <-> Forall (fun x => Forall P (f x)) l.
Proof.
  intros. induction l as [|x t IH]; simpl.
  - split; constructor.
  - rewrite Forall_app, IH. split; [intros [A1 A2]; constructor; auto | intros H; inversion H; auto].
Qed.
Lemma existsb_flat_map_false : forall {A B} (g : B -> bool) (f : A -> list B) l,
  existsb g (flat_map f l) = false <-> Forall (fun x => existsb g (f x) = false) l.
Proof.
  intros. induction l as [|x t IH]; simpl.
  - split; auto.
  - rewrite existsb_app, orb_false_iff, IH. split; [intros [A1 A2]; constructor; auto | intros H; inversion H; auto].
Qed.

Lemma LSound_of : forall l m cx,
  LLeafOK l -> l_f12 l m = false -> LRegistered l m cx -> LSound l m cx.
Proof.
  unfold LLeafOK, l_f12.
  induction l using layer_ind'; intros m cx HL H12 HR; simpl in *; auto.
  - (* Glob *)
    inversion HL; subst. rewrite orb_false_r in H12. apply filter_interest_sound; assumption.
  - (* Filtered *)
    inversion HL; subst. apply orb_false_iff in H12. destruct H12 as [Hf Hl]. destruct HR as [HRf HRl]. split.
    + apply filter_interest_sound; assumption.
    + intros Hn. apply IHl; auto.
  - (* Pair *)
    apply Forall_app in HL. destruct HL as [HLa HLb]. rewrite existsb_app in H12. apply orb_false_iff in H12.
    destruct H12 as [Ha Hb]. destruct HR as [HRa HRb]. split; [apply IHl1; auto|]. intros Hn. apply IHl2; auto.
  - (* Vec *)
    apply Forall_flat_map in HL. apply existsb_flat_map_false in H12.
    induction H as [|e t He Ht IH]; simpl; [exact I|].
    inversion HL; subst. inversion H12; subst. destruct HR as [HRe HRt]. split; [apply He; auto | apply IH; auto].
Qed.

Lemma CSound_of : forall c m cx,
  CLeafOK c -> c_f12 c m = false -> CRegistered c m cx -> CSound c m cx.
Proof.
  unfold CLeafOK, c_f12. induction c as [|l c IH]; intros m cx HL H12 HR; simpl in *; [exact I|].
  apply Forall_app in HL. destruct HL as [HLl HLc]. rewrite existsb_app in H12. apply orb_false_iff in H12.
  destruct H12 as [Hl Hc]. destruct HR as [HRl HRc]. split.
  - apply LSound_of; assumption.
  - intros Hn. apply IH; auto.
Qed.

(** ** [never] *)

Lemma psf_always : forall l m, psf l = true -> l_int l m = always.
Proof.
  induction l using layer_ind'; intros m Hp; simpl in Hp; try discriminate Hp; try reflexivity.
  - (* Pair *)
    apply andb_true_iff in Hp. destruct Hp as [Ha Hb]. rewrite l_int_pair. unfold pick_int. simpl. rewrite Ha.
    apply IHl2. exact Hb.
  - apply (IHl m Hp).
  - (* Vec *)
    apply andb_true_iff in Hp. destruct Hp as [Hall Hne]. rewrite l_int_vec.
    apply conj_all_always.
    rewrite Forall_map. rewrite forallb_forall in Hall. rewrite Forall_forall in H.
    apply Forall_forall. intros x Hx. apply H; auto.
  - apply (IHl m Hp).
Qed.

Lemma forallb_false_of : forall {A} (g : A -> bool) l x, In x l -> g x = false -> forallb g l = false.
Proof.
  intros A g l x Hin Hx. destruct (forallb g l) eqn:E; [|reflexivity].
  rewrite forallb_forall in E. rewrite (E x Hin) in Hx. discriminate Hx.
Qed.

(** a non-per-layer-filtered tree that answers [never] rejects the callsite for the whole stack *)
Lemma layer_never_rejects : forall l m cx,
  LSound l m cx -> l_int l m = never -> l_en l m cx = false.
Proof.
  induction l using layer_ind'; intros m cx HS Hn; simpl in *; try discriminate Hn.
  - (* Glob *) unfold l_int in Hn. simpl in Hn. apply HS. exact Hn.
  - (* Pair *)
    destruct HS as [HSa HSb].
    rewrite l_int_pair in Hn. unfold pick_int in Hn. simpl in Hn.
    destruct (psf l1) eqn:Ep.
    + assert (E2 : l_en l2 m cx = false) by (apply IHl2; [apply HSb; left; reflexivity | exact Hn]).
      rewrite E2. apply andb_false_r.
    + destruct (l_int l1 m) eqn:Ea; simpl in Hn.
      * assert (E1 : l_en l1 m cx = false) by (apply IHl1; [exact HSa | exact Ea]).
        rewrite E1. reflexivity.
      * discriminate Hn.
      * assert (Hb : l_int l2 m = never).
        { destruct (l_int l2 m); simpl in Hn; try discriminate Hn; reflexivity. }
        assert (HSb' : LSound l2 m cx) by (apply HSb; right; discriminate).
        assert (E2 : l_en l2 m cx = false) by (apply IHl2; [exact HSb' | exact Hb]).
        rewrite E2. apply andb_false_r.
  - (* LSome *) apply (IHl m cx HS Hn).
  - (* Vec *)
    rewrite l_int_vec in Hn. apply conj_never_ex in Hn. apply Exists_exists in Hn.
    destruct Hn as [i [Hi Hin]]. apply in_map_iff in Hi. destruct Hi as [e [He Hine]]. subst i.
    apply LSound_vec in HS. rewrite Forall_forall in HS. rewrite Forall_forall in H.
    apply (forallb_false_of _ ls e Hine). apply (H e Hine m cx (HS e Hine) Hin).
  - apply (IHl m cx HS Hn).
  - apply (IHl m cx HS Hn).
Qed.

Lemma add_interest_some : forall p i, add_interest p i <> None.
Proof. intros [c|] i; simpl; [destruct (_ || _)|]; discriminate. Qed.

Lemma add_interest_never : forall p i,
  add_interest p i = Some never -> (p = None \/ p = Some never) /\ i = never.
Proof.
  intros [c|] i H; simpl in H.
  - destruct c, i; simpl in H; try discriminate H; auto.
  - inversion H; auto.
Qed.

(** a per-layer-filtered tree always contributes to the pending interest, and if the result is [never] every
    recording leaf in it is muted by a filter that rejects the callsite *)
Lemma psf_pend_never : forall l m cx,
  psf l = true -> LSound l m cx ->
  forall p, l_pend l m p <> None /\
            (l_pend l m p = Some never -> l_recv l m cx = [] /\ (p = None \/ p = Some never)).
Proof.
  induction l using layer_ind'; intros m cx Hp HS p; simpl in Hp; try discriminate Hp.
  - (* Filtered *)
    rewrite l_pend_filtered. split; [apply add_interest_some|]. intros H.
    apply add_interest_never in H. destruct H as [H1 H2]. rewrite H2 in H1. simpl in H1.
    destruct HS as [[HSn _] _]. simpl. rewrite (HSn H2). auto.
  - (* Pair *)
    apply andb_true_iff in Hp. destruct Hp as [Ha Hb]. destruct HS as [HSa HSb].
    rewrite l_pend_pair, Ha.
    destruct (IHl2 m cx Hb (HSb (or_introl Ha)) (l_pend l1 m p)) as [B1 B2].
    destruct (IHl1 m cx Ha HSa p) as [A1 A2].
    split; [exact B1|]. intros H. destruct (B2 H) as [Hr [Hq|Hq]]; [congruence|].
    destruct (A2 Hq) as [Hr' Hp']. simpl. rewrite Hr, Hr'. auto.
  - (* LSome *) apply (IHl m cx Hp HS p).
  - (* Vec *)
    apply andb_true_iff in Hp. destruct Hp as [Hall Hne]. rewrite l_pend_vec.
    rewrite forallb_forall in Hall. apply LSound_vec in HS.
    assert (G : forall ls p, Forall (fun e => psf e = true) ls -> Forall (fun e => LSound e m cx) ls ->
                Forall (fun l => forall m cx, psf l = true -> LSound l m cx -> forall p,
                   l_pend l m p <> None /\
                   (l_pend l m p = Some never -> l_recv l m cx = [] /\ (p = None \/ p = Some never))) ls ->
                (ls <> [] -> fold_left (fun q e => l_pend e m q) ls p <> None) /\
                (fold_left (fun q e => l_pend e m q) ls p = Some never ->
                 flat_map (fun e => l_recv e m cx) ls = [] /\ (p = None \/ p = Some never))).
    { clear. induction ls as [|e t IH]; intros p Hps HSs HIH.
      - simpl. split; [congruence|]. intros H. auto.
      - inversion Hps; subst. inversion HSs; subst. inversion HIH; subst. simpl.
        destruct (H5 m cx H1 H3 p) as [E1 E2].
        destruct (IH (l_pend e m p) H2 H4 H6) as [T1 T2]. split.
        + intros _. destruct t as [|x u]; [simpl; exact E1 | apply T1; discriminate].
        + intros H. destruct (T2 H) as [Hr Hq].
          destruct Hq as [Hq|Hq]; [congruence|].
          destruct (E2 Hq) as [Hr' Hp']. rewrite Hr, Hr'. simpl. split; [reflexivity | exact Hp']. }
    assert (Hps : Forall (fun e => psf e = true) ls) by (apply Forall_forall; exact Hall).
    destruct (G ls p Hps HS H) as [G1 G2]. split.
    + apply G1. destruct ls; [discriminate Hne | discriminate].
    + intros Hq. simpl. apply G2. exact Hq.
  - (* LBox *) apply (IHl m cx Hp HS p).
Qed.

Fixpoint AllPsf (c : coll) : Prop :=
  match c with Registry => True | With l c' => psf l = true /\ AllPsf c' end.

Lemma allpsf_inner_has_psf : forall c, AllPsf c -> c_psf c || is_registry c = true.
Proof. intros [|l c] H; simpl in *; [reflexivity|]. destruct H as [-> _]. reflexivity. Qed.

Lemma coll_never : forall c has m cx p,
  CSound c m cx -> fst (c_reg has c m p) = never ->
  c_en c m cx = false \/ (AllPsf c /\ c_recv c m cx = [] /\ (p = None \/ p = Some never)).
Proof.
  induction c as [|l c IH]; intros has m cx p HS Hn.
  - simpl in Hn. destruct has; simpl in Hn; [|discriminate Hn].
    destruct p as [i|]; simpl in Hn; [subst i|discriminate Hn]. right. simpl. auto.
  - rewrite c_reg_with in Hn. simpl in Hn. simpl in HS. destruct HS as [HSl HSc].
    unfold pick_int in Hn. simpl in Hn.
    destruct (psf l) eqn:Ep.
    + (* a per-layer-filtered layer: the inner answer is passed up *)
      destruct (IH has m cx _ (HSc (or_introl eq_refl)) Hn) as [He | [Ha [Hr Hq]]].
      * left. simpl. rewrite He. apply andb_false_r.
      * right. destruct (psf_pend_never l m cx Ep HSl p) as [P1 P2].
        destruct Hq as [Hq|Hq]; [congruence|]. destruct (P2 Hq) as [Hr' Hp']. simpl. rewrite Hr, Hr'. auto.
    + destruct (l_int l m) eqn:Eo; simpl in Hn.
      * left. simpl. rewrite (layer_never_rejects l m cx HSl Eo). reflexivity.
      * discriminate Hn.
      * assert (HSc' : CSound c m cx) by (apply HSc; right; discriminate).
        destruct (fst (c_reg has c m (l_pend l m p))) eqn:Ei; simpl in Hn; try discriminate Hn.
        destruct (c_psf c || is_registry c) eqn:Eh; [discriminate Hn|].
        destruct (IH has m cx _ HSc' Ei) as [He | [Ha _]].
        -- left. simpl. rewrite He. apply andb_false_r.
        -- rewrite (allpsf_inner_has_psf c Ha) in Eh. discriminate Eh.
Qed.

Theorem stack_never : forall c m cx,
  CSound c m cx -> c_interest c m = never -> deliver c m cx = [].
Proof.
  intros c m cx HS Hn. unfold c_interest in Hn. unfold deliver.
  destruct (coll_never c (c_has c) m cx None HS Hn) as [He | [_ [Hr _]]].
  - rewrite He. reflexivity.
  - rewrite Hr. destruct (c_en c m cx); reflexivity.
Qed.

(** ** [always] *)
Definition GA (p : pend) : Prop := p = None \/ p = Some always.

Lemma add_interest_GA : forall p i, GA (add_interest p i) -> GA p /\ i = always.
Proof.
  unfold GA. intros [c|] i [H|H]; simpl in H; try discriminate H.
  - destruct c, i; simpl in H; discriminate H.
  - destruct c, i; simpl in H; try discriminate H. auto.
  - inversion H; subst. auto.
Qed.

Lemma existsb_false_forall : forall {A} (g : A -> bool) l, existsb g l = false -> Forall (fun x => g x = false) l.
Proof.
  intros A g l H. apply Forall_forall. intros x Hx. destruct (g x) eqn:E; [|reflexivity].
  assert (existsb g l = true) by (apply existsb_exists; eauto). congruence.
Qed.

(** a tree that answers [always] (outside the F82 class) lets the callsite through globally, and if the
    pending interest is still "always or nothing" after it, it was so before and every leaf in it receives *)
Lemma layer_always : forall l m cx,
  LSound l m cx -> l_f82 l m = false -> l_int l m = always ->
  l_en l m cx = true /\
  (forall p, GA (l_pend l m p) -> GA p /\ l_recv l m cx = l_all l) /\
  (l_nfilt l = 0 -> l_recv l m cx = l_all l).
Proof.
  induction l using layer_ind'; intros m cx HS H82 Ha.
  - (* Rec *) simpl. repeat split; auto.
  - (* Glob *) unfold l_int in Ha. simpl in *. destruct HS as [_ HSa]. rewrite (HSa Ha). repeat split; auto.
  - (* Filtered *)
    simpl in HS, H82. destruct HS as [[HSn HSa] HSl]. apply orb_false_iff in H82. destruct H82 as [H82a H82b].
    assert (Hin : f_int f m <> never -> l_int l m = always).
    { intros Hn. destruct (f_int f m); [congruence| |]; simpl in H82a;
        destruct (l_int l m); simpl in H82a; try discriminate H82a; reflexivity. }
    split; [|split].
    + simpl. destruct (f_acc f m cx) eqn:Eacc; [|reflexivity].
      assert (Hn : f_int f m <> never) by (intros Hn; apply HSn in Hn; congruence).
      apply (IHl m cx (HSl Hn) H82b (Hin Hn)).
    + intros p Hg. rewrite l_pend_filtered in Hg. apply add_interest_GA in Hg. destruct Hg as [Hg Hi].
      assert (Hn : f_int f m <> never) by congruence.
      rewrite Hi in Hg. simpl in Hg.
      destruct (IHl m cx (HSl Hn) H82b (Hin Hn)) as [_ [IH2 _]].
      destruct (IH2 p Hg) as [Hp Hr]. split; [exact Hp|]. simpl. rewrite (HSa Hi). exact Hr.
    + simpl. intros H0. exfalso. lia.
  - (* Pair *)
    simpl in HS, H82. destruct HS as [HSa HSb].
    apply orb_false_iff in H82. destruct H82 as [H82a H82b].
    rewrite l_int_pair in Ha. unfold pick_int in Ha. simpl in Ha.
    assert (Hab : l_int l1 m = always /\ l_int l2 m = always).
    { destruct (psf l1) eqn:Ep.
      - split; [apply psf_always; exact Ep | exact Ha].
      - destruct (l_int l1 m); simpl in Ha; try discriminate Ha.
        destruct (l_int l2 m); simpl in Ha; try discriminate Ha; auto.
        destruct (psf l2); discriminate Ha. }
    destruct Hab as [Ha1 Ha2].
    assert (HSb' : LSound l2 m cx) by (apply HSb; right; congruence).
    destruct (IHl1 m cx HSa H82a Ha1) as [A1 [A2 A3]].
    destruct (IHl2 m cx HSb' H82b Ha2) as [B1 [B2 B3]].
    split; [|split].
    + simpl. rewrite A1, B1. reflexivity.
    + intros p Hg. rewrite l_pend_pair in Hg. rewrite Ha1 in Hg. simpl in Hg.
      assert (Hg' : GA (l_pend l2 m (l_pend l1 m p))) by (destruct (psf l1); exact Hg).
      destruct (B2 _ Hg') as [Hq Hrb]. destruct (A2 _ Hq) as [Hp Hra]. split; [exact Hp|]. simpl. rewrite Hra, Hrb. reflexivity.
    + simpl. intros H0. assert (l_nfilt l1 = 0 /\ l_nfilt l2 = 0) as [Z1 Z2] by lia.
      rewrite (A3 Z1), (B3 Z2). reflexivity.
  - (* LSome *) simpl in *. apply (IHl m cx HS H82 Ha).
  - (* LNone *) simpl. repeat split; auto.
  - (* Vec *)
    rewrite l_int_vec in Ha. apply conj_always_all in Ha. rewrite Forall_map in Ha.
    simpl in H82. apply existsb_false_forall in H82. apply LSound_vec in HS.
    assert (G : forall ls, Forall (fun l => forall m cx, LSound l m cx -> l_f82 l m = false ->
                  l_int l m = always -> l_en l m cx = true /\
                  (forall p, GA (l_pend l m p) -> GA p /\ l_recv l m cx = l_all l) /\
                  (l_nfilt l = 0 -> l_recv l m cx = l_all l)) ls ->
                Forall (fun e => LSound e m cx) ls ->
                Forall (fun e => l_f82 e m = false) ls -> Forall (fun e => l_int e m = always) ls ->
                forallb (fun e => l_en e m cx) ls = true /\
                (forall p, GA (fold_left (fun q e => l_pend e m q) ls p) ->
                           GA p /\ flat_map (fun e => l_recv e m cx) ls = flat_map l_all ls) /\
                (forall n, fold_left (fun n e => n + l_nfilt e) ls n = 0 ->
                           n = 0 /\ flat_map (fun e => l_recv e m cx) ls = flat_map l_all ls)).
    { clear. induction ls as [|e t IH]; intros HI HSs H82s Has.
      - simpl. repeat split; auto.
      - inversion HI; subst. inversion HSs; subst. inversion H82s; subst. inversion Has; subst.
        destruct (H1 m cx H3 H5 H7) as [E1 [E2 E3]].
        destruct (IH H2 H4 H6 H8) as [T1 [T2 T3]]. split; [|split].
        + simpl. rewrite E1, T1. reflexivity.
        + intros p Hg. simpl in Hg. destruct (T2 _ Hg) as [Hq Hr]. destruct (E2 _ Hq) as [Hp Hr'].
          split; [exact Hp|]. simpl. rewrite Hr, Hr'. reflexivity.
        + intros n Hn. simpl in Hn. destruct (T3 _ Hn) as [Hz Hr]. assert (n = 0 /\ l_nfilt e = 0) as [Z1 Z2] by lia.
          split; [exact Z1|]. simpl. rewrite Hr, (E3 Z2). reflexivity. }
    destruct (G ls H HS H82 Ha) as [G1 [G2 G3]]. split; [|split].
    + simpl. exact G1.
    + intros p Hg. rewrite l_pend_vec in Hg. simpl. apply G2. exact Hg.
    + simpl. intros H0. apply (G3 0 H0).
  - (* LBox *) simpl in *. apply (IHl m cx HS H82 Ha).
  - (* LReload *) simpl in *. apply (IHl m cx HS H82 Ha).
  - (* Identity *) simpl. repeat split; auto.
Qed.

Lemma coll_always : forall c has m cx p,
  CSound c m cx -> c_f82 c m = false -> fst (c_reg has c m p) = always ->
  c_en c m cx = true /\
  (has = true -> GA p /\ c_recv c m cx = c_all c) /\
  (c_nfilt c = 0 -> c_recv c m cx = c_all c).
Proof.
  induction c as [|l c IH]; intros has m cx p HS H82 Ha.
  - simpl. split; [reflexivity|]. split; [|auto]. intros ->. simpl in Ha. split; [|reflexivity].
    destruct p as [i|]; simpl in Ha; [subst i; right; reflexivity | left; reflexivity].
  - rewrite c_reg_with in Ha. simpl in Ha. simpl in HS. destruct HS as [HSl HSc].
    simpl in H82.
    apply orb_false_iff in H82. destruct H82 as [H82l H82c].
    unfold pick_int in Ha. simpl in Ha.
    assert (Hab : l_int l m = always /\ fst (c_reg has c m (l_pend l m p)) = always).
    { destruct (psf l) eqn:Ep.
      - split; [apply psf_always; exact Ep | exact Ha].
      - destruct (l_int l m); simpl in Ha; try discriminate Ha.
        destruct (fst (c_reg has c m (l_pend l m p))); simpl in Ha; try discriminate Ha; auto.
        destruct (c_psf c || is_registry c); discriminate Ha. }
    destruct Hab as [Ha1 Ha2].
    assert (HSc' : CSound c m cx) by (apply HSc; right; congruence).
    destruct (layer_always l m cx HSl H82l Ha1) as [A1 [A2 A3]].
    destruct (IH has m cx _ HSc' H82c Ha2) as [B1 [B2 B3]].
    split; [|split].
    + simpl. rewrite A1, B1. reflexivity.
    + intros Hh. destruct (B2 Hh) as [Hq Hr]. destruct (A2 _ Hq) as [Hp Hr']. split; [exact Hp|]. simpl. rewrite Hr, Hr'. reflexivity.
    + simpl. intros H0. assert (l_nfilt l = 0 /\ c_nfilt c = 0) as [Z1 Z2] by lia. rewrite (A3 Z1), (B3 Z2). reflexivity.
Qed.

Theorem stack_always : forall c m cx,
  CSound c m cx -> c_f82 c m = false -> c_interest c m = always -> deliver c m cx = c_all c.
Proof.
  intros c m cx HS H82 Ha. unfold c_interest in Ha. unfold deliver.
  destruct (coll_always c (c_has c) m cx None HS H82 Ha) as [He [H1 H2]]. rewrite He.
  unfold c_has in *. destruct (N.ltb_spec 0 (c_nfilt c)).
  - apply H1. reflexivity.
  - apply H2. lia.
Qed.

(** the same, from the user-closure contract, outside F12, for a registered callsite *)
Theorem stack_never_full : forall c m cx,
  CLeafOK c -> c_f12 c m = false -> CRegistered c m cx ->
  c_interest c m = never -> deliver c m cx = [].
Proof. intros c m cx HL H12 HR. apply stack_never. apply CSound_of; assumption. Qed.

Theorem stack_always_full : forall c m cx,
  CLeafOK c -> c_f12 c m = false -> CRegistered c m cx -> c_f82 c m = false ->
  c_interest c m = always -> deliver c m cx = c_all c.
Proof. intros c m cx HL H12 HR. apply stack_always. apply CSound_of; assumption. Qed.

(** after a [Handle::reload] of a layer the Registry's "has per-subscriber filters" flag may be stale (filter ids
    are never given back): the two theorems hold for ANY value of that flag the code can have - [never] for every
    value, [always] whenever the flag is set or no Filtered is left *)
Theorem stack_never_any_has : forall has c m cx,
  CLeafOK c -> c_f12 c m = false -> CRegistered c m cx ->
  fst (c_reg has c m None) = never -> deliver c m cx = [].
Proof.
  intros has c m cx HL H12 HR Hn. unfold deliver.
  destruct (coll_never c has m cx None (CSound_of c m cx HL H12 HR) Hn) as [He | [_ [Hr _]]].
  - rewrite He. reflexivity.
  - rewrite Hr. destruct (c_en c m cx); reflexivity.
Qed.

Theorem stack_always_any_has : forall has c m cx,
  CLeafOK c -> c_f12 c m = false -> CRegistered c m cx -> c_f82 c m = false ->
  (has = true \/ c_nfilt c = 0) ->
  fst (c_reg has c m None) = always -> deliver c m cx = c_all c.
Proof.
  intros has c m cx HL H12 HR H82 Hh Ha. unfold deliver.
  destruct (coll_always c has m cx None (CSound_of c m cx HL H12 HR) H82 Ha) as [He [H1 H2]]. rewrite He.
  destruct Hh as [Hh|Hh]; [apply H1; exact Hh | apply H2; exact Hh].
Qed.
