(** C08 — proofs, part 5: the hypothesis [CRegistered] of the stack theorems is what the protocol produces.
    [real_ctx envs asked n spans] is the context after every callsite was registered once (the EnvFilter instances
    reached by that pass, [asked], stored their callsite matchers) and the spans [spans] were entered. *)
From Coq Require Import List NArith Bool String Lia.
Import ListNotations.
From TV Require Import Summary.Model Summary.Proofs Summary.ProofsStack.
Local Open Scope N_scope.
Local Arguments N.eqb : simpl never.
Local Arguments env_build : simpl never.

Lemma f_registered_asked : forall f m n spans (asked : meta -> list N) envs,
  (forall id ds, In (id, ds) (f_envs f) -> env_lookup envs id = env_build ds) ->
  (forall id, In id (f_asked f m) -> In id (asked m)) ->
  Registered f m (real_ctx envs asked n spans).
Proof.
  induction f; intros m n spans asked envs He Ha; simpl in *; auto.
  - intros Hr. rewrite (He id ds (or_introl eq_refl)), Hr, andb_true_r.
    apply existsb_exists. exists id. split; [apply Ha; left; reflexivity | apply N.eqb_refl].
  - split.
    + apply IHf1; [intros; apply He; apply in_or_app; auto | intros; apply Ha; apply in_or_app; auto].
    + intros Hn. apply IHf2; [intros; apply He; apply in_or_app; auto|].
      intros id Hid. apply Ha. apply in_or_app. right.
      destruct (f_int f1 m); simpl; [congruence | exact Hid | exact Hid].
  - split.
    + apply IHf1; [intros; apply He; apply in_or_app; auto | intros; apply Ha; apply in_or_app; auto].
    + apply IHf2; [intros; apply He; apply in_or_app; auto | intros; apply Ha; apply in_or_app; auto].
Qed.

Lemma reach_cond : forall (p : bool) (i : interest), (p = true \/ i <> never) -> p || negb (is_never i) = true.
Proof. intros [] [] [H|H]; simpl; auto; try discriminate H; congruence. Qed.

Lemma l_registered_asked : forall l m n spans (asked : meta -> list N) envs,
  (forall id ds, In (id, ds) (l_envs l) -> env_lookup envs id = env_build ds) ->
  (forall id, In id (l_asked l m) -> In id (asked m)) ->
  LRegistered l m (real_ctx envs asked n spans).
Proof.
  induction l using layer_ind'; intros m k spans asked envs He Ha; simpl in *; auto.
  - (* Glob *) apply f_registered_asked; assumption.
  - (* Filtered *)
    split.
    + apply f_registered_asked; [intros; apply He; apply in_or_app; auto | intros; apply Ha; apply in_or_app; auto].
    + intros Hn. apply IHl; [intros; apply He; apply in_or_app; auto|].
      intros id Hid. apply Ha. apply in_or_app. right. destruct (f_int f m); simpl; [congruence | exact Hid | exact Hid].
  - (* Pair *)
    split.
    + apply IHl1; [intros; apply He; apply in_or_app; auto | intros; apply Ha; apply in_or_app; auto].
    + intros Hn. apply IHl2; [intros; apply He; apply in_or_app; auto|].
      intros id Hid. apply Ha. apply in_or_app. right. rewrite (reach_cond _ _ Hn). exact Hid.
  - (* Vec *)
    induction H as [|e t Hx Ht IH]; simpl in *; [exact I|]. split.
    + apply Hx; [intros; apply He; apply in_or_app; auto | intros; apply Ha; apply in_or_app; auto].
    + apply IH; [intros; apply He; apply in_or_app; auto | intros; apply Ha; apply in_or_app; auto].
Qed.

Lemma c_registered_asked : forall c m n spans (asked : meta -> list N) envs,
  (forall id ds, In (id, ds) (c_envs c) -> env_lookup envs id = env_build ds) ->
  (forall id, In id (c_asked c m) -> In id (asked m)) ->
  CRegistered c m (real_ctx envs asked n spans).
Proof.
  induction c as [|l c IH]; intros m n spans asked envs He Ha; simpl in *; [exact I|]. split.
  - apply l_registered_asked; [intros; apply He; apply in_or_app; auto | intros; apply Ha; apply in_or_app; auto].
  - intros Hn. apply IH; [intros; apply He; apply in_or_app; auto|].
    intros id Hid. apply Ha. apply in_or_app. right. rewrite (reach_cond _ _ Hn). exact Hid.
Qed.

(** the contexts on which the correspondence harness evaluates a stack satisfy [CRegistered] (EnvFilter instances are
    told apart by their ids, which the generator keeps distinct) *)
Theorem real_ctx_cregistered : forall c envs n spans m,
  (forall id ds, In (id, ds) (c_envs c) -> env_lookup envs id = env_build ds) ->
  CRegistered c m (real_ctx envs (c_asked c) n spans).
Proof. intros c envs n spans m He. apply c_registered_asked; auto. Qed.
