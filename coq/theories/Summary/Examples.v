(** C08 — concrete witnesses: non-vacuity of every theorem, refutations for the findings still in the tree
    (F12, F82, F83), and the replays of the repaired findings (F8, F14, F81) which now satisfy the property. *)
From Coq Require Import List NArith Bool String Lia.
Import ListNotations.
From TV Require Import Summary.Model Summary.Proofs Summary.ProofsStack Summary.ProofsHint Summary.ProofsPlain.
Local Open Scope N_scope.

(** metadata of the harness pool *)
Definition m_info_ev : meta := pool_meta 32.     (* INFO  event  target "a", no fields *)
Definition m_debug_ev : meta := pool_meta 48.    (* DEBUG event  target "a", no fields *)
Definition m_trace_ev : meta := pool_meta 64.    (* TRACE event  target "a", no fields *)
Definition m_trace_sq : meta := pool_meta 67.    (* TRACE span `sq` target "a", fields x y *)

(** no callsite registered with any EnvFilter, no span entered / every callsite registered *)
Definition cx0 : ctx := {| cx_n := 0; cx_reg := fun _ _ => false; cx_scope := fun _ => [] |}.
Definition cxr : ctx := {| cx_n := 0; cx_reg := fun _ _ => true; cx_scope := fun _ => [] |}.

Definition lvl (l : level) : filt := FLevel (Some l).

Ltac ex_solve :=
  unfold above; repeat split;
  first [ exact I | vm_compute; reflexivity | solve [repeat constructor] | solve [simpl; intros; exact I]
        | solve [vm_compute; intros; discriminate] | idtac ].

(** ** filters *)
Definition ex_f : filt := FAnd (lvl INFO) (FNot (FTargets [(Some "b"%string, [], Some TRACE)])).
Definition ex_f_or : filt := FOr (lvl WARN) (FEnv 1 [mkdir (Some "a"%string) None [] (Some DEBUG)]).

Lemma ex_filter_nonvacuous :
  LeafOK ex_f /\ f_f12 ex_f m_debug_ev = false /\ Registered ex_f m_debug_ev cx0 /\
  f_int ex_f m_debug_ev = never /\ f_acc ex_f m_debug_ev cx0 = false /\
  f_int ex_f m_info_ev = always /\ f_acc ex_f m_info_ev cx0 = true /\
  f_hint ex_f = None /\
  LeafOK ex_f_or /\ f_hint ex_f_or = Some (Some DEBUG) /\ above m_trace_ev (Some DEBUG) /\
  f_acc ex_f_or m_trace_ev cx0 = false /\ f_acc ex_f_or m_debug_ev cx0 = true.
Proof. ex_solve. Qed.

(** Targets parsed from "a=warn,a[{x}]=trace": the field directive is more specific and more permissive; the
    summaries follow it exactly as [enabled] does (pool 49: DEBUG event, target a, fields x y; pool 48: the same without
    fields; pool 51: DEBUG span `sq` - field names are not required of spans) *)
Definition ex_targets_fields : filt :=
  FTargets [(Some "a"%string, [], Some WARN); (Some "a"%string, ["x"%string], Some TRACE)].
Lemma ex_targets_fields_nonvacuous :
  LeafOK ex_targets_fields /\ f_hint ex_targets_fields = Some (Some TRACE) /\
  f_int ex_targets_fields (pool_meta 49) = always /\ f_acc ex_targets_fields (pool_meta 49) cx0 = true /\
  f_int ex_targets_fields (pool_meta 48) = never /\ f_acc ex_targets_fields (pool_meta 48) cx0 = false /\
  f_int ex_targets_fields (pool_meta 51) = always /\ f_acc ex_targets_fields (pool_meta 51) cx0 = true.
Proof. ex_solve. Qed.

(** F12 (still in the tree): EnvFilter "a[sq]=debug" answers [always] for the TRACE span `sq`, and rejects it *)
Definition f12_filter : filt := FEnv 1 [mkdir (Some "a"%string) (Some "sq"%string) [] (Some DEBUG)].
Lemma F12_refuted :
  exists f m cx, LeafOK f /\ Registered f m cx /\ f_f12 f m = true /\
                 f_int f m = always /\ f_acc f m cx = false.
Proof. exists f12_filter, m_trace_sq, cxr. ex_solve. Qed.
(** and under [Not] the wrong [always] becomes a wrong [never] *)
Lemma F12_refuted_never :
  exists f m cx, LeafOK f /\ Registered f m cx /\ f_f12 f m = true /\
                 f_int f m = never /\ f_acc f m cx = true.
Proof. exists (FNot f12_filter), m_trace_sq, cxr. ex_solve. Qed.

(** ** stacks *)
Lemma CSound_cx0 : forall c m, c_envs c = [] -> CLeafOK c -> c_f12 c m = false -> CRegistered c m cx0 -> CSound c m cx0.
Proof. intros. apply CSound_of; assumption. Qed.

(** [never]: two per-layer filters that both reject DEBUG *)
Definition ex_never : coll :=
  With (Filtered (Rec 1) (lvl INFO)) (With (Filtered (Rec 2) (lvl WARN)) Registry).
Lemma ex_never_nonvacuous :
  CLeafOK ex_never /\ c_f12 ex_never m_debug_ev = false /\ CRegistered ex_never m_debug_ev cx0 /\
  c_interest ex_never m_debug_ev = never /\ deliver ex_never m_debug_ev cx0 = [].
Proof. ex_solve. Qed.

(** [always]: a per-layer filter and a plain layer that both take INFO *)
Definition ex_always : coll := With (Filtered (Rec 1) (lvl DEBUG)) (With (Rec 2) Registry).
Lemma ex_always_nonvacuous :
  CLeafOK ex_always /\ c_f12 ex_always m_info_ev = false /\ CRegistered ex_always m_info_ev cx0 /\
  c_f82 ex_always m_info_ev = false /\ c_interest ex_always m_info_ev = always /\
  deliver ex_always m_info_ev cx0 = [2; 1] /\ c_all ex_always = [2; 1].
Proof. ex_solve. Qed.

(** hint: a global INFO filter above a per-layer DEBUG filter, and an unhinted layer beside a per-layer filter *)
Definition ex_hint : coll := With (Glob (lvl INFO)) (With (Filtered (Rec 1) (lvl DEBUG)) Registry).
Definition ex_hint_none : coll := With (Rec 2) (With (Filtered (Rec 1) (lvl INFO)) Registry).
Lemma ex_hint_nonvacuous :
  CLeafOK ex_hint /\ c_f83 ex_hint = false /\ c_hint ex_hint = Some (Some DEBUG) /\ above m_trace_ev (Some DEBUG) /\
  deliver ex_hint m_trace_ev cx0 = [] /\ deliver ex_hint m_info_ev cx0 = [1] /\
  c_f83 ex_hint_none = false /\ c_hint ex_hint_none = None /\ deliver ex_hint_none m_debug_ev cx0 = [2].
Proof. ex_solve. Qed.

Definition f83_stack_for_plain : coll :=
  With (Rec 1) (With (Pair (Filtered (Rec 2) (lvl INFO)) LNone) Registry).
(** plain stacks: a None layer as a whole `.with(None)` layer, Vec / pair / Box / reload trees without None inside *)
Definition ex_plain : coll :=
  With (LVec [Rec 3; Glob (lvl DEBUG)])
    (With LNone (With (Pair (Filtered (Rec 2) (lvl WARN)) (LReload (Glob (lvl INFO)))) (With (LVec []) Registry))).
Lemma ex_plain_nonvacuous :
  CLeafOK ex_plain /\ c_plain ex_plain = true /\ c_hint ex_plain = Some (Some INFO) /\ above m_debug_ev (Some INFO) /\
  deliver ex_plain m_debug_ev cx0 = [] /\ deliver ex_plain m_info_ev cx0 = [3] /\
  c_plain f83_stack_for_plain = false.
Proof. ex_solve. Qed.

(** F82 (still in the tree): [Filtered::register_callsite] ignores the Interest of the layer it wraps.
    registry().with(LevelFilter::INFO.and_then(rec).with_filter(None)) answers [always] for a DEBUG event,
    but its [enabled] (which does ask the wrapped global filter) rejects it *)
Definition f82_stack : coll := With (Filtered (Pair (Rec 1) (Glob (lvl INFO))) FNone) Registry.
Lemma F82_refuted :
  exists c m cx, CLeafOK c /\ c_f12 c m = false /\ CRegistered c m cx /\ c_f82 c m = true /\
                 c_interest c m = always /\ deliver c m cx = [] /\ c_all c = [1].
Proof. exists f82_stack, m_debug_ev, cx0. ex_solve. Qed.

(** F83 (still in the tree): a None layer beside a per-layer-filtered layer inside an [and_then] pair makes a
    tree that is not "per-subscriber filtered" but publishes the filter's hint as if it were global:
    registry().with(None.and_then(rec2.with_filter(INFO))).with(rec1) has hint INFO, so rec1 loses DEBUG *)
Definition f83_stack : coll :=
  With (Rec 1) (With (Pair (Filtered (Rec 2) (lvl INFO)) LNone) Registry).
Lemma F83_refuted :
  exists c h m cx, CLeafOK c /\ c_f83 c = true /\ c_hint c = Some h /\ above m h /\ deliver c m cx = [1].
Proof. exists f83_stack, (Some INFO), m_debug_ev, cx0. ex_solve. Qed.
(** the same class contains the documented restriction of [reload] (a [Filtered] inside a [reload::Subscriber]
    is not recognised as per-subscriber filtered): the hypothesis is necessary there too *)
Definition reload_filtered_stack : coll :=
  With (Rec 1) (With (LReload (Filtered (Rec 2) (lvl INFO))) Registry).
Lemma reload_filtered_in_F83 :
  c_reloaded_filtered reload_filtered_stack = true /\ c_f83 reload_filtered_stack = true /\
  c_hint reload_filtered_stack = Some (Some INFO) /\ deliver reload_filtered_stack m_debug_ev cx0 = [1].
Proof. repeat split; vm_compute; reflexivity. Qed.

(** ** the replays of the repaired findings now satisfy the property *)
(** F8 (f08c5cd): registry().with(vec![LevelFilter::INFO, rec]) and a DEBUG event *)
Definition f8_stack : coll := With (LVec [Glob (lvl INFO); Rec 1]) Registry.
(** F14 (178eca9): registry().with(rec).with(Vec::new()) *)
Definition f14_stack : coll := With (LVec []) (With (Rec 1) Registry).
(** F81 = F15 (2ad583d): registry().with(plain.and_then(rec.with_filter(INFO))) *)
Definition f81_stack : coll := With (Pair (Filtered (Rec 2) (lvl INFO)) (Rec 1)) Registry.
Lemma repaired_replays :
  (c_interest f8_stack m_debug_ev = never /\ deliver f8_stack m_debug_ev cx0 = []) /\
  (c_hint f14_stack = None /\ c_interest f14_stack m_debug_ev = always /\ deliver f14_stack m_debug_ev cx0 = [1] /\
   c_f83 f14_stack = false) /\
  (c_hint f81_stack = None /\ deliver f81_stack m_debug_ev cx0 = [1] /\ c_f83 f81_stack = false).
Proof. repeat split; vm_compute; reflexivity. Qed.

(** ** DirectiveSet: replace-on-duplicate recomputes the maximum (cc87356): "a=trace,a=error" has max_level ERROR;
    a more specific directive beside it keeps its own level *)
Definition ex_dirs : list sdir :=
  [ {| sd_target := Some "a"%string; sd_fields := []; sd_level := Some TRACE |};
    {| sd_target := Some "ab"%string; sd_fields := []; sd_level := Some WARN |};
    {| sd_target := Some "a"%string; sd_fields := []; sd_level := Some ERROR |} ].
Lemma ex_directive_nonvacuous :
  ds_dirs (ds_of cmp_sdir sd_level ex_dirs) =
    [ {| sd_target := Some "ab"%string; sd_fields := []; sd_level := Some WARN |};
      {| sd_target := Some "a"%string; sd_fields := []; sd_level := Some ERROR |} ] /\
  ds_max (ds_of cmp_sdir sd_level ex_dirs) = Some WARN /\
  ds_max (ds_of cmp_sdir sd_level (firstn 2 ex_dirs)) = Some TRACE /\
  ds_replaced cmp_sdir {| sd_target := Some "a"%string; sd_fields := []; sd_level := Some ERROR |}
     (ds_dirs (ds_of cmp_sdir sd_level (firstn 2 ex_dirs))) = true.
Proof. repeat split; vm_compute; reflexivity. Qed.
