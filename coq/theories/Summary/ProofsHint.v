(** C08 — proofs, part 3: the max-level hint of layers and stacks ([Layered::pick_level_hint], [Vec], [Option]). *)
From Coq Require Import List NArith Bool String Lia.
Import ListNotations.
From TV Require Import Summary.Model Summary.Proofs Summary.ProofsStack.
Local Open Scope N_scope.
Local Arguments N.add : simpl never.
Local Arguments N.mul : simpl never.
Local Arguments N.sub : simpl never.
Local Arguments N.leb : simpl never.
Local Arguments N.ltb : simpl never.
Local Arguments N.eqb : simpl never.
Local Arguments env_build : simpl never.

(** ** The shape of a merged hint: it is either at least both sides' hints, or it is one side's hint while the
    other side has none.  Every branch of [pick_level_hint] (away from the registry) is covered. *)
Lemma pick_level_hint_cases_strong : forall fl sn inn o i h,
  fl_inner_is_registry fl = false ->
  pick_level_hint fl sn inn o i = Some h ->
  (exists x y, o = Some x /\ i = Some y /\ frank x <= frank h /\ frank y <= frank h) \/
  (o = None /\ i = Some h /\ fl_inner_has_psf fl = false /\ (sn = true \/ inn && hint_is_off i = false)) \/
  (o = Some h /\ i = None /\ fl_has_psf fl = false /\ sn = false).
Proof.
  intros [reg hp ip] sn inn o i h Hr H. simpl in Hr. subst reg. unfold pick_level_hint in H. cbn [fl_inner_is_registry fl_has_psf fl_inner_has_psf] in *.
  destruct hp, ip, sn, inn; destruct o as [[[]|]|]; destruct i as [[[]|]|]; vm_compute in H; try discriminate H;
    inversion H; subst; clear H;
    first [ left; eexists; eexists; split; [reflexivity|]; split; [reflexivity|]; split; vm_compute; discriminate
          | right; left; split; [reflexivity|]; split; [reflexivity|]; split; [reflexivity|];
            first [left; reflexivity | right; reflexivity]
          | right; right; repeat split; reflexivity ].
Qed.

Lemma pick_level_hint_cases : forall fl sn inn o i h,
  fl_inner_is_registry fl = false ->
  pick_level_hint fl sn inn o i = Some h ->
  (exists x y, o = Some x /\ i = Some y /\ frank x <= frank h /\ frank y <= frank h) \/
  (o = None /\ i = Some h) \/
  (o = Some h /\ i = None).
Proof.
  intros fl sn inn o i h Hr H.
  destruct (pick_level_hint_cases_strong fl sn inn o i h Hr H) as [A | [[A [B _]] | [A [B _]]]]; auto.
Qed.

(** at the registry the hint is the outer layer's alone *)
Lemma pick_level_hint_registry : forall fl sn inn o i,
  fl_inner_is_registry fl = true -> pick_level_hint fl sn inn o i = o.
Proof. intros fl sn inn o i H. unfold pick_level_hint. rewrite H. reflexivity. Qed.

(** ** [gbound]: above it, the tree's [enabled] says no, for the whole stack *)
Lemma opt_lf_min_cases : forall a b g, opt_lf_min a b = Some g ->
  (exists x, a = Some x /\ frank x <= frank g) \/ (exists y, b = Some y /\ frank y <= frank g).
Proof.
  intros [x|] [y|] g H; simpl in H; try discriminate H; inversion H; subst.
  - rewrite frank_lf_min. destruct (N.le_ge_cases (frank x) (frank y)).
    + left. exists x. split; [reflexivity | lia].
    + right. exists y. split; [reflexivity | lia].
  - left. exists g. split; [reflexivity | lia].
  - right. exists g. split; [reflexivity | lia].
Qed.

Lemma gbound_sound : forall l, LLeafOK l -> forall g, gbound l = Some g ->
  forall m cx, above m g -> l_en l m cx = false.
Proof.
  unfold LLeafOK.
  induction l using layer_ind'; intros HL g Hg m cx Hab; simpl in *; try discriminate Hg.
  - (* Glob *) inversion HL as [|? ? HLf _]; subst. eapply filter_hint_sound; eauto.
  - (* Pair *)
    apply Forall_app in HL. destruct HL as [HLa HLb].
    destruct (opt_lf_min_cases _ _ _ Hg) as [[x [Hx Hle]] | [y [Hy Hle]]].
    + rewrite (IHl1 HLa x Hx m cx); [reflexivity | eapply above_mono; eauto].
    + rewrite (IHl2 HLb y Hy m cx); [apply andb_false_r | eapply above_mono; eauto].
  - (* LSome *) eapply IHl; eauto.
  - (* Vec *)
    apply Forall_flat_map in HL. revert g Hg Hab.
    induction H as [|e t He Ht IH]; intros g Hg Hab; simpl in *; [discriminate Hg|].
    inversion HL as [|? ? HLe HLt]; subst.
    destruct (opt_lf_min_cases _ _ _ Hg) as [[x [Hx Hle]] | [y [Hy Hle]]].
    + rewrite (He HLe x Hx m cx); [reflexivity | eapply above_mono; eauto].
    + rewrite (IH HLt y Hy); [apply andb_false_r | eapply above_mono; eauto].
  - (* LBox *) eapply IHl; eauto.
  - (* LReload *) eapply IHl; eauto.
Qed.

Lemma gok_sound : forall l x, LLeafOK l -> gok (gbound l) x = true ->
  forall m cx, above m x -> l_en l m cx = false.
Proof.
  intros l x HL H m cx Hab. unfold gok in H. destruct (gbound l) as [g|] eqn:E; [|discriminate H].
  apply N.leb_le in H. eapply gbound_sound; eauto. eapply above_mono; eauto.
Qed.

Lemma c_gbound_sound : forall c, CLeafOK c -> forall g, c_gbound c = Some g ->
  forall m cx, above m g -> c_en c m cx = false.
Proof.
  unfold CLeafOK. induction c as [|l c IH]; intros HL g Hg m cx Hab; simpl in *; [discriminate Hg|].
  apply Forall_app in HL. destruct HL as [HLl HLc].
  destruct (opt_lf_min_cases _ _ _ Hg) as [[x [Hx Hle]] | [y [Hy Hle]]].
  - rewrite (gbound_sound l HLl x Hx m cx); [reflexivity | eapply above_mono; eauto].
  - rewrite (IH HLc y Hy m cx); [apply andb_false_r | eapply above_mono; eauto].
Qed.

Lemma c_gok_sound : forall c x, CLeafOK c -> gok (c_gbound c) x = true ->
  forall m cx, above m x -> c_en c m cx = false.
Proof.
  intros c x HL H m cx Hab. unfold gok in H. destruct (c_gbound c) as [g|] eqn:E; [|discriminate H].
  apply N.leb_le in H. eapply c_gbound_sound; eauto. eapply above_mono; eauto.
Qed.

(** ** The hint of a [Vec]: [Some] only if every element has one, and then at least each of them *)
Lemma vec_hint_fold : forall hs acc h,
  fold_left vec_hint_step hs (Some acc) = Some h ->
  frank acc <= frank h /\ Forall (fun e => exists x, e = Some x /\ frank x <= frank h) hs.
Proof.
  induction hs as [|e t IH]; intros acc h H; simpl in H.
  - inversion H; subst. split; [lia | constructor].
  - destruct e as [x|]; simpl in H.
    + apply IH in H. destruct H as [H1 H2]. rewrite frank_lf_max in H1. split; [lia|].
      constructor; [exists x; split; [reflexivity | lia] | exact H2].
    + exfalso. clear IH. induction t as [|e t IHt]; simpl in H; [discriminate H | auto].
Qed.

Lemma l_hint_vec : forall ls, l_hint (LVec ls) = fold_left vec_hint_step (map l_hint ls) (Some OFF).
Proof.
  intros ls. simpl. generalize (Some OFF : hint). induction ls as [|e t IH]; intros a; simpl; [reflexivity | apply IH].
Qed.

(** ** Layers: outside the F83 class, a tree's hint bounds what its own leaves receive *)
Definition quiet_l (l : layer) (m : meta) (cx : ctx) : Prop := l_en l m cx = false \/ l_recv l m cx = [].
Definition quiet_c (c : coll) (m : meta) (cx : ctx) : Prop := c_en c m cx = false \/ c_recv c m cx = [].

Lemma merge_bad_l : forall o i h go gi,
  merge_bad o i (Some h) go gi = false ->
  (o = None -> gok gi h = true) /\ (i = None -> gok go h = true).
Proof.
  intros o i h go gi H. simpl in H. apply orb_false_iff in H. destruct H as [H1 H2]. split; intros ->; simpl in *.
  - apply negb_false_iff in H1. exact H1.
  - apply negb_false_iff in H2. exact H2.
Qed.

Lemma layer_hint_sound : forall l, LLeafOK l -> l_f83 l = false -> forall h, l_hint l = Some h ->
  forall m cx, above m h -> quiet_l l m cx.
Proof.
  unfold quiet_l.
  induction l using layer_ind'; intros HL H83 h Hh m cx Hab; simpl in Hh; try discriminate Hh.
  - (* Glob *)
    left. simpl. unfold LLeafOK in HL. simpl in HL. inversion HL as [|? ? HLf _]; subst. eapply filter_hint_sound; eauto.
  - (* Filtered *)
    right. simpl. unfold LLeafOK in HL. simpl in HL. inversion HL as [|? ? HLf _]; subst.
    rewrite (filter_hint_sound f HLf h Hh m cx Hab). reflexivity.
  - (* Pair *)
    assert (HLa : LLeafOK l1) by (unfold LLeafOK in *; simpl in HL; apply Forall_app in HL; tauto).
    assert (HLb : LLeafOK l2) by (unfold LLeafOK in *; simpl in HL; apply Forall_app in HL; tauto).
    simpl in H83. apply orb_false_iff in H83. destruct H83 as [H83 H83b].
    apply orb_false_iff in H83. destruct H83 as [Hm H83a]. rewrite Hh in Hm.
    destruct (merge_bad_l _ _ _ _ _ Hm) as [Mo Mi].
    destruct (pick_level_hint_cases (pair_flags l1 l2) _ _ _ _ _ eq_refl Hh) as [[x [y [Ho [Hi [Hx Hy]]]]] | [[Ho Hi] | [Ho Hi]]].
    + destruct (IHl1 HLa H83a x Ho m cx (above_mono m x h Hx Hab)) as [A|A];
        [left; simpl; rewrite A; reflexivity|].
      destruct (IHl2 HLb H83b y Hi m cx (above_mono m y h Hy Hab)) as [B|B];
        [left; simpl; rewrite B; apply andb_false_r|].
      right. simpl. rewrite A, B. reflexivity.
    + left. simpl. rewrite (gok_sound l2 h HLb (Mo Ho) m cx Hab). apply andb_false_r.
    + left. simpl. rewrite (gok_sound l1 h HLa (Mi Hi) m cx Hab). reflexivity.
  - (* LSome *) simpl. apply (IHl HL H83 h Hh m cx Hab).
  - (* LNone *) right. reflexivity.
  - (* Vec *)
    pose proof (l_hint_vec ls) as E. simpl in E. rewrite E in Hh. clear E.
    apply vec_hint_fold in Hh. destruct Hh as [_ Hall]. rewrite Forall_map in Hall.
    unfold LLeafOK in HL. simpl in HL. apply Forall_flat_map in HL.
    simpl in H83. apply existsb_false_forall in H83.
    simpl.
    induction H as [|e t He Ht IH]; simpl; [right; reflexivity|].
    inversion HL as [|? ? HLe HLt]; subst. inversion H83 as [|? ? H83e H83t]; subst.
    inversion Hall as [|? ? Hxe Hallt]; subst.
    destruct Hxe as [x [Hx Hle]].
    destruct (He HLe H83e x Hx m cx (above_mono m x h Hle Hab)) as [A|A]; [left; rewrite A; reflexivity|].
    destruct (IH HLt H83t Hallt) as [B|B]; [left; rewrite B; apply andb_false_r|].
    right. rewrite A, B. reflexivity.
  - (* LBox *) simpl. apply (IHl HL H83 h Hh m cx Hab).
  - (* LReload *) simpl. apply (IHl HL H83 h Hh m cx Hab).
Qed.

(** ** Stacks *)
Lemma coll_hint_sound : forall c, CLeafOK c -> c_f83 c = false -> forall h, c_hint c = Some h ->
  forall m cx, above m h -> quiet_c c m cx.
Proof.
  unfold quiet_c.
  induction c as [|l c IH]; intros HL H83 h Hh m cx Hab; [discriminate Hh|].
  assert (HLl : LLeafOK l) by (unfold CLeafOK, LLeafOK in *; simpl in HL; apply Forall_app in HL; tauto).
  assert (HLc : CLeafOK c) by (unfold CLeafOK, LLeafOK in *; simpl in HL; apply Forall_app in HL; tauto).
  simpl in H83. apply orb_false_iff in H83. destruct H83 as [H83 H83c].
  apply orb_false_iff in H83. destruct H83 as [Hm H83l].
  destruct c as [|l' c'].
  - (* the layer sits on the registry *)
    simpl in Hh. rewrite pick_level_hint_registry in Hh by reflexivity.
    destruct (layer_hint_sound l HLl H83l h Hh m cx Hab) as [A|A].
    + left. simpl. rewrite A. reflexivity.
    + right. simpl. exact A.
  - remember (With l' c') as c eqn:Ec.
    assert (Hreg : is_registry c = false) by (subst c; reflexivity).
    rewrite Hreg in Hm. simpl in Hm. cbn [c_hint] in Hh. fold (c_hint c) in Hh.
    change (c_hint (With l c)) with (pick_level_hint (with_flags l c) (is_none l) (c_is_none c) (l_hint l) (c_hint c)) in Hm.
    rewrite Hh in Hm.
    destruct (merge_bad_l _ _ _ _ _ Hm) as [Mo Mi].
    assert (Hfl : fl_inner_is_registry (with_flags l c) = false) by (simpl; exact Hreg).
    destruct (pick_level_hint_cases _ _ _ _ _ _ Hfl Hh) as [[x [y [Ho [Hi [Hx Hy]]]]] | [[Ho Hi] | [Ho Hi]]].
    + destruct (layer_hint_sound l HLl H83l x Ho m cx (above_mono m x h Hx Hab)) as [A|A];
        [left; simpl; rewrite A; reflexivity|].
      destruct (IH HLc H83c y Hi m cx (above_mono m y h Hy Hab)) as [B|B];
        [left; simpl; rewrite B; apply andb_false_r|].
      right. simpl. rewrite A, B. reflexivity.
    + left. simpl. rewrite (c_gok_sound c h HLc (Mo Ho) m cx Hab). apply andb_false_r.
    + left. simpl. rewrite (gok_sound l h HLl (Mi Hi) m cx Hab). reflexivity.
Qed.

Theorem stack_hint : forall c, CLeafOK c -> c_f83 c = false -> forall h, c_hint c = Some h ->
  forall m cx, above m h -> deliver c m cx = [].
Proof.
  intros c HL H83 h Hh m cx Hab. unfold deliver.
  destruct (coll_hint_sound c HL H83 h Hh m cx Hab) as [A|A]; rewrite A; [reflexivity|].
  destruct (c_en c m cx); reflexivity.
Qed.
