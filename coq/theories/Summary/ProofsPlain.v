(** C08 — proofs, part 4: a syntactic domain on which the max-level hint is sound with no finding excluded.
    A stack is [c_plain] when every layer added with [.with(..)] is either a None layer as a whole (possibly
    wrapped in Some / Box / reload, or an empty Vec) or a tree that contains no None layer / empty Vec and no
    per-subscriber-filtered tree inside a [reload::Subscriber].  Such a stack is never in the F83 class. *)
From Coq Require Import List NArith Bool String Lia.
Import ListNotations.
From TV Require Import Summary.Model Summary.Proofs Summary.ProofsStack Summary.ProofsHint.
Local Open Scope N_scope.
Local Arguments N.add : simpl never.
Local Arguments N.mul : simpl never.
Local Arguments N.sub : simpl never.
Local Arguments N.leb : simpl never.
Local Arguments N.ltb : simpl never.
Local Arguments N.eqb : simpl never.
Local Arguments env_build : simpl never.

Definition is_nil {A} (l : list A) : bool := match l with [] => true | _ => false end.

(** a None layer as a whole *)
Fixpoint pure_none (l : layer) : bool :=
  match l with
  | LNone => true
  | LSome l => pure_none l
  | LBox l => pure_none l
  | LReload l => pure_none l
  | LVec ls => is_nil ls
  | _ => false
  end.

(** no None layer / empty Vec anywhere (outside the layer wrapped by a Filtered, whose summaries are the
    filter's alone), and nothing per-subscriber-filtered inside a reload *)
Fixpoint l_plain (l : layer) : bool :=
  match l with
  | Rec _ => true
  | Glob _ => true
  | Filtered _ _ => true
  | Pair a b => l_plain a && l_plain b
  | LSome l => l_plain l
  | LNone => false
  | LVec ls => negb (is_nil ls) && forallb l_plain ls
  | LBox l => l_plain l
  | LReload l => l_plain l && negb (psf l)
  | Identity => true
  end.

Fixpoint c_plain (c : coll) : bool :=
  match c with Registry => true | With l c' => (l_plain l || pure_none l) && c_plain c' end.

Lemma gok_refl : forall h, gok (Some h) h = true.
Proof. intros h. simpl. apply N.leb_refl. Qed.

Lemma gok_mono : forall g x h, gok g x = true -> frank x <= frank h -> gok g h = true.
Proof.
  intros [y|] x h H Hle; simpl in *; [|discriminate H]. apply N.leb_le in H. apply N.leb_le. lia.
Qed.

Lemma gok_min_l : forall ga gb h, gok ga h = true -> gok (opt_lf_min ga gb) h = true.
Proof.
  intros [x|] [y|] h H; simpl in *; try discriminate H; auto.
  apply N.leb_le in H. apply N.leb_le. rewrite frank_lf_min. lia.
Qed.
Lemma gok_min_r : forall ga gb h, gok gb h = true -> gok (opt_lf_min ga gb) h = true.
Proof.
  intros [x|] [y|] h H; simpl in *; try discriminate H; auto.
  apply N.leb_le in H. apply N.leb_le. rewrite frank_lf_min. lia.
Qed.

Lemma plain_not_none : forall l, l_plain l = true -> is_none l = false.
Proof.
  induction l using layer_ind'; intros Hp; simpl in *; try reflexivity; try discriminate Hp; auto.
  - apply andb_true_iff in Hp. destruct Hp as [Ha Hb]. rewrite (IHl1 Ha), (IHl2 Hb). reflexivity.
  - apply andb_true_iff in Hp. destruct Hp as [Hne Hall]. destruct ls as [|e t]; [discriminate Hne|].
    cbn [is_nil orb]. rewrite forallb_forall in Hall. rewrite Forall_forall in H.
    destruct (existsb is_none (e :: t)) eqn:E; [|reflexivity].
    apply existsb_exists in E. destruct E as [x [Hx Hn]]. rewrite (H x Hx (Hall x Hx)) in Hn. discriminate Hn.
  - apply andb_true_iff in Hp. destruct Hp as [Hp _]. auto.
Qed.

Lemma vec_gbound_in : forall ls e x h, In e ls -> gok (gbound e) x = true -> frank x <= frank h ->
  gok (fold_right (fun e acc => opt_lf_min (gbound e) acc) None ls) h = true.
Proof.
  induction ls as [|a t IH]; intros e x h Hin Hg Hle; [destruct Hin|]. simpl. destruct Hin as [->|Hin].
  - apply gok_min_l. eapply gok_mono; eauto.
  - apply gok_min_r. eapply IH; eauto.
Qed.

(** plain trees: never in the F83 class, and a tree that is not per-subscriber filtered has its hint from a
    global filter *)
Lemma plain_layer : forall l, l_plain l = true ->
  l_f83 l = false /\ (psf l = false -> forall h, l_hint l = Some h -> gok (gbound l) h = true).
Proof.
  induction l using layer_ind'; intros Hp; simpl in Hp.
  - split; [reflexivity|]. intros _ h Hh. discriminate Hh.
  - split; [reflexivity|]. intros _ h Hh. simpl in *. rewrite Hh. apply gok_refl.
  - split; [reflexivity|]. intros Hf. discriminate Hf.
  - (* Pair *)
    apply andb_true_iff in Hp. destruct Hp as [Hpa Hpb].
    destruct (IHl1 Hpa) as [Fa Ga]. destruct (IHl2 Hpb) as [Fb Gb]. split.
    + simpl. rewrite Fa, Fb, !orb_false_r.
      destruct (pick_level_hint (pair_flags l1 l2) (is_none l1) (is_none l2) (l_hint l1) (l_hint l2)) as [x|] eqn:E;
        [|reflexivity].
      destruct (pick_level_hint_cases_strong (pair_flags l1 l2) _ _ _ _ _ eq_refl E)
        as [[a [b [Ho [Hi _]]]] | [[Ho [Hi [Hip _]]] | [Ho [Hi [Hhp _]]]]]; simpl in *.
      * rewrite Ho, Hi. reflexivity.
      * rewrite Ho, Hi. simpl. rewrite (Gb Hip x Hi). reflexivity.
      * rewrite Ho, Hi. simpl. rewrite (Ga Hhp x Ho). reflexivity.
    + intros Hpsf h Hh. simpl in Hpsf, Hh. simpl.
      destruct (pick_level_hint_cases_strong (pair_flags l1 l2) _ _ _ _ _ eq_refl Hh)
        as [[a [b [Ho [Hi [Ha Hb]]]]] | [[Ho [Hi [Hip _]]] | [Ho [Hi [Hhp _]]]]]; simpl in *.
      * apply andb_false_iff in Hpsf. destruct Hpsf as [Hf|Hf].
        -- apply gok_min_l. eapply gok_mono; [apply (Ga Hf a Ho) | exact Ha].
        -- apply gok_min_r. eapply gok_mono; [apply (Gb Hf b Hi) | exact Hb].
      * apply gok_min_r. apply (Gb Hip h Hi).
      * apply gok_min_l. apply (Ga Hhp h Ho).
  - (* LSome *) simpl. apply IHl. exact Hp.
  - discriminate Hp.
  - (* Vec *)
    apply andb_true_iff in Hp. destruct Hp as [Hne Hall]. rewrite forallb_forall in Hall. rewrite Forall_forall in H.
    split.
    + simpl. destruct (existsb l_f83 ls) eqn:E; [|reflexivity].
      apply existsb_exists in E. destruct E as [x [Hx Hf]]. rewrite (proj1 (H x Hx (Hall x Hx))) in Hf. discriminate Hf.
    + intros Hpsf h Hh. rewrite l_hint_vec in Hh. apply vec_hint_fold in Hh. destruct Hh as [_ Hs].
      rewrite Forall_map in Hs. rewrite Forall_forall in Hs.
      simpl in Hpsf. unfold is_nil in Hne. rewrite Hne, andb_true_r in Hpsf.
      assert (Hex : exists e, In e ls /\ psf e = false).
      { clear - Hpsf. induction ls as [|a t IH]; simpl in Hpsf; [discriminate Hpsf|].
        destruct (psf a) eqn:Ea; [|exists a; split; [left; reflexivity | exact Ea]].
        simpl in Hpsf. destruct (IH Hpsf) as [e [He1 He2]]. exists e. split; [right; exact He1 | exact He2]. }
      destruct Hex as [e [Hin Hf]]. destruct (Hs e Hin) as [x [Hx Hle]].
      simpl. eapply vec_gbound_in; [exact Hin | apply (proj2 (H e Hin (Hall e Hin)) Hf x Hx) | exact Hle].
  - (* LBox *) simpl. apply IHl. exact Hp.
  - (* LReload *)
    apply andb_true_iff in Hp. destruct Hp as [Hp Hn]. apply negb_true_iff in Hn.
    destruct (IHl Hp) as [F G]. split; [exact F|]. intros _ h Hh. simpl in *. apply (G Hn h Hh).
  - split; [reflexivity|]. intros _ h Hh. discriminate Hh.
Qed.

Lemma pure_none_facts : forall l, pure_none l = true ->
  l_hint l = Some OFF /\ is_none l = true /\ psf l = false /\ gbound l = None /\ l_f83 l = false.
Proof.
  induction l using layer_ind'; intros Hp; simpl in Hp; try discriminate Hp.
  - (* LSome *) simpl. apply IHl. exact Hp.
  - (* LNone *) repeat split; reflexivity.
  - (* LVec *) destruct ls as [|e t]; [|discriminate Hp]. repeat split; reflexivity.
  - (* LBox *) simpl. apply IHl. exact Hp.
  - (* LReload *) destruct (IHl Hp) as [A [B [C [D E]]]]. simpl. repeat split; auto.
Qed.

Lemma opt_lf_min_none_r : forall a, opt_lf_min a None = a.
Proof. intros [x|]; reflexivity. Qed.

Lemma plain_coll : forall c, c_plain c = true ->
  c_f83 c = false /\
  (c_psf c = false -> forall h, c_hint c = Some h ->
   gok (c_gbound c) h = true \/ (c_is_none c = true /\ h = OFF)).
Proof.
  induction c as [|l c IH]; intros Hp.
  - split; [reflexivity|]. intros _ h Hh. discriminate Hh.
  - simpl in Hp. apply andb_true_iff in Hp. destruct Hp as [Hl Hc]. destruct (IH Hc) as [Fc Gc]. clear IH.
    assert (Fl : l_f83 l = false).
    { apply orb_true_iff in Hl. destruct Hl as [Hl|Hl]; [apply (plain_layer l Hl) | apply (pure_none_facts l Hl)]. }
    destruct c as [|l' c'].
    + (* on the registry *)
      split.
      * simpl. rewrite Fl. reflexivity.
      * intros Hpsf h Hh. simpl in Hpsf, Hh. rewrite orb_false_r in Hpsf.
        rewrite pick_level_hint_registry in Hh by reflexivity.
        apply orb_true_iff in Hl. destruct Hl as [Hl|Hl].
        -- left. simpl. rewrite opt_lf_min_none_r. apply (proj2 (plain_layer l Hl) Hpsf h Hh).
        -- right. destruct (pure_none_facts l Hl) as [A [B _]]. simpl. rewrite B. rewrite A in Hh. inversion Hh. auto.
    + remember (With l' c') as c eqn:Ec.
      assert (Hreg : is_registry c = false) by (subst c; reflexivity).
      assert (Hfl : fl_inner_is_registry (with_flags l c) = false) by (simpl; exact Hreg).
      assert (Hh_eq : c_hint (With l c) = pick_level_hint (with_flags l c) (is_none l) (c_is_none c) (l_hint l) (c_hint c))
        by reflexivity.
      split.
      * cbn [c_f83]. rewrite Fl, Fc, Hreg, !orb_false_r. cbn [negb andb]. rewrite Hh_eq.
        destruct (pick_level_hint (with_flags l c) (is_none l) (c_is_none c) (l_hint l) (c_hint c)) as [x|] eqn:E;
          [|reflexivity].
        destruct (pick_level_hint_cases_strong _ _ _ _ _ _ Hfl E)
          as [[a [b [Ho [Hi _]]]] | [[Ho [Hi [Hip Hsn]]] | [Ho [Hi [Hhp Hsn]]]]].
        -- rewrite Ho, Hi. reflexivity.
        -- (* the hint comes from the inner stack alone *)
           simpl in Hip. rewrite Hreg, orb_false_r in Hip.
           assert (Hpl : l_plain l = true).
           { apply orb_true_iff in Hl. destruct Hl as [Hl|Hl]; [exact Hl|].
             destruct (pure_none_facts l Hl) as [A _]. rewrite A in Ho. discriminate Ho. }
           rewrite (plain_not_none l Hpl) in Hsn.
           destruct (Gc Hip x Hi) as [G | [Hn Hx]].
           ++ rewrite Ho, Hi. simpl. rewrite G. reflexivity.
           ++ subst x. rewrite Hn, Hi in Hsn. simpl in Hsn. destruct Hsn as [Hsn|Hsn]; discriminate Hsn.
        -- (* the hint comes from the outer layer alone *)
           simpl in Hhp.
           assert (Hpl : l_plain l = true).
           { apply orb_true_iff in Hl. destruct Hl as [Hl|Hl]; [exact Hl|].
             destruct (pure_none_facts l Hl) as [_ [B _]]. rewrite B in Hsn. discriminate Hsn. }
           rewrite Ho, Hi. simpl. rewrite (proj2 (plain_layer l Hpl) Hhp x Ho). reflexivity.
      * intros Hpsf h Hh. cbn [c_psf] in Hpsf. apply orb_false_iff in Hpsf. destruct Hpsf as [Hpl Hpc].
        rewrite Hh_eq in Hh. cbn [c_gbound c_is_none].
        apply orb_true_iff in Hl. destruct Hl as [Hl|Hl].
        -- (* a plain outer layer *)
           destruct (pick_level_hint_cases_strong _ _ _ _ _ _ Hfl Hh)
             as [[a [b [Ho [Hi [Ha Hb]]]]] | [[Ho [Hi [Hip Hsn]]] | [Ho [Hi [Hhp Hsn]]]]].
           ++ left. apply gok_min_l. eapply gok_mono; [apply (proj2 (plain_layer l Hl) Hpl a Ho) | exact Ha].
           ++ rewrite (plain_not_none l Hl) in Hsn.
              destruct (Gc Hpc h Hi) as [G | [Hn Hx]].
              ** left. apply gok_min_r. exact G.
              ** subst h. rewrite Hn, Hi in Hsn. simpl in Hsn. destruct Hsn as [Hsn|Hsn]; discriminate Hsn.
           ++ left. apply gok_min_l. apply (proj2 (plain_layer l Hl) Hpl h Ho).
        -- (* a None layer: the inner stack's hint passes through *)
           destruct (pure_none_facts l Hl) as [A [B [C [D _]]]].
           rewrite A, B in Hh. unfold pick_level_hint in Hh. simpl in Hh. rewrite Hreg, C, Hpc in Hh. simpl in Hh.
           destruct (c_hint c) as [y|] eqn:Ey; simpl in Hh; [|discriminate Hh].
           rewrite lf_max_off_l in Hh. inversion Hh; subst y. rewrite D, B. simpl.
           destruct (Gc Hpc h eq_refl) as [G | [Hn Hx]]; [left; exact G | right; auto].
Qed.

Theorem plain_not_f83 : forall c, c_plain c = true -> c_f83 c = false.
Proof. intros c H. apply (plain_coll c H). Qed.

Theorem stack_hint_plain : forall c, CLeafOK c -> c_plain c = true -> forall h, c_hint c = Some h ->
  forall m cx, above m h -> deliver c m cx = [].
Proof. intros c HL Hp. apply stack_hint; [exact HL | apply plain_not_f83; exact Hp]. Qed.
