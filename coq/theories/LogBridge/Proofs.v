(** C18 — proofs about LogBridge/Model.v (statements are restated in Properties/C18.v). *)
From Coq Require Import Lia.
From TV Require Import Levels.Model Levels.Proofs LogBridge.Model.
Local Open Scope N_scope.
Local Arguments N.add : simpl never.
Local Arguments N.mul : simpl never.
Local Arguments N.sub : simpl never.
Local Arguments N.leb : simpl never.
Local Arguments N.ltb : simpl never.
Local Arguments N.eqb : simpl never.
Local Arguments N.modulo : simpl never.

(** * The translator recognised every shape it reads *)
Lemma nothing_unrecognised : gen_lb_unrecognised = [].
Proof. reflexivity. Qed.

(** * Level conversion (corollary of C19) *)
Lemma as_trace_id : forall l, as_trace_level l = Some l.
Proof. exact (proj1 (proj2 log_level_bijection)). Qed.
Lemma as_log_id : forall l, as_log_level l = Some l.
Proof. exact (proj1 log_level_bijection). Qed.
Lemma level_to_log_id : forall l, level_to_log l = l.
Proof. intros []; reflexivity. Qed.

Definition opt_bind {A B} (o : option A) (f : A -> option B) : option B :=
  match o with Some x => f x | None => None end.

Lemma level_bijection :
  (forall l, opt_bind (as_log_level l) as_trace_level = Some l) /\
  (forall l, opt_bind (as_trace_level l) as_log_level = Some l) /\
  (forall f, opt_bind (as_log_filter f) as_trace_filter = Some f) /\
  (forall f, opt_bind (as_trace_filter f) as_log_filter = Some f) /\
  (forall a b a' b', as_log_level a = Some a' -> as_log_level b = Some b' ->
                     (rank_lv a <= rank_lv b <-> rank_lv a' <= rank_lv b')) /\
  (forall a b a' b', as_trace_level a = Some a' -> as_trace_level b = Some b' ->
                     (rank_lv a <= rank_lv b <-> rank_lv a' <= rank_lv b')) /\
  (forall l, as_log_level l = Some (level_to_log l)).
Proof.
  destruct log_level_bijection as (H1 & H2 & H3 & H4).
  repeat split; intros.
  - rewrite H1. apply H2.
  - rewrite H2. apply H1.
  - rewrite H3. apply H4.
  - rewrite H4. apply H3.
  - rewrite H1 in H, H0. now inversion H; inversion H0; subst.
  - rewrite H1 in H, H0. now inversion H; inversion H0; subst.
  - rewrite H2 in H, H0. now inversion H; inversion H0; subst.
  - rewrite H2 in H, H0. now inversion H; inversion H0; subst.
  - rewrite H1, level_to_log_id. reflexivity.
Qed.

(** * Strings *)
Lemma starts_with_spec : forall p s, starts_with p s = true <-> exists r, s = p ++ r.
Proof.
  induction p as [|a p IH]; intros s; simpl.
  - split; [eexists; reflexivity | reflexivity].
  - destruct s as [|b s].
    + split; [discriminate | intros [r H]; discriminate].
    + rewrite Bool.andb_true_iff, N.eqb_eq, IH. split.
      * intros [-> [r ->]]. exists r. reflexivity.
      * intros [r H]. inversion H. split; [reflexivity | eexists; reflexivity].
Qed.

Definition contains (x s : bytes) : Prop := exists a b, s = a ++ x ++ b.
Lemma contains_refl : forall x, contains x x.
Proof. intros x. exists [], []. now rewrite app_nil_r. Qed.
Lemma contains_app_l : forall x a b, contains x a -> contains x (a ++ b).
Proof. intros x a b (p & q & ->). exists p, (q ++ b). now rewrite <- !app_assoc. Qed.
Lemma contains_app_r : forall x a b, contains x b -> contains x (a ++ b).
Proof. intros x a b (p & q & ->). exists (a ++ p), q. now rewrite <- !app_assoc. Qed.
Lemma contains_mid : forall x a b, contains x (a ++ x ++ b).
Proof. intros. exists a, b. reflexivity. Qed.
Lemma contains_suffix : forall x y a, contains x y -> contains x (a ++ y).
Proof. intros. now apply contains_app_r. Qed.
Lemma contains_trans : forall x y z, contains x y -> contains y z -> contains x z.
Proof.
  intros x y z (a & b & ->) (c & d & ->). exists (c ++ a), (b ++ d). now rewrite <- !app_assoc.
Qed.

(** * Part A *)

(** ** the spec-level reading of the three tests *)
Definition Ignored (ign : list bytes) (t : bytes) : Prop := exists p s, In p ign /\ t = p ++ s.
Definition ignored_b (ign : list bytes) (t : bytes) : bool := existsb (fun p => starts_with p t) ign.
Lemma ignored_spec : forall ign t, ignored_b ign t = true <-> Ignored ign t.
Proof.
  intros. unfold ignored_b, Ignored. rewrite existsb_exists. split.
  - intros (p & Hin & H). apply starts_with_spec in H as [s ->]. now exists p, s.
  - intros (p & s & Hin & ->). exists p. split; [assumption|]. apply starts_with_spec. now exists s.
Qed.

(** the level gate of `LogTracer::enabled`, read off the generated operator table (C19) *)
Lemma gate_spec : forall l f, level_rel_filter gen_tracer_gate l f = Some (negb (rank_lv l <=? rank (VF f))).
Proof. intros [] [[]|]; reflexivity. Qed.

Definition log_record_name : bytes := [108; 111; 103; 32; 114; 101; 99; 111; 114; 100].   (* "log record" *)
Definition log_event_name : bytes := [108; 111; 103; 32; 101; 118; 101; 110; 116].          (* "log event" *)
Definition log_target : bytes := [108; 111; 103].                                             (* "log" *)

(** what the collector is asked: the RECORD's target and level (the synthetic callsite only lends its field set) *)
Definition asks_record (r : logrec) (with_loc : bool) (m : tmeta) : Prop :=
  tm_name m = log_record_name /\ tm_target m = r_target r /\ tm_level m = r_level r /\
  (tm_file m, tm_line m, tm_module m) = (if with_loc then (r_file r, r_line r, r_module r) else (None, None, None)).

Lemma as_trace_metadata_ok : forall r,
  match as_trace_meta gen_as_trace_metadata r with Some m => asks_record r false m | None => False end.
Proof. intros [[] t m f ln md]; cbv; repeat split; reflexivity. Qed.
Lemma as_trace_record_ok : forall r,
  match as_trace_meta gen_as_trace_record r with Some m => asks_record r true m | None => False end.
Proof. intros [[] t m f ln md]; cbv; repeat split; reflexivity. Qed.

(** the event `dispatch_record` builds, and its normalisation *)
Definition normal_of (r : logrec) : nmeta :=
  mkN log_event_name (r_target r) (r_level r) (r_file r) (option_map (fun l => l mod 4294967296) (r_line r))
      (r_module r) [MESSAGE].
Definition event_ok (r : logrec) (e : event) : Prop :=
  ev_name e = log_event_name /\ ev_target e = log_target /\ ev_level e = r_level r /\
  is_log e = Some true /\ message_of e = Some (r_msg r) /\ normalize e = Some (Some (normal_of r)).

Lemma build_event_ok : forall r, match build_event r with Some e => event_ok r e | None => False end.
Proof.
  intros [[] t m [f|] [ln|] [md|]]; cbv -[N.modulo]; repeat split; reflexivity.
Qed.

(** ** closed forms *)
Definition gate_b (st : bstate) (r : logrec) : bool := rank_lv (r_level r) <=? rank (VF (b_max st)).
Definition cur_b (st : bstate) (r : logrec) : bool := b_cur st (r_target r) (r_level r).

Lemma dispatch_record_closed : forall st r, exists m e,
  asks_record r true m /\ event_ok r e /\
  dispatch_record st r = Some (if cur_b st r then [OEnabled m; OEvent e] else [OEnabled m]).
Proof.
  intros st r. unfold dispatch_record.
  pose proof (as_trace_record_ok r) as Hm. destruct (as_trace_meta gen_as_trace_record r) as [m|]; [|contradiction].
  pose proof (build_event_ok r) as He. destruct (build_event r) as [e|]; [|contradiction].
  exists m, e. split; [assumption|]. split; [assumption|].
  change gen_dispatch_checks_enabled with true. cbv iota.
  destruct Hm as (_ & -> & -> & _). unfold cur_b. destruct (b_cur st (r_target r) (r_level r)); reflexivity.
Qed.

Lemma tracer_log_closed : forall st r, exists m1 m2 e,
  asks_record r false m1 /\ asks_record r true m2 /\ event_ok r e /\
  tracer_log st r =
    Some (if gate_b st r && negb (ignored_b (b_ignore st) (r_target r))
          then (if cur_b st r then [OEnabled m1; OEnabled m2; OEvent e] else [OEnabled m1])
          else []).
Proof.
  intros st r.
  destruct (dispatch_record_closed st r) as (m2 & e & Hm2 & He & Hd).
  pose proof (as_trace_metadata_ok r) as Hm1.
  unfold tracer_log, tracer_enabled.
  change gen_tracer_asks_about_record with true. cbv iota beta delta [negb].
  rewrite as_trace_id, gate_spec. fold (gate_b st r).
  change gen_tracer_ignore_test with MStartsWith. cbv beta iota delta [str_test]. fold (ignored_b (b_ignore st) (r_target r)).
  destruct (as_trace_meta gen_as_trace_metadata r) as [m1|]; [|contradiction].
  exists m1, m2, e. repeat (split; [assumption|]).
  destruct (gate_b st r); cbn [negb andb]; [|reflexivity].
  destruct (ignored_b (b_ignore st) (r_target r)); cbn [negb]; [reflexivity|].
  destruct Hm1 as (_ & -> & -> & _). fold (cur_b st r).
  destruct (cur_b st r) eqn:Hc.
  - rewrite Hd. reflexivity.
  - reflexivity.
Qed.

(** ** C18_bridge_iff *)
Definition passes (st : bstate) (e : entry) (r : logrec) : Prop :=
  match e with
  | EDirect =>
      rank_lv (r_level r) <= rank (VF (b_max st)) /\ ~ Ignored (b_ignore st) (r_target r) /\
      b_cur st (r_target r) (r_level r) = true
  | EMacro mx =>
      rank_lv (r_level r) <= rank (VF mx) /\
      rank_lv (r_level r) <= rank (VF (b_max st)) /\ ~ Ignored (b_ignore st) (r_target r) /\
      b_cur st (r_target r) (r_level r) = true
  | EFormatTrace => b_cur st (r_target r) (r_level r) = true
  end.
Definition passes_b (st : bstate) (e : entry) (r : logrec) : bool :=
  match e with
  | EDirect => gate_b st r && negb (ignored_b (b_ignore st) (r_target r)) && cur_b st r
  | EMacro mx => log_le (r_level r) mx && (gate_b st r && negb (ignored_b (b_ignore st) (r_target r)) && cur_b st r)
  | EFormatTrace => cur_b st r
  end.
Lemma passes_reflect : forall st e r, passes_b st e r = true <-> passes st e r.
Proof.
  intros st e r. unfold passes_b, passes, gate_b, cur_b, log_le.
  destruct e; rewrite ?Bool.andb_true_iff, ?Bool.negb_true_iff, ?N.leb_le, <- ?Bool.not_true_iff_false, ?ignored_spec; tauto.
Qed.

Lemma bridge_closed : forall st en r, exists o,
  bridge st en r = Some o /\
  Forall (fun m => tm_target m = r_target r /\ tm_level m = r_level r) (asked_of o) /\
  ((passes_b st en r = true /\ exists e, events_of o = [e] /\ event_ok r e) \/
   (passes_b st en r = false /\ events_of o = [])).
Proof.
  intros st en r.
  destruct (tracer_log_closed st r) as (m1 & m2 & e & H1 & H2 & He & Ht).
  destruct (dispatch_record_closed st r) as (m3 & e3 & H3 & He3 & Hd).
  assert (A1 : tm_target m1 = r_target r /\ tm_level m1 = r_level r) by (destruct H1 as (_ & ? & ? & _); auto).
  assert (A2 : tm_target m2 = r_target r /\ tm_level m2 = r_level r) by (destruct H2 as (_ & ? & ? & _); auto).
  assert (A3 : tm_target m3 = r_target r /\ tm_level m3 = r_level r) by (destruct H3 as (_ & ? & ? & _); auto).
  assert (T : exists o, tracer_log st r = Some o /\
     Forall (fun m => tm_target m = r_target r /\ tm_level m = r_level r) (asked_of o) /\
     ((passes_b st EDirect r = true /\ exists e, events_of o = [e] /\ event_ok r e) \/
      (passes_b st EDirect r = false /\ events_of o = []))).
  { eexists. split; [exact Ht|]. unfold passes_b.
    destruct (gate_b st r && negb (ignored_b (b_ignore st) (r_target r))); cbn [andb].
    - destruct (cur_b st r); cbn [asked_of events_of].
      + split; [repeat constructor; tauto|]. left. split; [reflexivity|]. eauto.
      + split; [repeat constructor; tauto|]. right. split; reflexivity.
    - split; [constructor|]. right. split; reflexivity. }
  destruct en as [|mx|]; cbn [bridge].
  - exact T.
  - unfold passes_b; fold (passes_b st EDirect r). destruct (log_le (r_level r) mx); cbn [andb].
    + exact T.
    + exists []. split; [reflexivity|]. split; [constructor|]. right. split; reflexivity.
  - eexists. split; [exact Hd|]. unfold passes_b. destruct (cur_b st r); cbn [asked_of events_of].
    + split; [repeat constructor; tauto|]. left. split; [reflexivity|]. eauto.
    + split; [repeat constructor; tauto|]. right. split; reflexivity.
Qed.

(** the model is never stuck *)
Lemma bridge_total : forall st en r, exists o, bridge st en r = Some o.
Proof. intros. destruct (bridge_closed st en r) as (o & H & _). eauto. Qed.

Theorem bridge_iff : forall st en r o, bridge st en r = Some o ->
  (List.length (events_of o) = 1%nat <-> passes st en r) /\
  (List.length (events_of o) = 0%nat <-> ~ passes st en r).
Proof.
  intros st en r o Ho. destruct (bridge_closed st en r) as (o' & Ho' & _ & H).
  rewrite Ho in Ho'. inversion Ho'; subst o'. rewrite <- passes_reflect.
  destruct H as [[Hp (e & -> & _)] | [Hp ->]]; rewrite Hp; cbn [List.length]; split; split; intros; try reflexivity; try discriminate; try congruence.
Qed.

Theorem bridge_iff_total : forall st en r, exists o, bridge st en r = Some o /\
  (List.length (events_of o) = 1%nat <-> passes st en r) /\
  (List.length (events_of o) = 0%nat <-> ~ passes st en r).
Proof.
  intros st en r. destruct (bridge_total st en r) as [o Ho]. exists o. split; [exact Ho|]. exact (bridge_iff st en r o Ho).
Qed.

Theorem bridge_asks_about_record : forall st en r o, bridge st en r = Some o ->
  Forall (fun m => tm_target m = r_target r /\ tm_level m = r_level r) (asked_of o).
Proof.
  intros st en r o Ho. destruct (bridge_closed st en r) as (o' & Ho' & H & _). congruence.
Qed.

(** ** C18_normalized *)
Definition line_fits (r : logrec) : Prop := forall l, r_line r = Some l -> l < 4294967296.   (* `u32` *)

Theorem normalized : forall st en r o e, bridge st en r = Some o -> In e (events_of o) -> line_fits r ->
  ev_target e = log_target /\ ev_level e = r_level r /\ is_log e = Some true /\ message_of e = Some (r_msg r) /\
  normalize e = Some (Some (mkN log_event_name (r_target r) (r_level r) (r_file r) (r_line r) (r_module r) [MESSAGE])).
Proof.
  intros st en r o e Ho Hin Hfit. destruct (bridge_closed st en r) as (o' & Ho' & _ & H).
  rewrite Ho in Ho'. inversion Ho'; subst o'.
  destruct H as [[_ (e' & He' & Hok)] | [_ He']]; rewrite He' in Hin; [|contradiction].
  destruct Hin as [<-|[]]. destruct Hok as (_ & Ht & Hl & Hlog & Hmsg & Hn).
  repeat (split; [assumption|]). rewrite Hn. unfold normal_of. do 3 f_equal.
  destruct (r_line r) as [l|] eqn:E; [|reflexivity]. cbn [option_map]. rewrite N.mod_small; [reflexivity|].
  apply Hfit. exact E.
Qed.

(** an event on any other callsite — even one with the same name, target and field names — is not a log event *)
Theorem normalized_foreign : forall e,
  (forall l, ev_cs e <> (match assoc_lv l gen_level_to_cs with Some (cs, _) => cs | None => EmptyString end)) ->
  is_log e = Some false /\ normalize e = Some None.
Proof.
  intros e H. assert (L : is_log e = Some false).
  { unfold is_log. specialize (H (ev_level e)). destruct (ev_level e); cbn in *;
      (match goal with |- Some (String.eqb ?a ?b) = _ => destruct (String.eqb_spec a b); [contradiction | reflexivity] end). }
  split; [assumption|]. unfold normalize. rewrite L. reflexivity.
Qed.

(** * Part B *)
Lemma templates_wellformed :
  List.length (snd gen_span_enter) = 2%nat /\ List.length (snd gen_span_exit) = 2%nat /\ List.length (snd gen_span_drop) = 2%nat /\
  List.length (snd (fst gen_span_new)) = 3%nat /\ List.length (snd (fst gen_span_record)) = 3%nat /\ List.length gen_span_id_fmt = 3%nat.
Proof. repeat split; reflexivity. Qed.

Definition lifecycle_target : bytes := [116; 114; 97; 99; 105; 110; 103; 58; 58; 115; 112; 97; 110].  (* "tracing::span" *)
Definition activity_target : bytes := lifecycle_target ++ [58; 58; 97; 99; 116; 105; 118; 101].        (* "tracing::span::active" *)
Definition s_plusplus : bytes := [43; 43; 32].   (* "++ " *)
Definition s_enter : bytes := [45; 62; 32].      (* "-> " *)
Definition s_exit : bytes := [60; 45; 32].       (* "<- " *)
Definition s_close : bytes := [45; 45; 32].      (* "-- " *)
Definition s_semi : bytes := [59].               (* ";" *)
Definition s_span_eq : bytes := [32; 115; 112; 97; 110; 61].   (* " span=" *)

(** the gates in spec terms *)
Definition gates (cfg : lcfg) (ex : bool) (gate_lvl max_lvl : lv) (target : bytes) (rec_lvl : lv) : bool :=
  log_le gate_lvl (c_static_max cfg) && (c_always cfg || negb ex) && log_le max_lvl (c_log_max cfg) && c_logger cfg target rec_lvl.

Lemma if_log_enabled_spec : forall cfg ex l,
  if_log_enabled cfg ex l = log_le l (c_static_max cfg) && (c_always cfg || negb ex).
Proof.
  intros. unfold if_log_enabled. rewrite level_to_log_id.
  change gen_iflog_always_checks_exists with false. change gen_iflog_checks_exists with true.
  destruct (c_always cfg), ex; reflexivity.
Qed.

(** the generated `log::Record` builders copy file / line / module path from the callsite's metadata *)
Lemma build_macro : forall m l t x, build_lrec gen_macro_log_builder m l t x = mkL l t x (m_file m) (m_line m) (m_module m).
Proof. intros. reflexivity. Qed.
Lemma build_span : forall m l t x, build_lrec gen_span_log_builder m l t x = mkL l t x (m_file m) (m_line m) (m_module m).
Proof. intros. reflexivity. Qed.

Lemma event_log_closed : forall cfg ex m vs,
  event_log cfg ex m vs =
    if gates cfg ex (m_level m) (m_level m) (m_target m) (m_level m)
    then [mkL (m_level m) (m_target m) (fmt_values true vs) (m_file m) (m_line m) (m_module m)] else [].
Proof.
  intros. unfold event_log, gates. rewrite if_log_enabled_spec, level_to_log_id, build_macro.
  destruct (log_le (m_level m) (c_static_max cfg) && (c_always cfg || negb ex)); cbn [andb]; [|reflexivity].
  destruct (log_le (m_level m) (c_log_max cfg)); cbn [andb]; [|reflexivity].
  destruct (c_logger cfg (m_target m) (m_level m)); reflexivity.
Qed.

Definition with_id (s : span) (message : bytes) : bytes :=
  match s_id s with Some id => message ++ s_span_eq ++ dec id | None => message end.

Lemma span_log_closed : forall cfg s m target level message, s_meta s = Some m ->
  span_log cfg s target level message =
    if log_le (m_level m) (c_log_max cfg) && c_logger cfg target level
    then [mkL level target (with_id s message) (m_file m) (m_line m) (m_module m)] else [].
Proof.
  intros cfg s m target level message Hm. unfold span_log, with_id. rewrite Hm, build_span.
  change gen_span_log_max_on_span_level with true. cbv iota. rewrite level_to_log_id.
  destruct (log_le (m_level m) (c_log_max cfg)); cbn [andb]; [|reflexivity].
  destruct (c_logger cfg target level); [|reflexivity].
  destruct (s_id s); [|reflexivity]. cbn. rewrite app_nil_r. reflexivity.
Qed.

Definition span_target (m : meta) (vs : valueset) : bytes := if vs_is_empty vs then lifecycle_target else m_target m.

Lemma record_all_closed : forall cfg ex s m vs, s_meta s = Some m ->
  record_all_log cfg ex s vs =
    if gates cfg ex (m_level m) (m_level m) (span_target m vs) (m_level m)
    then [mkL (m_level m) (span_target m vs) (with_id s (m_name m ++ s_semi ++ fmt_values false vs))
              (m_file m) (m_line m) (m_module m)] else [].
Proof.
  intros cfg ex s m vs Hm. unfold record_all_log, gates. rewrite Hm, if_log_enabled_spec.
  destruct (log_le (m_level m) (c_static_max cfg) && (c_always cfg || negb ex)); cbn [andb]; [|reflexivity].
  cbv beta iota delta [gen_span_record]. rewrite (span_log_closed cfg s m) by assumption. rewrite level_to_log_id.
  unfold values_target, span_target. fold lifecycle_target.
  cbn [fill tl app]. rewrite app_nil_r. reflexivity.
Qed.

Lemma new_span_closed : forall cfg ex m vs sid,
  snd (new_span_log cfg ex m vs sid) =
    if gates cfg ex (m_level m) (m_level m) (span_target m vs) (m_level m)
    then [mkL (m_level m) (span_target m vs)
              (with_id (mkSpan (Some m) sid)
                       ((match sid with Some _ => s_plusplus | None => [] end) ++ m_name m ++ s_semi ++ fmt_values false vs))
              (m_file m) (m_line m) (m_module m)] else [].
Proof.
  intros cfg ex m vs [id|]; unfold new_span_log; cbn [snd].
  - unfold gates. rewrite if_log_enabled_spec.
    destruct (log_le (m_level m) (c_static_max cfg) && (c_always cfg || negb ex)); cbn [andb]; [|reflexivity].
    cbv beta iota delta [gen_span_new]. rewrite (span_log_closed cfg _ m) by reflexivity. rewrite level_to_log_id.
    unfold values_target, span_target. fold lifecycle_target.
    cbn [fill tl app]. rewrite app_nil_r. reflexivity.
  - rewrite (record_all_closed cfg ex _ m) by reflexivity. rewrite if_log_enabled_spec. unfold gates.
    destruct (log_le (m_level m) (c_static_max cfg) && (c_always cfg || negb ex)); cbn [andb app]; reflexivity.
Qed.

Lemma lifecycle_closed : forall site pre target cfg ex s m,
  site = (Trace, target, Trace, [pre; s_semi]) -> s_meta s = Some m ->
  lifecycle_log site cfg ex s =
    if gates cfg ex Trace (m_level m) target Trace
    then [mkL Trace target (with_id s (pre ++ m_name m ++ s_semi)) (m_file m) (m_line m) (m_module m)] else [].
Proof.
  intros site pre target cfg ex s m -> Hm. unfold lifecycle_log, gates. rewrite if_log_enabled_spec, Hm.
  destruct (log_le Trace (c_static_max cfg) && (c_always cfg || negb ex)); cbn [andb]; [|reflexivity].
  rewrite (span_log_closed cfg s m) by assumption. cbn [fill tl]. reflexivity.
Qed.
Lemma lifecycle_none : forall site cfg ex s, s_meta s = None -> lifecycle_log site cfg ex s = [].
Proof.
  intros [[[g t] l] segs] cfg ex s Hm. unfold lifecycle_log. rewrite Hm. destruct (if_log_enabled cfg ex g); reflexivity.
Qed.
Lemma enter_site : gen_span_enter = (Trace, activity_target, Trace, [s_enter; s_semi]). Proof. reflexivity. Qed.
Lemma exit_site : gen_span_exit = (Trace, activity_target, Trace, [s_exit; s_semi]). Proof. reflexivity. Qed.
Lemma drop_site : gen_span_drop = (Trace, lifecycle_target, Trace, [s_close; s_semi]). Proof. reflexivity. Qed.

(** ** "the text contains the message and every field" *)
Definition EQ : bytes := [61].
(** how a set field must show up: the message as its text, anything else as `name=value` *)
Definition field_shown (in_event : bool) (k : bytes) (v : fval) (text : bytes) : Prop :=
  match render k v with
  | None => True                                                  (* field::Empty: nothing to show *)
  | Some d => if in_event && is_message k then contains d text else contains (k ++ EQ ++ d) text
  end.
Definition fields_shown (in_event : bool) (vs : valueset) (text : bytes) : Prop :=
  forall k v, In (k, Some v) vs -> field_shown in_event k v text.

Lemma message_name : gen_lvs_message_name = MESSAGE.
Proof. reflexivity. Qed.
(** the three generated literals, filled *)
Lemma lvs_message : forall d, fill gen_lvs_message [d] = d.
Proof. intros. cbn. now rewrite app_nil_r. Qed.
Lemma lvs_first : forall k d, fill gen_lvs_first [k; d] = k ++ EQ ++ d.
Proof. intros. cbn. now rewrite app_nil_r. Qed.
Lemma lvs_rest : forall k d, fill gen_lvs_rest [k; d] = [32] ++ k ++ EQ ++ d.
Proof. intros. cbn. now rewrite app_nil_r. Qed.

Lemma fmt_values_shows : forall vs first k v d, In (k, Some v) vs -> render k v = Some d ->
  contains (k ++ EQ ++ d) (fmt_values first vs) \/ (first = true /\ is_message k = true /\ contains d (fmt_values first vs)).
Proof.
  induction vs as [|[k0 ov0] vs IH]; intros first k v d Hin Hr; [contradiction|].
  destruct Hin as [E | Hin].
  - inversion E; subst k0 ov0. cbn [fmt_values]. rewrite Hr, lvs_message, lvs_first, lvs_rest.
    destruct first.
    + destruct (is_message k) eqn:Em.
      * right. repeat split. apply contains_app_l, contains_refl.
      * left. apply contains_app_l, contains_refl.
    + left. apply contains_app_l. apply contains_app_r. apply contains_refl.
  - cbn [fmt_values]. destruct (match ov0 with Some v0 => render k0 v0 | None => None end) as [d0|].
    + destruct (IH false k v d Hin Hr) as [H | (H & _)]; [|discriminate].
      left. apply contains_app_r. exact H.
    + apply (IH first k v d Hin Hr).
Qed.

Lemma contains_value_of_kv : forall k d t, contains (k ++ EQ ++ d) t -> contains d t.
Proof. intros k d t H. eapply contains_trans; [|exact H]. apply contains_app_r, contains_app_r, contains_refl. Qed.

Lemma fmt_values_event : forall vs, fields_shown true vs (fmt_values true vs).
Proof.
  intros vs k v Hin. unfold field_shown. destruct (render k v) as [d|] eqn:Hr; [|exact I].
  destruct (fmt_values_shows vs true k v d Hin Hr) as [H | (_ & Hm & H)].
  - destruct (is_message k); cbn [andb]; [eapply contains_value_of_kv; exact H | exact H].
  - rewrite Hm. exact H.
Qed.
Lemma fmt_values_span : forall vs, fields_shown false vs (fmt_values false vs).
Proof.
  intros vs k v Hin. unfold field_shown. destruct (render k v) as [d|] eqn:Hr; [|exact I].
  destruct (fmt_values_shows vs false k v d Hin Hr) as [H | (H & _)]; [exact H | discriminate].
Qed.
Lemma fields_shown_mono : forall b vs t t', fields_shown b vs t -> (forall x, contains x t -> contains x t') -> fields_shown b vs t'.
Proof.
  intros b vs t t' H Hc k v Hin. specialize (H k v Hin). unfold field_shown in *.
  destruct (render k v); [|exact I]. destruct (b && is_message k); auto.
Qed.

(** ** what each step must emit *)
Definition same_loc (r : lrec) (m : meta) : Prop := (l_file r, l_line r, l_module r) = (m_file m, m_line m, m_module m).
Definition id_shown (sid : option N) (text : bytes) : Prop :=
  match sid with Some id => contains (s_span_eq ++ dec id) text | None => True end.

Definition step_spec (o : op) (out : list lrec) : Prop :=
  match o with
  | OpInstall | OpUninstall | OpFollows _ _ => out = []
  | OpEvent m vs =>
      exists r, out = [r] /\ as_log_level (m_level m) = Some (l_level r) /\ l_target r = m_target m /\
                fields_shown true vs (l_text r) /\ same_loc r m
  | OpNewSpan m vs sid =>
      exists r, out = [r] /\ as_log_level (m_level m) = Some (l_level r) /\
                l_target r = (if vs_is_empty vs then lifecycle_target else m_target m) /\
                contains (m_name m ++ s_semi) (l_text r) /\ fields_shown false vs (l_text r) /\
                id_shown sid (l_text r) /\ (sid <> None -> contains (s_plusplus ++ m_name m ++ s_semi) (l_text r)) /\
                same_loc r m
  | OpRecord s vs =>
      match s_meta s with
      | None => out = []
      | Some m =>
          exists r, out = [r] /\ as_log_level (m_level m) = Some (l_level r) /\
                    l_target r = (if vs_is_empty vs then lifecycle_target else m_target m) /\
                    contains (m_name m ++ s_semi) (l_text r) /\ fields_shown false vs (l_text r) /\
                    id_shown (s_id s) (l_text r) /\ same_loc r m
      end
  | OpEnter s =>
      match s_meta s with
      | None => out = []
      | Some m => exists r, out = [r] /\ l_level r = Trace /\ l_target r = activity_target /\
                            contains (s_enter ++ m_name m ++ s_semi) (l_text r) /\ id_shown (s_id s) (l_text r) /\ same_loc r m
      end
  | OpExit s =>
      match s_meta s with
      | None => out = []
      | Some m => exists r, out = [r] /\ l_level r = Trace /\ l_target r = activity_target /\
                            contains (s_exit ++ m_name m ++ s_semi) (l_text r) /\ id_shown (s_id s) (l_text r) /\ same_loc r m
      end
  | OpDrop s =>
      match s_meta s with
      | None => out = []
      | Some m => exists r, out = [r] /\ l_level r = Trace /\ l_target r = lifecycle_target /\
                            contains (s_close ++ m_name m ++ s_semi) (l_text r) /\ id_shown (s_id s) (l_text r) /\ same_loc r m
      end
  end.

(** the `log` side lets everything through: no `max_level_*` cargo feature, max level TRACE, an accept-all logger *)
Definition accepting (cfg : lcfg) : Prop :=
  c_static_max cfg = Some Trace /\ c_log_max cfg = Some Trace /\ forall t l, c_logger cfg t l = true.
(** records are wanted: no collector was ever installed, or `log-always` *)
Definition emitting (cfg : lcfg) (ex : bool) : Prop := c_always cfg = true \/ ex = false.

Lemma gates_open : forall cfg ex g mx t l, accepting cfg -> emitting cfg ex -> gates cfg ex g mx t l = true.
Proof.
  intros cfg ex g mx t l (Hs & Hm & Hl) He. unfold gates. rewrite Hs, Hm, Hl.
  assert (c_always cfg || negb ex = true) as -> by (destruct He as [-> | ->]; [reflexivity | apply Bool.orb_true_r]).
  destruct g, mx; reflexivity.
Qed.

Lemma with_id_contains : forall s x t, contains x t -> contains x (with_id s t).
Proof. intros s x t H. unfold with_id. destruct (s_id s); [apply contains_app_l|]; exact H. Qed.
Lemma with_id_shows_id : forall s t, id_shown (s_id s) (with_id s t).
Proof. intros s t. unfold id_shown, with_id. destruct (s_id s); [apply contains_app_r, contains_refl | exact I]. Qed.

Lemma step_emits : forall cfg ex o, accepting cfg -> emitting cfg ex -> o <> OpInstall ->
  step_spec o (snd (step cfg ex o)).
Proof.
  intros cfg ex o Ha He Hno. destruct o as [| |m vs|m vs sid|s vs|s|s|s|s fr]; cbn [step snd step_spec]; try reflexivity; try congruence.
  - rewrite event_log_closed, gates_open by assumption. eexists. split; [reflexivity|]. cbn [l_level l_target l_text].
    rewrite as_log_id. split; [reflexivity|]. split; [reflexivity|]. split; [apply fmt_values_event | reflexivity].
  - rewrite new_span_closed, gates_open by assumption. eexists. split; [reflexivity|]. cbn [l_level l_target l_text].
    rewrite as_log_id. split; [reflexivity|]. split; [reflexivity|].
    split. { apply with_id_contains. apply contains_app_r. rewrite app_assoc. apply contains_app_l, contains_refl. }
    split. { eapply fields_shown_mono; [apply fmt_values_span|]. intros x Hx. apply with_id_contains.
             apply contains_app_r, contains_app_r, contains_app_r. exact Hx. }
    split. { apply (with_id_shows_id (mkSpan (Some m) sid)). }
    split. { intros Hs. destruct sid; [|congruence]. apply with_id_contains.
             rewrite !app_assoc. apply contains_app_l. rewrite <- !app_assoc. apply contains_refl. }
    reflexivity.
  - destruct (s_meta s) as [m|] eqn:Hm.
    + rewrite (record_all_closed cfg ex s m) by assumption. rewrite gates_open by assumption.
      eexists. split; [reflexivity|]. cbn [l_level l_target l_text]. rewrite as_log_id.
      split; [reflexivity|]. split; [reflexivity|].
      split. { apply with_id_contains. rewrite app_assoc. apply contains_app_l, contains_refl. }
      split. { eapply fields_shown_mono; [apply fmt_values_span|]. intros x Hx. apply with_id_contains.
               apply contains_app_r, contains_app_r. exact Hx. }
      split; [apply with_id_shows_id | reflexivity].
    + unfold record_all_log. rewrite Hm. reflexivity.
  - destruct (s_meta s) as [m|] eqn:Hm; [|apply lifecycle_none; assumption].
    rewrite (lifecycle_closed _ _ _ cfg ex s m enter_site Hm), gates_open by assumption.
    eexists. split; [reflexivity|]. cbn. repeat split; [apply with_id_contains, contains_refl | apply with_id_shows_id].
  - destruct (s_meta s) as [m|] eqn:Hm; [|apply lifecycle_none; assumption].
    rewrite (lifecycle_closed _ _ _ cfg ex s m exit_site Hm), gates_open by assumption.
    eexists. split; [reflexivity|]. cbn. repeat split; [apply with_id_contains, contains_refl | apply with_id_shows_id].
  - destruct (s_meta s) as [m|] eqn:Hm; [|apply lifecycle_none; assumption].
    rewrite (lifecycle_closed _ _ _ cfg ex s m drop_site Hm), gates_open by assumption.
    eexists. split; [reflexivity|]. cbn. repeat split; [apply with_id_contains, contains_refl | apply with_id_shows_id].
Qed.

Lemma step_exists : forall cfg ex o, fst (step cfg ex o) = match o with OpInstall => true | _ => ex end.
Proof. intros cfg ex []; reflexivity. Qed.

Lemma run_cons : forall cfg ex o rest,
  run cfg ex (o :: rest) = (fst (run cfg (fst (step cfg ex o)) rest), snd (step cfg ex o) :: snd (run cfg (fst (step cfg ex o)) rest)).
Proof.
  intros. cbn [run]. destruct (step cfg ex o) as [ex' out]. cbn [fst snd]. destruct (run cfg ex' rest). reflexivity.
Qed.

(** ** C18_reverse_before: every history that never installs a collector *)
Theorem reverse_before : forall cfg ops, accepting cfg -> ~ In OpInstall ops ->
  Forall2 step_spec ops (snd (run cfg false ops)) /\ fst (run cfg false ops) = false.
Proof.
  intros cfg ops Ha. induction ops as [|o rest IH]; intros Hno.
  - split; [constructor | reflexivity].
  - rewrite run_cons, step_exists. cbn [fst snd].
    assert (Ho : o <> OpInstall) by (intros ->; apply Hno; left; reflexivity).
    assert (Hr : ~ In OpInstall rest) by (intros H; apply Hno; right; exact H).
    assert (E : match o with OpInstall => true | _ => false end = false) by (destruct o; congruence).
    rewrite E. destruct (IH Hr) as [IH1 IH2]. split; [|exact IH2].
    constructor; [|exact IH1]. apply step_emits; [assumption | right; reflexivity | assumption].
Qed.

(** `log-always`: the same for every history, installs included *)
Theorem reverse_always : forall cfg ops ex, accepting cfg -> c_always cfg = true ->
  Forall2 step_spec ops (snd (run cfg ex ops)).
Proof.
  intros cfg ops. induction ops as [|o rest IH]; intros ex Ha Hal; [constructor|].
  rewrite run_cons. cbn [snd]. constructor; [|apply IH; assumption].
  destruct o; try (apply step_emits; [assumption | left; assumption | congruence]). reflexivity.
Qed.

(** ** C18_reverse_after: once a collector has been installed, nothing, for ever *)
Lemma step_silent : forall cfg o, c_always cfg = false -> snd (step cfg true o) = [].
Proof.
  intros cfg o Hal.
  assert (G : forall g mx t l, gates cfg true g mx t l = false).
  { intros. unfold gates. rewrite Hal. cbn. rewrite Bool.andb_false_r. reflexivity. }
  destruct o as [| |m vs|m vs sid|s vs|s|s|s|s fr]; cbn [step snd]; try reflexivity.
  - rewrite event_log_closed, G. reflexivity.
  - rewrite new_span_closed, G. reflexivity.
  - destruct (s_meta s) as [m|] eqn:Hm; [rewrite (record_all_closed cfg true s m vs Hm), G; reflexivity|].
    unfold record_all_log. rewrite Hm. reflexivity.
  - destruct (s_meta s) as [m|] eqn:Hm; [|apply lifecycle_none; assumption].
    rewrite (lifecycle_closed _ _ _ cfg true s m enter_site Hm), G. reflexivity.
  - destruct (s_meta s) as [m|] eqn:Hm; [|apply lifecycle_none; assumption].
    rewrite (lifecycle_closed _ _ _ cfg true s m exit_site Hm), G. reflexivity.
  - destruct (s_meta s) as [m|] eqn:Hm; [|apply lifecycle_none; assumption].
    rewrite (lifecycle_closed _ _ _ cfg true s m drop_site Hm), G. reflexivity.
Qed.

Lemma exists_monotone : forall cfg ops, fst (run cfg true ops) = true.
Proof.
  intros cfg ops. induction ops as [|o rest IH]; [reflexivity|].
  rewrite run_cons, step_exists. cbn [fst]. destruct o; exact IH.
Qed.

Lemma run_silent : forall cfg ops, c_always cfg = false -> Forall (fun out => out = []) (snd (run cfg true ops)).
Proof.
  intros cfg ops Hal. induction ops as [|o rest IH]; [constructor|].
  rewrite run_cons, step_exists. cbn [snd]. constructor; [apply step_silent; assumption|].
  destruct o; exact IH.
Qed.

Lemma run_app : forall cfg ops1 ops2 ex,
  run cfg ex (ops1 ++ ops2) =
    (fst (run cfg (fst (run cfg ex ops1)) ops2), snd (run cfg ex ops1) ++ snd (run cfg (fst (run cfg ex ops1)) ops2)).
Proof.
  intros cfg ops1. induction ops1 as [|o rest IH]; intros ops2 ex.
  - cbn [app run fst snd]. destruct (run cfg ex ops2); reflexivity.
  - cbn [app]. rewrite !run_cons, IH. reflexivity.
Qed.

Theorem reverse_after : forall cfg ex before after, c_always cfg = false ->
  let '(exf, outs) := run cfg ex (before ++ OpInstall :: after) in
  exf = true /\
  exists o1, outs = o1 ++ [] :: map (fun _ => []) after /\ List.length o1 = List.length before.
Proof.
  intros cfg ex before after Hal. rewrite run_app, run_cons. cbn [step fst snd].
  split; [apply exists_monotone|].
  exists (snd (run cfg ex before)). split.
  - f_equal. f_equal. pose proof (run_silent cfg after Hal) as H.
    assert (L : List.length (snd (run cfg true after)) = List.length after).
    { clear H. generalize true. induction after as [|o r IH]; intros b; [reflexivity|]. rewrite run_cons. cbn. now rewrite IH. }
    revert H L. generalize (snd (run cfg true after)). induction after as [|o r IH]; intros l H L.
    + destruct l; [reflexivity | discriminate].
    + destruct l as [|x l]; [discriminate|]. inversion H; subst. cbn. f_equal. apply IH; [assumption | now inversion L].
  - generalize ex. induction before as [|o r IH]; intros b; [reflexivity|]. rewrite run_cons. cbn. now rewrite IH.
Qed.

(** the flag never resets: from any point where it is set, over every continuation *)
Theorem exists_never_resets : forall cfg ops1 ops2 ex,
  fst (run cfg ex ops1) = true -> fst (run cfg ex (ops1 ++ ops2)) = true.
Proof. intros. rewrite run_app. cbn [fst]. rewrite H. apply exists_monotone. Qed.

(** ** for EVERY configuration: a step emits at most one record, and exactly one iff its gates are open *)
Definition step_gates (cfg : lcfg) (ex : bool) (o : op) : bool :=
  match o with
  | OpInstall | OpUninstall | OpFollows _ _ => false
  | OpEvent m vs => gates cfg ex (m_level m) (m_level m) (m_target m) (m_level m)
  | OpNewSpan m vs _ => gates cfg ex (m_level m) (m_level m) (span_target m vs) (m_level m)
  | OpRecord s vs => match s_meta s with Some m => gates cfg ex (m_level m) (m_level m) (span_target m vs) (m_level m) | None => false end
  | OpEnter s | OpExit s => match s_meta s with Some m => gates cfg ex Trace (m_level m) activity_target Trace | None => false end
  | OpDrop s => match s_meta s with Some m => gates cfg ex Trace (m_level m) lifecycle_target Trace | None => false end
  end.

Theorem step_count : forall cfg ex o,
  List.length (snd (step cfg ex o)) = if step_gates cfg ex o then 1%nat else 0%nat.
Proof.
  intros cfg ex o. destruct o as [| |m vs|m vs sid|s vs|s|s|s|s fr]; cbn [step snd step_gates]; try reflexivity.
  - rewrite event_log_closed. destruct (gates _ _ _ _ _ _); reflexivity.
  - rewrite new_span_closed. destruct (gates _ _ _ _ _ _); reflexivity.
  - destruct (s_meta s) as [m|] eqn:Hm.
    + rewrite (record_all_closed cfg ex s m vs Hm). destruct (gates _ _ _ _ _ _); reflexivity.
    + unfold record_all_log. rewrite Hm. reflexivity.
  - destruct (s_meta s) as [m|] eqn:Hm; [|rewrite lifecycle_none by assumption; reflexivity].
    rewrite (lifecycle_closed _ _ _ cfg ex s m enter_site Hm). destruct (gates _ _ _ _ _ _); reflexivity.
  - destruct (s_meta s) as [m|] eqn:Hm; [|rewrite lifecycle_none by assumption; reflexivity].
    rewrite (lifecycle_closed _ _ _ cfg ex s m exit_site Hm). destruct (gates _ _ _ _ _ _); reflexivity.
  - destruct (s_meta s) as [m|] eqn:Hm; [|rewrite lifecycle_none by assumption; reflexivity].
    rewrite (lifecycle_closed _ _ _ cfg ex s m drop_site Hm). destruct (gates _ _ _ _ _ _); reflexivity.
Qed.

(** * Non-vacuity *)
Definition ex_target : bytes := [97; 112; 112].   (* "app" *)
Definition ex_rec : logrec := mkRec Info ex_target [104; 105] (Some [102; 46; 114; 115]) (Some 7) None.
(** a collector that accepts "app" but rejects the synthetic callsite's target "log": the non-trivial case *)
Definition ex_st : bstate := mkB (Some Trace) [[120]] (fun t l => list_eqb t ex_target).
Example ex_passes : passes ex_st EDirect ex_rec.
Proof.
  unfold passes. split; [cbv; discriminate|]. split; [|reflexivity].
  intros (p & s & [<-|[]] & H). discriminate.
Qed.
Example ex_bridge_one : option_map (fun o => List.length (events_of o)) (bridge ex_st EDirect ex_rec) = Some 1%nat.
Proof. reflexivity. Qed.
Example ex_bridge_log_target_rejected :
  option_map (fun o => List.length (events_of o)) (bridge ex_st EDirect (mkRec Info log_target [104] None None None)) = Some 0%nat.
Proof. reflexivity. Qed.
Example ex_bridge_ignored :
  option_map (fun o => List.length (events_of o))
             (bridge (mkB (Some Trace) [[97; 112]] (fun _ _ => true)) EDirect ex_rec) = Some 0%nat.
Proof. reflexivity. Qed.
Example ex_line_fits : line_fits ex_rec.
Proof. intros l H. inversion H. reflexivity. Qed.

Definition ex_cfg : lcfg := mkCfg false (Some Trace) (Some Trace) (fun _ _ => true).
Example ex_accepting : accepting ex_cfg.
Proof. repeat split. Qed.
Definition ex_meta : meta := mkMeta [115] ex_target Info (Some [102]) (Some 3) (Some [109]).
Definition ex_vs : valueset := [(MESSAGE, Some (FOther [104; 105])); ([97], Some (FOther [49]))].
Definition ex_history : list op :=
  [OpEvent ex_meta ex_vs; OpNewSpan ex_meta ex_vs None; OpEnter (mkSpan (Some ex_meta) None);
   OpExit (mkSpan (Some ex_meta) None); OpDrop (mkSpan (Some ex_meta) None)].
Example ex_no_install : ~ In OpInstall ex_history.
Proof. intros H. repeat (destruct H as [H|H]; [discriminate|]). exact H. Qed.
Example ex_before : map (@List.length lrec) (snd (run ex_cfg false ex_history)) = [1; 1; 1; 1; 1]%nat.
Proof. reflexivity. Qed.
Example ex_after : map (@List.length lrec) (snd (run ex_cfg false (OpInstall :: OpUninstall :: ex_history))) = [0; 0; 0; 0; 0; 0; 0]%nat.
Proof. reflexivity. Qed.
Example ex_text : map (map l_text) (snd (run ex_cfg false [OpEvent ex_meta ex_vs])) = [[[104; 105; 32; 97; 61; 49]]].  (* "hi a=1" *)
Proof. reflexivity. Qed.

(** an event on the harness' own callsite (same name, target and field names as a log event) *)
Definition ex_foreign : event :=
  mkEvent log_event_name log_target Info "HARNESS_CS"
          [(mkField "HARNESS_CS" 0, Some (VArgs [104])); (mkField "HARNESS_CS" 1, Some (VStr ex_target))].
Example ex_foreign_hyp :
  forall l, ev_cs ex_foreign <> (match assoc_lv l gen_level_to_cs with Some (cs, _) => cs | None => EmptyString end).
Proof. intros []; discriminate. Qed.
Example ex_foreign_not_log : is_log ex_foreign = Some false /\ normalize ex_foreign = Some None.
Proof. split; reflexivity. Qed.

Definition ex_cfg_always : lcfg := mkCfg true (Some Trace) (Some Trace) (fun _ _ => true).
Example ex_always : accepting ex_cfg_always /\ c_always ex_cfg_always = true /\
  map (@List.length lrec) (snd (run ex_cfg_always false (OpInstall :: ex_history))) = [0; 1; 1; 1; 1; 1]%nat.
Proof. repeat split. Qed.
Example ex_flag : fst (run ex_cfg false [OpEvent ex_meta ex_vs; OpInstall]) = true /\
  fst (run ex_cfg false ([OpEvent ex_meta ex_vs; OpInstall] ++ [OpUninstall; OpEvent ex_meta ex_vs])) = true.
Proof. split; reflexivity. Qed.
(** a closed log-side gate: `log::max_level()` = Warn silences an INFO event, for every flag value *)
Example ex_gate_closed : forall ex,
  step_gates (mkCfg false (Some Trace) (Some Warn) (fun _ _ => true)) ex (OpEvent ex_meta ex_vs) = false.
Proof. intros []; reflexivity. Qed.

(** * The flag on any number of threads, one atomic action at a time *)
Lemma has_been_set_is_exists : gen_has_been_set = HLoad AExists.
Proof. reflexivity. Qed.
Lemma hbs_spec : forall r, has_been_set r = negb (r_exists r =? 0).
Proof. intros. reflexivity. Qed.
Lemma hbs_true : forall r, has_been_set r = true <-> r_exists r <> 0.
Proof. intros. rewrite hbs_spec, Bool.negb_true_iff, N.eqb_neq. tauto. Qed.
Lemma hbs_false : forall r, has_been_set r = false <-> r_exists r = 0.
Proof. intros. rewrite hbs_spec, Bool.negb_false_iff, N.eqb_eq. tauto. Qed.

(** what an action may do to EXISTS *)
Definition keeps_exists (a : action) : bool :=
  match a with
  | ActStore AExists v => negb (v =? 0)
  | ActFetchAdd AExists _ | ActFetchSub AExists _ => false
  | ActCas AExists _ n => negb (n =? 0)
  | _ => true
  end.
Definition raises_exists (a : action) : bool :=
  match a with ActStore AExists v => negb (v =? 0) | _ => false end.
Definition touches_exists (a : action) : bool :=
  match a with
  | ActStore AExists _ | ActFetchAdd AExists _ | ActFetchSub AExists _ | ActCas AExists _ _ => true
  | _ => false
  end.

(** read off the generated action lists: nothing ever lowers EXISTS, each installing function raises it before it
    returns, dropping a guard does not touch it *)
Lemma bodies_keep : forall f, forallb keeps_exists (fn_body f) = true.
Proof. intros []; reflexivity. Qed.
Lemma install_raises : forall f, is_install f = true -> existsb raises_exists (fn_body f) = true.
Proof. intros []; intros H; try discriminate; reflexivity. Qed.
Lemma drop_untouched : forallb (fun a => negb (touches_exists a)) (fn_body FGuardDrop) = true.
Proof. reflexivity. Qed.

Lemma act_keeps : forall a r, keeps_exists a = true -> r_exists r <> 0 -> r_exists (fst (act a r)) <> 0.
Proof.
  intros [[] v|[] d|[] d|[] o n|] r Hk Hr; cbn in *; try discriminate; try assumption.
  - now apply Bool.negb_true_iff, N.eqb_neq in Hk.
  - destruct (r_exists r =? o); cbn; [now apply Bool.negb_true_iff, N.eqb_neq in Hk | assumption].
  - destruct (r_ginit r =? o); cbn; assumption.
  - destruct (r_scount r =? o); cbn; assumption.
Qed.
Lemma act_raises : forall a r, raises_exists a = true -> r_exists (fst (act a r)) <> 0 /\ snd (act a r) = true.
Proof.
  intros [[] v|a d|a d|a o n|] r H; cbn in *; try discriminate.
  split; [now apply Bool.negb_true_iff, N.eqb_neq in H | reflexivity].
Qed.
Lemma act_untouched : forall a r, touches_exists a = false -> r_exists (fst (act a r)) = r_exists r.
Proof.
  intros [[] v|[] d|[] d|[] o n|] r H; cbn in *; try discriminate; try reflexivity.
  - destruct (r_ginit r =? o); reflexivity.
  - destruct (r_scount r =? o); reflexivity.
Qed.

Lemma mrun_cons : forall cfg s o rest,
  mrun cfg s (o :: rest) =
    (fst (mrun cfg (fst (mstep cfg s o)) rest), snd (mstep cfg s o) :: snd (mrun cfg (fst (mstep cfg s o)) rest)).
Proof.
  intros. cbn [mrun]. destruct (mstep cfg s o) as [s' out]. cbn [fst snd]. destruct (mrun cfg s' rest). reflexivity.
Qed.
Lemma mrun_app : forall cfg h1 h2 s,
  mrun cfg s (h1 ++ h2) =
    (fst (mrun cfg (fst (mrun cfg s h1)) h2), snd (mrun cfg s h1) ++ snd (mrun cfg (fst (mrun cfg s h1)) h2)).
Proof.
  intros cfg h1. induction h1 as [|o rest IH]; intros h2 s.
  - cbn [app mrun fst snd]. destruct (mrun cfg s h2); reflexivity.
  - cbn [app]. rewrite !mrun_cons, IH. reflexivity.
Qed.
Lemma mrun_length : forall cfg h s, List.length (snd (mrun cfg s h)) = List.length h.
Proof. intros cfg h. induction h as [|o r IH]; intros s; [reflexivity|]. rewrite mrun_cons. cbn. now rewrite IH. Qed.

(** ** the invariant *)
Definition thr_ok (s : mstate) : Prop :=
  forall t f rem, m_thr s t = Some (f, rem) ->
    forallb keeps_exists rem = true /\
    (is_install f = true -> existsb raises_exists rem = true \/ r_exists (m_regs s) <> 0).
Definition inv (s : mstate) : Prop := thr_ok s /\ (m_installed s = true -> r_exists (m_regs s) <> 0).

Lemma inv_init : inv minit.
Proof. split; [intros t f rem H; discriminate | intros H; discriminate]. Qed.

Lemma upd_same : forall A (th : N -> A) t v, upd th t v t = v.
Proof. intros. unfold upd. now rewrite N.eqb_refl. Qed.
Lemma upd_other : forall A (th : N -> A) t t' v, t' <> t -> upd th t v t' = th t'.
Proof. intros. unfold upd. apply N.eqb_neq in H. now rewrite H. Qed.

Lemma mstep_inv : forall cfg s o, inv s -> inv (fst (mstep cfg s o)).
Proof.
  intros cfg s o [Hthr Hinst]. destruct o as [t f|t|t o]; cbn [mstep].
  - destruct (m_thr s t) as [c|] eqn:Et; cbn [fst]; [split; assumption|].
    split; cbn [m_regs m_thr m_installed]; [|assumption].
    intros t' f' rem H; cbn [m_regs m_thr m_installed] in *. destruct (N.eq_dec t' t) as [->|Hne].
    + rewrite upd_same in H. inversion H; subst f' rem. split; [apply bodies_keep|]. intros Hi. left. now apply install_raises.
    + rewrite upd_other in H by assumption. exact (Hthr t' f' rem H).
  - destruct (m_thr s t) as [[f [|a rest]]|] eqn:Et; cbn [fst]; [| |split; assumption].
    + (* nothing left: the call returns *)
      destruct (Hthr t f [] Et) as [_ Hr].
      split; cbn [m_regs m_thr m_installed].
      * intros t' f' rem H; cbn [m_regs m_thr m_installed] in *. destruct (N.eq_dec t' t) as [->|Hne]; [rewrite upd_same in H; discriminate|].
        rewrite upd_other in H by assumption. exact (Hthr t' f' rem H).
      * intros H. apply Bool.orb_true_iff in H as [H|H]; [now apply Hinst|].
        destruct (Hr H) as [Hx|Hx]; [discriminate | assumption].
    + destruct (Hthr t f (a :: rest) Et) as [Hk Hr]. cbn [forallb] in Hk. apply Bool.andb_true_iff in Hk as [Hka Hkr].
      pose proof (act_keeps a (m_regs s) Hka) as Hkeep.
      assert (Hoth : forall r', r' = fst (act a (m_regs s)) ->
                forall t' f' rem, t' <> t -> m_thr s t' = Some (f', rem) ->
                  forallb keeps_exists rem = true /\
                  (is_install f' = true -> existsb raises_exists rem = true \/ r_exists r' <> 0)).
      { intros r' -> t' f' rem Hne H. destruct (Hthr t' f' rem H) as [K R]. split; [assumption|].
        intros Hi. destruct (R Hi) as [Hx|Hx]; [now left | right; now apply Hkeep]. }
      destruct (act a (m_regs s)) as [r' go] eqn:Ea. cbn [fst] in Hkeep, Hoth.
      assert (Hraise : raises_exists a = true -> r_exists r' <> 0 /\ go = true).
      { intros Hx. pose proof (act_raises a (m_regs s) Hx) as P. rewrite Ea in P. exact P. }
      destruct go.
      * destruct rest as [|a2 rest2]; cbn [fst]; split; cbn [m_regs m_thr m_installed].
        -- intros t' f' rem H; cbn [m_regs m_thr m_installed] in *. destruct (N.eq_dec t' t) as [->|Hne]; [rewrite upd_same in H; discriminate|].
           rewrite upd_other in H by assumption. exact (Hoth r' eq_refl t' f' rem Hne H).
        -- intros H. apply Bool.orb_true_iff in H as [H|H]; [now apply Hkeep, Hinst|].
           destruct (Hr H) as [Hx|Hx]; [|now apply Hkeep].
           cbn [existsb] in Hx. rewrite Bool.orb_false_r in Hx. now apply Hraise.
        -- intros t' f' rem H; cbn [m_regs m_thr m_installed] in *. destruct (N.eq_dec t' t) as [->|Hne].
           ++ rewrite upd_same in H. inversion H; subst f' rem. split; [assumption|].
              intros Hi. destruct (Hr Hi) as [Hx|Hx]; [|right; now apply Hkeep].
              cbn [existsb] in Hx. apply Bool.orb_true_iff in Hx as [Hx|Hx]; [right; now apply Hraise | now left].
           ++ rewrite upd_other in H by assumption. exact (Hoth r' eq_refl t' f' rem Hne H).
        -- intros H. now apply Hkeep, Hinst.
      * cbn [fst]; split; cbn [m_regs m_thr m_installed].
        -- intros t' f' rem H; cbn [m_regs m_thr m_installed] in *. destruct (N.eq_dec t' t) as [->|Hne]; [rewrite upd_same in H; discriminate|].
           rewrite upd_other in H by assumption. exact (Hoth r' eq_refl t' f' rem Hne H).
        -- intros H. now apply Hkeep, Hinst.
  - cbn [fst]. split; assumption.
Qed.

Lemma mrun_inv : forall cfg h s, inv s -> inv (fst (mrun cfg s h)).
Proof.
  intros cfg h. induction h as [|o rest IH]; intros s Hs; [exact Hs|].
  rewrite mrun_cons. cbn [fst]. apply IH. now apply mstep_inv.
Qed.

(** ** monotone: no step of any thread clears the flag *)
Lemma mstep_exists_kept : forall cfg s o, inv s -> r_exists (m_regs s) <> 0 -> r_exists (m_regs (fst (mstep cfg s o))) <> 0.
Proof.
  intros cfg s o [Hthr _] Hr. destruct o as [t f|t|t o]; cbn [mstep].
  - destruct (m_thr s t); cbn; assumption.
  - destruct (m_thr s t) as [[f [|a rest]]|] eqn:Et; cbn [fst m_regs]; try assumption.
    destruct (Hthr t f (a :: rest) Et) as [Hk _]. cbn [forallb] in Hk. apply Bool.andb_true_iff in Hk as [Hka _].
    pose proof (act_keeps a (m_regs s) Hka Hr) as K. destruct (act a (m_regs s)) as [r' go]. cbn [fst] in K.
    destruct go; [destruct rest|]; cbn; assumption.
  - cbn. assumption.
Qed.
Theorem exists_monotone_mt : forall cfg h s, inv s -> has_been_set (m_regs s) = true ->
  has_been_set (m_regs (fst (mrun cfg s h))) = true.
Proof.
  intros cfg h. induction h as [|o rest IH]; intros s Hs Hx; [exact Hx|].
  rewrite mrun_cons. cbn [fst]. apply IH; [now apply mstep_inv|].
  apply hbs_true. apply mstep_exists_kept; [assumption | now apply hbs_true].
Qed.
(** from the initial state: over every history of calls and atomic steps of any threads, once `has_been_set()`
    has answered true it answers true after every continuation *)
Theorem exists_never_resets_mt : forall cfg h1 h2,
  has_been_set (m_regs (fst (mrun cfg minit h1))) = true ->
  has_been_set (m_regs (fst (mrun cfg minit (h1 ++ h2)))) = true.
Proof.
  intros cfg h1 h2 H. rewrite mrun_app. cbn [fst]. apply exists_monotone_mt; [apply mrun_inv, inv_init | exact H].
Qed.
(** once `set_default` or a successful `set_global_default` has returned on some thread, the flag is set *)
Theorem installed_sets_flag : forall cfg h,
  m_installed (fst (mrun cfg minit h)) = true -> has_been_set (m_regs (fst (mrun cfg minit h))) = true.
Proof.
  intros cfg h H. apply hbs_true. destruct (mrun_inv cfg h minit inv_init) as [_ Hi]. now apply Hi.
Qed.

(** ** what each machine step must emit *)
Definition mop_spec (o : mop) (out : list lrec) : Prop :=
  match o with MLog _ op => step_spec op out | _ => out = [] end.

Lemma mstep_silent : forall cfg s o, c_always cfg = false -> has_been_set (m_regs s) = true -> snd (mstep cfg s o) = [].
Proof.
  intros cfg s o Hal Hx. destruct o as [t f|t|t o]; cbn [mstep].
  - destruct (m_thr s t); reflexivity.
  - destruct (m_thr s t) as [[f [|a rest]]|]; try reflexivity.
    destruct (act a (m_regs s)) as [r' go]. destruct go; [destruct rest|]; reflexivity.
  - cbn [snd]. rewrite Hx. now apply step_silent.
Qed.
Lemma mrun_silent : forall cfg h s, c_always cfg = false -> inv s -> has_been_set (m_regs s) = true ->
  snd (mrun cfg s h) = map (fun _ => []) h.
Proof.
  intros cfg h. induction h as [|o rest IH]; intros s Hal Hs Hx; [reflexivity|].
  rewrite mrun_cons. cbn [snd map]. rewrite mstep_silent by assumption. f_equal.
  apply IH; [assumption | now apply mstep_inv |].
  apply hbs_true. apply mstep_exists_kept; [assumption | now apply hbs_true].
Qed.

(** C18_reverse_after, all threads: once an install has returned on ANY thread, nothing is emitted by any thread,
    whatever follows (guards dropped on any thread, more installs, half-finished calls, ...) *)
Theorem reverse_after_mt : forall cfg h1 h2, c_always cfg = false ->
  m_installed (fst (mrun cfg minit h1)) = true ->
  exists o1, snd (mrun cfg minit (h1 ++ h2)) = o1 ++ map (fun _ => []) h2 /\ List.length o1 = List.length h1 /\
             has_been_set (m_regs (fst (mrun cfg minit (h1 ++ h2)))) = true.
Proof.
  intros cfg h1 h2 Hal Hi. pose proof (installed_sets_flag cfg h1 Hi) as Hx.
  exists (snd (mrun cfg minit h1)). rewrite mrun_app. cbn [fst snd]. split; [|split].
  - f_equal. apply mrun_silent; [assumption | apply mrun_inv, inv_init | assumption].
  - apply mrun_length.
  - apply exists_monotone_mt; [apply mrun_inv, inv_init | assumption].
Qed.
(** the same from the flag itself (covers the window between the EXISTS store and the function's return) *)
Theorem reverse_after_flag_mt : forall cfg h1 h2, c_always cfg = false ->
  has_been_set (m_regs (fst (mrun cfg minit h1))) = true ->
  exists o1, snd (mrun cfg minit (h1 ++ h2)) = o1 ++ map (fun _ => []) h2 /\ List.length o1 = List.length h1.
Proof.
  intros cfg h1 h2 Hal Hx. exists (snd (mrun cfg minit h1)). rewrite mrun_app. cbn [fst snd]. split; [|apply mrun_length].
  f_equal. apply mrun_silent; [assumption | apply mrun_inv, inv_init | assumption].
Qed.

(** ** before: no thread has ever entered an installing function *)
Definition no_install (h : list mop) : Prop := forall t f, In (MCall t f) h -> f = FGuardDrop.
Definition quiet (s : mstate) : Prop :=
  r_exists (m_regs s) = 0 /\
  forall t f rem, m_thr s t = Some (f, rem) -> forallb (fun a => negb (touches_exists a)) rem = true.
Lemma quiet_init : quiet minit.
Proof. split; [reflexivity | intros t f rem H; discriminate]. Qed.

Lemma mstep_quiet : forall cfg s o, quiet s -> (forall t f, o = MCall t f -> f = FGuardDrop) -> quiet (fst (mstep cfg s o)).
Proof.
  intros cfg s o [Hz Hthr] Hno. destruct o as [t f|t|t o]; cbn [mstep].
  - destruct (m_thr s t) eqn:Et; cbn [fst]; [split; assumption|].
    rewrite (Hno t f eq_refl). split; cbn [m_regs m_thr]; [assumption|].
    intros t' f' rem H; cbn [m_regs m_thr m_installed] in *. destruct (N.eq_dec t' t) as [->|Hne].
    + rewrite upd_same in H. inversion H; subst. apply drop_untouched.
    + rewrite upd_other in H by assumption. exact (Hthr t' f' rem H).
  - destruct (m_thr s t) as [[f [|a rest]]|] eqn:Et; cbn [fst]; [| |split; assumption].
    + split; cbn [m_regs m_thr]; [assumption|].
      intros t' f' rem H; cbn [m_regs m_thr m_installed] in *. destruct (N.eq_dec t' t) as [->|Hne]; [rewrite upd_same in H; discriminate|].
      rewrite upd_other in H by assumption. exact (Hthr t' f' rem H).
    + pose proof (Hthr t f (a :: rest) Et) as Hk. cbn [forallb] in Hk. apply Bool.andb_true_iff in Hk as [Hka Hkr].
      apply Bool.negb_true_iff in Hka. pose proof (act_untouched a (m_regs s) Hka) as U.
      destruct (act a (m_regs s)) as [r' go]. cbn [fst] in U.
      assert (Hoth : forall v t' f' rem, upd (m_thr s) t v t' = Some (f', rem) -> v = None \/ v = Some (f, rest) ->
                forallb (fun a => negb (touches_exists a)) rem = true).
      { intros v t' f' rem H Hv. destruct (N.eq_dec t' t) as [->|Hne].
        - rewrite upd_same in H. destruct Hv as [-> | ->]; [discriminate | now inversion H; subst].
        - rewrite upd_other in H by assumption. exact (Hthr t' f' rem H). }
      destruct go; [destruct rest as [|a2 rest2]|]; cbn [fst]; split; cbn [m_regs m_thr]; try (rewrite U; assumption);
        intros t' f' rem H; cbn [m_regs m_thr m_installed] in *; eapply Hoth; eauto.
  - cbn [fst]. split; assumption.
Qed.

Lemma mstep_emits : forall cfg s o, accepting cfg -> (c_always cfg = true \/ has_been_set (m_regs s) = false) ->
  mop_spec o (snd (mstep cfg s o)).
Proof.
  intros cfg s o Ha He. destruct o as [t f|t|t o]; cbn [mstep mop_spec].
  - destruct (m_thr s t); reflexivity.
  - destruct (m_thr s t) as [[f [|a rest]]|]; try reflexivity.
    destruct (act a (m_regs s)) as [r' go]. destruct go; [destruct rest|]; reflexivity.
  - cbn [snd]. destruct o; try (apply step_emits; [assumption | exact He | congruence]). reflexivity.
Qed.

(** C18_reverse_before, all threads: while no thread has entered `set_default` / `set_global_default` (guards may be
    dropped, steps taken, in any order) every event and span lifecycle step of every thread emits exactly its record *)
Theorem reverse_before_mt : forall cfg h s, accepting cfg -> quiet s -> no_install h ->
  Forall2 mop_spec h (snd (mrun cfg s h)) /\ has_been_set (m_regs (fst (mrun cfg s h))) = false.
Proof.
  intros cfg h. induction h as [|o rest IH]; intros s Ha Hq Hno.
  - split; [constructor | apply hbs_false, Hq].
  - rewrite mrun_cons. cbn [fst snd].
    assert (Hq' : quiet (fst (mstep cfg s o))).
    { apply mstep_quiet; [assumption|]. intros t f ->. apply (Hno t f). left. reflexivity. }
    assert (Hno' : no_install rest) by (intros t f H; apply (Hno t f); right; exact H).
    destruct (IH _ Ha Hq' Hno') as [I1 I2]. split; [|exact I2].
    constructor; [|exact I1]. apply mstep_emits; [assumption|]. right. apply hbs_false, Hq.
Qed.

(** `log-always`, all threads: one record per logging step whatever any thread does to the default collector *)
Theorem reverse_always_mt : forall cfg h s, accepting cfg -> c_always cfg = true ->
  Forall2 mop_spec h (snd (mrun cfg s h)).
Proof.
  intros cfg h. induction h as [|o rest IH]; intros s Ha Hal; [constructor|].
  rewrite mrun_cons. cbn [snd]. constructor; [|now apply IH]. apply mstep_emits; [assumption | now left].
Qed.

(** every machine step emits at most one record; a logging step exactly one iff its gates are open at that moment *)
Theorem mstep_count : forall cfg s o,
  List.length (snd (mstep cfg s o)) =
    match o with MLog _ op => if step_gates cfg (has_been_set (m_regs s)) op then 1%nat else 0%nat | _ => 0%nat end.
Proof.
  intros cfg s o. destruct o as [t f|t|t o]; cbn [mstep].
  - destruct (m_thr s t); reflexivity.
  - destruct (m_thr s t) as [[f [|a rest]]|]; try reflexivity.
    destruct (act a (m_regs s)) as [r' go]. destruct go; [destruct rest|]; reflexivity.
  - cbn [snd]. apply step_count.
Qed.

(** ** non-vacuity: another thread's scoped default silences this thread; the window inside `set_global_default` *)
Definition ex_ev : op := OpEvent ex_meta ex_vs.
Example ex_other_thread_scoped :
  map (@List.length lrec) (snd (mrun ex_cfg minit ([MLog 0 ex_ev] ++ call_block 1 FSetDefault ++ [MLog 0 ex_ev] ++
                                                    call_block 1 FGuardDrop ++ [MLog 0 ex_ev; MLog 2 ex_ev])))
  = [1; 0; 0; 0; 0; 0; 0; 0; 0; 0; 0]%nat.
Proof. reflexivity. Qed.
Example ex_installed : m_installed (fst (mrun ex_cfg minit (call_block 1 FSetDefault))) = true.
Proof. reflexivity. Qed.
(** thread 1 is inside `set_global_default` (CAS done, GLOBAL_DISPATCH written, GLOBAL_INIT stored) but has not
    stored EXISTS yet: thread 0 still logs; after the store it does not *)
Example ex_mid_install :
  map (@List.length lrec) (snd (mrun ex_cfg minit [MCall 1 FSetGlobal; MStep 1; MStep 1; MStep 1; MLog 0 ex_ev; MStep 1; MLog 0 ex_ev]))
  = [0; 0; 0; 0; 1; 0; 0]%nat.
Proof. reflexivity. Qed.
(** a second `set_global_default` fails its CAS and does nothing *)
Example ex_second_global :
  let s := fst (mrun ex_cfg minit (call_block 1 FSetGlobal ++ call_block 2 FSetGlobal)) in
  (r_exists (m_regs s), r_ginit (m_regs s), m_thr s 2) = (1, 2, None).
Proof. reflexivity. Qed.
Example ex_no_install_mt : no_install ([MLog 0 ex_ev] ++ call_block 3 FGuardDrop ++ [MLog 1 ex_ev]).
Proof. intros t f H. cbn in H. repeat (destruct H as [H|H]; [try discriminate; now inversion H|]). contradiction. Qed.
Example ex_before_mt :
  map (@List.length lrec) (snd (mrun ex_cfg minit ([MLog 0 ex_ev] ++ call_block 3 FGuardDrop ++ [MLog 1 ex_ev]))) = [1; 0; 0; 0; 1]%nat.
Proof. reflexivity. Qed.

(** * The other public entries *)
(** `<LogTracer as log::Log>::enabled` (what `log_enabled!` asks): the answer, and what the collector was asked *)
Theorem enabled_answer : forall st r, exists o,
  tracer_enabled st r = Some (gate_b st r && negb (ignored_b (b_ignore st) (r_target r)) && cur_b st r, o) /\
  events_of o = [] /\ Forall (asks_record r false) (asked_of o).
Proof.
  intros st r. pose proof (as_trace_metadata_ok r) as Hm1.
  unfold tracer_enabled. change gen_tracer_asks_about_record with true. cbv iota beta delta [negb].
  rewrite as_trace_id, gate_spec. fold (gate_b st r).
  change gen_tracer_ignore_test with MStartsWith. cbv beta iota delta [str_test]. fold (ignored_b (b_ignore st) (r_target r)).
  destruct (as_trace_meta gen_as_trace_metadata r) as [m1|]; [|contradiction].
  destruct (gate_b st r); cbn [negb andb]; [|exists []; repeat split; constructor].
  destruct (ignored_b (b_ignore st) (r_target r)); cbn [negb andb]; [exists []; repeat split; constructor|].
  exists [OEnabled m1]. destruct Hm1 as (Hn & Ht & Hl & Hloc). rewrite Ht, Hl. fold (cur_b st r).
  split; [reflexivity|]. split; [reflexivity|]. repeat constructor; assumption.
Qed.
Definition enabled_passes (st : bstate) (r : logrec) : Prop :=
  rank_lv (r_level r) <= rank (VF (b_max st)) /\ ~ Ignored (b_ignore st) (r_target r) /\ b_cur st (r_target r) (r_level r) = true.
Theorem enabled_iff : forall st r, exists o,
  tracer_enabled st r = Some (true, o) /\ enabled_passes st r \/ tracer_enabled st r = Some (false, o) /\ ~ enabled_passes st r.
Proof.
  intros st r. destruct (enabled_answer st r) as (o & H & _). exists o. rewrite H.
  pose proof (passes_reflect st EDirect r) as P. unfold passes_b, passes in P. unfold enabled_passes.
  destruct (gate_b st r && negb (ignored_b (b_ignore st) (r_target r)) && cur_b st r).
  - left. split; [reflexivity|]. now apply P.
  - right. split; [reflexivity|]. intros X. apply P in X. discriminate.
Qed.

(** `AsTrace for log::Metadata / log::Record`, `AsLog for Metadata` *)
Theorem as_trace_public : forall r,
  (exists m, as_trace_meta gen_as_trace_metadata r = Some m /\ asks_record r false m) /\
  (exists m, as_trace_meta gen_as_trace_record r = Some m /\ asks_record r true m).
Proof.
  intros r. pose proof (as_trace_metadata_ok r) as H1. pose proof (as_trace_record_ok r) as H2.
  destruct (as_trace_meta gen_as_trace_metadata r); [|contradiction].
  destruct (as_trace_meta gen_as_trace_record r); [|contradiction].
  split; eexists; (split; [reflexivity | assumption]).
Qed.
Theorem as_log_meta_ok : forall m, as_log_meta m = Some (m_level m, m_target m).
Proof. intros m. unfold as_log_meta. change gen_as_log_metadata with (true, true). cbv iota beta. cbn [andb]. now rewrite as_log_id. Qed.
(** `LogTracer::builder()[.with_max_level(f)].init()`: `log::max_level()` afterwards *)
Theorem builder_max_ok : forall w, builder_log_max w = Some (match w with Some f => f | None => Some Trace end).
Proof. intros [f|]; reflexivity. Qed.

(** normalisation without the `u32` hypothesis: the line is the record's modulo 2^32 (`l as u32`) *)
Theorem normalized_any_line : forall st en r o e, bridge st en r = Some o -> In e (events_of o) ->
  message_of e = Some (r_msg r) /\ normalize e = Some (Some (normal_of r)).
Proof.
  intros st en r o e Ho Hin. destruct (bridge_closed st en r) as (o' & Ho' & _ & H).
  rewrite Ho in Ho'. inversion Ho'; subst o'.
  destruct H as [[_ (e' & He' & Hok)] | [_ He']]; rewrite He' in Hin; [|contradiction].
  destruct Hin as [<-|[]]. destruct Hok as (_ & _ & _ & _ & Hmsg & Hn). split; assumption.
Qed.

(** * What the translator read from the sources, pinned: each generated table equals the value the statements above
      were proved about.  A change to any of the anchored functions flips one of these (or is not recognised). *)
Lemma source_flag :
  gen_has_been_set = HLoad AExists /\
  gen_fn_set_default = [ActLocal; ActStore AExists 1; ActFetchAdd AScopedCount 1] /\
  gen_fn_guard_drop = [ActFetchSub AScopedCount 1; ActLocal] /\
  gen_fn_set_global = [ActCas AGlobalInit 0 1; ActLocal; ActStore AGlobalInit 2; ActStore AExists 1].
Proof. repeat split; reflexivity. Qed.

Lemma source_tracer :
  gen_tracer_gate = RGt /\ gen_tracer_ignore_test = MStartsWith /\ gen_tracer_asks_about_record = true /\
  gen_dispatch_checks_enabled = true /\
  gen_as_trace_metadata = (log_record_name, (false, false, false)) /\
  gen_as_trace_record = (log_record_name, (true, true, true)) /\
  gen_builder_default_max = Some Trace /\ gen_builder_init_sets_max = true /\ gen_as_log_metadata = (true, true).
Proof. repeat split; reflexivity. Qed.

(** A LogTracer init that fails (the process already has a logger) changes nothing: `log::max_level()` stays what it
    was, whatever level the builder was given — so the reverse direction (tracing -> log records through the
    application's own logger) and every other logger's view of the `log` macros are untouched by the attempt. *)
Lemma failed_init_changes_nothing :
  gen_builder_max_before_install = false /\
  forall cur w, init_again_log_max cur w = cur.
Proof. split; [reflexivity|]. intros cur w. unfold init_again_log_max. reflexivity. Qed.

(** Non-vacuity, and what the other statement order would mean: the level asked for replaces the one in force. *)
Lemma failed_init_other_order_refuted :
  init_again_log_max (Some Trace) (Some (Some Error)) = Some Trace /\
  (let other cur (w : option (option lv)) := match w with Some f => f | None => gen_builder_default_max end in
   other (Some Trace) (Some (Some Error)) = Some Error /\ other (Some Trace) (Some (Some Error)) <> Some Trace).
Proof. split; [reflexivity|]. split; [reflexivity|discriminate]. Qed.

Definition LOG_TARGET_F : bytes := [108; 111; 103; 46; 116; 97; 114; 103; 101; 116].                      (* "log.target" *)
Definition LOG_MODULE_F : bytes := [108; 111; 103; 46; 109; 111; 100; 117; 108; 101; 95; 112; 97; 116; 104].  (* "log.module_path" *)
Definition LOG_FILE_F : bytes := [108; 111; 103; 46; 102; 105; 108; 101].                                  (* "log.file" *)
Definition LOG_LINE_F : bytes := [108; 111; 103; 46; 108; 105; 110; 101].                                  (* "log.line" *)
Lemma source_event :
  gen_cs_name = log_event_name /\ gen_cs_target = log_target /\
  gen_field_names = [MESSAGE; LOG_TARGET_F; LOG_MODULE_F; LOG_FILE_F; LOG_LINE_F] /\
  gen_fields_new = [("message", MESSAGE); ("target", LOG_TARGET_F); ("module", LOG_MODULE_F); ("file", LOG_FILE_F); ("line", LOG_LINE_F)]%string /\
  gen_dispatch_values = [("message", "args"); ("target", "target"); ("module", "module_path"); ("file", "file"); ("line", "line")]%string /\
  (* the five synthetic callsites: each level has its own, both lookups agree, its static metadata carries that level,
     its keys belong to its own field set *)
  (forall l, exists cs fields meta,
     assoc_lv l gen_level_to_cs = Some (cs, fields) /\ assoc_lv l gen_loglevel_to_cs = Some (cs, fields, meta) /\
     assoc_str cs gen_log_cs = Some (l, meta) /\ assoc_str fields gen_fields_static = Some cs) /\
  (forall l1 l2 c1 c2, assoc_lv l1 gen_level_to_cs = Some c1 -> assoc_lv l2 gen_level_to_cs = Some c2 -> fst c1 = fst c2 -> l1 = l2).
Proof.
  repeat split; try reflexivity.
  - intros []; do 3 eexists; repeat split; reflexivity.
  - intros [] [] c1 c2 H1 H2; inversion H1; inversion H2; subst; cbn; intros E; try reflexivity; discriminate.
Qed.

Lemma source_normalize :
  gen_norm_name = log_event_name /\ gen_norm_default_target = log_target /\
  gen_norm_slots = ("file", "line", "module_path")%string /\ gen_norm_fields = [MESSAGE] /\
  gen_visit_str = [("file", "file"); ("target", "target"); ("module", "module_path")]%string /\
  gen_visit_u64 = [("line", "line")]%string.
Proof. repeat split; reflexivity. Qed.

Lemma source_reverse :
  gen_iflog_checks_exists = true /\ gen_iflog_always_checks_exists = false /\
  (forall l, level_to_log l = l) /\
  gen_lifecycle_target = lifecycle_target /\ gen_activity_target = activity_target /\
  gen_span_enter = (Trace, activity_target, Trace, [s_enter; s_semi]) /\
  gen_span_exit = (Trace, activity_target, Trace, [s_exit; s_semi]) /\
  gen_span_drop = (Trace, lifecycle_target, Trace, [s_close; s_semi]) /\
  gen_span_new = (lifecycle_target, [s_plusplus; s_semi; []], false) /\
  gen_span_record = (lifecycle_target, [[]; s_semi; []], false) /\
  gen_span_id_fmt = [[]; s_span_eq; []] /\
  gen_span_log_max_on_span_level = true /\
  gen_span_log_builder = [("module_path", "module_path"); ("file", "file"); ("line", "line")]%string /\
  gen_macro_log_builder = [("file", "file"); ("module_path", "module_path"); ("line", "line")]%string /\
  gen_follows_from_logs = false /\
  gen_lvs_message = [[]; []] /\ gen_lvs_first = [[]; EQ; []] /\ gen_lvs_rest = [[32]; EQ; []] /\
  gen_lvs_message_name = MESSAGE.
Proof. repeat split; try reflexivity. apply level_to_log_id. Qed.

(** * The sequential histories of [run] are the machine histories in which every call runs to completion *)
Inductive sop := SInstallScoped | SInstallGlobal | SUninstall | SLog (o : op).
Definition sop_block (x : N * sop) : list mop :=
  match snd x with
  | SInstallScoped => call_block (fst x) FSetDefault
  | SInstallGlobal => call_block (fst x) FSetGlobal
  | SUninstall => call_block (fst x) FGuardDrop
  | SLog o => [MLog (fst x) o]
  end.
Definition sop_op (x : N * sop) : op :=
  match snd x with SInstallScoped | SInstallGlobal => OpInstall | SUninstall => OpUninstall | SLog o => o end.
Definition is_log_op (o : op) : bool := match o with OpInstall | OpUninstall => false | _ => true end.
Definition sop_ok (x : N * sop) : Prop := match snd x with SLog o => is_log_op o = true | _ => True end.

(** a call's actions performed in one go: a failed CAS ends it *)
Fixpoint exec (acts : list action) (r : regs) : regs :=
  match acts with
  | [] => r
  | a :: rest => let '(r', go) := act a r in if go then exec rest r' else r'
  end.

Lemma idle_steps : forall cfg t l s, m_thr s t = None ->
  fst (mrun cfg s (map (fun _ : action => MStep t) l)) = s /\ List.concat (snd (mrun cfg s (map (fun _ : action => MStep t) l))) = [].
Proof.
  intros cfg t l. induction l as [|a l IH]; intros s Hs; [split; reflexivity|].
  cbn [map]. rewrite mrun_cons. cbn [mstep]. rewrite Hs. cbn [fst snd List.concat app]. now apply IH.
Qed.

Lemma steps_complete : forall cfg t f acts s, acts <> [] -> m_thr s t = Some (f, acts) ->
  let m := mrun cfg s (map (fun _ : action => MStep t) acts) in
  List.concat (snd m) = [] /\ m_regs (fst m) = exec acts (m_regs s) /\
  (forall t', m_thr (fst m) t' = if t' =? t then None else m_thr s t').
Proof.
  intros cfg t f acts. induction acts as [|a rest IH]; intros s Hne Hs; [congruence|].
  cbn zeta. cbn [map]. rewrite mrun_cons. cbn [mstep exec]. rewrite Hs.
  destruct (act a (m_regs s)) as [r' go]. destruct go.
  - destruct rest as [|a2 rest2].
    + cbn [map mrun fst snd List.concat app exec m_regs m_thr]. repeat split; reflexivity.
    + cbn [fst snd List.concat app].
      set (s1 := {| m_regs := r'; m_thr := upd (m_thr s) t (Some (f, a2 :: rest2)); m_installed := m_installed s |}).
      assert (H1 : m_thr s1 t = Some (f, a2 :: rest2)) by (unfold s1; cbn [m_thr]; apply upd_same).
      destruct (IH s1 ltac:(discriminate) H1) as (I1 & I2 & I3). cbn zeta in I1, I2, I3.
      split; [exact I1|]. split; [exact I2|].
      intros t'. rewrite I3. unfold s1; cbn [m_thr]. unfold upd. destruct (t' =? t); reflexivity.
  - cbn [fst snd List.concat app].
    set (s1 := {| m_regs := r'; m_thr := upd (m_thr s) t None; m_installed := m_installed s |}).
    assert (H1 : m_thr s1 t = None) by (unfold s1; cbn [m_thr]; apply upd_same).
    destruct (idle_steps cfg t rest s1 H1) as [J1 J2]. rewrite J1, J2.
    split; [reflexivity|]. split; [reflexivity|]. intros t'. unfold s1; cbn [m_thr]. unfold upd. destruct (t' =? t); reflexivity.
Qed.

(** between two blocks: every thread is outside a call, the flag is what [run] carries, and a claimed global
    default implies the flag *)
Definition boundary (s : mstate) (ex : bool) : Prop :=
  (forall t, m_thr s t = None) /\ has_been_set (m_regs s) = ex /\ (r_ginit (m_regs s) <> 0 -> r_exists (m_regs s) <> 0).
Lemma boundary_init : boundary minit false.
Proof. split; [reflexivity|]. split; [reflexivity|]. intros H. now elim H. Qed.

Lemma block_complete : forall cfg t f s, (forall t', m_thr s t' = None) ->
  let m := mrun cfg s (call_block t f) in
  List.concat (snd m) = [] /\ m_regs (fst m) = exec (fn_body f) (m_regs s) /\ (forall t', m_thr (fst m) t' = None).
Proof.
  intros cfg t f s Hidle. cbn zeta. unfold call_block. rewrite mrun_cons. cbn [mstep]. rewrite (Hidle t). cbn [fst snd List.concat app].
  set (s1 := {| m_regs := m_regs s; m_thr := upd (m_thr s) t (Some (f, fn_body f)); m_installed := m_installed s |}).
  assert (H1 : m_thr s1 t = Some (f, fn_body f)) by (unfold s1; cbn [m_thr]; apply upd_same).
  assert (Hne : fn_body f <> []) by (destruct f; discriminate).
  destruct (steps_complete cfg t f (fn_body f) s1 Hne H1) as (I1 & I2 & I3). cbn zeta in I1, I2, I3.
  split; [exact I1|]. split; [exact I2|].
  intros t'. rewrite I3. unfold s1; cbn [m_thr]. unfold upd. destruct (t' =? t); [reflexivity | apply Hidle].
Qed.

Lemma exec_set_default : forall r, r_exists (exec (fn_body FSetDefault) r) = 1 /\ r_ginit (exec (fn_body FSetDefault) r) = r_ginit r.
Proof. intros r. split; reflexivity. Qed.
Lemma exec_guard_drop : forall r, r_exists (exec (fn_body FGuardDrop) r) = r_exists r /\ r_ginit (exec (fn_body FGuardDrop) r) = r_ginit r.
Proof. intros r. split; reflexivity. Qed.
Lemma exec_set_global : forall r,
  (r_ginit r = 0 -> r_exists (exec (fn_body FSetGlobal) r) = 1 /\ r_ginit (exec (fn_body FSetGlobal) r) = 2) /\
  (r_ginit r <> 0 -> exec (fn_body FSetGlobal) r = r).
Proof.
  intros r. cbn [fn_body]. change gen_fn_set_global with [ActCas AGlobalInit 0 1; ActLocal; ActStore AGlobalInit 2; ActStore AExists 1].
  cbn [exec act rget]. split; intros H.
  - rewrite H. cbn. split; reflexivity.
  - apply N.eqb_neq in H. rewrite H. reflexivity.
Qed.

Theorem blocks_refine_run : forall cfg h s ex, boundary s ex -> Forall sop_ok h ->
  List.concat (snd (mrun cfg s (flat_map sop_block h))) = List.concat (snd (run cfg ex (map sop_op h))) /\
  boundary (fst (mrun cfg s (flat_map sop_block h))) (fst (run cfg ex (map sop_op h))).
Proof.
  intros cfg h. induction h as [|[t x] rest IH]; intros s ex Hb Hok; [split; [reflexivity | exact Hb]|].
  inversion Hok as [|? ? Hx Hrest]; subst. destruct Hb as (Hidle & Hflag & Hg).
  cbn [flat_map map]. rewrite mrun_app, run_cons. cbn [fst snd]. rewrite List.concat_app. cbn [List.concat].
  assert (K : forall s' ex', boundary s' ex' -> List.concat (snd (mrun cfg s (sop_block (t, x)))) = snd (step cfg ex (sop_op (t, x))) ->
              fst (mrun cfg s (sop_block (t, x))) = s' -> fst (step cfg ex (sop_op (t, x))) = ex' ->
              List.concat (snd (mrun cfg s (sop_block (t, x)))) ++ List.concat (snd (mrun cfg (fst (mrun cfg s (sop_block (t, x)))) (flat_map sop_block rest))) =
              snd (step cfg ex (sop_op (t, x))) ++ List.concat (snd (run cfg (fst (step cfg ex (sop_op (t, x)))) (map sop_op rest))) /\
              boundary (fst (mrun cfg (fst (mrun cfg s (sop_block (t, x)))) (flat_map sop_block rest)))
                       (fst (run cfg (fst (step cfg ex (sop_op (t, x)))) (map sop_op rest)))).
  { intros s' ex' Hb' E1 E2 E3. rewrite E1, E2, E3. destruct (IH s' ex' Hb' Hrest) as [I1 I2]. rewrite I1. split; [reflexivity | exact I2]. }
  destruct x as [| | |o]; unfold sop_block, sop_op in K |- *; cbn [fst snd] in K |- *.
  - (* scoped install *)
    destruct (block_complete cfg t FSetDefault s Hidle) as (B1 & B2 & B3). cbn zeta in B1, B2, B3.
    destruct (exec_set_default (m_regs s)) as [E1 E2].
    eapply K; [| rewrite B1; reflexivity | reflexivity | reflexivity].
    split; [exact B3|]. rewrite B2. split; [apply hbs_true; rewrite E1; discriminate | intros _; rewrite E1; discriminate].
  - (* global install *)
    destruct (block_complete cfg t FSetGlobal s Hidle) as (B1 & B2 & B3). cbn zeta in B1, B2, B3.
    destruct (exec_set_global (m_regs s)) as [G0 G1].
    eapply K; [| rewrite B1; reflexivity | reflexivity | reflexivity].
    split; [exact B3|]. rewrite B2.
    destruct (N.eq_dec (r_ginit (m_regs s)) 0) as [Z|NZ].
    + destruct (G0 Z) as [E1 E2]. split; [apply hbs_true; rewrite E1; discriminate | intros _; rewrite E1; discriminate].
    + rewrite (G1 NZ). split; [apply hbs_true; now apply Hg | exact Hg].
  - (* guard drop *)
    destruct (block_complete cfg t FGuardDrop s Hidle) as (B1 & B2 & B3). cbn zeta in B1, B2, B3.
    destruct (exec_guard_drop (m_regs s)) as [E1 E2].
    eapply K; [| rewrite B1; reflexivity | reflexivity | reflexivity].
    split; [exact B3|]. rewrite B2. split; [rewrite hbs_spec, E1, <- hbs_spec; exact Hflag | rewrite E1, E2; exact Hg].
  - (* a logging step *)
    cbn in Hx. eapply (K s ex); [split; [exact Hidle | split; [exact Hflag | exact Hg]] | | reflexivity |].
    + cbn [mrun mstep snd fst List.concat app]. rewrite Hflag, app_nil_r. reflexivity.
    + rewrite step_exists. destruct o; try reflexivity; discriminate.
Qed.

(** from the initial state *)
Corollary run_is_machine : forall cfg h, Forall sop_ok h ->
  List.concat (snd (mrun cfg minit (flat_map sop_block h))) = List.concat (snd (run cfg false (map sop_op h))) /\
  has_been_set (m_regs (fst (mrun cfg minit (flat_map sop_block h)))) = fst (run cfg false (map sop_op h)).
Proof.
  intros cfg h Hok. destruct (blocks_refine_run cfg h minit false boundary_init Hok) as [H1 (_ & H2 & _)]. split; assumption.
Qed.

Example ex_sop_ok : Forall sop_ok [(0, SLog ex_ev); (1, SInstallScoped); (0, SLog ex_ev); (1, SUninstall); (2, SInstallGlobal); (0, SLog ex_ev)].
Proof. repeat constructor. Qed.
Example ex_run_is_machine :
  List.concat (snd (mrun ex_cfg minit (flat_map sop_block [(0, SLog ex_ev); (1, SInstallScoped); (0, SLog ex_ev)]))) =
  List.concat (snd (run ex_cfg false [ex_ev; OpInstall; ex_ev])).
Proof. reflexivity. Qed.

(** * Spans entered by polling / dropping an `Instrumented` future, or by `in_scope` *)
Lemma source_entries : gen_instrumented_poll_enters = true /\ gen_instrumented_drop_enters = true.
Proof. split; reflexivity. Qed.
Lemma poll_ops_spec : forall s, poll_ops s = [OpEnter s; OpExit s] /\ in_scope_ops s = [OpEnter s; OpExit s] /\
  idrop_ops s = [OpEnter s; OpExit s; OpDrop s].
Proof. intros s. repeat split; reflexivity. Qed.
(** each poll of an instrumented future, at any point of any history without an install, emits the enter and the exit
    record; dropping it emits enter, exit and close *)
Theorem poll_emits : forall cfg before s after, accepting cfg ->
  ~ In OpInstall (before ++ poll_ops s ++ idrop_ops s ++ after) ->
  Forall2 step_spec (before ++ [OpEnter s; OpExit s] ++ [OpEnter s; OpExit s; OpDrop s] ++ after)
          (snd (run cfg false (before ++ poll_ops s ++ idrop_ops s ++ after))).
Proof.
  intros cfg before s after Ha Hno. destruct (poll_ops_spec s) as (-> & _ & ->).
  apply (reverse_before cfg _ Ha). destruct (poll_ops_spec s) as (E1 & _ & E3). rewrite E1, E3 in Hno. exact Hno.
Qed.
Example ex_poll : map (@List.length lrec) (snd (run ex_cfg false (poll_ops (mkSpan (Some ex_meta) None) ++ idrop_ops (mkSpan (Some ex_meta) None))))
  = [1; 1; 1; 1; 1]%nat.
Proof. reflexivity. Qed.
