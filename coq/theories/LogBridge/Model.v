(** C18 — executable model of the `log` <-> `tracing` bridge.  No proofs here.

    Part A (log -> tracing) mirrors tracing-log/src/log_tracer.rs (`LogTracer::{enabled, log}`) and
    tracing-log/src/lib.rs (`dispatch_record`, `format_trace`, the two `as_trace` metadata constructors, the
    per-level synthetic callsites, `NormalizeEvent::{normalized_metadata, is_log}`, `LogVisitor`).
    Part B (tracing -> log, cargo feature `log` / `log-always`) mirrors tracing/src/macros.rs (`if_log_enabled!`,
    `__tracing_log!`, `level_to_log!`), tracing/src/lib.rs (`MacroCallsite::log`, `LogValueSet`) and
    tracing/src/span.rs (`Span::log`, `make_with`, `record_all`, `do_enter`, `do_exit`, `Drop`).

    Every table, literal and test that the code writes by hand comes from TVGen.Gen_logbridge (regenerated from the
    sources on every run); the level conversions and the Level/LevelFilter comparison operator come from
    TV.Levels.Model (C19), i.e. from TVGen.Gen_levels.

    Outside the model (parameters): the current collector's `enabled` as a function of (target, level) — a "filter
    over level x target" as in the property text —, `LevelFilter::current()`, `log::max_level()`,
    `log::STATIC_MAX_LEVEL`, the installed `log::Log`'s `enabled`, and, for spans, whether the tracing side enabled
    the span and with which id (C01/C03's subject).  Field values are represented by their `{:?}` rendering (and,
    for `&str`, also the `{}` rendering): formatting is std's. *)
From TV Require Export Levels.Model LogBridge.Syntax.
From TVGen Require Export Gen_logbridge.
Local Open Scope N_scope.

Definition bytes := list N.

(** * Strings *)
Fixpoint starts_with (p s : bytes) : bool :=
  match p, s with
  | [], _ => true
  | a :: p', b :: s' => (a =? b) && starts_with p' s'
  | _ :: _, [] => false
  end.
Fixpoint contains_b (p s : bytes) : bool :=
  match s with
  | [] => starts_with p []
  | _ :: s' => starts_with p s || contains_b p s'
  end.
Definition str_test (t : strtest) (p s : bytes) : bool :=
  match t with
  | MStartsWith => starts_with p s
  | MContains => contains_b p s
  | MEndsWith => starts_with (rev p) (rev s)
  | MEq => list_eqb s p
  end.
Fixpoint assoc_bytes {A} (k : bytes) (l : list (bytes * A)) : option A :=
  match l with [] => None | (k', v) :: r => if list_eqb k k' then Some v else assoc_bytes k r end.
Fixpoint index_of (name : bytes) (names : list bytes) (i : N) : option N :=
  match names with [] => None | n :: r => if list_eqb name n then Some i else index_of name r (i + 1) end.

Fixpoint uint_bytes (u : Decimal.uint) : bytes :=
  match u with
  | Decimal.Nil => []
  | Decimal.D0 r => 48 :: uint_bytes r | Decimal.D1 r => 49 :: uint_bytes r | Decimal.D2 r => 50 :: uint_bytes r
  | Decimal.D3 r => 51 :: uint_bytes r | Decimal.D4 r => 52 :: uint_bytes r | Decimal.D5 r => 53 :: uint_bytes r
  | Decimal.D6 r => 54 :: uint_bytes r | Decimal.D7 r => 55 :: uint_bytes r | Decimal.D8 r => 56 :: uint_bytes r
  | Decimal.D9 r => 57 :: uint_bytes r
  end.
(** `{}` of a u64 *)
Definition dec (n : N) : bytes := uint_bytes (N.to_uint n).

(** A format literal split at its `{}` placeholders, filled with the arguments in order.  (The arity is fixed by
    rustc; LogBridge/Proofs.v shows every generated literal has the arity it is used with.) *)
Fixpoint fill (segs : list bytes) (args : list bytes) : bytes :=
  match segs with
  | [] => []
  | [s] => s
  | s :: rest => s ++ (match args with a :: _ => a | [] => [] end) ++ fill rest (tl args)
  end.

(** `Level REL LevelFilter` as written in metadata.rs (the generated operator table of C19). *)
Definition level_rel_filter (r : rel) (l : lv) (f : option lv) : option bool :=
  match eval_op (rel_op r) (VL l) (VF f) with Some (RB b) => Some b | _ => None end.
(** The `log` crate's `Level <= LevelFilter` (Off = 0 < Error = 1 < ... < Trace = 5): dependency, assumed. *)
Definition log_le (l : lv) (f : option lv) : bool := rank_lv l <=? rank (VF f).

(** A level-and-target table filter (what the harness' recording collector / logger implement). *)
Definition table_filter (rules : list (bytes * option lv)) (dflt : option lv) : bytes -> lv -> bool :=
  fun t l => log_le l (match assoc_bytes t rules with Some m => m | None => dflt end).

(** * Part A: log -> tracing *)
Record logrec := mkRec {
  r_level : lv; r_target : bytes; r_msg : bytes;
  r_file : option bytes; r_line : option N; r_module : option bytes }.

(** The metadata a collector's `enabled` is asked about. [tm_cs]: the callsite its field set identifies. *)
Record tmeta := mkTMeta {
  tm_name : bytes; tm_target : bytes; tm_level : lv;
  tm_file : option bytes; tm_line : option N; tm_module : option bytes; tm_cs : string }.

Inductive fvalue := VArgs (s : bytes) | VStr (s : bytes) | VU64 (n : N).
Record field := mkField { f_cs : string; f_idx : N }.
Definition field_eqb (a b : field) : bool := String.eqb (f_cs a) (f_cs b) && (f_idx a =? f_idx b).
Record event := mkEvent {
  ev_name : bytes; ev_target : bytes; ev_level : lv; ev_cs : string;
  ev_values : list (field * option fvalue) }.

Inductive obs := OEnabled (m : tmeta) | OEvent (e : event).

Record bstate := mkB {
  b_max : option lv;              (* LevelFilter::current() *)
  b_ignore : list bytes;          (* LogTracer::ignore_crates *)
  b_cur : bytes -> lv -> bool }.  (* the current collector's `enabled`, a filter over target x level *)

Definition cs_of_loglevel (l : lv) : option (string * string * string) := assoc_lv l gen_loglevel_to_cs.
(** metadata static -> (its callsite, its level) *)
Fixpoint meta_static_in (tbl : list (string * (lv * string))) (m : string) : option (string * lv) :=
  match tbl with
  | [] => None
  | (cs, (l, m')) :: r => if String.eqb m m' then Some (cs, l) else meta_static_in r m
  end.
Definition meta_static := meta_static_in gen_log_cs.
(** `keys.member` of a `Fields` static *)
Definition key (fields member : string) : option field :=
  match assoc_str fields gen_fields_static, assoc_str member gen_fields_new with
  | Some cs, Some name => option_map (mkField cs) (index_of name gen_field_names 0)
  | _, _ => None
  end.

(** `log::Metadata::as_trace` / `log::Record::as_trace` *)
Definition as_trace_meta (which : bytes * (bool * bool * bool)) (r : logrec) : option tmeta :=
  match as_trace_level (r_level r), cs_of_loglevel (r_level r) with
  | Some tl, Some (cs, _, _) =>
      let '(name, (f, l, m)) := which in
      Some (mkTMeta name (r_target r) tl (if f then r_file r else None) (if l then r_line r else None)
                    (if m then r_module r else None) cs)
  | _, _ => None
  end.

Definition record_value (r : logrec) (acc : string) : option (option fvalue) :=
  if String.eqb acc "args" then Some (Some (VArgs (r_msg r)))
  else if String.eqb acc "target" then Some (Some (VStr (r_target r)))
  else if String.eqb acc "module_path" then Some (option_map VStr (r_module r))
  else if String.eqb acc "file" then Some (option_map VStr (r_file r))
  else if String.eqb acc "line" then Some (option_map VU64 (r_line r))
  else None.

Fixpoint build_values (fields : string) (r : logrec) (spec : list (string * string)) : option (list (field * option fvalue)) :=
  match spec with
  | [] => Some []
  | (member, acc) :: rest =>
      match key fields member, record_value r acc, build_values fields r rest with
      | Some k, Some v, Some tl => Some ((k, v) :: tl)
      | _, _, _ => None
      end
  end.

(** The event `dispatch_record` constructs: metadata of the per-level static, values keyed by the per-level keys. *)
Definition build_event (r : logrec) : option event :=
  match cs_of_loglevel (r_level r) with
  | Some (_, fields, meta) =>
      match meta_static meta, build_values fields r gen_dispatch_values with
      | Some (mcs, mlvl), Some vals => Some (mkEvent gen_cs_name gen_cs_target mlvl mcs vals)
      | _, _ => None
      end
  | None => None
  end.

(** `dispatch_record` (= `format_trace`).  [None]: the generated tables are inconsistent (never, see Proofs). *)
Definition dispatch_record (st : bstate) (r : logrec) : option (list obs) :=
  match as_trace_meta gen_as_trace_record r with
  | None => None
  | Some fm =>
      if gen_dispatch_checks_enabled then
        if b_cur st (tm_target fm) (tm_level fm)
        then option_map (fun e => [OEnabled fm; OEvent e]) (build_event r)
        else Some [OEnabled fm]
      else option_map (fun e => [OEvent e]) (build_event r)
  end.

(** `LogTracer::enabled`: (answer, what the collector was asked). *)
Definition tracer_enabled (st : bstate) (r : logrec) : option (bool * list obs) :=
  if negb gen_tracer_asks_about_record then None else
  match as_trace_level (r_level r) with
  | None => None
  | Some tl =>
      match level_rel_filter gen_tracer_gate tl (b_max st) with
      | None => None
      | Some true => Some (false, [])
      | Some false =>
          if existsb (fun p => str_test gen_tracer_ignore_test p (r_target r)) (b_ignore st) then Some (false, [])
          else match as_trace_meta gen_as_trace_metadata r with
               | None => None
               | Some m => Some (b_cur st (tm_target m) (tm_level m), [OEnabled m])
               end
      end
  end.

(** `LogTracer::log` *)
Definition tracer_log (st : bstate) (r : logrec) : option (list obs) :=
  match tracer_enabled st r with
  | None => None
  | Some (false, o) => Some o
  | Some (true, o) => option_map (app o) (dispatch_record st r)
  end.

(** Entry points of the bridge: the logger called directly (`log::logger().log(&record)`), through the `log!`
    macros of the `log` crate (which first test `level <= log::max_level()` — dependency, assumed), or the public
    `tracing_log::format_trace`. *)
Inductive entry := EDirect | EMacro (log_max : option lv) | EFormatTrace.
Definition bridge (st : bstate) (e : entry) (r : logrec) : option (list obs) :=
  match e with
  | EDirect => tracer_log st r
  | EMacro mx => if log_le (r_level r) mx then tracer_log st r else Some []
  | EFormatTrace => dispatch_record st r
  end.

Fixpoint events_of (o : list obs) : list event :=
  match o with [] => [] | OEvent e :: r => e :: events_of r | OEnabled _ :: r => events_of r end.
Fixpoint asked_of (o : list obs) : list tmeta :=
  match o with [] => [] | OEnabled m :: r => m :: asked_of r | OEvent _ :: r => asked_of r end.

(** ** NormalizeEvent *)
Definition is_log (e : event) : option bool :=
  match assoc_lv (ev_level e) gen_level_to_cs with
  | Some (cs, _) => Some (String.eqb (ev_cs e) cs)
  | None => None
  end.

Record visitor := mkV { v_target : option bytes; v_module_path : option bytes; v_file : option bytes; v_line : option N }.
Definition set_str_slot (slot : string) (s : bytes) (v : visitor) : option visitor :=
  if String.eqb slot "target" then Some (mkV (Some s) (v_module_path v) (v_file v) (v_line v))
  else if String.eqb slot "module_path" then Some (mkV (v_target v) (Some s) (v_file v) (v_line v))
  else if String.eqb slot "file" then Some (mkV (v_target v) (v_module_path v) (Some s) (v_line v))
  else None.
Definition set_u64_slot (slot : string) (n : N) (v : visitor) : option visitor :=
  if String.eqb slot "line" then Some (mkV (v_target v) (v_module_path v) (v_file v) (Some n)) else None.
Definition get_str_slot (slot : string) (v : visitor) : option (option bytes) :=
  if String.eqb slot "target" then Some (v_target v)
  else if String.eqb slot "module_path" then Some (v_module_path v)
  else if String.eqb slot "file" then Some (v_file v)
  else None.
Definition get_u64_slot (slot : string) (v : visitor) : option (option N) :=
  if String.eqb slot "line" then Some (v_line v) else None.

(** the `if field == &self.fields.X { self.Y = Some(value) } else if ...` chains of `LogVisitor` *)
Fixpoint visit_chain {A} (set : string -> A -> visitor -> option visitor) (fields : string)
         (chain : list (string * string)) (f : field) (x : A) (v : visitor) : option visitor :=
  match chain with
  | [] => Some v
  | (member, slot) :: rest =>
      match key fields member with
      | None => None
      | Some k => if field_eqb f k then set slot x v else visit_chain set fields rest f x v
      end
  end.

(** `Event::record(&mut LogVisitor)`: `ValueSet::record` skips fields of another callsite and unset values. *)
Fixpoint visit_values (fields cs : string) (vals : list (field * option fvalue)) (v : visitor) : option visitor :=
  match vals with
  | [] => Some v
  | (f, ov) :: rest =>
      if negb (String.eqb (f_cs f) cs) then visit_values fields cs rest v else
      match ov with
      | None => visit_values fields cs rest v
      | Some (VArgs _) => visit_values fields cs rest v                     (* record_debug: ignored *)
      | Some (VStr s) => match visit_chain set_str_slot fields gen_visit_str f s v with
                         | Some v' => visit_values fields cs rest v' | None => None end
      | Some (VU64 n) => match visit_chain set_u64_slot fields gen_visit_u64 f n v with
                         | Some v' => visit_values fields cs rest v' | None => None end
      end
  end.

Record nmeta := mkN {
  n_name : bytes; n_target : bytes; n_level : lv;
  n_file : option bytes; n_line : option N; n_module : option bytes; n_fields : list bytes }.

(** `normalized_metadata()`: outer [None] = stuck tables (never), inner [None] = not a log event. *)
Definition normalize (e : event) : option (option nmeta) :=
  match is_log e with
  | None => None
  | Some false => Some None
  | Some true =>
      match assoc_lv (ev_level e) gen_level_to_cs with
      | None => None
      | Some (_, fields) =>
          match visit_values fields (ev_cs e) (ev_values e) (mkV None None None None) with
          | None => None
          | Some v =>
              let '(fslot, lslot, mslot) := gen_norm_slots in
              match get_str_slot fslot v, get_u64_slot lslot v, get_str_slot mslot v with
              | Some file, Some line, Some module =>
                  Some (Some (mkN gen_norm_name
                                  (match v_target v with Some t => t | None => gen_norm_default_target end)
                                  (ev_level e) file
                                  (option_map (fun l => l mod 4294967296) line)   (* `l as u32` *)
                                  module gen_norm_fields))
              | _, _, _ => None
              end
          end
      end
  end.

(** the `message` value a collector's visitor is handed (the first `VArgs` under the `message` key) *)
Fixpoint message_of_values (cs : string) (vals : list (field * option fvalue)) : option bytes :=
  match vals with
  | [] => None
  | (f, Some (VArgs s)) :: rest =>
      if String.eqb (f_cs f) cs && (match index_of [109;101;115;115;97;103;101] gen_field_names 0 with
                                    | Some i => f_idx f =? i | None => false end)
      then Some s else message_of_values cs rest
  | _ :: rest => message_of_values cs rest
  end.
Definition message_of (e : event) : option bytes := message_of_values (ev_cs e) (ev_values e).

(** what a collector's visitor sees, in order: (field name, value) *)
Fixpoint visible_values (cs : string) (vals : list (field * option fvalue)) : list (option bytes * fvalue) :=
  match vals with
  | [] => []
  | (f, Some v) :: rest =>
      if String.eqb (f_cs f) cs then (nth_error gen_field_names (N.to_nat (f_idx f)), v) :: visible_values cs rest
      else visible_values cs rest
  | (_, None) :: rest => visible_values cs rest
  end.

(** * Part B: tracing -> log *)
Record meta := mkMeta {
  m_name : bytes; m_target : bytes; m_level : lv;
  m_file : option bytes; m_line : option N; m_module : option bytes }.
(** a field value as `Visit` sees it: `record_str` ([FStr], `{}` and `{:?}` renderings), anything else ends in
    `record_debug` ([FOther], `{:?}` rendering), `field::Empty` records nothing. *)
Inductive fval := FStr (disp dbg : bytes) | FOther (dbg : bytes) | FEmpty.
Definition valueset := list (bytes * option fval).
Record lrec := mkL {
  l_level : lv; l_target : bytes; l_text : bytes;
  l_file : option bytes; l_line : option N; l_module : option bytes }.
Record lcfg := mkCfg {
  c_always : bool;                 (* cargo feature log-always *)
  c_static_max : option lv;        (* log::STATIC_MAX_LEVEL *)
  c_log_max : option lv;           (* log::max_level() *)
  c_logger : bytes -> lv -> bool }.  (* the installed logger's `enabled` on (target, level) *)
(** a `Span` handle: `meta` (None for `Span::none()`), the id when the tracing side enabled it *)
Record span := mkSpan { s_meta : option meta; s_id : option N }.

Definition MESSAGE : bytes := [109; 101; 115; 115; 97; 103; 101].
(** `field.name() == "message"` in `LogValueSet`'s visitor (the literal is generated) *)
Definition is_message (k : bytes) : bool := list_eqb k gen_lvs_message_name.
Definition render (k : bytes) (v : fval) : option bytes :=
  match v with
  | FStr disp dbg => Some (if is_message k then disp else dbg)
  | FOther dbg => Some dbg
  | FEmpty => None
  end.
(** `LogValueSet`'s Display: the three generated literals (`{:?}` / `{}={:?}` / ` {}={:?}` in the source as it is) *)
Fixpoint fmt_values (first : bool) (vs : valueset) : bytes :=
  match vs with
  | [] => []
  | (k, ov) :: r =>
      match (match ov with Some v => render k v | None => None end) with
      | None => fmt_values first r
      | Some d =>
          (if first then (if is_message k then fill gen_lvs_message [d] else fill gen_lvs_first [k; d])
           else fill gen_lvs_rest [k; d])
            ++ fmt_values false r
      end
  end.
(** `ValueSet::is_empty`: no value is set (an explicit `field::Empty` counts as set) *)
Definition vs_is_empty (vs : valueset) : bool :=
  forallb (fun kv => match snd kv with None => true | Some _ => false end) vs.

Definition level_to_log (l : lv) : lv :=
  match assoc_lv l gen_level_to_log_arms with Some x => x | None => gen_level_to_log_default end.

(** `if_log_enabled!` in the configured feature set; [ex] = `dispatch::has_been_set()` *)
Definition if_log_enabled (cfg : lcfg) (ex : bool) (lvl : lv) : bool :=
  log_le (level_to_log lvl) (c_static_max cfg)
  && negb ((if c_always cfg then gen_iflog_always_checks_exists else gen_iflog_checks_exists) && ex).

(** `log::Record::builder()` as written in `MacroCallsite::log` / `Span::log`: which setter is fed by which accessor
    of the callsite's metadata (generated). *)
Definition meta_str (acc : option string) (m : meta) : option bytes :=
  match acc with
  | Some a => if String.eqb a "file" then m_file m else if String.eqb a "module_path" then m_module m else None
  | None => None
  end.
Definition meta_line (acc : option string) (m : meta) : option N :=
  match acc with Some a => if String.eqb a "line" then m_line m else None | None => None end.
Definition build_lrec (tbl : list (string * string)) (m : meta) (level : lv) (target text : bytes) : lrec :=
  mkL level target text (meta_str (assoc_str "file" tbl) m) (meta_line (assoc_str "line" tbl) m)
      (meta_str (assoc_str "module_path" tbl) m).

(** `__tracing_log!` + `MacroCallsite::log` *)
Definition event_log (cfg : lcfg) (ex : bool) (m : meta) (vs : valueset) : list lrec :=
  if if_log_enabled cfg ex (m_level m) then
    let level := level_to_log (m_level m) in
    if log_le level (c_log_max cfg) then
      if c_logger cfg (m_target m) level
      then [build_lrec gen_macro_log_builder m level (m_target m) (fmt_values true vs)]
      else []
    else []
  else [].

(** `Span::log` *)
Definition span_log (cfg : lcfg) (s : span) (target : bytes) (level : lv) (message : bytes) : list lrec :=
  match s_meta s with
  | None => []
  | Some m =>
      if log_le (if gen_span_log_max_on_span_level then level_to_log (m_level m) else level) (c_log_max cfg) then
        if c_logger cfg target level then
          [build_lrec gen_span_log_builder m level target
               (match s_id s with Some id => fill gen_span_id_fmt [message; dec id] | None => message end)]
        else []
      else []
  end.

Definition values_target (dflt : bytes) (m : meta) (vs : valueset) : bytes :=
  if vs_is_empty vs then dflt else m_target m.

(** `Span::record_all` (log part) *)
Definition record_all_log (cfg : lcfg) (ex : bool) (s : span) (vs : valueset) : list lrec :=
  match s_meta s with
  | None => []
  | Some m =>
      if if_log_enabled cfg ex (m_level m) then
        let '(dflt, segs, first) := gen_span_record in
        span_log cfg s (values_target dflt m vs) (level_to_log (m_level m)) (fill segs [m_name m; fmt_values first vs])
      else []
  end.

(** `span!`: enabled ([sid = Some id]) -> `Span::new` -> `make_with`; disabled -> `disabled_span()` and
    `if_log_enabled! { lvl, span.record_all(..) }` *)
Definition new_span_log (cfg : lcfg) (ex : bool) (m : meta) (vs : valueset) (sid : option N) : span * list lrec :=
  match sid with
  | Some id =>
      let s := mkSpan (Some m) (Some id) in
      (s, if if_log_enabled cfg ex (m_level m) then
            let '(dflt, segs, first) := gen_span_new in
            span_log cfg s (values_target dflt m vs) (level_to_log (m_level m)) (fill segs [m_name m; fmt_values first vs])
          else [])
  | None =>
      let s := mkSpan (Some m) None in
      (s, if if_log_enabled cfg ex (m_level m) then record_all_log cfg ex s vs else [])
  end.

(** `do_enter` / `do_exit` / `Drop` (log part) *)
Definition lifecycle_log (site : lv * bytes * lv * list bytes) (cfg : lcfg) (ex : bool) (s : span) : list lrec :=
  let '(gate, target, level, segs) := site in
  if if_log_enabled cfg ex gate then
    match s_meta s with
    | Some m => span_log cfg s target level (fill segs [m_name m])
    | None => []
    end
  else [].

(** ** Histories *)
Inductive op :=
| OpInstall                                             (* set_default / set_global_default *)
| OpUninstall                                           (* the DefaultGuard is dropped *)
| OpEvent (m : meta) (vs : valueset)
| OpNewSpan (m : meta) (vs : valueset) (sid : option N)
| OpRecord (s : span) (vs : valueset)
| OpEnter (s : span) | OpExit (s : span) | OpDrop (s : span)
| OpFollows (s : span) (from : option N).               (* Span::follows_from: no log call in the source *)

(** one step: the new value of `EXISTS` and the log records emitted *)
Definition step (cfg : lcfg) (ex : bool) (o : op) : bool * list lrec :=
  match o with
  | OpInstall => (true, [])
  | OpUninstall => (ex, [])
  | OpEvent m vs => (ex, event_log cfg ex m vs)
  | OpNewSpan m vs sid => (ex, snd (new_span_log cfg ex m vs sid))
  | OpRecord s vs => (ex, record_all_log cfg ex s vs)
  | OpEnter s => (ex, lifecycle_log gen_span_enter cfg ex s)
  | OpExit s => (ex, lifecycle_log gen_span_exit cfg ex s)
  | OpDrop s => (ex, lifecycle_log gen_span_drop cfg ex s)
  | OpFollows _ _ => (ex, [])
  end.
Fixpoint run (cfg : lcfg) (ex : bool) (ops : list op) : bool * list (list lrec) :=
  match ops with
  | [] => (ex, [])
  | o :: rest =>
      let '(ex', out) := step cfg ex o in
      let '(exf, outs) := run cfg ex' rest in
      (exf, out :: outs)
  end.

(** Other public routes into `do_enter` / `do_exit`: `Span::in_scope`, polling an `Instrumented` future (tracing's and
    tracing-futures'), dropping one (the span is entered around the inner value's drop, then dropped itself). *)
Definition in_scope_ops (s : span) : list op := [OpEnter s; OpExit s].
Definition poll_ops (s : span) : list op := if gen_instrumented_poll_enters then [OpEnter s; OpExit s] else [].
Definition idrop_ops (s : span) : list op := (if gen_instrumented_drop_enters then [OpEnter s; OpExit s] else []) ++ [OpDrop s].

(** ** The flag `has_been_set()` reads, on any number of threads, at the granularity of single atomic actions.
    Everything here interprets generated data: the expression `has_been_set()` evaluates and the action lists of
    `State::set_default` (= `dispatch::set_default`), `Drop for DefaultGuard` and `set_global_default`.
    Sequentially consistent memory (the orderings in the source are Release/Relaxed/SeqCst: a reader that is not
    ordered after a store by some other synchronisation may see the flag late; the harness orders every
    observation after the step before it). *)
Record regs := mkRegs { r_exists : N; r_ginit : N; r_scount : N }.
Definition rget (a : atom) (r : regs) : N :=
  match a with AExists => r_exists r | AGlobalInit => r_ginit r | AScopedCount => r_scount r end.
Definition rset (a : atom) (v : N) (r : regs) : regs :=
  match a with
  | AExists => mkRegs v (r_ginit r) (r_scount r)
  | AGlobalInit => mkRegs (r_exists r) v (r_scount r)
  | AScopedCount => mkRegs (r_exists r) (r_ginit r) v
  end.
Definition WORD : N := 18446744073709551616.   (* usize on the 64-bit targets the harness runs on *)
Fixpoint heval (h : hexpr) (r : regs) : bool :=
  match h with
  | HLoad a => negb (rget a r =? 0)
  | HNe a n => negb (rget a r =? n)
  | HEq a n => rget a r =? n
  | HOr x y => heval x r || heval y r
  | HAnd x y => heval x r && heval y r
  | HNot x => negb (heval x r)
  end.
Definition has_been_set (r : regs) : bool := heval gen_has_been_set r.
(** one action: the new registers, and whether the function goes on (a failed `compare_exchange` returns) *)
Definition act (a : action) (r : regs) : regs * bool :=
  match a with
  | ActStore x v => (rset x v r, true)
  | ActFetchAdd x d => (rset x ((rget x r + d) mod WORD) r, true)
  | ActFetchSub x d => (rset x ((rget x r + WORD - d mod WORD) mod WORD) r, true)
  | ActCas x o n => if rget x r =? o then (rset x n r, true) else (r, false)
  | ActLocal => (r, true)
  end.
Definition fn_body (f : dfn) : list action :=
  match f with FSetDefault => gen_fn_set_default | FGuardDrop => gen_fn_guard_drop | FSetGlobal => gen_fn_set_global end.
Definition is_install (f : dfn) : bool := match f with FGuardDrop => false | _ => true end.

(** [m_thr t]: the call thread [t] is in and the actions it still has to perform ([None]: not in a call).
    [m_installed] (ghost): some `set_default` / successful `set_global_default` has returned. *)
Record mstate := mkM { m_regs : regs; m_thr : N -> option (dfn * list action); m_installed : bool }.
Definition upd {A} (th : N -> A) (t : N) (v : A) : N -> A := fun t' => if t' =? t then v else th t'.
Definition minit : mstate := mkM (mkRegs 0 0 0) (fun _ => None) false.

Inductive mop :=
| MCall (t : N) (f : dfn)      (* thread t enters f (ignored while it is in another call) *)
| MStep (t : N)                (* thread t performs its next action *)
| MLog (t : N) (o : op).       (* thread t runs an event / span step through the macros: `has_been_set()` is read now *)

Definition mstep (cfg : lcfg) (s : mstate) (o : mop) : mstate * list lrec :=
  match o with
  | MCall t f =>
      match m_thr s t with
      | None => (mkM (m_regs s) (upd (m_thr s) t (Some (f, fn_body f))) (m_installed s), [])
      | Some _ => (s, [])
      end
  | MStep t =>
      match m_thr s t with
      | None => (s, [])
      | Some (f, []) => (mkM (m_regs s) (upd (m_thr s) t None) (m_installed s || is_install f), [])
      | Some (f, a :: rest) =>
          let '(r', go) := act a (m_regs s) in
          if go then
            match rest with
            | [] => (mkM r' (upd (m_thr s) t None) (m_installed s || is_install f), [])
            | _ => (mkM r' (upd (m_thr s) t (Some (f, rest))) (m_installed s), [])
            end
          else (mkM r' (upd (m_thr s) t None) (m_installed s), [])
      end
  | MLog t o => (s, snd (step cfg (has_been_set (m_regs s)) o))
  end.
Fixpoint mrun (cfg : lcfg) (s : mstate) (h : list mop) : mstate * list (list lrec) :=
  match h with
  | [] => (s, [])
  | o :: rest =>
      let '(s', out) := mstep cfg s o in
      let '(sf, outs) := mrun cfg s' rest in
      (sf, out :: outs)
  end.
(** a call run to completion without interference: enter + one step per action *)
Definition call_block (t : N) (f : dfn) : list mop := MCall t f :: map (fun _ => MStep t) (fn_body f).

(** * Other public entries of tracing-log *)
(** `<Metadata as AsLog>::as_log`: (level, target) of the `log::Metadata` *)
Definition as_log_meta (m : meta) : option (lv * bytes) :=
  let '(conv, own) := gen_as_log_metadata in
  if conv && own then option_map (fun l => (l, m_target m)) (as_log_level (m_level m)) else None.
(** `log::max_level()` after `LogTracer::builder()[.with_max_level(f)].init()` *)
Definition builder_log_max (w : option (option lv)) : option (option lv) :=
  if gen_builder_init_sets_max then Some (match w with Some f => f | None => gen_builder_default_max end) else None.

(** `log::max_level()` after the same call in a process that ALREADY has a logger (the install fails, the call returns
    `Err`): the level in force before ([cur]) if the builder publishes its level only after a successful install. *)
Definition init_again_log_max (cur : option lv) (w : option (option lv)) : option lv :=
  if gen_builder_max_before_install
  then match w with Some f => f | None => gen_builder_default_max end
  else cur.

(** * Encodings for the correspondence driver *)
(** a synthetic callsite is reported as the level of its own static metadata; any other callsite as [None] *)
Definition cs_level_of (cs : string) : option N := option_map (fun x => rank_lv (fst x)) (assoc_str cs gen_log_cs).
Definition enc_lrec (r : lrec) := (rank_lv (l_level r), l_target r, l_text r, (l_file r, l_line r, l_module r)).
Definition enc_tmeta (m : tmeta) :=
  (tm_name m, tm_target m, rank_lv (tm_level m), (tm_file m, tm_line m, tm_module m), cs_level_of (tm_cs m)).
Definition enc_fvalue (v : fvalue) : N * bytes * N :=
  match v with VArgs s => (0, s, 0) | VStr s => (1, s, 0) | VU64 n => (2, [], n) end.
Definition enc_nmeta (n : nmeta) :=
  (n_name n, n_target n, rank_lv (n_level n), (n_file n, n_line n, n_module n), n_fields n).
Definition enc_event (e : event) :=
  (ev_name e, ev_target e, rank_lv (ev_level e), cs_level_of (ev_cs e),
   map (fun kv => (fst kv, enc_fvalue (snd kv))) (visible_values (ev_cs e) (ev_values e)),
   (is_log e, option_map (option_map enc_nmeta) (normalize e))).
Definition enc_obs (o : obs) :=
  match o with
  | OEnabled m => (0, Some (enc_tmeta m), None)
  | OEvent e => (1, None, Some (enc_event e))
  end.
Definition enc_bridge (o : option (list obs)) := option_map (map enc_obs) o.
Definition enc_run (x : bool * list (list lrec)) := (fst x, map (map enc_lrec) (snd x)).
Definition enc_regs (r : regs) := (r_exists r, r_ginit r, r_scount r, has_been_set r).
(** the machine's outputs, and `has_been_set()` after every step *)
Fixpoint mrun_flags (cfg : lcfg) (s : mstate) (h : list mop) : list bool :=
  match h with [] => [] | o :: rest => let s' := fst (mstep cfg s o) in has_been_set (m_regs s') :: mrun_flags cfg s' rest end.
Definition enc_mrun (cfg : lcfg) (h : list mop) :=
  let x := mrun cfg minit h in
  (enc_regs (m_regs (fst x)), m_installed (fst x), map (map enc_lrec) (snd x), mrun_flags cfg minit h).
Definition enc_enabled (x : option (bool * list obs)) := option_map (fun p => (fst p, map enc_obs (snd p))) x.
Definition enc_as_trace (x : option tmeta) := option_map enc_tmeta x.
Definition enc_as_log (x : option (lv * bytes)) := option_map (fun p => (rank_lv (fst p), snd p)) x.
