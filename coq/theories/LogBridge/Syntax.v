(** Data types the log-bridge translator (translators/logbridge.py) emits into; nothing about the code here. *)
From TV Require Export Levels.Syntax.

(** The string test `LogTracer::enabled` applies between a record's target and an ignore-list entry. *)
Inductive strtest := MStartsWith | MContains | MEndsWith | MEq.

(** * The three process-global atomics of tracing-core/src/dispatch.rs that decide `has_been_set()` *)
Inductive atom := AExists | AGlobalInit | AScopedCount.
(** One shared-memory action of `State::set_default`, `Drop for DefaultGuard` or `set_global_default`, in source
    order.  [ActCas a old new]: `a.compare_exchange(old, new, ..).is_ok()` guards the rest of the function (on failure the
    function returns without doing anything else).  [ActLocal]: an access that touches none of the three atomics
    (the thread-local `CURRENT_STATE`, the `GLOBAL_DISPATCH` write). *)
Inductive action :=
| ActStore (a : atom) (v : N)
| ActFetchAdd (a : atom) (d : N)
| ActFetchSub (a : atom) (d : N)
| ActCas (a : atom) (old new : N)
| ActLocal.
(** The body of `dispatch::has_been_set()` as an expression over the atomics (`X.load(_)` is [HLoad X], a bool
    for EXISTS; comparisons of a `usize` atomic with a constant; `||`, `&&`, `!`). *)
Inductive hexpr :=
| HLoad (a : atom)
| HNe (a : atom) (n : N)
| HEq (a : atom) (n : N)
| HOr (x y : hexpr)
| HAnd (x y : hexpr)
| HNot (x : hexpr).
(** The three functions that install / uninstall a default collector. *)
Inductive dfn := FSetDefault | FGuardDrop | FSetGlobal.
