(** Data types the log-bridge translator (translators/logbridge.py) emits into; nothing about the code here. *)
From TV Require Export Levels.Syntax.

(** The string test `LogTracer::enabled` applies between a record's target and an ignore-list entry. *)
Inductive strtest := MStartsWith | MContains | MEndsWith | MEq.
