(** C17 — proofs, part 3: the span-log clauses (one span, body inside, ret/err events) and the
    interleaved polling of several instrumented futures. *)
From TV Require Import Attr.Model Attr.Proofs Attr.ProofsRun.
From Coq Require Import Permutation Lia.
Local Open Scope N_scope.
Local Arguments N.add : simpl never.
Local Arguments N.eqb : simpl never.
Local Arguments N.leb : simpl never.
Local Arguments N.ltb : simpl never.
Local Arguments wrap_polls : simpl never.
Local Arguments span_create : simpl never.
Local Arguments follows_part : simpl never.

(** * The shape of an instrumented call *)

Definition is_sync (f : func) : bool := match f_kind f with KSync => true | _ => false end.

Definition instr_log (sync : bool) (c : collector) (args : N -> N) (sp : spanspec) (fo : option (list N))
           (l1 : list entry) (t1 lv1 : list N) (r1 : result) : list entry :=
  let on := span_on c (sp_level sp) in
  if sync then
    (if static_on c (sp_level sp)
     then (if on then span_create args sp else []) ++ follows_part fo on ++ (if on then [TEnter] else [])
     else [])
    ++ l1 ++ (if on then [TExit; TClose] else []) ++ map EXDrop t1 ++ map EXDrop (rev lv1)
  else if on then
    span_create args sp ++ follows_part fo true ++ wrap_polls (l1 ++ map EXDrop t1)
      ++ instr_drop r1 ++ map EXDrop (rev lv1)
  else l1 ++ map EXDrop t1 ++ map EXDrop (rev lv1).

Definition is_pre0 (e : entry) : bool := match e with EXDrop _ | ECreated => true | _ => false end.

Lemma run_instr_struct c args f sp fo e :
  exists keep pre0,
    covers keep (mentions f)
    /\ Forall (fun x => is_pre0 x = true) pre0
    /\ run c args f (TInstr sp fo e)
       = let '(l1, lv1, r1, t1) := texec c args f e (filter keep (all_owned f)) in
         (pre0 ++ instr_log (is_sync f) c args sp fo l1 t1 lv1 r1, r1).
Proof.
  unfold run, is_sync. destruct (f_kind f).
  - exists (fun _ => true), []. split; [intros p _; reflexivity|]. split; [constructor|].
    rewrite filter_true. unfold run_sync, instr_log.
    destruct (texec c args f e (all_owned f)) as [[[l1 lv1] r1] t1]. reflexivity.
  - exists (fun _ => true), [ECreated]. split; [intros p _; reflexivity|]. split; [repeat constructor|].
    rewrite filter_true. unfold run_future, instr_log.
    destruct (texec c args f e (all_owned f)) as [[[l1 lv1] r1] t1].
    destruct (span_on c (sp_level sp)); reflexivity.
  - cbv zeta.
    set (keep := fun p => mem p (mentions f ++ top_mentions (TInstr sp fo e))).
    exists keep, (map EXDrop (rev (filter (fun p => negb (keep p)) (all_owned f))) ++ [ECreated]).
    split. { intros p Hp. unfold keep. apply mem_In. apply in_or_app. now left. }
    split. { apply Forall_app; split; [|repeat constructor]. induction (rev _); simpl; constructor; auto. }
    unfold run_future, instr_log.
    destruct (texec c args f e (filter keep (all_owned f))) as [[[l1 lv1] r1] t1].
    destruct (span_on c (sp_level sp)); rewrite <- app_assoc; reflexivity.
  - exists (fun _ => true), [ECreated]. split; [intros p _; reflexivity|]. split; [repeat constructor|].
    rewrite filter_true. unfold run_future, instr_log.
    destruct (texec c args f e (all_owned f)) as [[[l1 lv1] r1] t1].
    destruct (span_on c (sp_level sp)); reflexivity.
Qed.

(** the inner log of the template, related to the block run on the full frame *)
Lemma texec_frame_facts c args f e keep l1 lv1 r1 t1 :
  covers keep (mentions f) ->
  texec c args f e (filter keep (all_owned f)) = (l1, lv1, r1, t1) ->
  Forall (fun x => inner_ok x = true) l1
  /\ filter is_event l1 = tevents c e r1
  /\ own_effects l1 = fst (fst (exec_block args f (all_owned f))).
Proof.
  intros C E.
  destruct (exec_block args f (all_owned f)) as [[lb lvb] rb] eqn:HB.
  pose proof (exec_block_restrict args f keep (all_owned f) C) as HB'. rewrite HB in HB'.
  destruct (texec_sim _ _ _ _ _ _ _ _ _ _ _ _ E HB') as (Hr & Ho & _ & Hi & He). subst. auto.
Qed.

(** * scan *)

Lemma scan_app b l1 l2 :
  scan b (l1 ++ l2) = match scan b l1 with Some b' => scan b' l2 | None => None end.
Proof.
  revert b. induction l1 as [|e l1 IH]; intros b; simpl; [reflexivity|].
  destruct e, b; simpl; auto.
Qed.

Definition out_ok (e : entry) : bool :=
  match e with
  | EPending | ECreated | TNewSpan _ _ _ _ _ | TClose | TFollows _ | TFollowsEval | TFieldEval _ | TParentEval _
  | EXDrop _ | TFmt _ _ => true
  | _ => false
  end.
Definition in_ok (e : entry) : bool :=
  match e with
  | EEff _ | EUse _ | EMove _ | EDrop _ | EClone _ | EYield _ | TEvent _ _ _ _ _ | EXDrop _ | TFmt _ _ => true
  | _ => false
  end.

Lemma scan_out l : Forall (fun e => out_ok e = true) l -> scan false l = Some false.
Proof. induction 1 as [|e l H _ IH]; [reflexivity|]. destruct e; simpl in *; try discriminate; assumption. Qed.
Lemma scan_in l : Forall (fun e => in_ok e = true) l -> scan true l = Some true.
Proof. induction 1 as [|e l H _ IH]; [reflexivity|]. destruct e; simpl in *; try discriminate; assumption. Qed.

Lemma scan_wrap_inner l :
  Forall (fun e => inner_ok e = true) l -> scan true (flat_map wrap1 l) = Some true.
Proof.
  induction 1 as [|e l H _ IH]; [reflexivity|]. simpl. rewrite scan_app.
  destruct e; simpl in *; try discriminate; assumption.
Qed.

Lemma scan_wrap l : Forall (fun e => inner_ok e = true) l -> scan false (wrap_polls l) = Some false.
Proof.
  intros H. rewrite wrap_polls_eq. simpl. rewrite scan_app, scan_wrap_inner by assumption. reflexivity.
Qed.

Lemma inner_nb l :
  Forall (fun e => inner_ok e = true) l -> Forall (fun e => not_boundary e = true) (own_effects l) ->
  Forall (fun e => in_ok e = true) l.
Proof.
  induction 1 as [|e l H _ IH]; intros NB; [constructor|].
  change (e :: l) with ([e] ++ l) in NB. rewrite own_effects_app in NB. apply Forall_app in NB as [NB1 NB2].
  constructor; [|auto].
  destruct e; simpl in *; try discriminate; try reflexivity.
  unfold own_effects, erase_tracing in NB1. simpl in NB1. inversion NB1; subst. discriminate.
Qed.

(** the span prologue *)
Definition span_pre (args : N -> N) (sp : spanspec) : list entry :=
  let evs := map (field_eval args) (sp_fields sp) in
  parent_eval (sp_parent sp) ++ flat_map (fun x => fst (fst x)) evs ++ flat_map (fun x => snd (fst x)) evs.
Definition span_fields (args : N -> N) (sp : spanspec) : list (fname * fvalue) :=
  flat_map snd (map (field_eval args) (sp_fields sp)).

Lemma span_create_eq args sp :
  span_create args sp
  = span_pre args sp ++ [TNewSpan (sp_name sp) (sp_level sp) (sp_target sp) (parent_obs (sp_parent sp)) (span_fields args sp)].
Proof. unfold span_create, span_pre, span_fields. now rewrite <- !app_assoc. Qed.

Definition is_attr_eval (e : entry) : bool :=
  match e with TFieldEval _ | TParentEval _ | TFmt _ _ => true | _ => false end.

Lemma field_eval_attr args fs :
  Forall (fun e => is_attr_eval e = true) (fst (fst (field_eval args fs)))
  /\ Forall (fun e => is_attr_eval e = true) (snd (fst (field_eval args fs))).
Proof.
  destruct fs as [p pa | cf]; simpl.
  - destruct (p_rtype pa), (p_ty pa); simpl; split; repeat constructor.
  - destruct (cf_expr cf) as [? ?|? ?|? ?| |? [| | |]]; simpl; split; repeat constructor.
Qed.

Lemma span_pre_attr args sp : Forall (fun e => is_attr_eval e = true) (span_pre args sp).
Proof.
  unfold span_pre. repeat (apply Forall_app; split).
  - unfold parent_eval. destruct (sp_parent sp) as [[|k]|]; repeat constructor.
  - rewrite flat_map_concat_map, map_map, <- flat_map_concat_map.
    apply flat_map_Forall. intros x. apply field_eval_attr.
  - rewrite flat_map_concat_map, map_map, <- flat_map_concat_map.
    apply flat_map_Forall. intros x. apply field_eval_attr.
Qed.

Lemma span_create_out args sp : Forall (fun e => out_ok e = true) (span_create args sp).
Proof.
  rewrite span_create_eq. apply Forall_app; split; [|repeat constructor].
  eapply Forall_impl; [|apply span_pre_attr]. intros e. destruct e; simpl; congruence.
Qed.

Lemma follows_out fo on : Forall (fun e => out_ok e = true) (follows_part fo on).
Proof.
  unfold follows_part. destruct fo as [ks|]; [|constructor]. constructor; [reflexivity|].
  destruct on; [|constructor]. induction ks; simpl; constructor; auto.
Qed.

Lemma xdrops_out ps : Forall (fun e => out_ok e = true) (map EXDrop ps).
Proof. induction ps; simpl; constructor; auto. Qed.

Lemma pre0_out l : Forall (fun x => is_pre0 x = true) l -> Forall (fun e => out_ok e = true) l.
Proof. apply Forall_impl. intros e. destruct e; simpl; congruence. Qed.

Lemma span_on_static c lvl : span_on c lvl = true -> static_on c lvl = true.
Proof. unfold span_on. intros H. apply andb_prop in H as [H _]. now apply andb_prop in H as [H _]. Qed.

(** ** Clause 3: the body — every poll of it — runs inside the span *)

Theorem inside_any : forall c args f sp fo e,
  wf_kind f = true -> span_on c (sp_level sp) = true ->
  scan false (fst (run c args f (TInstr sp fo e))) = Some false.
Proof.
  intros c args f sp fo e WF ON.
  destruct (run_instr_struct c args f sp fo e) as (keep & pre0 & C & P0 & ->).
  destruct (texec c args f e (filter keep (all_owned f))) as [[[l1 lv1] r1] t1] eqn:E1.
  destruct (texec_frame_facts _ _ _ _ _ _ _ _ _ C E1) as (Hi & _ & Ho).
  simpl fst. rewrite scan_app, (scan_out pre0) by (now apply pre0_out).
  unfold instr_log. rewrite ON.
  unfold is_sync, wf_kind in *. destruct (f_kind f).
  - (* sync: no .await in the body, so no poll boundary inside *)
    rewrite (span_on_static _ _ ON).
    assert (IN : Forall (fun x => in_ok x = true) l1).
    { apply inner_nb; [assumption|]. rewrite Ho.
      destruct (exec_block args f (all_owned f)) as [[lb lvb] rb] eqn:HB. simpl.
      eapply exec_block_nb; [|exact HB]. now apply negb_true_iff in WF. }
    rewrite <- !app_assoc.
    rewrite scan_app, (scan_out _ (span_create_out _ _)).
    rewrite scan_app, (scan_out _ (follows_out _ _)).
    simpl. rewrite scan_app, (scan_in _ IN). simpl.
    apply scan_out. apply Forall_app; split; apply xdrops_out.
  - rewrite scan_app, (scan_out _ (span_create_out _ _)).
    rewrite scan_app, (scan_out _ (follows_out _ _)).
    rewrite scan_app, scan_wrap by (apply Forall_app; split; [assumption | apply inner_ok_xdrops]).
    destruct r1; simpl; apply scan_out, xdrops_out.
  - rewrite scan_app, (scan_out _ (span_create_out _ _)).
    rewrite scan_app, (scan_out _ (follows_out _ _)).
    rewrite scan_app, scan_wrap by (apply Forall_app; split; [assumption | apply inner_ok_xdrops]).
    destruct r1; simpl; apply scan_out, xdrops_out.
  - rewrite scan_app, (scan_out _ (span_create_out _ _)).
    rewrite scan_app, (scan_out _ (follows_out _ _)).
    rewrite scan_app, scan_wrap by (apply Forall_app; split; [assumption | apply inner_ok_xdrops]).
    destruct r1; simpl; apply scan_out, xdrops_out.
Qed.

Theorem body_inside_thm : forall c args f a,
  wf_kind f = true -> span_on c (level_of a) = true ->
  scan false (fst (run c args f (expand a f))) = Some false.
Proof. intros. unfold expand. now apply inside_any. Qed.

(** * Filters over an instrumented call *)

(** entries that carry no information about *which* span was made *)
Definition bracket_ok (e : entry) : bool :=
  inner_ok e || match e with TEnter | TExit | TClose | ECreated | TFollowsEval => true | _ => false end.

Lemma bracket_inner l : Forall (fun e => inner_ok e = true) l -> Forall (fun e => bracket_ok e = true) l.
Proof. apply Forall_impl. intros e H. unfold bracket_ok. now rewrite H. Qed.
Lemma bracket_xdrops ps : Forall (fun e => bracket_ok e = true) (map EXDrop ps).
Proof. induction ps; simpl; constructor; auto. Qed.
Lemma bracket_pre0 l : Forall (fun x => is_pre0 x = true) l -> Forall (fun e => bracket_ok e = true) l.
Proof. apply Forall_impl. intros e. destruct e; cbv; congruence. Qed.

Lemma bracket_wrap l : Forall (fun e => bracket_ok e = true) l -> Forall (fun e => bracket_ok e = true) (wrap_polls l).
Proof.
  intros H. rewrite wrap_polls_eq. constructor; [reflexivity|]. apply Forall_app; split; [|repeat constructor].
  induction H as [|e l He _ IH]; simpl; [constructor|]. apply Forall_app; split; [|assumption].
  destruct e; simpl; repeat constructor; assumption.
Qed.

Lemma filter_none {A} (P Q : A -> bool) l :
  (forall x, Q x = true -> P x = false) -> Forall (fun x => Q x = true) l -> filter P l = [].
Proof. intros H. induction 1 as [|x l Hx _ IH]; simpl; [reflexivity|]. now rewrite (H x Hx). Qed.

(** enabled: apart from the `span!` expansion and the follows_from loop, everything is "bracket" *)
Lemma run_on_shape c args f sp fo e :
  span_on c (sp_level sp) = true ->
  exists pre post,
    fst (run c args f (TInstr sp fo e)) = pre ++ span_create args sp ++ follows_part fo true ++ post
    /\ Forall (fun x => bracket_ok x = true) pre /\ Forall (fun x => bracket_ok x = true) post.
Proof.
  intros ON.
  destruct (run_instr_struct c args f sp fo e) as (keep & pre0 & C & P0 & ->).
  destruct (texec c args f e (filter keep (all_owned f))) as [[[l1 lv1] r1] t1] eqn:E1.
  destruct (texec_frame_facts _ _ _ _ _ _ _ _ _ C E1) as (Hi & _ & _).
  simpl fst. unfold instr_log. rewrite ON. destruct (is_sync f).
  - rewrite (span_on_static _ _ ON).
    exists pre0, ([TEnter] ++ l1 ++ [TExit; TClose] ++ map EXDrop t1 ++ map EXDrop (rev lv1)).
    split; [now rewrite <- !app_assoc|]. split; [now apply bracket_pre0|].
    repeat (apply Forall_app; split); auto using bracket_inner, bracket_xdrops; repeat constructor.
  - exists pre0, (wrap_polls (l1 ++ map EXDrop t1) ++ instr_drop r1 ++ map EXDrop (rev lv1)).
    split; [reflexivity|]. split; [now apply bracket_pre0|].
    repeat (apply Forall_app; split); auto using bracket_xdrops; try (destruct r1; repeat constructor; fail).
    apply bracket_wrap. apply Forall_app; split; auto using bracket_inner, bracket_xdrops.
Qed.

(** disabled: nothing about a span at all *)
Definition quiet_ok (e : entry) : bool :=
  inner_ok e || match e with ECreated | TFollowsEval => true | _ => false end.
Lemma quiet_inner l : Forall (fun e => inner_ok e = true) l -> Forall (fun e => quiet_ok e = true) l.
Proof. apply Forall_impl. intros e H. unfold quiet_ok. now rewrite H. Qed.
Lemma quiet_xdrops ps : Forall (fun e => quiet_ok e = true) (map EXDrop ps).
Proof. induction ps; simpl; constructor; auto. Qed.
Lemma quiet_pre0 l : Forall (fun x => is_pre0 x = true) l -> Forall (fun e => quiet_ok e = true) l.
Proof. apply Forall_impl. intros e. destruct e; cbv; congruence. Qed.

Lemma run_off_shape c args f sp fo e :
  span_on c (sp_level sp) = false ->
  Forall (fun x => quiet_ok x = true) (fst (run c args f (TInstr sp fo e))).
Proof.
  intros OFF.
  destruct (run_instr_struct c args f sp fo e) as (keep & pre0 & C & P0 & ->).
  destruct (texec c args f e (filter keep (all_owned f))) as [[[l1 lv1] r1] t1] eqn:E1.
  destruct (texec_frame_facts _ _ _ _ _ _ _ _ _ C E1) as (Hi & _ & _).
  simpl fst. unfold instr_log. rewrite OFF. apply Forall_app; split; [now apply quiet_pre0|].
  destruct (is_sync f).
  - repeat (apply Forall_app; split); auto using quiet_inner, quiet_xdrops; try constructor.
    destruct (static_on c (sp_level sp)); [|constructor].
    simpl. rewrite app_nil_r. unfold follows_part. destruct fo; repeat constructor.
  - repeat (apply Forall_app; split); auto using quiet_inner, quiet_xdrops.
Qed.

(** ** Clause 2: exactly one well-formed span *)

Definition is_feval (e : entry) : bool := match e with TFieldEval _ => true | _ => false end.
Definition is_peval (e : entry) : bool := match e with TParentEval _ => true | _ => false end.
Definition is_follows (e : entry) : bool := match e with TFollows _ => true | _ => false end.
(** everything that concerns the span itself *)
Definition is_span_side (e : entry) : bool :=
  match e with
  | TNewSpan _ _ _ _ _ | TEnter | TExit | TClose | TFollows _ | TFieldEval _ | TParentEval _ => true
  | _ => false
  end.

Lemma filter_follows_part P fo :
  P TFollowsEval = false ->
  filter P (follows_part fo true) = match fo with Some ks => filter P (map TFollows ks) | None => [] end.
Proof. intros H. unfold follows_part. destruct fo; simpl; [now rewrite H | reflexivity]. Qed.

Lemma filter_follows_none (P : entry -> bool) ks :
  (forall k, P (TFollows k) = false) -> filter P (map TFollows ks) = [].
Proof. intros H. induction ks; simpl; [reflexivity|]. now rewrite H. Qed.
Lemma filter_follows_all (P : entry -> bool) ks :
  (forall k, P (TFollows k) = true) -> filter P (map TFollows ks) = map TFollows ks.
Proof. intros H. induction ks; simpl; [reflexivity|]. rewrite H. congruence. Qed.

Lemma auto_fields_names args a : forall ps i,
  map fst (flat_map snd (map (field_eval args) (auto_fields a i ps))) = param_names a i ps.
Proof.
  induction ps as [|p ps IH]; intros i; simpl; [reflexivity|].
  rewrite map_app, flat_map_app, map_app, IH.
  destruct (p_named p && negb (mem i (a_skips a)) && negb (overridden a i)); simpl; [|reflexivity].
  destruct (p_rtype p), (p_ty p); reflexivity.
Qed.

Lemma custom_names args cfs :
  map fst (flat_map snd (map (field_eval args) (map FsCustom cfs))) = map cf_name (filter has_value cfs).
Proof.
  induction cfs as [|cf cfs IH]; simpl; [reflexivity|].
  rewrite map_app, IH. unfold has_value. destruct (cf_expr cf) as [? ?|? ?|? ?| |? [| | |]]; reflexivity.
Qed.

Lemma auto_fields_no_feval args a : forall ps i,
  filter is_feval (flat_map (fun x => fst (fst x)) (map (field_eval args) (auto_fields a i ps))) = []
  /\ filter is_feval (flat_map (fun x => snd (fst x)) (map (field_eval args) (auto_fields a i ps))) = [].
Proof.
  induction ps as [|p ps IH]; intros i; simpl; [split; reflexivity|].
  rewrite !map_app, !flat_map_app, !filter_app. destruct (IH (i + 1)) as [-> ->].
  destruct (p_named p && negb (mem i (a_skips a)) && negb (overridden a i)); simpl; [|split; reflexivity].
  destruct (p_rtype p), (p_ty p); split; reflexivity.
Qed.

Lemma custom_feval args cfs :
  filter is_feval (flat_map (fun x => fst (fst x)) (map (field_eval args) (map FsCustom cfs)))
  = map TFieldEval (flat_map eval_index cfs)
  /\ filter is_feval (flat_map (fun x => snd (fst x)) (map (field_eval args) (map FsCustom cfs))) = [].
Proof.
  induction cfs as [|cf cfs [IH1 IH2]]; simpl; [split; reflexivity|].
  rewrite !filter_app, IH1, IH2, map_app. unfold eval_index.
  destruct (cf_expr cf) as [? ?|? ?|? ?| |? [| | |]]; split; reflexivity.
Qed.

Lemma span_create_feval args a f :
  filter is_feval (span_create args (span_spec a f)) = map TFieldEval (flat_map eval_index (a_fields a)).
Proof.
  unfold span_create, span_spec. simpl sp_fields. simpl sp_parent.
  rewrite !filter_app, !map_app, !flat_map_app, !filter_app.
  destruct (auto_fields_no_feval args a (f_params f) 0) as [-> ->].
  destruct (custom_feval args (a_fields a)) as [-> ->].
  unfold parent_eval. destruct (a_parent a) as [[|k]|]; simpl; now rewrite ?app_nil_r.
Qed.

Lemma span_create_newspan args sp :
  filter is_newspan (span_create args sp)
  = [TNewSpan (sp_name sp) (sp_level sp) (sp_target sp) (parent_obs (sp_parent sp)) (span_fields args sp)].
Proof.
  rewrite span_create_eq, filter_app. simpl.
  rewrite (filter_none is_newspan is_attr_eval); [reflexivity | | apply span_pre_attr].
  intros e. destruct e; simpl; congruence.
Qed.

Definition not_peval (e : entry) : bool := negb (is_peval e).
Lemma field_eval_no_peval args fs :
  Forall (fun e => not_peval e = true) (fst (fst (field_eval args fs)))
  /\ Forall (fun e => not_peval e = true) (snd (fst (field_eval args fs))).
Proof.
  destruct fs as [p pa | cf]; simpl.
  - destruct (p_rtype pa), (p_ty pa); simpl; split; repeat constructor.
  - destruct (cf_expr cf) as [? ?|? ?|? ?| |? [| | |]]; simpl; split; repeat constructor.
Qed.
Lemma span_pre_peval args sp : filter is_peval (span_pre args sp) = parent_eval (sp_parent sp).
Proof.
  unfold span_pre. rewrite !filter_app.
  assert (NP : forall x, not_peval x = true -> is_peval x = false)
    by (intros x Hx; unfold not_peval in Hx; now apply negb_true_iff in Hx).
  rewrite (filter_none is_peval not_peval (flat_map (fun x => fst (fst x)) _) NP).
  2:{ rewrite flat_map_concat_map, map_map, <- flat_map_concat_map. apply flat_map_Forall. intros x. apply field_eval_no_peval. }
  rewrite (filter_none is_peval not_peval (flat_map (fun x => snd (fst x)) _) NP).
  2:{ rewrite flat_map_concat_map, map_map, <- flat_map_concat_map. apply flat_map_Forall. intros x. apply field_eval_no_peval. }
  rewrite !app_nil_r. unfold parent_eval. destruct (sp_parent sp) as [[|k]|]; reflexivity.
Qed.

Theorem one_span_on : forall c args f a,
  span_on c (level_of a) = true ->
  let l := fst (run c args f (expand a f)) in
  exists fields,
    filter is_newspan l = [TNewSpan (a_name a) (level_of a) (a_target a) (parent_obs (a_parent a)) fields]
    /\ map fst fields = expected_names a f
    /\ filter is_feval l = map TFieldEval (flat_map eval_index (a_fields a))
    /\ filter is_peval l = match a_parent a with Some (PxHelper k) => [TParentEval k] | _ => [] end
    /\ filter is_follows l = match a_follows a with Some ks => map TFollows ks | None => [] end.
Proof.
  intros c args f a ON l. subst l. unfold expand.
  set (sp := span_spec a f). set (e := match f_kind f with KSync => expand_sync a | _ => expand_async a end).
  destruct (run_on_shape c args f sp (a_follows a) e ON) as (pre & post & -> & Bpre & Bpost).
  exists (span_fields args sp).
  assert (FN : forall P : entry -> bool, (forall x, bracket_ok x = true -> P x = false) ->
               filter P (pre ++ span_create args sp ++ follows_part (a_follows a) true ++ post)
               = filter P (span_create args sp) ++ filter P (follows_part (a_follows a) true)).
  { intros P HP. rewrite !filter_app, (filter_none P bracket_ok pre HP Bpre), (filter_none P bracket_ok post HP Bpost).
    now rewrite app_nil_r. }
  repeat split.
  - rewrite FN by (intros x; destruct x; cbv; congruence).
    rewrite span_create_newspan, filter_follows_part by reflexivity.
    destruct (a_follows a) as [ks|]; [|reflexivity]. simpl.
    now rewrite filter_follows_none.
  - unfold expected_names. unfold span_fields, sp, span_spec. simpl sp_fields.
    rewrite map_app, flat_map_app, map_app, auto_fields_names, custom_names. reflexivity.
  - rewrite FN by (intros x; destruct x; cbv; congruence).
    unfold sp. rewrite span_create_feval, filter_follows_part by reflexivity.
    destruct (a_follows a) as [ks|]; [|now rewrite app_nil_r].
    rewrite filter_follows_none by reflexivity. now rewrite app_nil_r.
  - rewrite FN by (intros x; destruct x; cbv; congruence).
    rewrite filter_follows_part by reflexivity.
    replace (match a_follows a with Some ks => filter is_peval (map TFollows ks) | None => [] end) with (@nil entry)
      by (destruct (a_follows a) as [ks|]; [now rewrite filter_follows_none | reflexivity]).
    rewrite app_nil_r, span_create_eq, filter_app. simpl. rewrite app_nil_r.
    rewrite span_pre_peval. unfold sp, span_spec. simpl sp_parent. unfold parent_eval.
    destruct (a_parent a) as [[|k]|]; reflexivity.
  - rewrite FN by (intros x; destruct x; cbv; congruence).
    rewrite span_create_eq, filter_app. simpl.
    rewrite (filter_none is_follows is_attr_eval _ ltac:(intros x; destruct x; cbv; congruence) (span_pre_attr _ _)).
    simpl. rewrite filter_follows_part by reflexivity.
    destruct (a_follows a) as [ks|]; [|reflexivity]. now rewrite filter_follows_all.
Qed.

Theorem one_span_off : forall c args f a,
  span_on c (level_of a) = false ->
  filter is_span_side (fst (run c args f (expand a f))) = [].
Proof.
  intros c args f a OFF. unfold expand.
  eapply filter_none; [|apply run_off_shape; exact OFF].
  intros x. destruct x; cbv; congruence.
Qed.

(** ** Clause 4: ret / err events *)

Lemma filter_event_tracing_free l :
  Forall (fun e => out_ok e = true) l -> filter is_event l = [].
Proof. apply filter_none. intros x. destruct x; cbv; congruence. Qed.

Lemma events_any c args f sp fo e :
  filter is_event (fst (run c args f (TInstr sp fo e))) = tevents c e (snd (run c args f (TInstr sp fo e))).
Proof.
  destruct (run_instr_struct c args f sp fo e) as (keep & pre0 & C & P0 & ->).
  destruct (texec c args f e (filter keep (all_owned f))) as [[[l1 lv1] r1] t1] eqn:E1.
  destruct (texec_frame_facts _ _ _ _ _ _ _ _ _ C E1) as (_ & He & _).
  simpl fst. simpl snd. rewrite filter_app, (filter_event_tracing_free pre0) by (now apply pre0_out). simpl.
  assert (X : forall ps, filter is_event (map EXDrop ps) = []) by apply filter_event_xdrops.
  assert (S : filter is_event (span_create args sp) = []) by apply filter_event_tracing_free, span_create_out.
  assert (F : forall on, filter is_event (follows_part fo on) = []) by (intros; apply filter_event_tracing_free, follows_out).
  unfold instr_log. destruct (is_sync f).
  - destruct (static_on c (sp_level sp)), (span_on c (sp_level sp));
      repeat rewrite ?filter_app, ?X, ?S, ?F; simpl; rewrite ?app_nil_r; exact He.
  - destruct (span_on c (sp_level sp)).
    + repeat rewrite ?filter_app, ?X, ?S, ?F. rewrite wrap_filter by reflexivity.
      rewrite filter_app, X. replace (filter is_event (instr_drop r1)) with (@nil entry) by (destruct r1; reflexivity).
      simpl. rewrite ?app_nil_r. exact He.
    + repeat rewrite ?filter_app, ?X. rewrite ?app_nil_r. exact He.
Qed.

Lemma tevents_expand_sync c a r : tevents c (expand_sync a) r = expected_events c a r.
Proof.
  unfold expand_sync, expected_events.
  destruct (a_err a) as [ee|], (a_ret a) as [re|]; simpl; destruct r as [v|k|]; try reflexivity;
    try (destruct v; reflexivity).
Qed.
Lemma tevents_expand_async c a r : tevents c (expand_async a) r = expected_events c a r.
Proof.
  unfold expand_async, expected_events.
  destruct (a_err a) as [ee|], (a_ret a) as [re|]; simpl; destruct r as [v|k|]; try reflexivity;
    try (destruct v; reflexivity).
Qed.

Theorem ret_err_thm : forall c args f a,
  filter is_event (fst (run c args f (expand a f))) = expected_events c a (snd (run c args f (expand a f))).
Proof.
  intros. unfold expand. rewrite events_any.
  destruct (f_kind f); auto using tevents_expand_sync, tevents_expand_async.
Qed.

(** ** Cancellation (a future dropped while suspended): a corollary of the clauses above, since the await site at
    which the caller drops the future is part of [args] *)
Theorem cancellation_thm : forall c args f a,
  snd (run c args f TPlain) = RCancelled ->
  snd (run c args f (expand a f)) = RCancelled
  /\ filter is_event (fst (run c args f (expand a f))) = []
  /\ own_effects (fst (run c args f (expand a f))) = own_effects (fst (run c args f TPlain))
  /\ Permutation (xdrops (fst (run c args f (expand a f)))) (xdrops (fst (run c args f TPlain))).
Proof.
  intros c args f a H. destruct (erase_thm c args f a) as (E1 & E2 & E3).
  rewrite H in E1. repeat split; auto.
  rewrite ret_err_thm, E1. reflexivity.
Qed.
