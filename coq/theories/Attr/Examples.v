(** C17 — non-vacuity examples (concrete functions on which the hypotheses of the theorems hold and the
    conclusions are non-trivial). *)
From TV Require Import Attr.Model Attr.Proofs Attr.ProofsRun Attr.ProofsSpan Attr.ProofsInterleave.
Local Open Scope N_scope.

Definition col_all : collector := mkCol 5 5 true true.      (* everything enabled *)
Definition col_warn : collector := mkCol 2 2 true true.     (* max level WARN: INFO spans statically disabled *)
Definition col_nospan : collector := mkCol 5 5 false true.  (* spans dynamically disabled, events on *)

Definition rec_val := mkParam TRec true RDebug true PIdent.
Definition rec_ref := mkParam TRec false RDebug true PIdent.
Definition flag := mkParam TBool false RValue true PIdent.

(** fn f(p0: R, p1: &R, p2: bool, p3: R) -> Result<u32, Er> {
        p1.touch(); eff(1); if p2 { consume(p0); return Err(Er(7)) } else { panic_any(Pp(3)) }; Ok(5) }   (p3 never mentioned) *)
Definition body1 : stmt :=
  SSeq (SUse 1) (SSeq (SEff 1) (SIf (CFlag 2) (SSeq (SMoveOut 0) (SRet (EErr (ENum 7)))) (SPanic 3))).
Definition f_sync : func := mkFunc KSync [rec_val; rec_ref; flag; rec_val] body1 (EOk (ENum 5)).
Definition f_async : func :=
  mkFunc KAsync [rec_val; rec_ref; flag; rec_val] (SSeq (SUse 0) (SSeq (SAwait 4) body1)) (EOk (ENum 5)).

Definition at1 : attrs :=
  mkAttrs (Some 2) (Some 4) None (Some (PxHelper 1)) (Some [0; 2]) [1]
          [mkCF (FnCustom 0) FKValue (FxPrim 0 2); mkCF (FnParam 3) FKDebug (FxRec 1 3)]
          (Some (mkEv None MDefault)) (Some (mkEv (Some 2) MDebug)).
Definition args1 (p : N) : N := match p with 2 => 1 | _ => 0 end.   (* p2 = true *)
Definition args0 (p : N) : N := 0.                                   (* p2 = false: the panic branch *)

(** sync + ret + err, FnOnce closure: the span has the configured name/level/target/parent, fields p0, p2 (p1
    skipped, p3 replaced by the custom field of the same name), the custom expressions run once, the body is
    inside enter/exit, the `error` event is inside, p3 (not captured) is dropped after the span closed. *)
Example ex_sync_err :
  run col_all args1 f_sync (expand at1 f_sync)
  = ([TParentEval 1; TFieldEval 0; TFieldEval 1; TFmt false 0; TFmt false 3;
      TNewSpan (Some 2) 4 None (ParExplicit 1)
        [(FnParam 0, FVFmtRec false 0); (FnParam 2, FVValue TBool 1); (FnCustom 0, FVValue TU32 1); (FnParam 3, FVFmtRec false 3)];
      TFollowsEval; TFollows 0; TFollows 2; TEnter;
      EUse 1; EEff 1; EMove 0; EDrop 0;
      TEvent 2 None true false (VNum 7);
      TExit; TClose; EXDrop 3],
     RVal (VErr (VNum 7))).
Proof. vm_compute. reflexivity. Qed.

Example ex_sync_plain :
  run col_all args1 f_sync TPlain = ([EUse 1; EEff 1; EMove 0; EDrop 0; EXDrop 3], RVal (VErr (VNum 7))).
Proof. vm_compute. reflexivity. Qed.

(** the panic branch: no event; guard and span are released by unwinding before the parameters *)
Example ex_sync_panic :
  snd (run col_all args0 f_sync (expand at1 f_sync)) = RPanic 3
  /\ filter is_event (fst (run col_all args0 f_sync (expand at1 f_sync))) = []
  /\ scan false (fst (run col_all args0 f_sync (expand at1 f_sync))) = Some false.
Proof. vm_compute. repeat split. Qed.

(** async: the span is created at the first poll; every poll segment is bracketed; the finished
    Instrumented is dropped inside one more enter/exit *)
Example ex_async :
  own_effects (fst (run col_all args1 f_async (expand at1 f_async)))
  = [ECreated; EUse 0; EYield 4; EPending; EUse 1; EEff 1; EMove 0; EDrop 0]
  /\ count_if (fun e => match e with TEnter => true | _ => false end) (fst (run col_all args1 f_async (expand at1 f_async))) = 3%nat
  /\ scan false (fst (run col_all args1 f_async (expand at1 f_async))) = Some false
  /\ wf_kind f_async = true /\ span_on col_all (level_of at1) = true.
Proof. vm_compute. repeat split. Qed.

(** statically disabled (max level WARN < DEBUG): no span entry at all, no field expression evaluated, the
    `error` event (level WARN) is still emitted *)
Example ex_disabled :
  span_on col_warn (level_of at1) = false
  /\ fst (run col_warn args1 f_sync (expand at1 f_sync))
     = [EUse 1; EEff 1; EMove 0; EDrop 0; TEvent 2 None true false (VNum 7); EXDrop 3].
Proof. vm_compute. split; reflexivity. Qed.

(** dynamically disabled spans: the follows_from *expression* is still evaluated by the sync template *)
Example ex_dyn_disabled :
  fst (run col_nospan args1 f_sync (expand at1 f_sync))
  = [TFollowsEval; EUse 1; EEff 1; EMove 0; EDrop 0; TEvent 2 None true false (VNum 7); EXDrop 3].
Proof. vm_compute. reflexivity. Qed.

(** two instrumented futures polled alternately *)
Example ex_interleaved :
  let l := fst (run col_all args1 f_async (expand at1 f_async)) in
  scan_multi None (interleave [0; 1; 1; 0; 0; 1]%nat (map segments [l; l])) = Some None
  /\ length (interleave [0; 1; 1; 0; 0; 1]%nat (map segments [l; l])) = (2 * length l)%nat.
Proof. vm_compute. split; reflexivity. Qed.

(** cancellation: the caller drops the future while it is suspended at await site 4 (after its first poll).  The plain
    twin drops p3 and p0; the instrumented one drops p0 (captured by the instrumented future) inside the span, as
    `Instrumented::drop` enters it, closes the span, then drops p3 (held by the outer frame); no event; same multiset. *)
Definition args_cancel (p : N) : N := match p with 2 => 1 | 1004 => 1 | _ => 0 end.
Example ex_cancelled :
  run col_all args_cancel f_async TPlain = ([ECreated; EUse 0; EYield 4; EPending; EXDrop 3; EXDrop 0], RCancelled)
  /\ snd (run col_all args_cancel f_async (expand at1 f_async)) = RCancelled
  /\ skipn 10 (fst (run col_all args_cancel f_async (expand at1 f_async)))
     = [TEnter; EUse 0; EYield 4; TExit; EPending; TEnter; EXDrop 0; TExit; TClose; EXDrop 3]
  /\ scan false (fst (run col_all args_cancel f_async (expand at1 f_async))) = Some false.
Proof. vm_compute. repeat split. Qed.
