(** C17 — proofs, part 4: several instrumented futures polled interleaved.  Polls are atomic, every poll
    segment of a well-bracketed log is itself balanced, hence any interleaving of segments keeps at
    most one span entered and every body effect inside its own future's span. *)
From TV Require Import Attr.Model Attr.Proofs Attr.ProofsRun Attr.ProofsSpan.
From Coq Require Import Lia PeanoNat.
Local Open Scope N_scope.

Definition balanced (s : list entry) : Prop := scan false s = Some false.

Lemma scan_cons b e r :
  scan b (e :: r) = match scan b [e] with Some b' => scan b' r | None => None end.
Proof. change (e :: r) with ([e] ++ r). apply scan_app. Qed.

Lemma segments_aux_balanced : forall l cur b,
  scan false (rev cur) = Some b -> scan b l = Some false ->
  Forall balanced (segments_aux cur l).
Proof.
  induction l as [|e r IH]; intros cur b Hc Hl.
  - simpl in *. inversion Hl; subst. constructor; [exact Hc | constructor].
  - rewrite scan_cons in Hl.
    assert (Step : scan false (rev (e :: cur)) = scan b [e]).
    { simpl rev. rewrite scan_app, Hc. reflexivity. }
    destruct e; simpl segments_aux;
      try (destruct (scan b [_]) as [b'|] eqn:S; [|discriminate]; eapply IH; [rewrite Step; reflexivity | exact Hl]).
    + (* EPending *)
      destruct b; simpl in Hl; [discriminate|].
      constructor; [unfold balanced; simpl rev; rewrite scan_app, Hc; reflexivity|]. eapply (IH [] false); [reflexivity | exact Hl].
    + (* ECreated *)
      destruct b; simpl in Hl; [discriminate|].
      constructor; [unfold balanced; simpl rev; rewrite scan_app, Hc; reflexivity|]. eapply (IH [] false); [reflexivity | exact Hl].
Qed.

Lemma segments_balanced l : scan false l = Some false -> Forall balanced (segments l).
Proof. intros H. unfold segments. eapply segments_aux_balanced; [reflexivity | exact H]. Qed.

Definition st (i : nat) (b : bool) : option nat := if b then Some i else None.

Lemma scan_multi_seg i rest : forall seg b b',
  scan b seg = Some b' ->
  scan_multi (st i b) (map (fun e => (i, e)) seg ++ rest) = scan_multi (st i b') rest.
Proof.
  induction seg as [|e seg IH]; intros b b' H.
  - simpl in *. now inversion H.
  - rewrite scan_cons in H. destruct (scan b [e]) as [b1|] eqn:S; [|discriminate].
    specialize (IH _ _ H). simpl map. simpl app.
    destruct e, b; simpl in S; try discriminate; inversion S; subst; simpl; rewrite ?Nat.eqb_refl; exact IH.
Qed.

Lemma Forall_firstn {A} (P : A -> Prop) n l : Forall P l -> Forall P (firstn n l).
Proof. revert n. induction l; intros [|n] H; simpl; try constructor; inversion H; subst; auto. Qed.
Lemma Forall_skipn {A} (P : A -> Prop) n l : Forall P l -> Forall P (skipn n l).
Proof. revert n. induction l; intros [|n] H; simpl; auto. inversion H; subst; auto. Qed.
Lemma Forall_nth_error {A} (P : A -> Prop) l n x : Forall P l -> nth_error l n = Some x -> P x.
Proof. intros H E. apply nth_error_In in E. rewrite Forall_forall in H. auto. Qed.

Theorem interleave_ok : forall sched futs,
  Forall (Forall balanced) futs -> scan_multi None (interleave sched futs) = Some None.
Proof.
  induction sched as [|i sched IH]; intros futs H; [reflexivity|]. simpl.
  destruct (nth_error futs i) as [[|seg more]|] eqn:E; auto.
  pose proof (Forall_nth_error _ _ _ _ H E) as Hs. inversion Hs as [|? ? Hseg Hmore]; subst.
  rewrite (scan_multi_seg i _ seg false false Hseg). simpl st.
  apply IH. apply Forall_app; split; [now apply Forall_firstn|].
  constructor; [assumption | now apply (Forall_skipn _ (S i) futs)].
Qed.

Theorem interleaved_thm : forall (logs : list (list entry)) (sched : list nat),
  Forall (fun l => scan false l = Some false) logs ->
  scan_multi None (interleave sched (map segments logs)) = Some None.
Proof.
  intros logs sched H. apply interleave_ok.
  induction H; simpl; constructor; auto using segments_balanced.
Qed.
