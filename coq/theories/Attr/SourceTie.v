(** C17 — the tie between the model and the *source text* of gen_block.

    translators/attr_templates.py reads the eight quote! templates, the sync prologue, the async wrapper and the
    ret / err event definitions off tracing-attributes/src/expand.rs (and the defaults off attr.rs) on every run and
    writes them to coq/gen/Gen_attr.v.  Here:
      - [run_sync_steps_ok] / [run_future_steps_ok]: Model.run_sync / run_future are the interpretations of the
        prologue / wrapper *descriptions* [sync_decls], [sync_steps], [async_lets], [async_then], [async_else];
      - [source_templates], [source_events]: what the translator read equals those descriptions, the shapes of
        [expand_sync] / [expand_async], and the level / mode / target rules of [err_spec] / [ret_spec].
    A changed template in expand.rs therefore breaks one of these statements (the translator fails closed:
    an unrecognised shape is [None] / [false] / an entry of [gen_unrecognised]). *)
From TV Require Import Attr.Model.
From TVGen Require Gen_attr.
From Coq Require Import String.
Local Open Scope N_scope.

Lemma run_sync_steps_ok c args f sp fo e :
  run_sync_steps sync_decls sync_steps c args f sp fo e = run_sync c args f (TInstr sp fo e).
Proof.
  unfold run_sync_steps, run_sync, sync_decls, sync_steps.
  destruct (texec c args f e (all_owned f)) as [[[l lv'] r] tmps].
  cbn [flat_map step_log local_drop rev app].
  destruct (static_on c (sp_level sp)), (span_on c (sp_level sp)); cbn [app];
    rewrite ?app_nil_r, <- ?app_assoc; reflexivity.
Qed.

Lemma run_future_steps_ok c args f sp fo e frame :
  run_future_steps async_lets async_then async_else c args f sp fo e frame
  = run_future c args f (TInstr sp fo e) frame.
Proof.
  unfold run_future_steps, run_future, async_lets, async_then, async_else.
  destruct (texec c args f e frame) as [[[l lv'] r] tmps].
  destruct (span_on c (sp_level sp)); cbn [flat_map astep_log app];
    rewrite ?app_nil_r, <- ?app_assoc; reflexivity.
Qed.

Definition lvl_of_def (a : attrs) (d : lvldef) : N := match d with LDSpan => level_of a | LDConst l => l end.

Theorem source_templates :
  Gen_attr.gen_unrecognised = nil
  /\ (forall a, Gen_attr.gen_sync (is_some (a_err a)) (is_some (a_ret a)) = Some (shape_of (expand_sync a)))
  /\ (forall a, Gen_attr.gen_async (is_some (a_err a)) (is_some (a_ret a)) = Some (shape_of (expand_async a)))
  /\ Gen_attr.gen_sync_decls = Some sync_decls
  /\ Gen_attr.gen_sync_steps = Some sync_steps
  /\ Gen_attr.gen_sync_static_guard = true
  /\ Gen_attr.gen_async_lets = Some async_lets
  /\ Gen_attr.gen_async_then = Some async_then
  /\ Gen_attr.gen_async_else = Some async_else
  /\ Gen_attr.gen_async_cond_not_disabled = true
  /\ Gen_attr.gen_follows_iterates = true
  /\ Gen_attr.gen_span_macro_order = true
  /\ Gen_attr.gen_name_default_fn = true
  /\ Gen_attr.gen_filter_skip = true
  /\ Gen_attr.gen_filter_override = true
  /\ Gen_attr.gen_record_map = true.
Proof.
  repeat split; try reflexivity;
    intros a; unfold expand_sync, expand_async; destruct (a_err a), (a_ret a); reflexivity.
Qed.

Theorem source_events :
  (forall a ev, Gen_attr.gen_err_display (ev_mode ev) = Some (es_display (err_spec a ev)))
  /\ (forall a ev, Gen_attr.gen_ret_display (ev_mode ev) = Some (es_display (ret_spec a ev)))
  /\ (exists d, Gen_attr.gen_err_default = Some d
        /\ forall a ev, es_level (err_spec a ev) = match ev_level ev with Some l => l | None => lvl_of_def a d end)
  /\ (exists d, Gen_attr.gen_ret_default = Some d
        /\ forall a ev, es_level (ret_spec a ev) = match ev_level ev with Some l => l | None => lvl_of_def a d end)
  /\ Gen_attr.gen_event_target_is_span_target = true
  /\ (forall a ev, es_target (err_spec a ev) = a_target a /\ es_target (ret_spec a ev) = a_target a)
  /\ (exists l, Gen_attr.gen_default_level = Some l /\ forall a, a_level a = None -> level_of a = l)
  /\ Gen_attr.gen_target_default_module_path = true.
Proof.
  split; [intros a [lv m]; destruct m; reflexivity|].
  split; [intros a [lv m]; destruct m; reflexivity|].
  split; [eexists; split; [reflexivity|]; intros a [[lv|] m]; reflexivity|].
  split; [eexists; split; [reflexivity|]; intros a [[lv|] m]; reflexivity|].
  split; [reflexivity|].
  split; [intros a ev; split; reflexivity|].
  split; [eexists; split; [reflexivity|]; intros a H; unfold level_of; now rewrite H|].
  reflexivity.
Qed.

(** ** Which parameters are recorded as `Value` *)

(** only the last segment counts: prefix, leading `::`, generic arguments and references are irrelevant *)
Lemma rtype_last_segment table refs lead pre last gens k :
  pat_rule k = PRKeep ->
  rtype_of table (TyPath refs lead (pre ++ (last :: nil)) gens) k = (if in_table table last then RValue else RDebug).
Proof. intros H. unfold rtype_of, ty_rtype. rewrite H, rev_app_distr. reflexivity. Qed.

Lemma rtype_spelling_irrelevant table refs lead pre last gens refs' lead' pre' gens' k :
  rtype_of table (TyPath refs lead (pre ++ (last :: nil)) gens) k
  = rtype_of table (TyPath refs' lead' (pre' ++ (last :: nil)) gens') k.
Proof. unfold rtype_of, ty_rtype. rewrite !rev_app_distr. reflexivity. Qed.

Theorem source_record_type :
  Gen_attr.gen_path_last_segment = true
  /\ Gen_attr.gen_ref_recurses = true
  /\ Gen_attr.gen_other_types_debug = true
  /\ (forall k, Gen_attr.gen_pat_rule k = Some (pat_rule k)).
Proof. repeat split; try reflexivity. intros k; destruct k; reflexivity. Qed.

(** ** Whose name the span gets by default *)
Theorem source_span_name :
  (forall s, Gen_attr.gen_name_source s = Some NSAnnotated)
  /\ (forall k, Gen_attr.gen_name_source (site_of_kind k) = Some (default_name_source k))
  /\ Gen_attr.gen_helper_async_from_sig = true
  /\ Gen_attr.gen_block_async_true = true.
Proof. repeat split; try reflexivity; intros x; destruct x; reflexivity. Qed.

(** ** Recognition of the boxed-future shapes *)
Definition sBox : string := "Box"%string.
Definition sPin : string := "pin"%string.
Definition sSep : string := AttrStrings.sep.

Lemma str_ends_with_refl s : str_ends_with s s = true.
Proof. destruct s; unfold str_ends_with; fold str_ends_with; now rewrite String.eqb_refl. Qed.

Lemma str_ends_with_app x suf : str_ends_with (String.append x suf) suf = true.
Proof.
  induction x as [|c x IH].
  - apply str_ends_with_refl.
  - change (String.append (String c x) suf) with (String c (String.append x suf)).
    unfold str_ends_with; fold str_ends_with.
    destruct (String.eqb (String c (String.append x suf)) suf); [reflexivity | exact IH].
Qed.

Lemma append_assoc_s a b c : String.append (String.append a b) c = String.append a (String.append b c).
Proof. induction a as [|x a IH]; simpl; [reflexivity | now rewrite IH]. Qed.

Lemma path_to_string_app pre a b :
  exists x, path_to_string (pre ++ (a :: b :: nil)) = String.append x (path_to_string (a :: b :: nil)).
Proof.
  induction pre as [|p pre [x IH]].
  - exists EmptyString. reflexivity.
  - destruct pre as [|q pre].
    + exists (String.append p sSep). simpl. now rewrite append_assoc_s.
    + exists (String.append p (String.append sSep x)).
      change (path_to_string ((p :: q :: pre) ++ a :: b :: nil))
        with (String.append p (String.append sSep (path_to_string ((q :: pre) ++ a :: b :: nil)))).
      rewrite IH. now rewrite !append_assoc_s.
Qed.

(** however the path to `Box::pin` is qualified, the function keeps its async kind *)
Lemma kind_of_tail_qualified pre k :
  kind_of_tail box_pin_suffix (pre ++ (sBox :: sPin :: nil)) k = k.
Proof.
  unfold kind_of_tail, tail_recognised.
  destruct (path_to_string_app pre sBox sPin) as [x ->].
  change (path_to_string (sBox :: sPin :: nil)) with box_pin_suffix.
  now rewrite str_ends_with_app.
Qed.

Theorem source_box_pin :
  Gen_attr.gen_box_pin_suffix = Some box_pin_suffix
  /\ Gen_attr.gen_path_to_string_idents = true
  /\ Gen_attr.gen_tail_async_block = true
  /\ Gen_attr.gen_tail_helper_call = true
  /\ Gen_attr.gen_detection_ignores_return_type = true.
Proof. repeat split; reflexivity. Qed.

(** the declared return type plays no role *)
Lemma kind_of_fn_ret_irrelevant suffix callee ret ret' k :
  kind_of_fn suffix callee ret k = kind_of_fn suffix callee ret' k.
Proof. reflexivity. Qed.
