(** C17 — proofs about Attr/Model.v.

    Part 1 (this file): the body semantics ([exec], [exec_block]) — by induction on the body —
    and the simulation lemma for *every* template term ([texec_sim], by induction on the template). *)
From TV Require Import Attr.Model.
From Coq Require Import Permutation Lia.
Local Open Scope N_scope.
Local Arguments N.add : simpl never.
Local Arguments N.eqb : simpl never.
Local Arguments N.leb : simpl never.
Local Arguments N.ltb : simpl never.

(** * Lists *)

Lemma mem_In p l : mem p l = true <-> In p l.
Proof.
  unfold mem. rewrite existsb_exists. split.
  - intros (x & Hx & E). apply N.eqb_eq in E. now subst.
  - intros H. exists p. split; [assumption | apply N.eqb_refl].
Qed.

Lemma mem_filter keep p l : mem p (filter keep l) = mem p l && keep p.
Proof.
  unfold mem. induction l as [|a l IH]; simpl; [reflexivity|].
  destruct (keep a) eqn:Ka; simpl; rewrite IH.
  - destruct (N.eqb p a) eqn:E; simpl; [|reflexivity].
    apply N.eqb_eq in E. subst. now rewrite Ka.
  - destruct (N.eqb p a) eqn:E; simpl; [|reflexivity].
    apply N.eqb_eq in E. subst. rewrite Ka. now rewrite andb_false_r.
Qed.

Lemma filter_comm {A} (f g : A -> bool) l : filter f (filter g l) = filter g (filter f l).
Proof.
  induction l as [|a l IH]; simpl; [reflexivity|].
  destruct (g a) eqn:G, (f a) eqn:F; simpl; rewrite ?G, ?F, IH; reflexivity.
Qed.

Lemma remove_filter keep p l : remove p (filter keep l) = filter keep (remove p l).
Proof. unfold remove. apply filter_comm. Qed.

Lemma filter_remove_false keep p l : keep p = false -> filter keep (remove p l) = filter keep l.
Proof.
  intros K. unfold remove. induction l as [|a l IH]; simpl; [reflexivity|].
  destruct (N.eqb a p) eqn:E; simpl.
  - apply N.eqb_eq in E. subst. now rewrite K.
  - destruct (keep a); now rewrite IH.
Qed.

Lemma filter_partition_perm {A} (k : A -> bool) l :
  Permutation (filter k l ++ filter (fun x => negb (k x)) l) l.
Proof.
  induction l as [|a l IH]; simpl; [constructor|].
  destruct (k a); simpl.
  - now constructor.
  - apply Permutation_sym. apply Permutation_cons_app. now apply Permutation_sym.
Qed.

Lemma filter_idem {A} (k : A -> bool) l : filter k (filter k l) = filter k l.
Proof.
  induction l as [|a l IH]; simpl; [reflexivity|].
  destruct (k a) eqn:K; simpl; rewrite ?K, IH; reflexivity.
Qed.

Lemma filter_neg_empty {A} (k : A -> bool) l : filter (fun x => negb (k x)) (filter k l) = [].
Proof.
  induction l as [|a l IH]; simpl; [reflexivity|].
  destruct (k a) eqn:K; simpl; rewrite ?K; simpl; assumption.
Qed.

(** * Observers *)

(** exactly what a body can emit *)
Definition is_own (e : entry) : bool :=
  match e with EEff _ | EUse _ | EMove _ | EDrop _ | EClone _ | EYield _ | EPending => true | _ => false end.

Lemma own_effects_app l1 l2 : own_effects (l1 ++ l2) = own_effects l1 ++ own_effects l2.
Proof. unfold own_effects, erase_tracing. now rewrite !filter_app. Qed.

Lemma xdrops_app l1 l2 : xdrops (l1 ++ l2) = xdrops l1 ++ xdrops l2.
Proof. unfold xdrops. now rewrite flat_map_app. Qed.

Lemma own_effects_id l : Forall (fun e => is_own e = true) l -> own_effects l = l.
Proof.
  induction 1 as [|e l H _ IH]; [reflexivity|].
  unfold own_effects, erase_tracing in *.
  destruct e; simpl in H; try discriminate; simpl; now rewrite IH.
Qed.

Lemma xdrops_own l : Forall (fun e => is_own e = true) l -> xdrops l = [].
Proof.
  induction 1 as [|e l H _ IH]; [reflexivity|].
  unfold xdrops in *. simpl. rewrite IH.
  destruct e; simpl in *; try reflexivity; discriminate.
Qed.

Lemma own_effects_xdrop ps : own_effects (map EXDrop ps) = [].
Proof. induction ps; simpl; auto. Qed.

Lemma xdrops_xdrop ps : xdrops (map EXDrop ps) = ps.
Proof. induction ps; simpl; [reflexivity|]. unfold xdrops in *. simpl. now rewrite IHps. Qed.

Lemma own_effects_tracing l : Forall (fun e => is_tracing e = true) l -> own_effects l = [].
Proof.
  induction 1 as [|e l H _ IH]; [reflexivity|].
  unfold own_effects, erase_tracing in *. simpl. rewrite H. simpl. exact IH.
Qed.

Lemma xdrops_tracing l : Forall (fun e => is_tracing e = true) l -> xdrops l = [].
Proof.
  induction 1 as [|e l H _ IH]; [reflexivity|].
  unfold xdrops in *. simpl. rewrite IH. destruct e; simpl in *; try reflexivity; discriminate.
Qed.

(** * The body: by induction on expressions and statements *)

Lemma eval_expr_restrict args keep e : forall lv,
  eval_expr args e (filter keep lv)
  = let '(l, lv', v) := eval_expr args e lv in (l, filter keep lv', v).
Proof.
  induction e; intros lv; simpl; try reflexivity.
  - now rewrite remove_filter.
  - rewrite IHe. now destruct (eval_expr args e lv) as [[? ?] ?].
  - rewrite IHe. now destruct (eval_expr args e lv) as [[? ?] ?].
  - destruct (eval_cond args c); auto.
Qed.

Definition covers (keep : N -> bool) (ms : list N) := forall p, In p ms -> keep p = true.
Definition avoids (keep : N -> bool) (ms : list N) := forall p, In p ms -> keep p = false.

Lemma covers_app k a b : covers k (a ++ b) -> covers k a /\ covers k b.
Proof. unfold covers. intros H. split; intros p Hp; apply H; apply in_or_app; auto. Qed.
Lemma avoids_app k a b : avoids k (a ++ b) -> avoids k a /\ avoids k b.
Proof. unfold avoids. intros H. split; intros p Hp; apply H; apply in_or_app; auto. Qed.

Lemma exec_restrict args keep s : forall lv,
  covers keep (m_stmt s) ->
  exec args s (filter keep lv)
  = let '(l, lv', fl) := exec args s lv in (l, filter keep lv', fl).
Proof.
  induction s; intros lv C; simpl in *; try reflexivity.
  - (* SMoveOut *) rewrite mem_filter, (C p) by (now left). rewrite andb_true_r.
    destruct (mem p lv); [now rewrite remove_filter | reflexivity].
  - (* SDropNow *) rewrite mem_filter, (C p) by (now left). rewrite andb_true_r.
    destruct (mem p lv); [now rewrite remove_filter | reflexivity].
  - (* SRet *) rewrite eval_expr_restrict. now destruct (eval_expr args e lv) as [[? ?] ?].
  - (* STry *) rewrite eval_expr_restrict. destruct (eval_expr args e lv) as [[? ?] v]. now destruct v.
  - (* SSeq *) apply covers_app in C as [C1 C2]. rewrite IHs1 by assumption.
    destruct (exec args s1 lv) as [[l1 lv1] fl]. destruct fl; try reflexivity.
    rewrite IHs2 by assumption. now destruct (exec args s2 lv1) as [[? ?] ?].
  - (* SIf *) apply covers_app in C as [_ C]. apply covers_app in C as [C1 C2].
    destruct (eval_cond args c); auto.
Qed.

Lemma eval_expr_frame args keep e : forall lv l lv' v,
  avoids keep (m_expr e) -> eval_expr args e lv = (l, lv', v) -> filter keep lv' = filter keep lv.
Proof.
  induction e; intros lv l lv' v A H; simpl in *; try (inversion H; subst; reflexivity).
  - inversion H; subst. apply filter_remove_false. apply A. now left.
  - destruct (eval_expr args e lv) as [[? ?] ?] eqn:E. inversion H; subst. eapply IHe; eauto.
  - destruct (eval_expr args e lv) as [[? ?] ?] eqn:E. inversion H; subst. eapply IHe; eauto.
  - apply avoids_app in A as [_ A]. apply avoids_app in A as [A1 A2].
    destruct (eval_cond args c); eauto.
Qed.

Lemma exec_frame args keep s : forall lv l lv' fl,
  avoids keep (m_stmt s) -> exec args s lv = (l, lv', fl) -> filter keep lv' = filter keep lv.
Proof.
  induction s; intros lv l lv' fl A H; simpl in *; try (inversion H; subst; reflexivity).
  - destruct (mem p lv); inversion H; subst; [|reflexivity]. apply filter_remove_false. apply A. now left.
  - destruct (mem p lv); inversion H; subst; [|reflexivity]. apply filter_remove_false. apply A. now left.
  - destruct (eval_expr args e lv) as [[? ?] ?] eqn:E. inversion H; subst. eapply eval_expr_frame; eauto.
  - destruct (eval_expr args e lv) as [[? ?] v0] eqn:E.
    assert (filter keep l1 = filter keep lv) by (eapply eval_expr_frame; eauto).
    destruct v0; inversion H; subst; assumption.
  - apply avoids_app in A as [A1 A2].
    destruct (exec args s1 lv) as [[l1 lv1] fl1] eqn:E1.
    assert (filter keep lv1 = filter keep lv) as F1 by (eapply IHs1; eauto).
    destruct fl1; try (inversion H; subst; assumption).
    destruct (exec args s2 lv1) as [[l2 lv2] fl2] eqn:E2. inversion H; subst.
    rewrite <- F1. eapply IHs2; eauto.
  - apply avoids_app in A as [_ A]. apply avoids_app in A as [A1 A2].
    destruct (eval_cond args c); eauto.
Qed.

Lemma eval_expr_own args e : forall lv l lv' v,
  eval_expr args e lv = (l, lv', v) -> Forall (fun e => is_own e = true) l.
Proof.
  induction e; intros lv l lv' v H; simpl in *; try (inversion H; subst; constructor; auto; fail).
  - destruct (eval_expr args e lv) as [[? ?] ?] eqn:E. inversion H; subst. eapply IHe; eauto.
  - destruct (eval_expr args e lv) as [[? ?] ?] eqn:E. inversion H; subst. eapply IHe; eauto.
  - destruct (eval_cond args c); eauto.
Qed.

Lemma Forall_own_drops ps : Forall (fun e => is_own e = true) (map EDrop ps).
Proof. induction ps; simpl; constructor; auto. Qed.

Lemma exec_own args s : forall lv l lv' fl,
  exec args s lv = (l, lv', fl) -> Forall (fun e => is_own e = true) l.
Proof.
  induction s; intros lv l lv' fl H; simpl in *;
    try (inversion H; subst; repeat constructor; fail).
  - destruct (mem p lv); inversion H; subst; repeat constructor.
  - destruct (mem p lv); inversion H; subst; repeat constructor.
  - destruct (eval_expr args e lv) as [[? ?] ?] eqn:E. inversion H; subst. eapply eval_expr_own; eauto.
  - destruct (eval_expr args e lv) as [[l0 ?] v0] eqn:E.
    assert (Forall (fun e => is_own e = true) l0) by (eapply eval_expr_own; eauto).
    destruct v0; inversion H; subst; try assumption; apply Forall_app; split; auto using Forall_own_drops.
  - destruct (exec args s1 lv) as [[l1 lv1] fl1] eqn:E1.
    assert (Forall (fun e => is_own e = true) l1) by (eapply IHs1; eauto).
    destruct fl1; try (inversion H; subst; assumption).
    destruct (exec args s2 lv1) as [[l2 lv2] fl2] eqn:E2. inversion H; subst.
    apply Forall_app; split; eauto.
  - destruct (eval_cond args c); eauto.
Qed.

(** no `.await`, no poll boundary *)
Definition not_boundary (e : entry) : bool := match e with EPending | ECreated => false | _ => true end.

Lemma eval_expr_nb args e : forall lv l lv' v,
  eval_expr args e lv = (l, lv', v) -> Forall (fun e => not_boundary e = true) l.
Proof.
  induction e; intros lv l lv' v H; simpl in *; try (inversion H; subst; constructor; auto; fail).
  - destruct (eval_expr args e lv) as [[? ?] ?] eqn:E. inversion H; subst. eapply IHe; eauto.
  - destruct (eval_expr args e lv) as [[? ?] ?] eqn:E. inversion H; subst. eapply IHe; eauto.
  - destruct (eval_cond args c); eauto.
Qed.

Lemma Forall_nb_drops ps : Forall (fun e => not_boundary e = true) (map EDrop ps).
Proof. induction ps; simpl; constructor; auto. Qed.

Lemma exec_nb args s : forall lv l lv' fl,
  has_await s = false ->
  exec args s lv = (l, lv', fl) -> Forall (fun e => not_boundary e = true) l.
Proof.
  induction s; intros lv l lv' fl W H; simpl in *;
    try (inversion H; subst; repeat constructor; fail).
  - destruct (mem p lv); inversion H; subst; repeat constructor.
  - destruct (mem p lv); inversion H; subst; repeat constructor.
  - destruct (eval_expr args e lv) as [[? ?] ?] eqn:E. inversion H; subst. eapply eval_expr_nb; eauto.
  - destruct (eval_expr args e lv) as [[l0 ?] v0] eqn:E.
    assert (Forall (fun e => not_boundary e = true) l0) by (eapply eval_expr_nb; eauto).
    destruct v0; inversion H; subst; try assumption; apply Forall_app; split; auto using Forall_nb_drops.
  - apply orb_false_elim in W as [W1 W2].
    destruct (exec args s1 lv) as [[l1 lv1] fl1] eqn:E1.
    assert (Forall (fun e => not_boundary e = true) l1) by (eapply IHs1; eauto).
    destruct fl1; try (inversion H; subst; assumption).
    destruct (exec args s2 lv1) as [[l2 lv2] fl2] eqn:E2. inversion H; subst.
    apply Forall_app; split; eauto.
  - apply orb_false_elim in W as [W1 W2]. destruct (eval_cond args c); eauto.
  - discriminate.
Qed.

(** * Blocks *)

Lemma exec_block_restrict args f keep lv :
  covers keep (mentions f) ->
  exec_block args f (filter keep lv)
  = let '(l, lv', r) := exec_block args f lv in (l, filter keep lv', r).
Proof.
  intros C. unfold mentions in C. apply covers_app in C as [C1 C2].
  unfold exec_block. rewrite exec_restrict by assumption.
  destruct (exec args (f_body f) lv) as [[l1 lv1] fl]. destruct fl; try reflexivity.
  rewrite eval_expr_restrict. now destruct (eval_expr args (f_tail f) lv1) as [[? ?] ?].
Qed.

Lemma exec_block_frame args f keep lv l lv' r :
  avoids keep (mentions f) -> exec_block args f lv = (l, lv', r) -> filter keep lv' = filter keep lv.
Proof.
  intros A H. unfold mentions in A. apply avoids_app in A as [A1 A2].
  unfold exec_block in H. destruct (exec args (f_body f) lv) as [[l1 lv1] fl] eqn:E1.
  assert (filter keep lv1 = filter keep lv) as F1 by (eapply exec_frame; eauto).
  destruct fl; try (inversion H; subst; assumption).
  destruct (eval_expr args (f_tail f) lv1) as [[l2 lv2] v] eqn:E2. inversion H; subst.
  rewrite <- F1. eapply eval_expr_frame; eauto.
Qed.

Lemma exec_block_own args f lv l lv' r :
  exec_block args f lv = (l, lv', r) -> Forall (fun e => is_own e = true) l.
Proof.
  unfold exec_block. intros H. destruct (exec args (f_body f) lv) as [[l1 lv1] fl] eqn:E1.
  assert (Forall (fun e => is_own e = true) l1) by (eapply exec_own; eauto).
  destruct fl; try (inversion H; subst; assumption).
  destruct (eval_expr args (f_tail f) lv1) as [[l2 lv2] v] eqn:E2. inversion H; subst.
  apply Forall_app; split; [assumption | eapply eval_expr_own; eauto].
Qed.

Lemma exec_block_nb args f lv l lv' r :
  has_await (f_body f) = false ->
  exec_block args f lv = (l, lv', r) -> Forall (fun e => not_boundary e = true) l.
Proof.
  unfold exec_block. intros W H. destruct (exec args (f_body f) lv) as [[l1 lv1] fl] eqn:E1.
  assert (Forall (fun e => not_boundary e = true) l1) by (eapply exec_nb; eauto).
  destruct fl; try (inversion H; subst; assumption).
  destruct (eval_expr args (f_tail f) lv1) as [[l2 lv2] v] eqn:E2. inversion H; subst.
  apply Forall_app; split; [assumption | eapply eval_expr_nb; eauto].
Qed.

Definition keepM (f : func) (p : N) : bool := mem p (mentions f).
Lemma covers_keepM f : covers (keepM f) (mentions f).
Proof. intros p Hp. now apply mem_In. Qed.
Lemma avoids_keepM f : avoids (fun p => negb (keepM f p)) (mentions f).
Proof. intros p Hp. unfold keepM. apply mem_In in Hp. now rewrite Hp. Qed.

(** * Every template term simulates the block it wraps (induction on the template) *)

(** the events a template emits, as a function of the block's result *)
Fixpoint tevents (c : collector) (t : texp) (r : result) : list entry :=
  match t with
  | XBody => []
  | XClosureCall e => tevents c e r
  | XAsyncAwait e => tevents c e r
  | XLetRet e es => tevents c e r ++ match r with RVal v => ev_if c es false v | _ => [] end
  | XMatch e okev errev =>
      tevents c e r ++
      match r with
      | RVal (VOk x) => match okev with Some es => ev_if c es false x | None => [] end
      | RVal (VErr x) => ev_if c errev true x
      | _ => []
      end
  end.

(** what a template may add to the block's own log *)
Definition inner_ok (e : entry) : bool :=
  is_own e || is_xdrop e || match e with TFmt _ _ => true | TEvent _ _ _ _ _ => true | _ => false end.

Lemma inner_ok_own l : Forall (fun e => is_own e = true) l -> Forall (fun e => inner_ok e = true) l.
Proof. apply Forall_impl. intros e H. unfold inner_ok. now rewrite H. Qed.
Lemma inner_ok_xdrops ps : Forall (fun e => inner_ok e = true) (map EXDrop ps).
Proof. induction ps; simpl; constructor; auto. Qed.

Lemma fmt_tracing d ps : Forall (fun e => is_tracing e = true) (map (TFmt d) ps).
Proof. induction ps; simpl; constructor; auto. Qed.
Lemma fmt_inner d ps : Forall (fun e => inner_ok e = true) (map (TFmt d) ps).
Proof. induction ps; simpl; constructor; auto. Qed.
Lemma fmt_no_event d ps : filter is_event (map (TFmt d) ps) = [].
Proof. induction ps; simpl; auto. Qed.

Lemma emit_facts c es b v :
  own_effects (emit c es b v) = [] /\ xdrops (emit c es b v) = []
  /\ Forall (fun e => inner_ok e = true) (emit c es b v)
  /\ filter is_event (emit c es b v) = ev_if c es b v.
Proof.
  unfold emit, ev_if. destruct (event_on c (es_level es)); [|repeat split; constructor].
  assert (T : Forall (fun e => is_tracing e = true)
                (map (TFmt (es_display es)) (recs_of v) ++ [TEvent (es_level es) (es_target es) b (es_display es) v])).
  { apply Forall_app; split; [apply fmt_tracing|repeat constructor]. }
  split; [now apply own_effects_tracing|].
  split; [now apply xdrops_tracing|].
  split.
  - apply Forall_app; split; [apply fmt_inner|repeat constructor].
  - rewrite filter_app, fmt_no_event. reflexivity.
Qed.

Lemma filter_event_own l : Forall (fun e => is_own e = true) l -> filter is_event l = [].
Proof.
  induction 1 as [|e l H _ IH]; [reflexivity|]. simpl. rewrite IH.
  destruct e; simpl in *; try reflexivity; discriminate.
Qed.
Lemma filter_event_xdrops ps : filter is_event (map EXDrop ps) = [].
Proof. induction ps; simpl; auto. Qed.

Lemma texec_sim c args f t : forall lv l lv' r tmps lb lvb rb,
  texec c args f t lv = (l, lv', r, tmps) ->
  exec_block args f lv = (lb, lvb, rb) ->
  r = rb /\ own_effects l = lb /\ Permutation (xdrops l ++ tmps ++ lv') lvb
  /\ Forall (fun e => inner_ok e = true) l /\ filter is_event l = tevents c t rb.
Proof.
  induction t as [| e IH | e IH | e IH es | e IH okev errev]; intros lv l lv' r tmps lb lvb rb HT HB; simpl in HT.
  - (* XBody *)
    rewrite HB in HT. inversion HT; subst.
    pose proof (exec_block_own _ _ _ _ _ _ HB) as Own.
    repeat split.
    + now apply own_effects_id.
    + rewrite xdrops_own by assumption. simpl. apply Permutation_refl.
    + now apply inner_ok_own.
    + now apply filter_event_own.
  - (* XClosureCall *)
    destruct (texec c args f e (caps_of f lv)) as [[[l1 lv1] r1] t1] eqn:E1.
    pose proof (exec_block_restrict args f (keepM f) lv (covers_keepM f)) as R. rewrite HB in R.
    fold (caps_of f lv) in R.
    destruct (IH _ _ _ _ _ _ _ _ E1 R) as (Hr & Ho & Hp & Hi & He).
    assert (Rest : rest_of f lv = filter (fun p => negb (keepM f p)) lvb).
    { symmetry. eapply exec_block_frame; [apply avoids_keepM | exact HB]. }
    assert (Part : Permutation ((xdrops l1 ++ t1 ++ lv1) ++ rest_of f lv) lvb).
    { rewrite Rest. eapply Permutation_trans; [apply Permutation_app_tail; exact Hp|]. apply filter_partition_perm. }
    destruct (moves_out f); inversion HT; subst; clear HT.
    + repeat split; auto.
      * rewrite !own_effects_app, !own_effects_xdrop, !app_nil_r. reflexivity.
      * rewrite !xdrops_app, !xdrops_xdrop. simpl. rewrite <- !app_assoc in *. exact Part.
      * repeat (apply Forall_app; split); auto using inner_ok_xdrops.
      * rewrite !filter_app, !filter_event_xdrops, !app_nil_r. exact He.
    + repeat split; auto.
      * rewrite !own_effects_app, !own_effects_xdrop, !app_nil_r. reflexivity.
      * rewrite !xdrops_app, !xdrops_xdrop. rewrite <- !app_assoc in *. exact Part.
      * repeat (apply Forall_app; split); auto using inner_ok_xdrops.
      * rewrite !filter_app, !filter_event_xdrops, !app_nil_r. exact He.
  - (* XAsyncAwait *)
    destruct (texec c args f e (caps_of f lv)) as [[[l1 lv1] r1] t1] eqn:E1.
    pose proof (exec_block_restrict args f (keepM f) lv (covers_keepM f)) as R. rewrite HB in R.
    fold (caps_of f lv) in R.
    destruct (IH _ _ _ _ _ _ _ _ E1 R) as (Hr & Ho & Hp & Hi & He).
    assert (Rest : rest_of f lv = filter (fun p => negb (keepM f p)) lvb).
    { symmetry. eapply exec_block_frame; [apply avoids_keepM | exact HB]. }
    assert (Part : Permutation ((xdrops l1 ++ t1 ++ lv1) ++ rest_of f lv) lvb).
    { rewrite Rest. eapply Permutation_trans; [apply Permutation_app_tail; exact Hp|]. apply filter_partition_perm. }
    inversion HT; subst; clear HT.
    repeat split; auto.
    + rewrite !own_effects_app, !own_effects_xdrop, !app_nil_r. reflexivity.
    + rewrite !xdrops_app, !xdrops_xdrop. simpl. rewrite <- !app_assoc in *. exact Part.
    + repeat (apply Forall_app; split); auto using inner_ok_xdrops.
    + rewrite !filter_app, !filter_event_xdrops, !app_nil_r. exact He.
  - (* XLetRet *)
    destruct (texec c args f e lv) as [[[l1 lv1] r1] t1] eqn:E1.
    destruct (IH _ _ _ _ _ _ _ _ E1 HB) as (Hr & Ho & Hp & Hi & He). subst r1.
    destruct rb as [v|k|]; inversion HT; subst; clear HT.
    + destruct (emit_facts c es false v) as (F1 & F2 & F3 & F4).
      repeat split; auto.
      * rewrite !own_effects_app, own_effects_xdrop, F1, !app_nil_r. reflexivity.
      * rewrite !xdrops_app, xdrops_xdrop, F2. simpl. rewrite app_nil_r. rewrite <- app_assoc. exact Hp.
      * repeat (apply Forall_app; split); auto using inner_ok_xdrops.
      * rewrite !filter_app, filter_event_xdrops, F4, app_nil_r. now rewrite He.
    + repeat split; auto.
      * rewrite !own_effects_app, own_effects_xdrop, !app_nil_r. reflexivity.
      * rewrite !xdrops_app, xdrops_xdrop. simpl. rewrite <- app_assoc. exact Hp.
      * repeat (apply Forall_app; split); auto using inner_ok_xdrops.
      * simpl. rewrite !filter_app, filter_event_xdrops, !app_nil_r. exact He.
    + repeat split; auto.
      * rewrite !own_effects_app, own_effects_xdrop, !app_nil_r. reflexivity.
      * rewrite !xdrops_app, xdrops_xdrop. simpl. rewrite <- app_assoc. exact Hp.
      * repeat (apply Forall_app; split); auto using inner_ok_xdrops.
      * simpl. rewrite !filter_app, filter_event_xdrops, !app_nil_r. exact He.
  - (* XMatch *)
    destruct (texec c args f e lv) as [[[l1 lv1] r1] t1] eqn:E1.
    destruct (IH _ _ _ _ _ _ _ _ E1 HB) as (Hr & Ho & Hp & Hi & He). subst r1.
    destruct rb as [v|k|]; [destruct v as [| n | p | x | x]| |]; inversion HT; subst; clear HT;
      try (simpl tevents; rewrite ?app_nil_r; repeat split; auto; fail).
    + (* Ok *)
      simpl tevents. destruct okev as [es|].
      * destruct (emit_facts c es false x) as (F1 & F2 & F3 & F4).
        repeat split; auto.
        -- rewrite own_effects_app, F1, app_nil_r. reflexivity.
        -- rewrite xdrops_app, F2, app_nil_r. exact Hp.
        -- apply Forall_app; split; auto.
        -- rewrite filter_app, F4. now rewrite He.
      * rewrite !app_nil_r. repeat split; auto.
    + (* Err *)
      simpl tevents. destruct (emit_facts c errev true x) as (F1 & F2 & F3 & F4).
      repeat split; auto.
      * rewrite own_effects_app, F1, app_nil_r. reflexivity.
      * rewrite xdrops_app, F2, app_nil_r. exact Hp.
      * apply Forall_app; split; auto.
      * rewrite filter_app, F4. now rewrite He.
Qed.
