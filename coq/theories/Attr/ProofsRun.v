(** C17 — proofs, part 2: whole calls ([run]) of the plain function and of any instrumented template;
    the four clauses of the property for [expand]. *)
From TV Require Import Attr.Model Attr.Proofs.
From Coq Require Import Permutation Lia.
Local Open Scope N_scope.
Local Arguments N.add : simpl never.
Local Arguments N.eqb : simpl never.
Local Arguments N.leb : simpl never.
Local Arguments N.ltb : simpl never.

(** * The span prologue is tracing-only *)

Lemma field_eval_tracing args fs :
  Forall (fun e => is_tracing e = true) (fst (fst (field_eval args fs)))
  /\ Forall (fun e => is_tracing e = true) (snd (fst (field_eval args fs))).
Proof.
  destruct fs as [p pa | cf]; simpl.
  - destruct (p_rtype pa), (p_ty pa); simpl; split; repeat constructor.
  - destruct (cf_expr cf) as [? ?|? ?|? ?| |? [| | |]]; simpl; split; repeat constructor.
Qed.

Lemma flat_map_Forall {A B} (P : B -> Prop) (g : A -> list B) l :
  (forall x, Forall P (g x)) -> Forall P (flat_map g l).
Proof. intros H. induction l; simpl; [constructor | apply Forall_app; split; auto]. Qed.

Lemma span_create_tracing args sp : Forall (fun e => is_tracing e = true) (span_create args sp).
Proof.
  unfold span_create. repeat (apply Forall_app; split).
  - unfold parent_eval. destruct (sp_parent sp) as [[|k]|]; repeat constructor.
  - rewrite flat_map_concat_map, map_map, <- flat_map_concat_map.
    apply flat_map_Forall. intros x. apply field_eval_tracing.
  - rewrite flat_map_concat_map, map_map, <- flat_map_concat_map.
    apply flat_map_Forall. intros x. apply field_eval_tracing.
  - repeat constructor.
Qed.

Lemma follows_tracing fo on : Forall (fun e => is_tracing e = true) (follows_part fo on).
Proof.
  unfold follows_part. destruct fo as [ks|]; [|constructor]. constructor; [reflexivity|].
  destruct on; [|constructor]. induction ks; simpl; constructor; auto.
Qed.

(** * wrap_polls only adds enter / exit *)

Definition wrap1 (e : entry) : list entry :=
  match e with EPending => [TExit; EPending; TEnter] | _ => [e] end.

Lemma wrap_polls_eq l : wrap_polls l = TEnter :: flat_map wrap1 l ++ [TExit].
Proof. reflexivity. Qed.

Lemma wrap_filter (P : entry -> bool) l :
  P TEnter = false -> P TExit = false -> filter P (wrap_polls l) = filter P l.
Proof.
  intros H1 H2. rewrite wrap_polls_eq. simpl. rewrite H1, filter_app. simpl. rewrite H2, app_nil_r.
  induction l as [|e l IH]; simpl; [reflexivity|]. rewrite filter_app, IH.
  destruct e; simpl;
    try (match goal with |- context [if P ?x then _ else _] => destruct (P x) end; reflexivity).
  rewrite H1, H2. destruct (P EPending); reflexivity.
Qed.

Lemma wrap_own_effects l : own_effects (wrap_polls l) = own_effects l.
Proof. unfold own_effects, erase_tracing. now rewrite wrap_filter. Qed.

Lemma wrap_xdrops l : xdrops (wrap_polls l) = xdrops l.
Proof.
  rewrite wrap_polls_eq. unfold xdrops. simpl. rewrite flat_map_app. simpl. rewrite app_nil_r.
  induction l as [|e l IH]; simpl; [reflexivity|]. rewrite flat_map_app, IH.
  destruct e; reflexivity.
Qed.

Local Arguments wrap_polls : simpl never.
Local Arguments span_create : simpl never.
Local Arguments follows_part : simpl never.

(** * A whole call simulates the block, for the plain function and for every template *)

Lemma all_tracing_facts l :
  Forall (fun e => is_tracing e = true) l -> own_effects l = [] /\ xdrops l = [].
Proof. intros H. split; [now apply own_effects_tracing | now apply xdrops_tracing]. Qed.

Ltac tracing_nil :=
  repeat match goal with
  | |- context [own_effects (span_create ?a ?s)] => rewrite (proj1 (all_tracing_facts _ (span_create_tracing a s)))
  | |- context [xdrops (span_create ?a ?s)] => rewrite (proj2 (all_tracing_facts _ (span_create_tracing a s)))
  | |- context [own_effects (follows_part ?a ?s)] => rewrite (proj1 (all_tracing_facts _ (follows_tracing a s)))
  | |- context [xdrops (follows_part ?a ?s)] => rewrite (proj2 (all_tracing_facts _ (follows_tracing a s)))
  end.

Lemma instr_drop_tracing r : Forall (fun e => is_tracing e = true) (instr_drop r).
Proof. destruct r; repeat constructor. Qed.
Lemma own_effects_instr_drop r : own_effects (instr_drop r) = [].
Proof. apply own_effects_tracing, instr_drop_tracing. Qed.
Lemma xdrops_instr_drop r : xdrops (instr_drop r) = [].
Proof. apply xdrops_tracing, instr_drop_tracing. Qed.

Lemma run_sync_sim c args f top l r lb lvb rb :
  run_sync c args f top = (l, r) ->
  exec_block args f (all_owned f) = (lb, lvb, rb) ->
  r = rb /\ own_effects l = lb /\ Permutation (xdrops l) lvb.
Proof.
  intros HR HB. destruct top as [|sp fo e]; simpl in HR.
  - rewrite HB in HR. inversion HR; subst.
    pose proof (exec_block_own _ _ _ _ _ _ HB) as Own.
    split; [reflexivity|]. split.
    + rewrite !own_effects_app, !own_effects_xdrop, !app_nil_r. now apply own_effects_id.
    + rewrite !xdrops_app, !xdrops_xdrop, xdrops_own by assumption. simpl.
      apply Permutation_sym, Permutation_rev.
  - destruct (texec c args f e (all_owned f)) as [[[l1 lv1] r1] t1] eqn:E1.
    destruct (texec_sim _ _ _ _ _ _ _ _ _ _ _ _ E1 HB) as (Hr & Ho & Hp & _ & _).
    inversion HR; subst; clear HR. split; [reflexivity|].
    assert (P2 : Permutation (xdrops l1 ++ t1 ++ rev lv1) lvb).
    { eapply Permutation_trans; [|exact Hp]. apply Permutation_app_head, Permutation_app_head.
      apply Permutation_sym, Permutation_rev. }
    destruct (static_on c (sp_level sp)), (span_on c (sp_level sp));
      repeat rewrite ?own_effects_app, ?xdrops_app, ?own_effects_xdrop, ?xdrops_xdrop;
      tracing_nil; simpl; rewrite ?app_nil_r; split; auto.
Qed.

Lemma run_future_sim c args f top keep l r lb lvb rb :
  covers keep (mentions f) ->
  run_future c args f top (filter keep (all_owned f)) = (l, r) ->
  exec_block args f (all_owned f) = (lb, lvb, rb) ->
  r = rb /\ own_effects l = lb /\ Permutation (xdrops l) (filter keep lvb).
Proof.
  intros C HR HB.
  pose proof (exec_block_restrict args f keep (all_owned f) C) as HB'. rewrite HB in HB'.
  destruct top as [|sp fo e]; unfold run_future in HR; [simpl in HR|].
  - rewrite HB' in HR. inversion HR; subst.
    pose proof (exec_block_own _ _ _ _ _ _ HB) as Own.
    split; [reflexivity|]. split.
    + rewrite !own_effects_app, !own_effects_xdrop, !app_nil_r. now apply own_effects_id.
    + rewrite !xdrops_app, !xdrops_xdrop, xdrops_own by assumption. simpl.
      apply Permutation_sym, Permutation_rev.
  - destruct (texec c args f e (filter keep (all_owned f))) as [[[l1 lv1] r1] t1] eqn:E1.
    destruct (texec_sim _ _ _ _ _ _ _ _ _ _ _ _ E1 HB') as (Hr & Ho & Hp & _ & _).
    assert (P2 : Permutation (xdrops l1 ++ t1 ++ rev lv1) (filter keep lvb)).
    { eapply Permutation_trans; [|exact Hp]. apply Permutation_app_head, Permutation_app_head.
      apply Permutation_sym, Permutation_rev. }
    destruct (span_on c (sp_level sp)); apply pair_equal_spec in HR as [<- <-]; (split; [exact Hr|]);
      repeat rewrite ?own_effects_app, ?xdrops_app, ?wrap_own_effects, ?wrap_xdrops, ?own_effects_xdrop, ?xdrops_xdrop,
        ?own_effects_instr_drop, ?xdrops_instr_drop;
      tracing_nil; simpl; rewrite ?app_nil_r; split; auto.
    rewrite <- app_assoc. exact P2.
Qed.

Definition base_effects (f : func) (lb : list entry) : list entry :=
  match f_kind f with KSync => lb | _ => ECreated :: lb end.

Lemma filter_true {A} (l : list A) : filter (fun _ => true) l = l.
Proof. induction l; simpl; congruence. Qed.

Theorem run_sim c args f top l r lb lvb rb :
  run c args f top = (l, r) ->
  exec_block args f (all_owned f) = (lb, lvb, rb) ->
  r = rb /\ own_effects l = base_effects f lb /\ Permutation (xdrops l) lvb.
Proof.
  unfold run, base_effects. intros HR HB. destruct (f_kind f).
  - eapply run_sync_sim; eauto.
  - destruct (run_future c args f top (all_owned f)) as [l0 r0] eqn:E. inversion HR; subst; clear HR.
    rewrite <- (filter_true (all_owned f)) in E.
    destruct (run_future_sim c args f top (fun _ => true) _ _ _ _ _ (fun _ _ => eq_refl) E HB) as (H1 & H2 & H3).
    rewrite filter_true in H3. split; [assumption|]. split.
    + change (ECreated :: l0) with ([ECreated] ++ l0). rewrite own_effects_app, H2. reflexivity.
    + change (ECreated :: l0) with ([ECreated] ++ l0). rewrite xdrops_app. exact H3.
  - cbv zeta in HR.
    change (fun p => negb (mem p (mentions f ++ top_mentions top)))
      with (fun p => negb ((fun p => mem p (mentions f ++ top_mentions top)) p)) in HR.
    set (keep := fun p => mem p (mentions f ++ top_mentions top)) in *.
    assert (C : covers keep (mentions f)).
    { intros p Hp. unfold keep. apply mem_In. apply in_or_app. now left. }
    destruct (run_future c args f top (filter keep (all_owned f))) as [l0 r0] eqn:E.
    inversion HR; subst; clear HR.
    destruct (run_future_sim c args f top keep _ _ _ _ _ C E HB) as (H1 & H2 & H3).
    split; [assumption|]. split.
    + rewrite own_effects_app, own_effects_xdrop. simpl.
      change (ECreated :: l0) with ([ECreated] ++ l0). rewrite own_effects_app, H2. reflexivity.
    + rewrite xdrops_app, xdrops_xdrop.
      change (ECreated :: l0) with ([ECreated] ++ l0). rewrite xdrops_app. simpl.
      assert (R : filter (fun p => negb (keep p)) (all_owned f) = filter (fun p => negb (keep p)) lvb).
      { symmetry. eapply exec_block_frame; [|exact HB]. intros p Hp. now rewrite (C p Hp). }
      rewrite R.
      eapply Permutation_trans; [apply Permutation_app; [apply Permutation_sym, Permutation_rev | exact H3]|].
      eapply Permutation_trans; [apply Permutation_app_comm|]. apply filter_partition_perm.
  - destruct (run_future c args f top (all_owned f)) as [l0 r0] eqn:E. inversion HR; subst; clear HR.
    rewrite <- (filter_true (all_owned f)) in E.
    destruct (run_future_sim c args f top (fun _ => true) _ _ _ _ _ (fun _ _ => eq_refl) E HB) as (H1 & H2 & H3).
    rewrite filter_true in H3. split; [assumption|]. split.
    + change (ECreated :: l0) with ([ECreated] ++ l0). rewrite own_effects_app, H2. reflexivity.
    + change (ECreated :: l0) with ([ECreated] ++ l0). rewrite xdrops_app. exact H3.
Qed.

(** ** Clause 1: erasing the tracing entries gives the plain function *)

Theorem erase_thm : forall (c : collector) (args : N -> N) (f : func) (a : attrs),
  snd (run c args f (expand a f)) = snd (run c args f TPlain)
  /\ own_effects (fst (run c args f (expand a f))) = own_effects (fst (run c args f TPlain))
  /\ Permutation (xdrops (fst (run c args f (expand a f)))) (xdrops (fst (run c args f TPlain))).
Proof.
  intros. destruct (exec_block args f (all_owned f)) as [[lb lvb] rb] eqn:HB.
  destruct (run c args f (expand a f)) as [li ri] eqn:Ei.
  destruct (run c args f TPlain) as [lp rp] eqn:Ep.
  destruct (run_sim _ _ _ _ _ _ _ _ _ Ei HB) as (A1 & A2 & A3).
  destruct (run_sim _ _ _ _ _ _ _ _ _ Ep HB) as (B1 & B2 & B3).
  simpl. repeat split; try congruence.
  eapply Permutation_trans; [exact A3 | now apply Permutation_sym].
Qed.

(** the same for any template term, not only the eight of gen_block *)
Theorem erase_any_template : forall c args f sp fo e,
  snd (run c args f (TInstr sp fo e)) = snd (run c args f TPlain)
  /\ own_effects (fst (run c args f (TInstr sp fo e))) = own_effects (fst (run c args f TPlain))
  /\ Permutation (xdrops (fst (run c args f (TInstr sp fo e)))) (xdrops (fst (run c args f TPlain))).
Proof.
  intros. destruct (exec_block args f (all_owned f)) as [[lb lvb] rb] eqn:HB.
  destruct (run c args f (TInstr sp fo e)) as [li ri] eqn:Ei.
  destruct (run c args f TPlain) as [lp rp] eqn:Ep.
  destruct (run_sim _ _ _ _ _ _ _ _ _ Ei HB) as (A1 & A2 & A3).
  destruct (run_sim _ _ _ _ _ _ _ _ _ Ep HB) as (B1 & B2 & B3).
  simpl. repeat split; try congruence.
  eapply Permutation_trans; [exact A3 | now apply Permutation_sym].
Qed.

(** the plain function makes no tracing entry at all *)
Lemma texec_body_plain c args f lv l lv' r t :
  texec c args f XBody lv = (l, lv', r, t) -> Forall (fun e => is_own e = true) l /\ t = [].
Proof.
  simpl. destruct (exec_block args f lv) as [[l0 lv0] r0] eqn:E. intros H. inversion H; subst.
  split; [eapply exec_block_own; eauto | reflexivity].
Qed.

Lemma erase_tracing_id l : Forall (fun e => is_tracing e = false) l -> erase_tracing l = l.
Proof.
  induction 1 as [|e l H _ IH]; [reflexivity|]. unfold erase_tracing in *. simpl. rewrite H. simpl. now rewrite IH.
Qed.

Lemma own_not_tracing l : Forall (fun e => is_own e = true) l -> Forall (fun e => is_tracing e = false) l.
Proof. apply Forall_impl. intros e. destruct e; simpl; congruence. Qed.
Lemma xdrops_not_tracing ps : Forall (fun e => is_tracing e = false) (map EXDrop ps).
Proof. induction ps; simpl; constructor; auto. Qed.

Theorem plain_untraced : forall c args f,
  erase_tracing (fst (run c args f TPlain)) = fst (run c args f TPlain).
Proof.
  intros. apply erase_tracing_id. unfold run.
  assert (S : forall lv, Forall (fun e => is_tracing e = false)
                (fst (let '(l, lv', r, tmps) := texec c args f XBody lv in
                      (l ++ map EXDrop tmps ++ map EXDrop (rev lv'), r)))).
  { intros lv. destruct (texec c args f XBody lv) as [[[l lv'] r] t] eqn:E.
    destruct (texec_body_plain _ _ _ _ _ _ _ _ E) as [O T]. subst. simpl.
    apply Forall_app; split; [now apply own_not_tracing | apply xdrops_not_tracing]. }
  destruct (f_kind f).
  - apply S.
  - unfold run_future.
    specialize (S (all_owned f)).
    destruct (texec c args f XBody (all_owned f)) as [[[l lv'] r] t]. simpl in *. constructor; auto.
  - unfold run_future. simpl top_mentions. rewrite app_nil_r.
    set (fr := filter (fun p => mem p (mentions f)) (all_owned f)).
    specialize (S fr).
    destruct (texec c args f XBody fr) as [[[l lv'] r] t]. simpl in *.
    apply Forall_app; split; [apply xdrops_not_tracing | constructor; auto].
  - unfold run_future.
    specialize (S (all_owned f)).
    destruct (texec c args f XBody (all_owned f)) as [[[l lv'] r] t]. simpl in *. constructor; auto.
Qed.

(** counts of anything that is not a tracing entry are preserved (uses, moves, clones, drops of either kind) *)
Lemma count_split (P : entry -> bool) l :
  (forall e, is_tracing e = true -> P e = false) ->
  count_if P l = (count_if P (own_effects l) + count_if P (map EXDrop (xdrops l)))%nat.
Proof.
  intros HP. unfold count_if, own_effects, erase_tracing, xdrops.
  induction l as [|e l IH]; [reflexivity|]. simpl.
  destruct (is_tracing e) eqn:T; simpl.
  - rewrite (HP e T). destruct e; simpl in *; try discriminate; exact IH.
  - destruct e; simpl in *; try discriminate;
      try (match goal with |- context [if P ?x then _ else _] => destruct (P x) end; simpl; rewrite IH; lia).
Qed.

Lemma count_perm (P : entry -> bool) l1 l2 : Permutation l1 l2 -> count_if P l1 = count_if P l2.
Proof.
  unfold count_if. induction 1; simpl; auto.
  - destruct (P x); simpl; congruence.
  - destruct (P x), (P y); reflexivity.
  - congruence.
Qed.

Theorem counts_thm : forall c args f a (P : entry -> bool),
  (forall e, is_tracing e = true -> P e = false) ->
  count_if P (fst (run c args f (expand a f))) = count_if P (fst (run c args f TPlain)).
Proof.
  intros c args f a P HP. destruct (erase_thm c args f a) as (_ & H2 & H3).
  rewrite (count_split P _ HP), (count_split P (fst (run c args f TPlain)) HP), H2.
  f_equal. apply count_perm. now apply Permutation_map.
Qed.
