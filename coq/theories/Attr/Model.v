(** C17 — executable model of `#[tracing::instrument]` (tracing-attributes/src/expand.rs, gen_block).

    * a *function skeleton* language (parameters, a body of effect statements, a tail expression);
    * a big-step semantics with an *effect log*: every evaluation, move and drop of every parameter,
      RAII scopes explicit (closure capture by move, async blocks capturing by move, temporaries of a
      tail expression, parameters dropped last); for async functions the log carries the poll
      boundaries ([EPending]);
    * [expand attrs f]: the eight templates of gen_block (sync / async x ret x err) as terms of a
      small template language *around the unchanged body* ([XBody]);
    * one semantics [run] for both the plain function ([TPlain]) and the expanded one.

    The span API and events are an abstract log ([TNewSpan], [TEnter], [TExit], [TClose], [TEvent], ...).
    No proofs here. *)
From Coq Require Export List NArith Bool.
From Coq Require Strings.String.   (* not imported: `length` etc. stay the list ones *)
Export ListNotations.
Local Open Scope N_scope.

(** * Function skeletons *)

Inductive ptype := TRec | TU32 | TBool | TStr.
(** `RecordType` of expand.rs: `Value` for the primitive types of TYPES_FOR_VALUE, `Debug` otherwise
    (and always `Debug` below a tuple / struct / tuple-struct pattern). *)
Inductive rtype := RValue | RDebug.
Inductive patkind :=
  PIdent | PMut | PRefPat | PTuple | PStruct | PTupleStruct | PSelf | PWild | PGeneric | PImplTrait.

(** One *binding* of the (flattened) parameter list.  Binding [i] of a recorder type holds recorder [i]. *)
Record param := mkParam {
  p_ty : ptype;
  p_owned : bool;     (* by value: the function owns (and must drop) it; only meaningful for [TRec] *)
  p_rtype : rtype;
  p_named : bool;     (* `param_names` yields an identifier for it (false for `_`) *)
  p_pat : patkind }.

Inductive cond := CTrue | CFalse | CFlag (p : N) | CGt (p : N) (k : N).

Inductive expr :=
| EUnit | ENum (n : N) | EPrim (p : N)
| EMoveP (p : N)                 (* the parameter itself, moved into the value *)
| ECloneP (p : N)                (* `p.clone()` *)
| EOk (e : expr) | EErr (e : expr)
| EIf (c : cond) (a b : expr).

Inductive stmt :=
| SSkip
| SEff (k : N)                   (* an arbitrary side effect *)
| SUse (p : N)                   (* evaluate the parameter by reference *)
| SMoveOut (p : N)               (* `consume(p)`: moved away and dropped by the callee *)
| SDropNow (p : N)               (* `drop(p)` *)
| SRet (e : expr)                (* `return e;` *)
| STry (e : expr)                (* `drop(e?);` *)
| SPanic (k : N)                 (* `panic_any(Pp(k))` *)
| SSeq (a b : stmt)
| SIf (c : cond) (a b : stmt)
| SAwait (k : N).                (* `.await` of a future that yields once; [k] names the await site *)

(** `fn`, `async fn`, and a `fn` whose last expression is `Box::pin(async move {..})` / `async move {..}`
    (the async-trait >= 0.1.44 shape recognised by `AsyncInfo::from_fn`). *)
(** [KHelper]: the async-trait <= 0.1.43 / hand-written shape `fn f(..) -> Pin<Box<dyn Future>> { async fn helper(..) {..};
    Box::pin(helper(..)) }` (`AsyncKind::Function`): the attribute instruments the *inner* `async fn` (which receives every
    argument, so the call behaves like an `async fn`), but the span is still named after the annotated function. *)
Inductive fkind := KSync | KAsync | KBoxed | KHelper.

Record func := mkFunc { f_kind : fkind; f_params : list param; f_body : stmt; f_tail : expr }.

(** * Attribute arguments *)

Inductive fmode := MDefault | MDisplay | MDebug.
Record evargs := mkEv { ev_level : option N; ev_mode : fmode }.

Inductive fkindc := FKValue | FKDebug | FKDisplay.   (* `n = e`, `n = ?e`, `n = %e` *)
Inductive fexpr :=
| FxNum (j n : N)                (* fx(j, n): expression number j, over a literal *)
| FxPrim (j p : N)               (* fx(j, p as u64): over a primitive parameter *)
| FxRec (j p : N)                (* fxr(j, &p): over a recorder parameter *)
| FxEmpty                        (* a bare name: `tracing::field::Empty` *)
| FxShort (p : N) (t : ptype).   (* `?p` / `%p`: the parameter itself (of type t), no expression written *)
(** a custom field may reuse a parameter's name (it then replaces the parameter's own field); a dotted name
    `p.dJ` whose first segment is a parameter's name does not (attr.rs: `first != name.last()`) *)
Inductive fname := FnParam (p : N) | FnCustom (j : N) | FnDot (p j : N).
Record cfield := mkCF { cf_name : fname; cf_kind : fkindc; cf_expr : fexpr }.
Inductive parentx := PxNone | PxHelper (k : N).          (* `parent = None` / `parent = hp(k)` *)

(** Levels are coded ERROR = 1 .. TRACE = 5 (0 = OFF for filters), the specification order of C19. *)
Record attrs := mkAttrs {
  a_name : option N;
  a_level : option N;            (* default INFO *)
  a_target : option N;           (* default module_path!() *)
  a_parent : option parentx;     (* default: contextual *)
  a_follows : option (list N);   (* `follows_from = hf(&[..])` *)
  a_skips : list N;
  a_fields : list cfield;
  a_ret : option evargs;
  a_err : option evargs }.

(** * The observable log *)

Inductive val := VUnit | VNum (n : N) | VRec (p : N) | VOk (v : val) | VErr (v : val).

Inductive fvalue :=
| FVValue (t : ptype) (n : N)              (* recorded through `Value` (record_u64 / record_bool / record_str) *)
| FVFmtPrim (display : bool) (t : ptype) (n : N)   (* a primitive recorded through Debug / Display *)
| FVFmtRec (display : bool) (p : N).               (* a recorder recorded through Debug / Display *)
Inductive parentobs := ParRoot | ParExplicit (k : N) | ParCtx.

Inductive entry :=
(* the function's own effects *)
| EEff (k : N) | EUse (p : N) | EMove (p : N) | EDrop (p : N) | EClone (p : N) | EYield (k : N)
| EXDrop (p : N)                 (* a parameter dropped by scope exit *)
| EPending                       (* the future returned Poll::Pending: a poll boundary *)
| ECreated                       (* the call returned the future: call time | first poll *)
(* evaluations written in the attribute *)
| TFieldEval (j : N) | TParentEval (k : N) | TFollowsEval
(* collector callbacks *)
| TFmt (display : bool) (p : N)  (* the collector ran Debug / Display of recorder p while recording *)
| TNewSpan (name : option N) (level : N) (target : option N) (parent : parentobs) (fields : list (fname * fvalue))
| TFollows (k : N) | TEnter | TExit | TClose
| TEvent (level : N) (target : option N) (is_err : bool) (display : bool) (v : val).

(** [RCancelled]: the caller dropped the future while it was suspended (a future that is never resumed). *)
Inductive result := RVal (v : val) | RPanic (k : N) | RCancelled.

(** * The collector's verdicts *)
Record collector := mkCol {
  c_static : N;      (* LevelFilter::current(): what `level_enabled!` compares with *)
  c_hint : N;        (* the level up to which `enabled()` says yes *)
  c_span : bool;     (* `enabled()` for span callsites *)
  c_event : bool }.  (* `enabled()` for event callsites *)
Definition static_on (c : collector) (lvl : N) : bool := lvl <=? c_static c.
Definition span_on (c : collector) (lvl : N) : bool := static_on c lvl && (lvl <=? c_hint c) && c_span c.
Definition event_on (c : collector) (lvl : N) : bool := static_on c lvl && (lvl <=? c_hint c) && c_event c.

(** * Semantics of bodies *)

Definition live := list N.   (* owned recorder parameters currently held by the frame, in declaration order *)
Definition mem (p : N) (l : list N) : bool := existsb (N.eqb p) l.
Definition remove (p : N) (l : list N) : list N := filter (fun q => negb (q =? p)) l.

Definition eval_cond (args : N -> N) (c : cond) : bool :=
  match c with
  | CTrue => true | CFalse => false
  | CFlag p => negb (args p =? 0)
  | CGt p k => k <? args p
  end.

Fixpoint eval_expr (args : N -> N) (e : expr) (lv : live) : list entry * live * val :=
  match e with
  | EUnit => ([], lv, VUnit)
  | ENum n => ([], lv, VNum n)
  | EPrim p => ([], lv, VNum (args p))
  | EMoveP p => ([], remove p lv, VRec p)
  | ECloneP p => ([EClone p], lv, VRec (100 + p))
  | EOk e => let '(l, lv', v) := eval_expr args e lv in (l, lv', VOk v)
  | EErr e => let '(l, lv', v) := eval_expr args e lv in (l, lv', VErr v)
  | EIf c a b => if eval_cond args c then eval_expr args a lv else eval_expr args b lv
  end.

Fixpoint recs_of (v : val) : list N :=
  match v with VRec p => [p] | VOk v => recs_of v | VErr v => recs_of v | _ => [] end.

Inductive flow := FCont | FRet (v : val) | FPanic (k : N) | FCancel.

(** Cancellation is part of the input: [args (cancel_at k) <> 0] says that the caller drops the future while it
    is suspended at await site [k] (the skeleton language has no loops, so a site is reached at most once).
    The suspended frames are then torn down like an unwinding: every frame drops what it still holds, no
    further statement runs, no event is emitted.  Quantifying over [args] therefore quantifies over "runs to
    completion" and "cancelled at any await". *)
Definition cancel_at (k : N) : N := 1000 + k.

Fixpoint exec (args : N -> N) (s : stmt) (lv : live) : list entry * live * flow :=
  match s with
  | SSkip => ([], lv, FCont)
  | SEff k => ([EEff k], lv, FCont)
  | SUse p => ([EUse p], lv, FCont)
  | SMoveOut p => if mem p lv then ([EMove p; EDrop p], remove p lv, FCont) else ([], lv, FCont)
  | SDropNow p => if mem p lv then ([EDrop p], remove p lv, FCont) else ([], lv, FCont)
  | SRet e => let '(l, lv', v) := eval_expr args e lv in (l, lv', FRet v)
  | STry e =>
      let '(l, lv', v) := eval_expr args e lv in
      match v with
      | VErr x => (l, lv', FRet (VErr x))
      | _ => (l ++ map EDrop (recs_of v), lv', FCont)
      end
  | SPanic k => ([], lv, FPanic k)
  | SSeq a b =>
      let '(l1, lv1, fl) := exec args a lv in
      match fl with
      | FCont => let '(l2, lv2, fl2) := exec args b lv1 in (l1 ++ l2, lv2, fl2)
      | _ => (l1, lv1, fl)
      end
  | SIf c a b => if eval_cond args c then exec args a lv else exec args b lv
  | SAwait k => ([EYield k; EPending], lv, if args (cancel_at k) =? 0 then FCont else FCancel)
  end.

(** `#block`: the statements, then the tail expression. *)
Definition exec_block (args : N -> N) (f : func) (lv : live) : list entry * live * result :=
  let '(l1, lv1, fl) := exec args (f_body f) lv in
  match fl with
  | FCont => let '(l2, lv2, v) := eval_expr args (f_tail f) lv1 in (l1 ++ l2, lv2, RVal v)
  | FRet v => (l1, lv1, RVal v)
  | FPanic k => (l1, lv1, RPanic k)
  | FCancel => (l1, lv1, RCancelled)
  end.

(** Syntactic occurrences (what a `move` closure / `async move` block captures). *)
Definition m_cond (c : cond) : list N :=
  match c with CFlag p => [p] | CGt p _ => [p] | _ => [] end.
Fixpoint m_expr (e : expr) : list N :=
  match e with
  | EPrim p => [p] | EMoveP p => [p] | ECloneP p => [p]
  | EOk e => m_expr e | EErr e => m_expr e
  | EIf c a b => m_cond c ++ m_expr a ++ m_expr b
  | _ => []
  end.
Fixpoint m_stmt (s : stmt) : list N :=
  match s with
  | SUse p => [p] | SMoveOut p => [p] | SDropNow p => [p]
  | SRet e => m_expr e | STry e => m_expr e
  | SSeq a b => m_stmt a ++ m_stmt b
  | SIf c a b => m_cond c ++ m_stmt a ++ m_stmt b
  | _ => []
  end.
Definition mentions (f : func) : list N := m_stmt (f_body f) ++ m_expr (f_tail f).

(** Does the block move a captured variable out (then the closure is only `FnOnce`)? *)
Fixpoint mv_expr (e : expr) : bool :=
  match e with
  | EMoveP _ => true
  | EOk e => mv_expr e | EErr e => mv_expr e
  | EIf _ a b => mv_expr a || mv_expr b
  | _ => false
  end.
Fixpoint mv_stmt (s : stmt) : bool :=
  match s with
  | SMoveOut _ => true | SDropNow _ => true
  | SRet e => mv_expr e | STry e => mv_expr e
  | SSeq a b => mv_stmt a || mv_stmt b
  | SIf _ a b => mv_stmt a || mv_stmt b
  | _ => false
  end.
Definition moves_out (f : func) : bool := mv_stmt (f_body f) || mv_expr (f_tail f).

(** * The template language of gen_block *)

Record evspec := mkEs { es_level : N; es_target : option N; es_display : bool }.

Inductive texp :=
| XBody                                              (* #block *)
| XClosureCall (e : texp)                            (* (move || e)() *)
| XAsyncAwait (e : texp)                             (* async move { e } .await *)
| XLetRet (e : texp) (ev : evspec)                   (* let x = e; ret_event; x *)
| XMatch (e : texp) (okev : option evspec) (errev : evspec).
                                                     (* match e { Ok(x) => { ret_event?; Ok(x) }, Err(e) => { err_event; Err(e) } } *)

Inductive fieldspec := FsParam (p : N) (pa : param) | FsCustom (cf : cfield).
Record spanspec := mkSp {
  sp_name : option N; sp_level : N; sp_target : option N; sp_parent : option parentx;
  sp_fields : list fieldspec }.

Inductive ttop :=
| TPlain                                                   (* the function as written *)
| TInstr (sp : spanspec) (fo : option (list N)) (e : texp). (* sync: span + guard, then e;  async: span, future e, Instrumented *)

(** The ret / err event. *)
Definition emit (c : collector) (es : evspec) (is_err : bool) (v : val) : list entry :=
  if event_on c (es_level es)
  then map (TFmt (es_display es)) (recs_of v) ++ [TEvent (es_level es) (es_target es) is_err (es_display es) v]
  else [].

Definition caps_of (f : func) (lv : live) : live := filter (fun p => mem p (mentions f)) lv.
Definition rest_of (f : func) (lv : live) : live := filter (fun p => negb (mem p (mentions f))) lv.

(** [texec] returns the log, what the *enclosing* frame still holds, the result, and the captured
    variables of a by-reference closure temporary that is still alive (dropped at the end of the
    enclosing temporary scope). *)
Fixpoint texec (c : collector) (args : N -> N) (f : func) (t : texp) (lv : live)
  : list entry * live * result * list N :=
  match t with
  | XBody => let '(l, lv', r) := exec_block args f lv in (l, lv', r, [])
  | XClosureCall e =>
      let '(l, lv', r, tmps) := texec c args f e (caps_of f lv) in
      let l := l ++ map EXDrop tmps in
      if moves_out f
      then (l ++ map EXDrop lv', rest_of f lv, r, [])      (* FnOnce: called by value, captures die with the call *)
      else (l, rest_of f lv, r, lv')                        (* Fn / FnMut: the closure temporary lives on *)
  | XAsyncAwait e =>
      let '(l, lv', r, tmps) := texec c args f e (caps_of f lv) in
      (l ++ map EXDrop tmps ++ map EXDrop lv', rest_of f lv, r, [])
  | XLetRet e es =>
      let '(l, lv', r, tmps) := texec c args f e lv in
      let l := l ++ map EXDrop tmps in                      (* end of the `let` statement *)
      match r with
      | RVal v => (l ++ emit c es false v, lv', r, [])
      | _ => (l, lv', r, [])
      end
  | XMatch e okev errev =>
      let '(l, lv', r, tmps) := texec c args f e lv in
      match r with
      | RVal (VOk x) => (l ++ match okev with Some es => emit c es false x | None => [] end, lv', r, tmps)
      | RVal (VErr x) => (l ++ emit c errev true x, lv', r, tmps)
      | _ => (l, lv', r, tmps)
      end
  end.

(** * Span creation *)

Definition fmt_val (k : fkindc) (t : ptype) (n : N) : fvalue :=
  match k with FKValue => FVValue t n | FKDebug => FVFmtPrim false t n | FKDisplay => FVFmtPrim true t n end.
Definition is_display (k : fkindc) : bool := match k with FKDisplay => true | _ => false end.

(** evaluation entries, collector formatting entries, the recorded (name, value) if any *)
Definition field_eval (args : N -> N) (fs : fieldspec)
  : list entry * list entry * list (fname * fvalue) :=
  match fs with
  | FsParam p pa =>
      match p_rtype pa, p_ty pa with
      | RValue, t => ([], [], [(FnParam p, FVValue t (args p))])
      | RDebug, TRec => ([], [TFmt false p], [(FnParam p, FVFmtRec false p)])
      | RDebug, t => ([], [], [(FnParam p, FVFmtPrim false t (args p))])
      end
  | FsCustom cf =>
      match cf_expr cf with
      | FxNum j n => ([TFieldEval j], [], [(cf_name cf, fmt_val (cf_kind cf) TU32 n)])
      | FxPrim j p => ([TFieldEval j], [], [(cf_name cf, fmt_val (cf_kind cf) TU32 (args p))])
      | FxRec j p => ([TFieldEval j], [TFmt (is_display (cf_kind cf)) p],
                      [(cf_name cf, FVFmtRec (is_display (cf_kind cf)) p)])
      | FxEmpty => ([], [], [])
      | FxShort p TRec => ([], [TFmt (is_display (cf_kind cf)) p], [(cf_name cf, FVFmtRec (is_display (cf_kind cf)) p)])
      | FxShort p t => ([], [], [(cf_name cf, FVFmtPrim (is_display (cf_kind cf)) t (args p))])
      end
  end.

Definition parent_obs (p : option parentx) : parentobs :=
  match p with None => ParCtx | Some PxNone => ParRoot | Some (PxHelper k) => ParExplicit k end.
Definition parent_eval (p : option parentx) : list entry :=
  match p with Some (PxHelper k) => [TParentEval k] | _ => [] end.

(** `span!(target:, parent:, level, name, fields..)` when enabled: the parent expression, then the field
    expressions in order, then `new_span` (the collector formats the Debug/Display fields, then records). *)
Definition span_create (args : N -> N) (sp : spanspec) : list entry :=
  let evs := map (field_eval args) (sp_fields sp) in
  parent_eval (sp_parent sp)
  ++ flat_map (fun x => fst (fst x)) evs
  ++ flat_map (fun x => snd (fst x)) evs
  ++ [TNewSpan (sp_name sp) (sp_level sp) (sp_target sp) (parent_obs (sp_parent sp)) (flat_map snd evs)].

Definition follows_part (fo : option (list N)) (on : bool) : list entry :=
  match fo with
  | None => []
  | Some ks => TFollowsEval :: (if on then map TFollows ks else [])
  end.

(** * Running a function *)

Fixpoint owned_from (i : N) (ps : list param) : live :=
  match ps with
  | [] => []
  | p :: r =>
      (match p_ty p, p_owned p with TRec, true => [i] | _, _ => [] end) ++ owned_from (i + 1) r
  end.
Definition all_owned (f : func) : live := owned_from 0 (f_params f).

(** `Instrumented::poll`: enter, poll the inner future, exit. *)
Definition wrap_polls (l : list entry) : list entry :=
  TEnter :: flat_map (fun e => match e with EPending => [TExit; EPending; TEnter] | _ => [e] end) l ++ [TExit].

Definition run_sync (c : collector) (args : N -> N) (f : func) (top : ttop) : list entry * result :=
  match top with
  | TPlain =>
      let '(l, lv', r, tmps) := texec c args f XBody (all_owned f) in
      (l ++ map EXDrop tmps ++ map EXDrop (rev lv'), r)
  | TInstr sp fo e =>
      let lvl := sp_level sp in
      let on := span_on c lvl in
      (* let span; let guard; if level_enabled!(lvl) { span = span!(..); follows_from; guard = span.enter(); } *)
      let pro := if static_on c lvl
                 then (if on then span_create args sp else []) ++ follows_part fo on ++ (if on then [TEnter] else [])
                 else [] in
      let '(l, lv', r, tmps) := texec c args f e (all_owned f) in
      (* guard, span (locals), then temporaries of the tail expression, then the parameters *)
      (pro ++ l ++ (if on then [TExit; TClose] else []) ++ map EXDrop tmps ++ map EXDrop (rev lv'), r)
  end.

(** Drop of the `Instrumented` future.  Finished or panicked: its inner future has nothing left, the drop is
    `enter; exit`, then the span closes.  Cancelled: `Instrumented::drop` *is* what tears the inner future down, inside
    its `enter .. exit` (in the log: the bracket that [wrap_polls] opened after the last [EPending]); only the close is left. *)
Definition instr_drop (r : result) : list entry :=
  match r with RCancelled => [TClose] | _ => [TEnter; TExit; TClose] end.

(** Polling the future to completion; [frame] is what the outermost async frame owns. *)
Definition run_future (c : collector) (args : N -> N) (f : func) (top : ttop) (frame : live)
  : list entry * result :=
  match top with
  | TPlain =>
      let '(l, lv', r, tmps) := texec c args f XBody frame in
      (l ++ map EXDrop tmps ++ map EXDrop (rev lv'), r)
  | TInstr sp fo e =>
      let on := span_on c (sp_level sp) in
      let '(l, lv', r, tmps) := texec c args f e frame in
      if on
      then (* let span = span!(..); let fut = ..; if !span.is_disabled() { follows_from; fut.instrument(span).await } *)
           (span_create args sp ++ follows_part fo true ++ wrap_polls (l ++ map EXDrop tmps)
              ++ instr_drop r ++ map EXDrop (rev lv'), r)
      else (l ++ map EXDrop tmps ++ map EXDrop (rev lv'), r)     (* else { fut.await } *)
  end.

Definition fs_mentions (fs : fieldspec) : list N :=
  match fs with
  | FsParam p _ => [p]
  | FsCustom cf => match cf_expr cf with FxPrim _ p => [p] | FxRec _ p => [p] | FxShort p _ => [p] | _ => [] end
  end.
Definition top_mentions (top : ttop) : list N :=
  match top with TPlain => [] | TInstr sp _ _ => flat_map fs_mentions (sp_fields sp) end.

Definition run (c : collector) (args : N -> N) (f : func) (top : ttop) : list entry * result :=
  match f_kind f with
  | KSync => run_sync c args f top
  | KAsync | KHelper => let '(l, r) := run_future c args f top (all_owned f) in (ECreated :: l, r)
  | KBoxed =>
      (* the wrapper's `async move` block captures what its text mentions; the rest dies when the wrapper returns *)
      let m := mentions f ++ top_mentions top in
      let caps := filter (fun p => mem p m) (all_owned f) in
      let rest := filter (fun p => negb (mem p m)) (all_owned f) in
      let '(l, r) := run_future c args f top caps in
      (map EXDrop (rev rest) ++ ECreated :: l, r)
  end.

(** * expand: gen_block *)

Definition level_of (a : attrs) : N := match a_level a with Some l => l | None => 3 end.

Definition overridden (a : attrs) (p : N) : bool :=
  existsb (fun cf => match cf_name cf with FnParam q => q =? p | _ => false end) (a_fields a).

Fixpoint auto_fields (a : attrs) (i : N) (ps : list param) : list fieldspec :=
  match ps with
  | [] => []
  | p :: r =>
      (if p_named p && negb (mem i (a_skips a)) && negb (overridden a i) then [FsParam i p] else [])
      ++ auto_fields a (i + 1) r
  end.

Definition span_spec (a : attrs) (f : func) : spanspec :=
  mkSp (a_name a) (level_of a) (a_target a) (a_parent a)
       (auto_fields a 0 (f_params f) ++ map FsCustom (a_fields a)).

Definition ret_spec (a : attrs) (ev : evargs) : evspec :=
  mkEs (match ev_level ev with Some l => l | None => level_of a end) (a_target a)
       (match ev_mode ev with MDisplay => true | _ => false end).
Definition err_spec (a : attrs) (ev : evargs) : evspec :=
  mkEs (match ev_level ev with Some l => l | None => 1 end) (a_target a)
       (match ev_mode ev with MDebug => false | _ => true end).

Definition expand_sync (a : attrs) : texp :=
  match a_err a, a_ret a with
  | Some ee, Some re => XMatch (XClosureCall XBody) (Some (ret_spec a re)) (err_spec a ee)
  | Some ee, None => XMatch (XClosureCall XBody) None (err_spec a ee)
  | None, Some re => XLetRet (XClosureCall XBody) (ret_spec a re)
  | None, None => XBody
  end.
Definition expand_async (a : attrs) : texp :=
  match a_err a, a_ret a with
  | Some ee, Some re => XAsyncAwait (XMatch (XAsyncAwait XBody) (Some (ret_spec a re)) (err_spec a ee))
  | Some ee, None => XAsyncAwait (XMatch (XAsyncAwait XBody) None (err_spec a ee))
  | None, Some re => XAsyncAwait (XLetRet (XAsyncAwait XBody) (ret_spec a re))
  | None, None => XAsyncAwait XBody
  end.

Definition expand (a : attrs) (f : func) : ttop :=
  TInstr (span_spec a f) (a_follows a)
         (match f_kind f with KSync => expand_sync a | _ => expand_async a end).

(** * Observers used by the statements *)

Definition is_tracing (e : entry) : bool :=
  match e with
  | TFieldEval _ | TParentEval _ | TFollowsEval | TFmt _ _ | TNewSpan _ _ _ _ _ | TFollows _
  | TEnter | TExit | TClose | TEvent _ _ _ _ _ => true
  | _ => false
  end.
(** [erase_tracing]: drop the collector callbacks, the Debug/Display calls the collector made while
    recording, and the evaluations written in the attribute itself. *)
Definition erase_tracing (l : list entry) : list entry := filter (fun e => negb (is_tracing e)) l.

Definition is_xdrop (e : entry) : bool := match e with EXDrop _ => true | _ => false end.
(** the body's own effects, in order (including the poll boundaries) *)
Definition own_effects (l : list entry) : list entry := filter (fun e => negb (is_xdrop e)) (erase_tracing l).
Definition xdrops (l : list entry) : list N :=
  flat_map (fun e => match e with EXDrop p => [p] | _ => [] end) l.

Definition is_body_effect (e : entry) : bool :=
  match e with EEff _ | EUse _ | EMove _ | EDrop _ | EClone _ | EYield _ => true | _ => false end.

(** [scan inside l]: walks the log; [Some b] = well-bracketed so far, currently inside iff [b].
    Inside the span: body effects, scope-exit drops, the collector formatting a value, events.
    Outside: never a body effect, never an event; poll boundaries only outside. *)
Fixpoint scan (inside : bool) (l : list entry) : option bool :=
  match l with
  | [] => Some inside
  | e :: r =>
      match e with
      | TEnter => if inside then None else scan true r
      | TExit => if inside then scan false r else None
      | EEff _ | EUse _ | EMove _ | EDrop _ | EClone _ | EYield _ | TEvent _ _ _ _ _ =>
          if inside then scan inside r else None
      | EPending | ECreated | TNewSpan _ _ _ _ _ | TClose | TFollows _ | TFollowsEval | TFieldEval _ | TParentEval _ =>
          if inside then None else scan inside r
      | EXDrop _ | TFmt _ _ => scan inside r
      end
  end.

Definition count_if (P : entry -> bool) (l : list entry) : nat := length (filter P l).
Definition is_newspan (e : entry) : bool := match e with TNewSpan _ _ _ _ _ => true | _ => false end.
Definition is_span_api (e : entry) : bool :=
  match e with TNewSpan _ _ _ _ _ | TEnter | TExit | TClose | TFollows _ => true | _ => false end.
Definition is_event (e : entry) : bool := match e with TEvent _ _ _ _ _ => true | _ => false end.
Definition is_field_eval (j : N) (e : entry) : bool := match e with TFieldEval k => k =? j | _ => false end.

(** The events the property demands for a result. *)
Definition ev_if (c : collector) (es : evspec) (is_err : bool) (v : val) : list entry :=
  if event_on c (es_level es) then [TEvent (es_level es) (es_target es) is_err (es_display es) v] else [].
Definition expected_events (c : collector) (a : attrs) (r : result) : list entry :=
  match r with
  | RPanic _ | RCancelled => []
  | RVal v =>
      match a_err a, a_ret a with
      | None, None => []
      | None, Some re => ev_if c (ret_spec a re) false v
      | Some ee, None => match v with VErr x => ev_if c (err_spec a ee) true x | _ => [] end
      | Some ee, Some re =>
          match v with
          | VOk x => ev_if c (ret_spec a re) false x
          | VErr x => ev_if c (err_spec a ee) true x
          | _ => []
          end
      end
  end.

(** The names the span must carry: the named, non-skipped, non-overridden parameters in order, then the
    custom fields that have a value. *)
Definition has_value (cf : cfield) : bool := match cf_expr cf with FxEmpty => false | _ => true end.
Fixpoint param_names (a : attrs) (i : N) (ps : list param) : list fname :=
  match ps with
  | [] => []
  | p :: r =>
      (if p_named p && negb (mem i (a_skips a)) && negb (overridden a i) then [FnParam i] else [])
      ++ param_names a (i + 1) r
  end.
Definition expected_names (a : attrs) (f : func) : list fname :=
  param_names a 0 (f_params f) ++ map cf_name (filter has_value (a_fields a)).
Definition eval_index (cf : cfield) : list N :=
  match cf_expr cf with FxNum j _ => [j] | FxPrim j _ => [j] | FxRec j _ => [j] | FxEmpty => [] | FxShort _ _ => [] end.

(** `.await` is only legal in async functions. *)
Fixpoint has_await (s : stmt) : bool :=
  match s with
  | SAwait _ => true
  | SSeq a b => has_await a || has_await b
  | SIf _ a b => has_await a || has_await b
  | _ => false
  end.
Definition wf_kind (f : func) : bool :=
  match f_kind f with KSync => negb (has_await (f_body f)) | _ => true end.

(** * Interleaved polling of several futures *)

(** The log of one future, cut at its poll boundaries ([ECreated] / [EPending] end a segment). *)
Fixpoint segments_aux (cur : list entry) (l : list entry) : list (list entry) :=
  match l with
  | [] => [rev cur]
  | e :: r =>
      match e with
      | EPending | ECreated => rev (e :: cur) :: segments_aux [] r
      | _ => segments_aux (e :: cur) r
      end
  end.
Definition segments (l : list entry) : list (list entry) := segments_aux [] l.

(** A schedule names which future runs its next segment; exhausted futures are skipped. *)
Fixpoint interleave (sched : list nat) (futs : list (list (list entry))) : list (nat * entry) :=
  match sched with
  | [] => []
  | i :: rest =>
      match nth_error futs i with
      | Some (seg :: more) =>
          map (fun e => (i, e)) seg
          ++ interleave rest (firstn i futs ++ more :: skipn (S i) futs)
      | _ => interleave rest futs
      end
  end.

(** Multi-future scan: at most one span entered at any time, and a body effect of future [i] only
    while future [i]'s span is entered. *)
Fixpoint scan_multi (cur : option nat) (l : list (nat * entry)) : option (option nat) :=
  match l with
  | [] => Some cur
  | (i, e) :: r =>
      match e with
      | TEnter => match cur with None => scan_multi (Some i) r | Some _ => None end
      | TExit => match cur with Some j => if Nat.eqb i j then scan_multi None r else None | None => None end
      | EEff _ | EUse _ | EMove _ | EDrop _ | EClone _ | EYield _ | TEvent _ _ _ _ _ =>
          match cur with Some j => if Nat.eqb i j then scan_multi cur r else None | None => None end
      | EPending | ECreated | TNewSpan _ _ _ _ _ | TClose | TFollows _ | TFollowsEval | TFieldEval _ | TParentEval _ =>
          match cur with None => scan_multi cur r | Some _ => None end
      | EXDrop _ | TFmt _ _ =>
          match cur with None => scan_multi cur r | Some j => if Nat.eqb i j then scan_multi cur r else None end
      end
  end.

(** * Shapes that translators/attr_templates.py reads off expand.rs / attr.rs (coq/gen/Gen_attr.v)

    The generated file states what the source *says*; Attr/SourceTie.v proves that this is what the model
    above implements (so a changed template breaks an obligation, not only the compiled corpus). *)

(** The eight templates of gen_block, events erased. *)
Inductive tshape :=
| HBody | HClosureCall (s : tshape) | HAsyncAwait (s : tshape) | HLetRet (s : tshape)
| HMatch (s : tshape) (ret_in_ok : bool).
Fixpoint shape_of (t : texp) : tshape :=
  match t with
  | XBody => HBody
  | XClosureCall e => HClosureCall (shape_of e)
  | XAsyncAwait e => HAsyncAwait (shape_of e)
  | XLetRet e _ => HLetRet (shape_of e)
  | XMatch e okev _ => HMatch (shape_of e) (match okev with Some _ => true | None => false end)
  end.
Definition is_some {A} (o : option A) : bool := match o with Some _ => true | None => false end.

(** The sync prologue: `let span; let guard; if level_enabled!(lvl) { span = span!(..); follows_from; guard = span.enter(); }`. *)
Inductive plocal := LSpan | LGuard | LFut.
Inductive pstep := PCreate | PFollows | PEnter.
Definition sync_decls : list plocal := [LSpan; LGuard].
Definition sync_steps : list pstep := [PCreate; PFollows; PEnter].

Definition step_log (c : collector) (args : N -> N) (sp : spanspec) (fo : option (list N)) (s : pstep) : list entry :=
  let on := span_on c (sp_level sp) in
  match s with
  | PCreate => if on then span_create args sp else []
  | PFollows => follows_part fo on
  | PEnter => if on then [TEnter] else []
  end.
(** what dropping a local of the prologue logs (locals die in reverse declaration order) *)
Definition local_drop (on : bool) (l : plocal) : list entry :=
  if on then match l with LSpan => [TClose] | LGuard => [TExit] | LFut => [] end else [].

(** [run_sync] of an instrumented function, as an interpretation of a prologue description. *)
Definition run_sync_steps (decls : list plocal) (steps : list pstep)
           (c : collector) (args : N -> N) (f : func) (sp : spanspec) (fo : option (list N)) (e : texp)
  : list entry * result :=
  let on := span_on c (sp_level sp) in
  let pro := if static_on c (sp_level sp) then flat_map (step_log c args sp fo) steps else [] in
  let '(l, lv', r, tmps) := texec c args f e (all_owned f) in
  (pro ++ l ++ flat_map (local_drop on) (rev decls) ++ map EXDrop tmps ++ map EXDrop (rev lv'), r).

(** The async wrapper: `let span = span!(..); let fut = <template>; if !span.is_disabled() { follows_from;
    fut.instrument(span).await } else { fut.await }`. *)
Inductive astep := AFollows | AInstrumentAwait | APlainAwait.
Definition async_lets : list plocal := [LSpan; LFut].
Definition async_then : list astep := [AFollows; AInstrumentAwait].
Definition async_else : list astep := [APlainAwait].

Definition astep_log (fo : option (list N)) (inner : list entry) (r : result) (s : astep) : list entry :=
  match s with
  | AFollows => follows_part fo true
  | AInstrumentAwait => wrap_polls inner ++ instr_drop r
  | APlainAwait => inner
  end.
Definition run_future_steps (lets : list plocal) (th el : list astep)
           (c : collector) (args : N -> N) (f : func) (sp : spanspec) (fo : option (list N)) (e : texp) (frame : live)
  : list entry * result :=
  let on := span_on c (sp_level sp) in
  let '(l, lv', r, tmps) := texec c args f e frame in
  let inner := l ++ map EXDrop tmps in
  let create := match lets with LSpan :: _ => if on then span_create args sp else [] | _ => [] end in
  (create ++ flat_map (astep_log fo inner r) (if on then th else el) ++ map EXDrop (rev lv'), r).

(** The ret / err events of gen_block. *)
Inductive lvldef := LDSpan | LDConst (l : N).

(** * RecordType::parse_from_ty and param_names: which parameters are recorded as `Value`

    The decision is made on the *spelling* of the parameter's type: a path type whose LAST segment's identifier is in
    TYPES_FOR_VALUE is `Value` -- whatever precedes it (`std::string::`, a leading `::`), whatever generic arguments
    it carries (`Wrapping<u32>`) and under any number of `&` / `&mut`; every other type is `Debug`.  The pattern then
    decides: identifier / `&pat` patterns keep the type's answer, bindings below a tuple / struct / tuple-struct
    pattern and the receiver are always `Debug`, `_` binds nothing.  The table itself is read off expand.rs by the
    translator (Gen_attr.gen_types_for_value) and passed in. *)
Inductive tyspell :=
| TyPath (refs : nat) (leading_colon : bool) (segs : list String.string) (generics : bool)
| TyOther (refs : nat).          (* `impl Trait`, tuples, ... : `_ => RecordType::Debug` *)

Definition in_table (table : list String.string) (s : String.string) : bool := existsb (String.eqb s) table.
Definition ty_rtype (table : list String.string) (t : tyspell) : rtype :=
  match t with
  | TyPath _ _ segs _ =>
      match rev segs with
      | s :: _ => if in_table table s then RValue else RDebug
      | [] => RDebug
      end
  | TyOther _ => RDebug
  end.

Inductive prule := PRKeep | PRDebug | PRNone.
Definition pat_rule (k : patkind) : prule :=
  match k with
  | PIdent | PMut | PRefPat | PGeneric | PImplTrait => PRKeep
  | PTuple | PStruct | PTupleStruct | PSelf => PRDebug
  | PWild => PRNone
  end.
Definition rtype_of (table : list String.string) (t : tyspell) (k : patkind) : rtype :=
  match pat_rule k with PRKeep => ty_rtype table t | _ => RDebug end.

(** * Which function the default span name is taken from

    [a_name a = None] / [sp_name = None] denotes the name of the function that carries the attribute, for every kind.
    The macro reaches gen_block through four call sites; at [CSAsyncFunction] gen_function is handed the inner helper,
    so the name must be passed in from outside.  The translator reads which name each site passes (Gen_attr.gen_name_source). *)
Inductive namesrc := NSAnnotated | NSHelper.
Inductive callsite := CSSpeculative | CSPrecise | CSAsyncFunction | CSAsyncBlock.
Definition site_of_kind (k : fkind) : callsite :=
  match k with KSync | KAsync => CSPrecise | KBoxed => CSAsyncBlock | KHelper => CSAsyncFunction end.
Definition default_name_source (k : fkind) : namesrc := NSAnnotated.

(** * AsyncInfo::from_fn: when is a non-async fn "a function returning a boxed future"?

    Its last expression must be a call whose callee path, written out as its segment identifiers joined by `::`
    (`path_to_string`: no leading `::`, no generic arguments), ENDS WITH the text `Box::pin` -- so `Box::pin`,
    `std::boxed::Box::pin`, `::std::boxed::Box::pin`, `alloc::boxed::Box::pin`, `Box::<_>::pin` are all that shape --
    and whose first argument is an `async` block ([KBoxed]) or a call of an `async fn` declared in the body ([KHelper]).
    A tail call that is not recognised leaves an ordinary fn ([KSync]): the attribute would then instrument the
    *construction* of the future and the polls of the body would run outside the span.  The suffix text is read off
    expand.rs by the translator (Gen_attr.gen_box_pin_suffix); the corpus terms compute their kind with [kind_of_tail]. *)
Module AttrStrings.
  Import Coq.Strings.String.
  Local Open Scope string_scope.
  Definition box_pin_suffix : string := "Box::pin".
  Definition sep : string := "::".
End AttrStrings.

Fixpoint str_ends_with (s suf : String.string) : bool :=
  if String.eqb s suf then true
  else match s with String.EmptyString => false | String.String _ s' => str_ends_with s' suf end.
Fixpoint path_to_string (segs : list String.string) : String.string :=
  match segs with
  | [] => String.EmptyString
  | [x] => x
  | x :: r => String.append x (String.append AttrStrings.sep (path_to_string r))
  end.
Definition box_pin_suffix : String.string := AttrStrings.box_pin_suffix.
Definition tail_recognised (suffix : String.string) (callee : list String.string) : bool :=
  str_ends_with (path_to_string callee) suffix.
Definition kind_of_tail (suffix : String.string) (callee : list String.string) (k : fkind) : fkind :=
  if tail_recognised suffix callee then k else KSync.

(** ... and it does not look at the declared return type at all (lib.rs instrument_precise calls AsyncInfo::from_fn
    unconditionally): `Pin<Box<dyn Future>>`, a type alias of it, `Self::Fut`, `impl Future` -- the kind is the same. *)
Definition kind_of_fn (suffix : String.string) (callee : list String.string) (ret : tyspell) (k : fkind) : fkind :=
  kind_of_tail suffix callee k.
