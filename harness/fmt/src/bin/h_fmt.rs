//! C13 harness: drives the REAL `tracing_subscriber::fmt` layer (all four event formats), the real
//! `MakeWriter` combinators of `fmt/writer.rs` and the real dispatch path on generated cases.
//!
//! Input : one JSON case per line (file given as argv[1], or stdin).
//! Output: one JSON object per case:
//!   {"id":..,"tids":[..],"log":[call..],"caught":[[thread,op]..]}   or   {"id":..,"fatal":"..."}
//! A `call` is what a *recording sink* saw, in one global total order (`q`):
//!   {"q":n,"t":thread,"s":sink,"w":writer-instance,"k":"make","meta":null|{"level","target","name","span"}}
//!   {"q":n,"t":thread,"s":sink,"w":writer-instance,"k":"write","hex":"..."}      (one entry per `write` call)
//!   {"q":n,"t":thread,"s":sink,"w":writer-instance,"k":"flush"}
//! The sinks only implement `write`/`flush` (std's default `write_all` loops over `write`) and serialise
//! through one mutex -- atomicity of a single `write` is the sink's business.  By default they accept every
//! byte; a FAULT PLAN makes individual writer instances misbehave:
//!   "faults": [ {"<k>": [resp..], ..} per thread ]   k = index of the `make` call on that thread (all
//!   recording sinks counted together, in call order); resp = {"ok":n} accept min(n,len) bytes (0: Ok(0)),
//!   "int" Err(Interrupted), "err" Err(Other), "panic".  One resp is consumed per `write`/`flush` call on the
//!   instance; an exhausted script accepts everything.  Every write entry carries "r": ok|part|zero|int|err|panic.
//! "sink_kinds": ["rec"|"fn"|"mutex:<chunk>"|"test", ..] (default rec): how the leaf for sink i is built --
//!   rec   the recording `MakeWriter` (logs make_writer_for(meta));
//!   fn    a closure `Fn() -> W` (the blanket impl: `make_writer_for` defaults to `make_writer()`, meta = null);
//!   mutex `std::sync::Mutex<W>` (real impl: the guard is the writer; no make entry); W accepts <chunk> bytes per
//!         `write` (0 = all) and yields in between: the lock must keep one record's pieces together;
//!   test  the real `TestWriter` (prints to stdout; what it printed comes back as "stdout" of the case).
//! Output lines of the harness itself start with "@@C13 ".
//!
//! Case schema (see driver/props/c13.py, which generates it):
//!   format: full|compact|pretty|json        opts: {ansi,target,level,tid,tname,file,line,timer,lie,span_events:[..]}
//!   nsinks, writer: wexp                     callsites: [{kind,name,target,level,fields,file,line}]
//!   threads: [[op..]..]                      global: bool (set_global_default; one case per process)
//! ops: {"op":"enter","cs":k,"vals":[v..],"parent":null|-1|i}   {"op":"exit"}   {"op":"record","f":name,"v":v}
//!      {"op":"event","cs":k,"vals":[v..],"parent":null|-1|i}    {"op":"sync"}
//!      {"op":"reconf","se":[..],"how":"modify"|"reload"}  (case "reloadable": true: the fmt layer sits behind reload::Subscriber)
//!         modify = Handle::modify(|s| s.set_span_events(mask)); reload = Handle::reload(a new fmt subscriber configured with mask)
//!      {"op":"direct","text":s,"method":"write_all"|"write"|"write_vectored"|"write_fmt"|"flush"}  (make_writer() + one call)
//!      {"op":"race","a":{"f":name,"v":text},"b":{"f":name,"v":text},"wait_ms":N}  two helper threads `record` one field each
//!         on clones of the innermost open span AT THE SAME TIME: a's Debug impl (running inside on_record) lets b start and
//!         waits up to N ms for b's Debug impl to run; b's waits for a's call to return.  When on_record holds the span's
//!         extensions write lock across its read-append-store, b blocks on that lock, a's wait times out and both fields are
//!         stored (a first).  Observation "races":[[overlapped, a_timed_out]..] per case.
//! values v: {"i":n} {"u":n} {"b":bool} {"s":str} {"f":float} {"d":raw-debug-text} {"none":1}
//!           {"panic":pre}  -- Debug writes `pre`, then panics (the harness catches it around the event)
//!           {"err":pre}    -- Debug writes `pre`, then returns fmt::Error
//!           {"nested":{"cs":k,"vals":[..]},"text":post} -- Debug emits another event, then writes `post`
use serde_json::{json, Value as J};
use std::cell::{Cell, RefCell};
use std::collections::{HashMap, VecDeque};
use std::fmt;
use std::io::{self, BufRead, Write};
use std::panic::{catch_unwind, AssertUnwindSafe};
use std::sync::atomic::{AtomicUsize, Ordering};
use std::sync::{Arc, Barrier, Mutex, OnceLock};
use tracing_core::{
    callsite::{Callsite, Identifier},
    collect::Interest,
    dispatch::Dispatch,
    field::{self, Field, FieldSet, Value, ValueSet},
    metadata::Kind,
    span::Id,
    Event, Level, Metadata,
};
use tracing_subscriber::fmt::{
    self as tfmt,
    format::{FmtSpan, Writer as FmtWriter},
    time::FormatTime,
    writer::{BoxMakeWriter, MakeWriter, MakeWriterExt, TestWriter},
};
use tracing_subscriber::{registry::Registry, subscribe::CollectExt, subscribe::Subscribe};

// ------------------------------------------------------------------------------------------------
// recording sinks

thread_local! {
    static TIDX: Cell<i64> = Cell::new(-1);
    static CUR: RefCell<Option<Dispatch>> = RefCell::new(None);
    /// fault plan of this thread: index of the `make` call -> script of the writer instance it returns
    static PLAN: RefCell<HashMap<usize, Vec<Resp>>> = RefCell::new(HashMap::new());
    static MKCTR: Cell<usize> = Cell::new(0);
}

#[derive(Clone, Copy, Debug)]
enum Resp {
    Accept(usize),
    Int,
    Fail,
    Panic,
}

fn resp(j: &J) -> Resp {
    if let Some(n) = j.get("ok") {
        return Resp::Accept(n.as_u64().unwrap() as usize);
    }
    match j.as_str().unwrap() {
        "int" => Resp::Int,
        "err" => Resp::Fail,
        "panic" => Resp::Panic,
        x => panic!("bad resp {}", x),
    }
}

#[derive(Clone)]
struct Log(Arc<Mutex<Vec<J>>>);

impl Log {
    fn push(&self, mut e: J) {
        let mut g = self.0.lock().unwrap_or_else(|p| p.into_inner());
        let q = g.len();
        e["q"] = json!(q);
        e["t"] = json!(TIDX.with(|t| t.get()));
        g.push(e);
    }
}

#[derive(Clone)]
struct RecSink {
    id: usize,
    log: Log,
    wctr: Arc<AtomicUsize>,
}

struct RecWriter {
    sink: usize,
    wid: usize,
    log: Log,
    script: VecDeque<Resp>,
}

fn level_code(l: &Level) -> u8 {
    // by identity with the public constants, not through the comparison operators
    if *l == Level::ERROR {
        1
    } else if *l == Level::WARN {
        2
    } else if *l == Level::INFO {
        3
    } else if *l == Level::DEBUG {
        4
    } else {
        5
    }
}

fn level_of(c: u64) -> Level {
    match c {
        1 => Level::ERROR,
        2 => Level::WARN,
        3 => Level::INFO,
        4 => Level::DEBUG,
        _ => Level::TRACE,
    }
}

impl RecSink {
    fn mk(&self, meta: Option<&Metadata<'_>>) -> RecWriter {
        let wid = self.wctr.fetch_add(1, Ordering::SeqCst);
        let m = match meta {
            None => J::Null,
            Some(m) => json!({"level": level_code(m.level()), "target": m.target(), "name": m.name(), "span": m.is_span()}),
        };
        let mk = MKCTR.with(|c| {
            let k = c.get();
            c.set(k + 1);
            k
        });
        let script: VecDeque<Resp> = PLAN.with(|p| p.borrow().get(&mk).cloned()).unwrap_or_default().into();
        self.log.push(json!({"s": self.id, "w": wid, "k": "make", "meta": m, "mk": mk}));
        RecWriter { sink: self.id, wid, log: self.log.clone(), script }
    }
}

impl<'a> MakeWriter<'a> for RecSink {
    type Writer = RecWriter;
    fn make_writer(&'a self) -> RecWriter {
        self.mk(None)
    }
    fn make_writer_for(&'a self, meta: &Metadata<'_>) -> RecWriter {
        self.mk(Some(meta))
    }
}

fn hex(b: &[u8]) -> String {
    let mut s = String::with_capacity(b.len() * 2);
    for x in b {
        s.push_str(&format!("{:02x}", x));
    }
    s
}

fn scripted_err(kind: io::ErrorKind) -> io::Error {
    io::Error::new(kind, "scripted sink failure")
}

impl io::Write for RecWriter {
    fn write(&mut self, buf: &[u8]) -> io::Result<usize> {
        let (tag, res): (&str, Option<io::Result<usize>>) = match self.script.pop_front() {
            None => ("ok", Some(Ok(buf.len()))),
            Some(Resp::Accept(0)) => ("zero", Some(Ok(0))),
            Some(Resp::Accept(n)) if n >= buf.len() => ("ok", Some(Ok(buf.len()))),
            Some(Resp::Accept(n)) => ("part", Some(Ok(n))),
            Some(Resp::Int) => ("int", Some(Err(scripted_err(io::ErrorKind::Interrupted)))),
            Some(Resp::Fail) => ("err", Some(Err(scripted_err(io::ErrorKind::Other)))),
            Some(Resp::Panic) => ("panic", None),
        };
        self.log.push(json!({"s": self.sink, "w": self.wid, "k": "write", "hex": hex(buf), "r": tag}));
        match res {
            Some(r) => r,
            None => panic!("scripted sink panic"),
        }
    }
    fn flush(&mut self) -> io::Result<()> {
        let (tag, res): (&str, Option<io::Result<()>>) = match self.script.pop_front() {
            None | Some(Resp::Accept(_)) => ("ok", Some(Ok(()))),
            Some(Resp::Int) => ("int", Some(Err(scripted_err(io::ErrorKind::Interrupted)))),
            Some(Resp::Fail) => ("err", Some(Err(scripted_err(io::ErrorKind::Other)))),
            Some(Resp::Panic) => ("panic", None),
        };
        self.log.push(json!({"s": self.sink, "w": self.wid, "k": "flush", "r": tag}));
        match res {
            Some(r) => r,
            None => panic!("scripted sink panic"),
        }
    }
}

/// What sits inside a `Mutex` leaf: accepts `chunk` bytes per `write` (0 = everything) and yields after each
/// call, so that only the lock (held by the `MutexGuardWriter` for the whole `write_all`) keeps a record together.
struct ChunkW {
    sink: usize,
    wid: usize,
    log: Log,
    chunk: usize,
}

impl io::Write for ChunkW {
    fn write(&mut self, buf: &[u8]) -> io::Result<usize> {
        let n = if self.chunk == 0 || self.chunk >= buf.len() { buf.len() } else { self.chunk };
        self.log.push(json!({"s": self.sink, "w": self.wid, "k": "write", "hex": hex(buf), "r": if n == buf.len() { "ok" } else { "part" }, "mutex": true}));
        std::thread::yield_now();
        Ok(n)
    }
    fn flush(&mut self) -> io::Result<()> {
        self.log.push(json!({"s": self.sink, "w": self.wid, "k": "flush", "r": "ok", "mutex": true}));
        Ok(())
    }
}

// ------------------------------------------------------------------------------------------------
// writer expressions: built from the REAL combinators, boxed between levels (BoxMakeWriter is real too)

#[derive(Clone, Debug)]
enum Pred {
    True,
    False,
    TargetEq(String),
    TargetPrefix(String),
    NameEq(String),
    LevelIs(u8),
    IsSpan,
    IsEvent,
    Not(Box<Pred>),
}

fn pred(j: &J) -> Pred {
    match j["p"].as_str().unwrap() {
        "true" => Pred::True,
        "false" => Pred::False,
        "target_eq" => Pred::TargetEq(j["v"].as_str().unwrap().to_string()),
        "target_prefix" => Pred::TargetPrefix(j["v"].as_str().unwrap().to_string()),
        "name_eq" => Pred::NameEq(j["v"].as_str().unwrap().to_string()),
        "level_is" => Pred::LevelIs(j["l"].as_u64().unwrap() as u8),
        "is_span" => Pred::IsSpan,
        "is_event" => Pred::IsEvent,
        "not" => Pred::Not(Box::new(pred(&j["q"]))),
        x => panic!("bad predicate {}", x),
    }
}

fn eval_pred(p: &Pred, m: &Metadata<'_>) -> bool {
    match p {
        Pred::True => true,
        Pred::False => false,
        Pred::TargetEq(t) => m.target() == t,
        Pred::TargetPrefix(t) => m.target().starts_with(t.as_str()),
        Pred::NameEq(t) => m.name() == t,
        Pred::LevelIs(l) => level_code(m.level()) == *l,
        Pred::IsSpan => m.is_span(),
        Pred::IsEvent => m.is_event(),
        Pred::Not(q) => !eval_pred(q, m),
    }
}

fn leaf(i: usize, sinks: &[RecSink], kinds: &[String]) -> BoxMakeWriter {
    let kind = kinds.get(i).map(|s| s.as_str()).unwrap_or("rec");
    let sink = sinks[i].clone();
    if kind == "rec" {
        BoxMakeWriter::new(sink)
    } else if kind == "fn" {
        BoxMakeWriter::new(move || sink.mk(None))
    } else if kind == "test" {
        BoxMakeWriter::new(TestWriter::new())
    } else if let Some(c) = kind.strip_prefix("mutex:") {
        let wid = sink.wctr.fetch_add(1, Ordering::SeqCst);
        BoxMakeWriter::new(Mutex::new(ChunkW { sink: i, wid, log: sink.log.clone(), chunk: c.parse().expect("chunk") }))
    } else {
        panic!("bad sink kind {}", kind)
    }
}

fn build(w: &J, sinks: &[RecSink], kinds: &[String]) -> BoxMakeWriter {
    match w["k"].as_str().unwrap() {
        "sink" => leaf(w["i"].as_u64().unwrap() as usize, sinks, kinds),
        "box" => BoxMakeWriter::new(build(&w["w"], sinks, kinds)),
        "max" => BoxMakeWriter::new(build(&w["w"], sinks, kinds).with_max_level(level_of(w["l"].as_u64().unwrap()))),
        "min" => BoxMakeWriter::new(build(&w["w"], sinks, kinds).with_min_level(level_of(w["l"].as_u64().unwrap()))),
        "filter" => {
            let p = pred(&w["p"]);
            BoxMakeWriter::new(build(&w["w"], sinks, kinds).with_filter(move |m: &Metadata<'_>| eval_pred(&p, m)))
        }
        "tee" => BoxMakeWriter::new(build(&w["a"], sinks, kinds).and(build(&w["b"], sinks, kinds))),
        "orelse" => {
            // the left operand must statically yield an OptionalWriter: one of the three gates
            let a = &w["a"];
            let b = build(&w["b"], sinks, kinds);
            let inner = build(&a["w"], sinks, kinds);
            match a["k"].as_str().unwrap() {
                "max" => BoxMakeWriter::new(inner.with_max_level(level_of(a["l"].as_u64().unwrap())).or_else(b)),
                "min" => BoxMakeWriter::new(inner.with_min_level(level_of(a["l"].as_u64().unwrap())).or_else(b)),
                "filter" => {
                    let p = pred(&a["p"]);
                    let f: PredFn = Box::new(move |m: &Metadata<'_>| eval_pred(&p, m));
                    BoxMakeWriter::new(inner.with_filter(f).or_else(b))
                }
                x => panic!("ill-typed or_else: left operand `{}` does not yield an OptionalWriter", x),
            }
        }
        x => panic!("bad writer expression {}", x),
    }
}

type PredFn = Box<dyn Fn(&Metadata<'_>) -> bool + Send + Sync>;

// ------------------------------------------------------------------------------------------------
// dynamic callsites

struct DynCs {
    meta: OnceLock<&'static Metadata<'static>>,
}

impl Callsite for DynCs {
    fn set_interest(&self, _: Interest) {}
    fn metadata(&self) -> &Metadata<'_> {
        self.meta.get().expect("callsite metadata")
    }
}

fn leak(s: &str) -> &'static str {
    Box::leak(s.to_string().into_boxed_str())
}

fn mk_callsite(j: &J) -> &'static Metadata<'static> {
    let cs: &'static DynCs = Box::leak(Box::new(DynCs { meta: OnceLock::new() }));
    let names: Vec<&'static str> = j["fields"].as_array().unwrap().iter().map(|n| leak(n.as_str().unwrap())).collect();
    let names: &'static [&'static str] = Box::leak(names.into_boxed_slice());
    let fs = FieldSet::new(names, Identifier(cs));
    let kind = if j["kind"].as_str().unwrap() == "span" { Kind::SPAN } else { Kind::EVENT };
    let meta: &'static Metadata<'static> = Box::leak(Box::new(Metadata::new(
        leak(j["name"].as_str().unwrap()),
        leak(j["target"].as_str().unwrap()),
        level_of(j["level"].as_u64().unwrap()),
        j["file"].as_str().map(leak),
        j["line"].as_u64().map(|l| l as u32),
        Some("h_fmt"),
        fs,
        kind,
    )));
    let _ = cs.meta.set(meta);
    meta
}

// ------------------------------------------------------------------------------------------------
// values

struct Raw(String);
impl fmt::Debug for Raw {
    fn fmt(&self, f: &mut fmt::Formatter<'_>) -> fmt::Result {
        f.write_str(&self.0)
    }
}

struct PanicDbg(String);
impl fmt::Debug for PanicDbg {
    fn fmt(&self, f: &mut fmt::Formatter<'_>) -> fmt::Result {
        f.write_str(&self.0)?;
        panic!("PanicDbg");
    }
}

struct ErrDbg(String);
impl fmt::Debug for ErrDbg {
    fn fmt(&self, f: &mut fmt::Formatter<'_>) -> fmt::Result {
        f.write_str(&self.0)?;
        Err(fmt::Error)
    }
}

/// rendezvous of the two racing `record` calls (see the `race` op)
struct RaceCtl {
    begun_a: (Mutex<bool>, std::sync::Condvar),
    entered_b: (Mutex<bool>, std::sync::Condvar),
    done_a: (Mutex<bool>, std::sync::Condvar),
    wait: std::time::Duration,
    overlap: std::sync::atomic::AtomicBool,
    timed_out: std::sync::atomic::AtomicBool,
}

fn flag_set(f: &(Mutex<bool>, std::sync::Condvar)) {
    *f.0.lock().unwrap() = true;
    f.1.notify_all();
}

fn flag_wait(f: &(Mutex<bool>, std::sync::Condvar), d: std::time::Duration) -> bool {
    let g = f.0.lock().unwrap();
    let (g, _) = f.1.wait_timeout_while(g, d, |set| !*set).unwrap();
    *g
}

struct Gate {
    text: String,
    ctl: Arc<RaceCtl>,
    first: bool,
    once: std::sync::atomic::AtomicBool,
}
impl fmt::Debug for Gate {
    fn fmt(&self, f: &mut fmt::Formatter<'_>) -> fmt::Result {
        if !self.once.swap(true, Ordering::SeqCst) {
            if self.first {
                flag_set(&self.ctl.begun_a);
                if flag_wait(&self.ctl.entered_b, self.ctl.wait) {
                    self.ctl.overlap.store(true, Ordering::SeqCst);
                } else {
                    self.ctl.timed_out.store(true, Ordering::SeqCst);
                }
            } else {
                flag_set(&self.ctl.entered_b);
                let _ = flag_wait(&self.ctl.done_a, self.ctl.wait);
            }
        }
        f.write_str(&self.text)
    }
}

struct NestedDbg {
    meta: &'static Metadata<'static>,
    vals: Vec<Val>,
    text: String,
}
impl fmt::Debug for NestedDbg {
    fn fmt(&self, f: &mut fmt::Formatter<'_>) -> fmt::Result {
        // a caught panic inside a Debug impl is legal Rust; keep the outer formatting going
        let _ = catch_unwind(AssertUnwindSafe(|| emit_event(self.meta, &self.vals, &Parent::Contextual)));
        f.write_str(&self.text)
    }
}

enum Val {
    I(i64),
    U(u64),
    B(bool),
    S(String),
    F(f64),
    D(Raw),
    Panic(PanicDbg),
    Err(ErrDbg),
    Nested(Box<NestedDbg>),
    None,
}

fn val(j: &J, callsites: &[&'static Metadata<'static>]) -> Val {
    let o = j.as_object().expect("value object");
    if let Some(v) = o.get("i") {
        Val::I(v.as_i64().unwrap())
    } else if let Some(v) = o.get("u") {
        Val::U(v.as_u64().unwrap())
    } else if let Some(v) = o.get("b") {
        Val::B(v.as_bool().unwrap())
    } else if let Some(v) = o.get("s") {
        Val::S(v.as_str().unwrap().to_string())
    } else if let Some(v) = o.get("f") {
        Val::F(v.as_f64().unwrap())
    } else if let Some(v) = o.get("d") {
        Val::D(Raw(v.as_str().unwrap().to_string()))
    } else if let Some(v) = o.get("panic") {
        Val::Panic(PanicDbg(v.as_str().unwrap().to_string()))
    } else if let Some(v) = o.get("err") {
        Val::Err(ErrDbg(v.as_str().unwrap().to_string()))
    } else if let Some(v) = o.get("nested") {
        let meta = callsites[v["cs"].as_u64().unwrap() as usize];
        let vals = v["vals"].as_array().unwrap().iter().map(|x| val(x, callsites)).collect();
        Val::Nested(Box::new(NestedDbg { meta, vals, text: o.get("text").and_then(|t| t.as_str()).unwrap_or("").to_string() }))
    } else {
        Val::None
    }
}

fn to_value<'a>(v: &'a Val) -> Option<Box<dyn Value + 'a>> {
    Some(match v {
        Val::I(x) => Box::new(*x),
        Val::U(x) => Box::new(*x),
        Val::B(x) => Box::new(*x),
        Val::F(x) => Box::new(*x),
        Val::S(x) => Box::new(x.as_str()),
        Val::D(x) => Box::new(field::debug(x)),
        Val::Panic(x) => Box::new(field::debug(x)),
        Val::Err(x) => Box::new(field::debug(x)),
        Val::Nested(x) => Box::new(field::debug(&**x)),
        Val::None => return None,
    })
}

macro_rules! arm {
    ($fs:expr, $pairs:expr, $f:expr, $n:literal) => {{
        let arr: [(&Field, Option<&dyn Value>); $n] = core::array::from_fn(|i| $pairs[i]);
        let vs = $fs.value_set(&arr);
        $f(&vs)
    }};
}

fn with_valueset<R>(meta: &'static Metadata<'static>, vals: &[Val], f: impl FnOnce(&ValueSet<'_>) -> R) -> R {
    let fs = meta.fields();
    let fields: Vec<Field> = fs.iter().collect();
    assert!(vals.len() <= fields.len(), "more values than fields");
    let boxed: Vec<Option<Box<dyn Value + '_>>> = vals.iter().map(to_value).collect();
    let pairs: Vec<(&Field, Option<&dyn Value>)> = fields.iter().zip(boxed.iter()).map(|(f, b)| (f, b.as_deref())).collect();
    match pairs.len() {
        0 => arm!(fs, pairs, f, 0),
        1 => arm!(fs, pairs, f, 1),
        2 => arm!(fs, pairs, f, 2),
        3 => arm!(fs, pairs, f, 3),
        4 => arm!(fs, pairs, f, 4),
        5 => arm!(fs, pairs, f, 5),
        6 => arm!(fs, pairs, f, 6),
        7 => arm!(fs, pairs, f, 7),
        8 => arm!(fs, pairs, f, 8),
        n => panic!("too many fields: {}", n),
    }
}

enum Parent {
    Contextual,
    Root,
    Explicit(Id),
}

/// `GLOBAL` = the collector is the process-global default: events go through `Event::dispatch` exactly as the
/// macros do.  Otherwise the thread has a scoped default; a re-entrant `get_default` would yield `NONE` there,
/// so a nested event (from inside a `Debug` impl) is handed to the same `Dispatch` directly (`Dispatch::event`
/// is public API) -- both routes end in the same `on_event`.
static GLOBAL: AtomicUsize = AtomicUsize::new(0);

fn emit_event(meta: &'static Metadata<'static>, vals: &[Val], parent: &Parent) {
    with_valueset(meta, vals, |vs| {
        let nested_direct = GLOBAL.load(Ordering::SeqCst) == 0 && IN_EVENT.with(|c| c.get()) > 0;
        IN_EVENT.with(|c| c.set(c.get() + 1));
        struct Dec;
        impl Drop for Dec {
            fn drop(&mut self) {
                IN_EVENT.with(|c| c.set(c.get() - 1));
            }
        }
        let _dec = Dec;
        if nested_direct {
            let d = CUR.with(|c| c.borrow().clone()).expect("thread dispatch");
            let ev = match parent {
                Parent::Contextual => Event::new(meta, vs),
                Parent::Root => Event::new_child_of(None, meta, vs),
                Parent::Explicit(id) => Event::new_child_of(id.clone(), meta, vs),
            };
            d.event(&ev);
        } else {
            match parent {
                Parent::Contextual => Event::dispatch(meta, vs),
                Parent::Root => Event::child_of(None, meta, vs),
                Parent::Explicit(id) => Event::child_of(id.clone(), meta, vs),
            }
        }
    })
}

thread_local! {
    static IN_EVENT: Cell<usize> = Cell::new(0);
}

fn make_span(meta: &'static Metadata<'static>, vals: &[Val], parent: &Parent) -> tracing::Span {
    with_valueset(meta, vals, |vs| match parent {
        Parent::Contextual => tracing::Span::new(meta, vs),
        Parent::Root => tracing::Span::new_root(meta, vs),
        Parent::Explicit(id) => tracing::Span::child_of(id.clone(), meta, vs),
    })
}

// ------------------------------------------------------------------------------------------------
// the layer

/// The configured timer.  "timer_faults": [{"<k>": pre, ..} per thread]: the k-th `format_time` call on that thread (one per
/// emission that reaches a formatter with timestamps on) writes `pre` and returns Err -- a clock that cannot be read.
struct FakeTime;
thread_local! {
    static TCTR: Cell<usize> = Cell::new(0);
    static TFAIL: RefCell<HashMap<usize, String>> = RefCell::new(HashMap::new());
}
impl FormatTime for FakeTime {
    fn format_time(&self, w: &mut FmtWriter<'_>) -> fmt::Result {
        let k = TCTR.with(|c| {
            let k = c.get();
            c.set(k + 1);
            k
        });
        if let Some(pre) = TFAIL.with(|f| f.borrow().get(&k).cloned()) {
            w.write_str(&pre)?;
            return Err(fmt::Error);
        }
        w.write_str("TIME")
    }
}

type BoxedLayer = Box<dyn Subscribe<Registry> + Send + Sync>;

#[derive(Clone)]
struct Opts {
    ansi: bool,
    target: bool,
    level: bool,
    tid: bool,
    tname: bool,
    file: bool,
    line: bool,
    timer: bool,
    lie: bool,
    span_events: FmtSpan,
}

/// Reconfiguration of a RELOADABLE fmt layer ("reloadable": true): the layer sits behind `reload::Subscriber`;
/// `(mask, None)` = `Handle::modify(|s| s.set_span_events(mask))`, `(mask, Some(writer))` = `Handle::reload(<a new fmt
/// subscriber of the same type, configured with mask>)`.
type Reconf = Box<dyn Fn(FmtSpan, Option<BoxMakeWriter>) + Send + Sync>;

macro_rules! reloadable {
    ($mk:expr, $w:expr, $se:expr, $reload:expr) => {{
        let mk = $mk;
        let l = mk($w, $se);
        if $reload {
            let (rl, h) = tracing_subscriber::reload::Subscriber::new(l);
            let rc: Reconf = Box::new(move |se: FmtSpan, w: Option<BoxMakeWriter>| match w {
                None => h.modify(|s| s.set_span_events(se)).expect("reload::Handle::modify"),
                Some(w) => h.reload(mk(w, se)).expect("reload::Handle::reload"),
            });
            (Box::new(rl) as BoxedLayer, Some(rc))
        } else {
            (Box::new(l) as BoxedLayer, None)
        }
    }};
}

macro_rules! finish_layer {
    ($o:expr, $w:expr, $reload:expr $(, $m:ident)?) => {{
        let o: Opts = $o.clone();
        let se0 = o.span_events.clone();
        if o.timer {
            reloadable!(
                move |w: BoxMakeWriter, se: FmtSpan| tfmt::Subscriber::<Registry>::new()
                    .with_writer(w)
                    $(.$m())?
                    .with_ansi(o.ansi)
                    .with_target(o.target)
                    .with_level(o.level)
                    .with_thread_ids(o.tid)
                    .with_thread_names(o.tname)
                    .with_file(o.file)
                    .with_line_number(o.line)
                    .with_span_events(se)
                    .log_internal_errors(o.lie)
                    .with_timer(FakeTime),
                $w,
                se0,
                $reload
            )
        } else {
            reloadable!(
                move |w: BoxMakeWriter, se: FmtSpan| tfmt::Subscriber::<Registry>::new()
                    .with_writer(w)
                    $(.$m())?
                    .with_ansi(o.ansi)
                    .with_target(o.target)
                    .with_level(o.level)
                    .with_thread_ids(o.tid)
                    .with_thread_names(o.tname)
                    .with_file(o.file)
                    .with_line_number(o.line)
                    .with_span_events(se)
                    .log_internal_errors(o.lie)
                    .without_time(),
                $w,
                se0,
                $reload
            )
        }
    }};
}

fn layer(format: &str, o: &Opts, w: BoxMakeWriter, reload: bool) -> (BoxedLayer, Option<Reconf>) {
    match format {
        "full" => finish_layer!(o, w, reload),
        "compact" => finish_layer!(o, w, reload, compact),
        "pretty" => finish_layer!(o, w, reload, pretty),
        "json" => finish_layer!(o, w, reload, json),
        x => panic!("bad format {}", x),
    }
}

fn span_mask(j: &J) -> FmtSpan {
    let mut se = FmtSpan::NONE;
    for s in j.as_array().map(|a| a.as_slice()).unwrap_or(&[]) {
        se = se
            | match s.as_str().unwrap() {
                "new" => FmtSpan::NEW,
                "enter" => FmtSpan::ENTER,
                "exit" => FmtSpan::EXIT,
                "close" => FmtSpan::CLOSE,
                x => panic!("bad span event {}", x),
            };
    }
    se
}

// ------------------------------------------------------------------------------------------------
// running a case

fn parent_of(j: &J, stack: &[tracing::span::EnteredSpan]) -> Parent {
    match j.as_i64() {
        None => Parent::Contextual,
        Some(i) if i < 0 => Parent::Root,
        Some(i) => match stack.get(i as usize).and_then(|s| s.id()) {
            Some(id) => Parent::Explicit(id),
            None => Parent::Root,
        },
    }
}

fn run_program(
    t: usize,
    prog: &[J],
    callsites: &[&'static Metadata<'static>],
    direct: &BoxMakeWriter,
    barrier: &Barrier,
    caught: &Mutex<Vec<J>>,
    races: &Mutex<Vec<J>>,
    reconf: &Option<Reconf>,
    mkw: &(dyn Fn() -> BoxMakeWriter + Send + Sync),
) {
    let mut stack: Vec<tracing::span::EnteredSpan> = Vec::new();
    for (k, op) in prog.iter().enumerate() {
        match op["op"].as_str().unwrap() {
            "enter" => {
                let meta = callsites[op["cs"].as_u64().unwrap() as usize];
                let vals: Vec<Val> = op["vals"].as_array().unwrap().iter().map(|x| val(x, callsites)).collect();
                let p = parent_of(&op["parent"], &stack);
                let span = make_span(meta, &vals, &p);
                stack.push(span.entered());
            }
            "exit" => {
                // (a span whose extensions lock was poisoned must still be exitable: a panic here is reported)
                let r = catch_unwind(AssertUnwindSafe(|| {
                    stack.pop();
                }));
                if r.is_err() {
                    caught.lock().unwrap().push(json!([t, k, "exit"]));
                }
            }
            "record" => {
                if let Some(top) = stack.last() {
                    let v = val(&op["v"], callsites);
                    let b = to_value(&v);
                    if let Some(b) = b.as_deref() {
                        // the value's Debug impl may panic ({"panic":..}): the caller catches it, as around an event
                        let r = catch_unwind(AssertUnwindSafe(|| top.record(op["f"].as_str().unwrap(), b)));
                        if r.is_err() {
                            caught.lock().unwrap().push(json!([t, k, "record"]));
                        }
                    };
                }
            }
            "event" => {
                let meta = callsites[op["cs"].as_u64().unwrap() as usize];
                let vals: Vec<Val> = op["vals"].as_array().unwrap().iter().map(|x| val(x, callsites)).collect();
                let p = parent_of(&op["parent"], &stack);
                let r = catch_unwind(AssertUnwindSafe(|| emit_event(meta, &vals, &p)));
                if r.is_err() {
                    caught.lock().unwrap().push(json!([t, k]));
                }
            }
            "direct" => {
                let text = op["text"].as_str().unwrap();
                let method = op["method"].as_str().unwrap_or("write_all");
                let r = catch_unwind(AssertUnwindSafe(|| {
                    let mut w = direct.make_writer();
                    match method {
                        "write_all" => {
                            let _ = w.write_all(text.as_bytes());
                        }
                        "write" => {
                            let _ = w.write(text.as_bytes());
                        }
                        "write_vectored" => {
                            let _ = w.write_vectored(&[io::IoSlice::new(text.as_bytes())]);
                        }
                        "write_fmt" => {
                            let _ = w.write_fmt(format_args!("{}", text));
                        }
                        "flush" => {
                            let _ = w.flush();
                        }
                        x => panic!("bad method {}", x),
                    }
                }));
                if r.is_err() {
                    caught.lock().unwrap().push(json!([t, k]));
                }
            }
            "race" => {
                if let Some(top) = stack.last() {
                    let span: tracing::Span = (**top).clone();
                    let ctl = Arc::new(RaceCtl {
                        begun_a: (Mutex::new(false), std::sync::Condvar::new()),
                        entered_b: (Mutex::new(false), std::sync::Condvar::new()),
                        done_a: (Mutex::new(false), std::sync::Condvar::new()),
                        wait: std::time::Duration::from_millis(op["wait_ms"].as_u64().unwrap_or(300)),
                        overlap: std::sync::atomic::AtomicBool::new(false),
                        timed_out: std::sync::atomic::AtomicBool::new(false),
                    });
                    let (sa, sb) = (span.clone(), span.clone());
                    let (ca, cb) = (ctl.clone(), ctl.clone());
                    let (fa, va) = (op["a"]["f"].as_str().unwrap().to_string(), op["a"]["v"].as_str().unwrap().to_string());
                    let (fb, vb) = (op["b"]["f"].as_str().unwrap().to_string(), op["b"]["v"].as_str().unwrap().to_string());
                    let ha = std::thread::spawn(move || {
                        let g = Gate { text: va, ctl: ca.clone(), first: true, once: std::sync::atomic::AtomicBool::new(false) };
                        sa.record(fa.as_str(), field::debug(&g));
                        flag_set(&ca.done_a);
                        flag_set(&ca.begun_a);
                    });
                    let hb = std::thread::spawn(move || {
                        let _ = flag_wait(&cb.begun_a, std::time::Duration::from_secs(30));
                        let g = Gate { text: vb, ctl: cb.clone(), first: false, once: std::sync::atomic::AtomicBool::new(false) };
                        sb.record(fb.as_str(), field::debug(&g));
                    });
                    let (ra, rb) = (ha.join(), hb.join());
                    if ra.is_err() || rb.is_err() {
                        panic!("a racing record call panicked");
                    }
                    races.lock().unwrap().push(json!([ctl.overlap.load(Ordering::SeqCst), ctl.timed_out.load(Ordering::SeqCst)]));
                }
            }
            "sync" => {
                barrier.wait();
            }
            "reconf" => {
                // the documented run-time reconfiguration of a fmt subscriber behind reload::Subscriber
                let rc = reconf.as_ref().expect("reconf op in a case that is not reloadable");
                let se = span_mask(&op["se"]);
                match op["how"].as_str().unwrap_or("modify") {
                    "modify" => rc(se, None),
                    "reload" => rc(se, Some(mkw())),
                    x => panic!("bad reconf how {}", x),
                }
            }
            x => panic!("bad op {}", x),
        }
    }
    while stack.pop().is_some() {}
}

fn run_case(case: &J) -> J {
    let nsinks = case["nsinks"].as_u64().unwrap() as usize;
    let log = Log(Arc::new(Mutex::new(Vec::new())));
    let wctr = Arc::new(AtomicUsize::new(0));
    let sinks: Vec<RecSink> = (0..nsinks).map(|id| RecSink { id, log: log.clone(), wctr: wctr.clone() }).collect();
    let o = &case["opts"];
    let b = |k: &str| o[k].as_bool().unwrap_or(false);
    let se = span_mask(&o["span_events"]);
    let opts = Opts {
        ansi: b("ansi"),
        target: b("target"),
        level: b("level"),
        tid: b("tid"),
        tname: b("tname"),
        file: b("file"),
        line: b("line"),
        timer: b("timer"),
        lie: b("lie"),
        span_events: se,
    };
    let kinds: Vec<String> = case["sink_kinds"].as_array().map(|a| a.iter().map(|k| k.as_str().unwrap().to_string()).collect()).unwrap_or_default();
    let writer = build(&case["writer"], &sinks, &kinds);
    let direct = Arc::new(build(&case["writer"], &sinks, &kinds));
    let faults: Vec<HashMap<usize, Vec<Resp>>> = case["faults"]
        .as_array()
        .map(|a| {
            a.iter()
                .map(|th| {
                    th.as_object()
                        .map(|o| o.iter().map(|(k, v)| (k.parse().expect("make index"), v.as_array().unwrap().iter().map(resp).collect())).collect())
                        .unwrap_or_default()
                })
                .collect()
        })
        .unwrap_or_default();
    let faults = Arc::new(faults);
    let tfaults: Vec<HashMap<usize, String>> = case["timer_faults"]
        .as_array()
        .map(|a| a.iter().map(|th| th.as_object().map(|o| o.iter().map(|(k, v)| (k.parse().expect("call index"), v.as_str().unwrap().to_string())).collect()).unwrap_or_default()).collect())
        .unwrap_or_default();
    let tfaults = Arc::new(tfaults);
    let (lay, reconf) = layer(case["format"].as_str().unwrap(), &opts, writer, case["reloadable"].as_bool().unwrap_or(false));
    let reconf = Arc::new(reconf);
    let mkw: Arc<dyn Fn() -> BoxMakeWriter + Send + Sync> = {
        let (wj, sinks, kinds) = (case["writer"].clone(), sinks.clone(), kinds.clone());
        Arc::new(move || build(&wj, &sinks, &kinds))
    };
    let dispatch = Dispatch::new(Registry::default().with(lay));
    let callsites: Arc<Vec<&'static Metadata<'static>>> = Arc::new(case["callsites"].as_array().unwrap().iter().map(mk_callsite).collect());
    let global = case["global"].as_bool().unwrap_or(false);
    if global {
        tracing_core::dispatch::set_global_default(dispatch.clone()).expect("global default already set: run one global case per process");
        GLOBAL.store(1, Ordering::SeqCst);
    }
    let threads = case["threads"].as_array().unwrap().clone();
    let n = threads.len();
    let barrier = Arc::new(Barrier::new(n));
    let caught = Arc::new(Mutex::new(Vec::new()));
    let races = Arc::new(Mutex::new(Vec::new()));
    let tids = Arc::new(Mutex::new(vec![String::new(); n]));
    // Full / Compact print `{:0>2?}` (the padding reaches the number inside: ThreadId(02)), Pretty prints `{:?}`
    let tids_plain = Arc::new(Mutex::new(vec![String::new(); n]));
    let mut handles = Vec::new();
    for (t, prog) in threads.into_iter().enumerate() {
        let (dispatch, callsites, direct, barrier, caught, tids, faults, tids_plain) =
            (dispatch.clone(), callsites.clone(), direct.clone(), barrier.clone(), caught.clone(), tids.clone(), faults.clone(), tids_plain.clone());
        let races = races.clone();
        let tfaults = tfaults.clone();
        let (reconf, mkw) = (reconf.clone(), mkw.clone());
        // fixed-width names: FmtThreadName pads to the longest name seen by the process
        let h = std::thread::Builder::new()
            .name(format!("wk{:02}", t))
            .spawn(move || {
                TIDX.with(|c| c.set(t as i64));
                MKCTR.with(|c| c.set(0));
                TCTR.with(|c| c.set(0));
                TFAIL.with(|f| *f.borrow_mut() = tfaults.get(t).cloned().unwrap_or_default());
                PLAN.with(|p| *p.borrow_mut() = faults.get(t).cloned().unwrap_or_default());
                tids.lock().unwrap()[t] = format!("{:0>2?}", std::thread::current().id());
                tids_plain.lock().unwrap()[t] = format!("{:?}", std::thread::current().id());
                let prog = prog.as_array().unwrap().clone();
                barrier.wait();
                if global {
                    run_program(t, &prog, &callsites, &direct, &barrier, &caught, &races, &reconf, &*mkw);
                } else {
                    CUR.with(|c| *c.borrow_mut() = Some(dispatch.clone()));
                    tracing_core::dispatch::with_default(&dispatch, || run_program(t, &prog, &callsites, &direct, &barrier, &caught, &races, &reconf, &*mkw));
                    CUR.with(|c| *c.borrow_mut() = None);
                }
            })
            .unwrap();
        handles.push(h);
    }
    let mut thread_panics = Vec::new();
    for (t, h) in handles.into_iter().enumerate() {
        if h.join().is_err() {
            thread_panics.push(t);
        }
    }
    let entries = log.0.lock().unwrap_or_else(|p| p.into_inner()).clone();
    let tids = tids.lock().unwrap().clone();
    let tids_plain = tids_plain.lock().unwrap().clone();
    let caught = caught.lock().unwrap().clone();
    let races = races.lock().unwrap().clone();
    json!({"races": races, "id": case["id"], "tids": tids, "tids_plain": tids_plain, "log": entries, "caught": caught, "thread_panics": thread_panics})
}

fn main() {
    std::panic::set_hook(Box::new(|_| {}));
    let args: Vec<String> = std::env::args().collect();
    let input: Box<dyn BufRead> = if args.len() > 1 {
        Box::new(io::BufReader::new(std::fs::File::open(&args[1]).expect("case file")))
    } else {
        Box::new(io::BufReader::new(io::stdin()))
    };
    // `TestWriter` leaves print to stdout through `print!`: never hold the stdout lock; every line of the
    // harness itself starts with "@@C13 " and is flushed before the next case starts.
    let emit = |j: J| {
        let mut so = io::stdout().lock();
        writeln!(so, "\n@@C13 {}", j).unwrap();
        so.flush().unwrap();
    };
    for line in input.lines() {
        let line = line.unwrap();
        if line.trim().is_empty() {
            continue;
        }
        let case: J = match serde_json::from_str(&line) {
            Ok(c) => c,
            Err(e) => {
                emit(json!({"id": J::Null, "fatal": format!("bad case json: {}", e)}));
                continue;
            }
        };
        let id = case["id"].clone();
        let r = catch_unwind(AssertUnwindSafe(|| run_case(&case)));
        match r {
            Ok(j) => emit(j),
            Err(p) => {
                let msg = p.downcast_ref::<String>().cloned().or_else(|| p.downcast_ref::<&str>().map(|s| s.to_string())).unwrap_or_default();
                emit(json!({"id": id, "fatal": msg}))
            }
        }
    }
}
