//! C07 harness: builds an arbitrary layer stack over the real `Registry` at run time (everything boxed),
//! drives it through the real `event!` / `span!` / `enabled!` macros from a static callsite pool, and
//! prints what every recording layer saw (with `ctx.lookup_current()`, the scope and the parent seen
//! inside the callback), every evaluation of a per-layer filter, and every call that reached the
//! outermost collector.  One process per case: the callsite interest cache is process-global.
//!
//! stdin: one JSON case {"stack":[layer,..] (innermost `with` first), "ops":[[code,arg],..]}; with "stack2" a second
//! stack lives on a second thread and the ops are [code,arg,thread], handed out one at a time by the main thread.
//! stdout: JSON lines.
use std::collections::HashMap;
use std::io::Read;
use std::sync::{Arc, Mutex};

use serde_json::{json, Value};
use tracing_core::{span, Collect, Dispatch, Event, Interest, LevelFilter, Metadata};
use tracing_subscriber::filter::{self, FilterExt, Targets};
use tracing_subscriber::registry::{LookupSpan, Registry};
use tracing_subscriber::subscribe::{CollectExt, Context, Filter, Layered, Subscribe};

// ------------------------------------------------------------------------------------------------
// the callsite pool: 5 levels x 3 targets, as events, spans and enabled! probes (45 static callsites)

macro_rules! pool {
    ($( $idx:literal, $tgt:literal, $lvl:ident );* $(;)?) => {
        fn emit_event(i: usize) {
            match i { $( $idx => { tracing::event!(target: $tgt, tracing::Level::$lvl, "e"); } )* _ => panic!("bad event callsite") }
        }
        fn make_span(i: usize) -> tracing::Span {
            match i { $( $idx => tracing::span!(target: $tgt, tracing::Level::$lvl, "s", f = tracing::field::Empty), )* _ => panic!("bad span callsite") }
        }
        fn probe(i: usize) -> bool {
            match i { $( $idx => tracing::enabled!(target: $tgt, tracing::Level::$lvl), )* _ => panic!("bad probe callsite") }
        }
    }
}
pool! {
    0, "app", ERROR; 1, "other", ERROR; 2, "db", ERROR;
    3, "app", WARN; 4, "other", WARN; 5, "db", WARN;
    6, "app", INFO; 7, "other", INFO; 8, "db", INFO;
    9, "app", DEBUG; 10, "other", DEBUG; 11, "db", DEBUG;
    12, "app", TRACE; 13, "other", TRACE; 14, "db", TRACE;
}

fn cs_of(m: &Metadata<'_>) -> usize {
    let k = if m.is_event() { 0 } else if m.is_span() { 1 } else { 2 };
    let l = match *m.level() {
        tracing::Level::ERROR => 0,
        tracing::Level::WARN => 1,
        tracing::Level::INFO => 2,
        tracing::Level::DEBUG => 3,
        tracing::Level::TRACE => 4,
    };
    let t = match m.target() {
        "app" => 0,
        "other" => 1,
        "db" => 2,
        _ => return 9999,
    };
    k * 15 + l * 3 + t
}
const TARGETS: [&str; 3] = ["app", "other", "db"];
fn level_filter(n: u64) -> LevelFilter {
    match n {
        0 => LevelFilter::OFF,
        1 => LevelFilter::ERROR,
        2 => LevelFilter::WARN,
        3 => LevelFilter::INFO,
        4 => LevelFilter::DEBUG,
        _ => LevelFilter::TRACE,
    }
}
fn level_num(l: LevelFilter) -> u64 {
    if l == LevelFilter::OFF { 0 } else if l == LevelFilter::ERROR { 1 } else if l == LevelFilter::WARN { 2 }
    else if l == LevelFilter::INFO { 3 } else if l == LevelFilter::DEBUG { 4 } else { 5 }
}

// ------------------------------------------------------------------------------------------------
// the shared observation log

#[derive(Default)]
struct Shared {
    lines: Vec<Value>,
    ids: HashMap<u64, u64>, // real span id -> creation order (1-based), while the span is alive
    next: u64,
}
type Log = Arc<Mutex<Shared>>;
fn push(log: &Log, v: Value) {
    log.lock().unwrap_or_else(|e| e.into_inner()).lines.push(v);
}
fn canon(log: &Log, id: &span::Id) -> u64 {
    let mut g = log.lock().unwrap_or_else(|e| e.into_inner());
    let raw = id.into_u64();
    if let Some(v) = g.ids.get(&raw) {
        return *v;
    }
    g.next += 1;
    let n = g.next;
    g.ids.insert(raw, n);
    n
}
fn forget(log: &Log, id: &span::Id) {
    log.lock().unwrap_or_else(|e| e.into_inner()).ids.remove(&id.into_u64());
}

// ------------------------------------------------------------------------------------------------
// recording leaf

struct RecL {
    name: u64,
    veto: Vec<usize>,
    log: Log,
}
impl RecL {
    fn note<C>(&self, w: &str, x: u64, span: Option<&span::Id>, ev: Option<&Event<'_>>, ctx: &Context<'_, C>)
    where
        C: Collect + for<'a> LookupSpan<'a>,
    {
        let cur = ctx.lookup_current().map(|s| canon(&self.log, &s.id()));
        // the scope of the event / of the span this callback is about; from every span the scope yields we also
        // navigate on: its .parent() and its own .scope()
        let mut scope: Vec<u64> = Vec::new();
        let mut nav: Vec<Value> = Vec::new();
        let par: Option<u64>;
        // climbing on from the span the callback is about (the event's span): .parent() repeatedly up to the root,
        // .parent().map(|p| p.scope()), and the scope from the root
        let mut pch: Vec<u64> = Vec::new();
        let mut psc: Vec<u64> = Vec::new();
        let mut root: Vec<u64> = Vec::new();
        let start = if let Some(ev) = ev { ctx.event_span(ev) } else { ctx.span(span.unwrap()) };
        if let Some(s) = start.as_ref() {
            let mut p = s.parent();
            if let Some(p0) = p.as_ref() {
                psc = p0.scope().map(|x| canon(&self.log, &x.id())).collect();
            }
            while let Some(q) = p {
                pch.push(canon(&self.log, &q.id()));
                p = q.parent();
            }
        }
        let sc = if let Some(ev) = ev {
            par = start.as_ref().and_then(|s| s.parent()).map(|p| canon(&self.log, &p.id()));
            if let Some(sc2) = ctx.event_scope(ev) {
                root = sc2.from_root().map(|x| canon(&self.log, &x.id())).collect();
            }
            ctx.event_scope(ev)
        } else {
            let id = span.unwrap();
            par = start.as_ref().and_then(|s| s.parent()).map(|p| canon(&self.log, &p.id()));
            if let Some(sc2) = ctx.span_scope(id) {
                root = sc2.from_root().map(|x| canon(&self.log, &x.id())).collect();
            }
            ctx.span_scope(id)
        };
        if let Some(sc) = sc {
            for r in sc {
                scope.push(canon(&self.log, &r.id()));
                let p = r.parent().map(|p| canon(&self.log, &p.id()));
                let s2: Vec<u64> = r.scope().map(|x| canon(&self.log, &x.id())).collect();
                nav.push(json!([p, s2]));
            }
        }
        push(&self.log, json!({"d": self.name, "w": w, "x": x, "cur": cur, "scope": scope, "par": par, "nav": nav, "pch": pch, "psc": psc, "root": root}));
    }
}
impl<C> Subscribe<C> for RecL
where
    C: Collect + for<'a> LookupSpan<'a>,
{
    fn event_enabled(&self, event: &Event<'_>, _ctx: Context<'_, C>) -> bool {
        !self.veto.contains(&cs_of(event.metadata()))
    }
    fn on_event(&self, event: &Event<'_>, ctx: Context<'_, C>) {
        self.note("E", cs_of(event.metadata()) as u64, None, Some(event), &ctx);
    }
    fn on_new_span(&self, _attrs: &span::Attributes<'_>, id: &span::Id, ctx: Context<'_, C>) {
        let x = canon(&self.log, id);
        self.note("S", x, Some(id), None, &ctx);
    }
    fn on_enter(&self, id: &span::Id, ctx: Context<'_, C>) {
        let x = canon(&self.log, id);
        self.note("N", x, Some(id), None, &ctx);
    }
    fn on_exit(&self, id: &span::Id, ctx: Context<'_, C>) {
        let x = canon(&self.log, id);
        self.note("X", x, Some(id), None, &ctx);
    }
    fn on_record(&self, id: &span::Id, _values: &span::Record<'_>, ctx: Context<'_, C>) {
        let x = canon(&self.log, id);
        self.note("R", x, Some(id), None, &ctx);
    }
    fn on_close(&self, id: span::Id, ctx: Context<'_, C>) {
        let x = canon(&self.log, &id);
        self.note("C", x, Some(&id), None, &ctx);
    }
}

// ------------------------------------------------------------------------------------------------
// filters

type BF<C> = Box<dyn Filter<C> + Send + Sync + 'static>;

/// Sits at the root of every per-layer filter expression: logs each `enabled` evaluation, forwards the rest.
struct LogFilter<C> {
    tag: u64,
    inner: BF<C>,
    log: Log,
}
impl<C> Filter<C> for LogFilter<C> {
    fn enabled(&self, meta: &Metadata<'_>, cx: &Context<'_, C>) -> bool {
        let r = self.inner.enabled(meta, cx);
        push(&self.log, json!({"fe": self.tag, "r": r}));
        r
    }
    fn callsite_enabled(&self, meta: &'static Metadata<'static>) -> Interest {
        self.inner.callsite_enabled(meta)
    }
    fn max_level_hint(&self) -> Option<LevelFilter> {
        self.inner.max_level_hint()
    }
    fn event_enabled(&self, event: &Event<'_>, cx: &Context<'_, C>) -> bool {
        self.inner.event_enabled(event, cx)
    }
    fn on_new_span(&self, attrs: &span::Attributes<'_>, id: &span::Id, ctx: Context<'_, C>) {
        self.inner.on_new_span(attrs, id, ctx)
    }
    fn on_record(&self, id: &span::Id, values: &span::Record<'_>, ctx: Context<'_, C>) {
        self.inner.on_record(id, values, ctx)
    }
    fn on_enter(&self, id: &span::Id, ctx: Context<'_, C>) {
        self.inner.on_enter(id, ctx)
    }
    fn on_exit(&self, id: &span::Id, ctx: Context<'_, C>) {
        self.inner.on_exit(id, ctx)
    }
    fn on_close(&self, id: span::Id, ctx: Context<'_, C>) {
        self.inner.on_close(id, ctx)
    }
}

fn nums(v: &Value) -> Vec<usize> {
    v.as_array().map(|a| a.iter().map(|x| x.as_u64().unwrap() as usize).collect()).unwrap_or_default()
}
fn targets_of(v: &Value) -> Targets {
    let mut t = Targets::new();
    for e in v["tbl"].as_array().unwrap() {
        t = t.with_target(TARGETS[e[0].as_u64().unwrap() as usize], level_filter(e[1].as_u64().unwrap()));
    }
    if let Some(d) = v["d"].as_u64() {
        t = t.with_default(level_filter(d));
    }
    t
}

fn build_filter<C>(v: &Value) -> BF<C>
where
    C: Collect + for<'a> LookupSpan<'a> + Send + Sync + 'static,
{
    match v["t"].as_str().unwrap() {
        "level" => Box::new(level_filter(v["l"].as_u64().unwrap())),
        "targets" => Box::new(targets_of(v)),
        "fn" => {
            let set = nums(&v["cs"]);
            Box::new(filter::filter_fn(move |m| set.contains(&cs_of(m))))
        }
        "dyn" => {
            // context-dependent closure: looks at the metadata and at cx.lookup_current()
            let allow = nums(&v["allow"]);
            let set = nums(&v["cs"]);
            Box::new(filter::dynamic_filter_fn(move |m: &Metadata<'_>, cx: &Context<'_, C>| {
                let code = match cx.lookup_current() {
                    None => 0,
                    Some(s) => cs_of(s.metadata()) + 1,
                };
                allow.contains(&code) || set.contains(&cs_of(m))
            }))
        }
        "env" => {
            // an EnvFilter: static directives `target=level` (+ default level) and span directives `target[s]=level`
            // (every pool span is named `s`): stateful - it learns the span callsites in callsite_enabled
            let lvl = |n: u64| ["off", "error", "warn", "info", "debug", "trace"][n.min(5) as usize];
            let mut parts: Vec<String> = Vec::new();
            if let Some(d) = v["d"].as_u64() {
                parts.push(lvl(d).to_string());
            }
            for e in v["st"].as_array().unwrap() {
                parts.push(format!("{}={}", TARGETS[e[0].as_u64().unwrap() as usize], lvl(e[1].as_u64().unwrap())));
            }
            for e in v["dy"].as_array().unwrap() {
                parts.push(format!("{}[s]={}", TARGETS[e[0].as_u64().unwrap() as usize], lvl(e[1].as_u64().unwrap())));
            }
            Box::new(tracing_subscriber::filter::EnvFilter::new(parts.join(",")))
        }
        "all" => Box::new(None::<BF<C>>),
        "and" => Box::new(build_filter::<C>(&v["a"]).and(build_filter::<C>(&v["b"]))),
        "or" => Box::new(build_filter::<C>(&v["a"]).or(build_filter::<C>(&v["b"]))),
        "not" => Box::new(build_filter::<C>(&v["a"]).not()),
        "box" => Box::new(build_filter::<C>(&v["a"])),
        other => panic!("unknown filter {}", other),
    }
}

// ------------------------------------------------------------------------------------------------
// layers

type BL<C> = Box<dyn Subscribe<C> + Send + Sync + 'static>;

fn build_layer<C>(v: &Value, log: &Log) -> BL<C>
where
    C: Collect + for<'a> LookupSpan<'a> + Send + Sync + 'static,
{
    match v["t"].as_str().unwrap() {
        "rec" => Box::new(RecL { name: v["n"].as_u64().unwrap(), veto: nums(&v["veto"]), log: log.clone() }),
        "glob" => {
            let f = &v["f"];
            match f["t"].as_str().unwrap() {
                "level" => Box::new(level_filter(f["l"].as_u64().unwrap())),
                "targets" => Box::new(targets_of(f)),
                "fn" => {
                    let set = nums(&f["cs"]);
                    Box::new(filter::filter_fn(move |m| set.contains(&cs_of(m))))
                }
                other => panic!("unknown global filter {}", other),
            }
        }
        "filt" => {
            let inner = build_layer::<C>(&v["l"], log);
            let f = LogFilter { tag: v["k"].as_u64().unwrap(), inner: build_filter::<C>(&v["f"]), log: log.clone() };
            Box::new(inner.with_filter(f))
        }
        "pair" => {
            let outer = build_layer::<C>(&v["o"], log);
            let inner = build_layer::<C>(&v["i"], log);
            Box::new(inner.and_then(outer))
        }
        "opt" => {
            let o: Option<BL<C>> = if v["l"].is_null() { None } else { Some(build_layer::<C>(&v["l"], log)) };
            Box::new(o)
        }
        "vec" => {
            let ls: Vec<BL<C>> = v["ls"].as_array().unwrap().iter().map(|x| build_layer::<C>(x, log)).collect();
            Box::new(ls)
        }
        "box" => Box::new(build_layer::<C>(&v["l"], log)),
        other => panic!("unknown layer {}", other),
    }
}

// ------------------------------------------------------------------------------------------------
// a transparent collector around the finished stack: records the calls the macros / the dispatcher make

struct Spy<C> {
    inner: C,
    log: Log,
}
impl<C: Collect> Collect for Spy<C> {
    fn on_register_dispatch(&self, d: &Dispatch) {
        self.inner.on_register_dispatch(d)
    }
    fn register_callsite(&self, m: &'static Metadata<'static>) -> Interest {
        let i = self.inner.register_callsite(m);
        let n = if i.is_never() { 0 } else if i.is_sometimes() { 1 } else { 2 };
        push(&self.log, json!({"call": "reg", "cs": cs_of(m), "i": n}));
        i
    }
    fn enabled(&self, m: &Metadata<'_>) -> bool {
        let r = self.inner.enabled(m);
        push(&self.log, json!({"call": "en", "cs": cs_of(m), "r": r}));
        r
    }
    fn max_level_hint(&self) -> Option<LevelFilter> {
        self.inner.max_level_hint()
    }
    fn new_span(&self, a: &span::Attributes<'_>) -> span::Id {
        let id = self.inner.new_span(a);
        let x = canon(&self.log, &id);
        push(&self.log, json!({"call": "ns", "cs": cs_of(a.metadata()), "id": x}));
        id
    }
    fn record(&self, s: &span::Id, v: &span::Record<'_>) {
        self.inner.record(s, v)
    }
    fn record_follows_from(&self, s: &span::Id, f: &span::Id) {
        self.inner.record_follows_from(s, f)
    }
    fn event_enabled(&self, e: &Event<'_>) -> bool {
        let r = self.inner.event_enabled(e);
        push(&self.log, json!({"call": "ee", "cs": cs_of(e.metadata()), "r": r}));
        r
    }
    fn event(&self, e: &Event<'_>) {
        push(&self.log, json!({"call": "ev", "cs": cs_of(e.metadata())}));
        self.inner.event(e)
    }
    fn enter(&self, s: &span::Id) {
        self.inner.enter(s)
    }
    fn exit(&self, s: &span::Id) {
        self.inner.exit(s)
    }
    fn clone_span(&self, id: &span::Id) -> span::Id {
        self.inner.clone_span(id)
    }
    fn try_close(&self, id: span::Id) -> bool {
        let x = canon(&self.log, &id);
        let r = self.inner.try_close(id.clone());
        if r {
            push(&self.log, json!({"call": "close", "id": x}));
            forget(&self.log, &id);
        }
        r
    }
    fn current_span(&self) -> span::Current {
        self.inner.current_span()
    }
    unsafe fn downcast_raw(&self, id: std::any::TypeId) -> Option<std::ptr::NonNull<()>> {
        if id == std::any::TypeId::of::<Self>() {
            Some(std::ptr::NonNull::from(self).cast())
        } else {
            self.inner.downcast_raw(id)
        }
    }
}

fn dispatch_for(stack: &[Value], log: &Log) -> Dispatch {
    type C0 = Registry;
    type C1 = Layered<BL<C0>, C0>;
    type C2 = Layered<BL<C1>, C1>;
    type C3 = Layered<BL<C2>, C2>;
    type C4 = Layered<BL<C3>, C3>;
    let l = log.clone();
    match stack.len() {
        0 => Dispatch::new(Spy { inner: Registry::default(), log: l }),
        1 => Dispatch::new(Spy { inner: Registry::default().with(build_layer::<C0>(&stack[0], log)), log: l }),
        2 => Dispatch::new(Spy {
            inner: Registry::default().with(build_layer::<C0>(&stack[0], log)).with(build_layer::<C1>(&stack[1], log)),
            log: l,
        }),
        3 => Dispatch::new(Spy {
            inner: Registry::default()
                .with(build_layer::<C0>(&stack[0], log))
                .with(build_layer::<C1>(&stack[1], log))
                .with(build_layer::<C2>(&stack[2], log)),
            log: l,
        }),
        4 => Dispatch::new(Spy {
            inner: Registry::default()
                .with(build_layer::<C0>(&stack[0], log))
                .with(build_layer::<C1>(&stack[1], log))
                .with(build_layer::<C2>(&stack[2], log))
                .with(build_layer::<C3>(&stack[3], log)),
            log: l,
        }),
        5 => Dispatch::new(Spy {
            inner: Registry::default()
                .with(build_layer::<C0>(&stack[0], log))
                .with(build_layer::<C1>(&stack[1], log))
                .with(build_layer::<C2>(&stack[2], log))
                .with(build_layer::<C3>(&stack[3], log))
                .with(build_layer::<C4>(&stack[4], log)),
            log: l,
        }),
        n => panic!("stack depth {} not supported", n),
    }
}

/// one operation on the current thread (whose default dispatcher is the stack under test)
fn exec_op(code: &str, arg: usize, handles: &mut Vec<Option<tracing::Span>>, log: &Log) {
    match code {
        "E" => emit_event(arg),
        "S" => {
            let s = make_span(arg - 15);
            handles.push(if s.is_none() { None } else { Some(s) });
        }
        "N" => {
            if let Some(Some(s)) = handles.get(arg) {
                s.with_collector(|(id, d)| d.enter(id));
            }
        }
        "X" => {
            if let Some(Some(s)) = handles.get(arg) {
                s.with_collector(|(id, d)| d.exit(id));
            }
        }
        "R" => {
            if let Some(Some(s)) = handles.get(arg) {
                s.record("f", 1u64);
            }
        }
        "D" => {
            if let Some(h) = handles.get_mut(arg) {
                *h = None;
            }
        }
        "P" => {
            let r = probe(arg - 30);
            push(log, json!({"res": r}));
        }
        other => panic!("unknown op {}", other),
    }
}

fn take_lines(log: &Log) -> Vec<Value> {
    std::mem::take(&mut log.lock().unwrap_or_else(|e| e.into_inner()).lines)
}

/// two stacks live on two threads; the main thread hands the operations out one at a time, so the
/// interleaving is the one the case prescribes.  ops: [code, arg, thread].
fn run_two(case: &Value) {
    let logs: [Log; 2] = [Arc::new(Mutex::new(Shared::default())), Arc::new(Mutex::new(Shared::default()))];
    let stacks = [case["stack"].as_array().unwrap().clone(), case["stack2"].as_array().unwrap().clone()];
    let built = std::panic::catch_unwind(std::panic::AssertUnwindSafe(|| {
        [dispatch_for(&stacks[0], &logs[0]), dispatch_for(&stacks[1], &logs[1])]
    }));
    let dispatches = match built {
        Ok(d) => d,
        Err(e) => {
            println!("{}", json!({"build_panic": panic_msg(&e)}));
            std::process::exit(0);
        }
    };
    println!("{}", json!({"hint": level_num(LevelFilter::current())}));
    let ops = case["ops"].as_array().unwrap().clone();
    // worker threads: receive (code, arg), run it under their own default dispatcher, answer Ok / panic message
    let mut txs = Vec::new();
    let mut rxs = Vec::new();
    let mut joins = Vec::new();
    for t in 0..2 {
        let (tx, rx) = std::sync::mpsc::channel::<Option<(String, usize)>>();
        let (dtx, drx) = std::sync::mpsc::channel::<Result<(), String>>();
        let dispatch = dispatches[t].clone();
        let log = logs[t].clone();
        joins.push(std::thread::spawn(move || {
            tracing::dispatch::with_default(&dispatch, || {
                let mut handles: Vec<Option<tracing::Span>> = Vec::new();
                while let Ok(Some((code, arg))) = rx.recv() {
                    let r = std::panic::catch_unwind(std::panic::AssertUnwindSafe(|| exec_op(&code, arg, &mut handles, &log)));
                    let _ = dtx.send(r.map_err(|e| panic_msg(&e)));
                }
                // the handles die with the thread, under this thread's default dispatcher
            });
        }));
        txs.push(tx);
        rxs.push(drx);
    }
    let mut out: Vec<Value> = Vec::new();
    for (i, op) in ops.iter().enumerate() {
        let code = op[0].as_str().unwrap().to_string();
        let arg = op[1].as_u64().unwrap() as usize;
        let t = op[2].as_u64().unwrap() as usize;
        txs[t].send(Some((code, arg))).unwrap();
        let r = rxs[t].recv().unwrap();
        let own = take_lines(&logs[t]);
        let other = take_lines(&logs[1 - t]);
        out.push(json!({"op": i, "t": t, "obs": own, "other": other}));
        if let Err(msg) = r {
            out.push(json!({"panic": msg, "op": i}));
            break;
        }
    }
    for v in out {
        println!("{}", v);
    }
    use std::io::Write;
    std::io::stdout().flush().unwrap();
    std::process::exit(0);
}

fn main() {
    let mut input = String::new();
    std::io::stdin().read_to_string(&mut input).unwrap();
    let case: Value = serde_json::from_str(&input).expect("case json");
    std::panic::set_hook(Box::new(|_| {}));
    if case.get("stack2").is_some() {
        run_two(&case);
    }
    let log: Log = Arc::new(Mutex::new(Shared::default()));
    let stack = case["stack"].as_array().unwrap().clone();
    let built = std::panic::catch_unwind(std::panic::AssertUnwindSafe(|| dispatch_for(&stack, &log)));
    let dispatch = match built {
        Ok(d) => d,
        Err(e) => {
            println!("{}", json!({"build_panic": panic_msg(&e)}));
            std::process::exit(0);
        }
    };
    println!("{}", json!({"hint": level_num(LevelFilter::current())}));
    let ops = case["ops"].as_array().unwrap().clone();
    let mut handles: Vec<Option<tracing::Span>> = Vec::new();
    let mut out: Vec<Value> = Vec::new();
    tracing::dispatch::with_default(&dispatch, || {
        for (i, op) in ops.iter().enumerate() {
            let code = op[0].as_str().unwrap().to_string();
            let arg = op[1].as_u64().unwrap() as usize;
            let r = std::panic::catch_unwind(std::panic::AssertUnwindSafe(|| exec_op(&code, arg, &mut handles, &log)));
            let lines = take_lines(&log);
            out.push(json!({"op": i, "obs": lines}));
            if let Err(e) = r {
                out.push(json!({"panic": panic_msg(&e), "op": i}));
                break;
            }
        }
    });
    for v in out {
        println!("{}", v);
    }
    use std::io::Write;
    std::io::stdout().flush().unwrap();
    std::process::exit(0);
}

fn panic_msg(e: &Box<dyn std::any::Any + Send>) -> String {
    if let Some(s) = e.downcast_ref::<&str>() {
        s.to_string()
    } else if let Some(s) = e.downcast_ref::<String>() {
        s.clone()
    } else {
        "<non-string panic>".to_string()
    }
}
