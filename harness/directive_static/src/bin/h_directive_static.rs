//! C11 harness, the source of harness/directive compiled with `tracing`'s cargo feature `max_level_info`
//! (`{"k":"static_max"}` reports the cap the build really has).
#[path = "../../../directive/src/bin/h_directive.rs"]
mod hd;

fn main() {
    hd::main()
}
