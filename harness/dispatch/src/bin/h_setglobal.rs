//! C02 harness, schedule leg: forces interleavings of the micro-steps of RACING `set_global_default` calls on the
//! real tracing-core, using the H3 yield points 70 (before the compare-exchange), 71 (before `GLOBAL_DISPATCH = …`)
//! and 72 (before `GLOBAL_INIT.store(INITIALIZED)`) — hooks/H3_dispatch_global.patch, `--cfg tracing_verif`.
//!
//!   h_setglobal --probe          one unscheduled call; prints which of the yield ids 70..72 were hit (are the hooks there?)
//!   h_setglobal --one            read ONE case from stdin:   `threads N` / `sched t t t …`
//!   h_setglobal --batch FILE [J] many cases (`case <id>` header lines), one fresh process per case, J at a time
//!
//! Thread i (a real OS thread) calls `set_global_default(Dispatch::new(Rec { id: i }))` exactly once.  Every thread
//! first parks at yield point 70.  A schedule entry `t` releases thread t for ONE micro-step: it runs until it parks
//! at its next yield point or returns (Ok / Err); a thread that has returned ignores further turns — exactly
//! `Dispatch.Model.sg_step`.  After every turn the controller (which never parks) records
//!   g    what `get_default` hands a thread without scopes (0 = the no-op dispatcher, c+1 = collector c) = get_global()
//!   recv who receives an `event!` emitted by the controller right now
//!   pc   where thread t is parked (0 = at 70, 1 = at 71, 2 = at 72; unchanged once it has returned)
//!   res  per thread: 0 = still running, 1 = returned Ok, 2 = returned Err
//! One process per case (the global default can be set once per process).
use std::io::{Read, Write};
use std::sync::{Arc, Condvar, Mutex, OnceLock};
use std::time::{Duration, Instant};
use tracing_core::{
    collect::{Collect, Interest, NoCollector},
    dispatch::{self, Dispatch},
    span, Event, Metadata,
};

const WAIT: Duration = Duration::from_secs(20);
static RECV: Mutex<Vec<usize>> = Mutex::new(Vec::new());

struct Rec {
    id: usize,
}
impl Collect for Rec {
    fn register_callsite(&self, _: &'static Metadata<'static>) -> Interest {
        Interest::always()
    }
    fn enabled(&self, _: &Metadata<'_>) -> bool {
        true
    }
    fn new_span(&self, _: &span::Attributes<'_>) -> span::Id {
        span::Id::from_u64(1)
    }
    fn event(&self, _: &Event<'_>) {
        RECV.lock().unwrap().push(self.id);
    }
    fn record(&self, _: &span::Id, _: &span::Record<'_>) {}
    fn record_follows_from(&self, _: &span::Id, _: &span::Id) {}
    fn enter(&self, _: &span::Id) {}
    fn exit(&self, _: &span::Id) {}
    fn current_span(&self) -> span::Current {
        span::Current::none()
    }
}
fn ident(d: &Dispatch) -> i64 {
    if let Some(r) = d.downcast_ref::<Rec>() {
        r.id as i64 + 1
    } else if d.is::<NoCollector>() {
        0
    } else {
        -1
    }
}

#[derive(Clone, Copy, PartialEq, Debug)]
enum Status {
    Running,
    Parked(u32),
    Done(bool),
}
struct SchedState {
    free: bool,
    status: Vec<Status>,
    go: Vec<bool>,
    seen: Vec<u32>,
}
struct Sched {
    m: Mutex<SchedState>,
    cv: Condvar,
}
static SCHED: OnceLock<Sched> = OnceLock::new();
thread_local! { static TIDX: std::cell::Cell<usize> = const { std::cell::Cell::new(usize::MAX) }; }

fn yield_cb(id: u32) {
    if !(70..=72).contains(&id) {
        return;
    }
    let s = SCHED.get().unwrap();
    let mut g = s.m.lock().unwrap();
    g.seen.push(id);
    let t = TIDX.with(|x| x.get());
    if g.free || t == usize::MAX {
        return;
    }
    g.status[t] = Status::Parked(id);
    s.cv.notify_all();
    while !g.go[t] {
        g = s.cv.wait(g).unwrap();
    }
    g.go[t] = false;
    g.status[t] = Status::Running;
}

fn emit_once() -> Vec<usize> {
    RECV.lock().unwrap().clear();
    tracing::event!(target: "a", tracing::Level::INFO, "probe");
    RECV.lock().unwrap().drain(..).collect()
}

fn run_one(text: &str) {
    let mut n = 2usize;
    let mut sched: Vec<usize> = Vec::new();
    for line in text.lines() {
        let w: Vec<&str> = line.split_whitespace().collect();
        if w.is_empty() || w[0].starts_with('#') {
            continue;
        }
        match w[0] {
            "threads" => n = w[1].parse().expect("threads N"),
            "sched" => sched = w[1..].iter().map(|x| x.parse().expect("thread index")).collect(),
            other => panic!("unknown line {}", other),
        }
    }
    let _ = SCHED.set(Sched {
        m: Mutex::new(SchedState { free: true, status: vec![Status::Running; n], go: vec![false; n], seen: Vec::new() }),
        cv: Condvar::new(),
    });
    tracing_core::__verif::set_yield(Some(Box::new(yield_cb)));
    // quiescent set-up: the candidates (Dispatch::new registers them; no parking yet), one warm-up emission
    let cands: Vec<Dispatch> = (0..n).map(|i| Dispatch::new(Rec { id: i })).collect();
    let warm = emit_once();
    let s = SCHED.get().unwrap();
    s.m.lock().unwrap().free = false;
    for (i, d) in cands.into_iter().enumerate() {
        std::thread::Builder::new()
            .name(format!("T{}", i))
            .spawn(move || {
                TIDX.with(|x| x.set(i));
                let ok = dispatch::set_global_default(d).is_ok();
                let s = SCHED.get().unwrap();
                let mut g = s.m.lock().unwrap();
                g.status[i] = Status::Done(ok);
                s.cv.notify_all();
            })
            .expect("spawn");
    }
    let settle = |t: usize| -> Status {
        let deadline = Instant::now() + WAIT;
        let mut g = s.m.lock().unwrap();
        loop {
            match g.status[t] {
                Status::Running => {}
                st => return st,
            }
            let now = Instant::now();
            if now >= deadline {
                println!("{{\"hang\":{}}}", t);
                std::process::exit(3);
            }
            g = s.cv.wait_timeout(g, deadline - now).unwrap().0;
        }
    };
    let out = std::io::stdout();
    let mut out = out.lock();
    let mut pcs = vec![0u32; n];
    for t in 0..n {
        match settle(t) {
            Status::Parked(70) => {}
            st => {
                // no hook call sites: the call ran straight through
                writeln!(out, "{{\"nohooks\":1,\"t\":{},\"status\":\"{:?}\"}}", t, st).unwrap();
                out.flush().unwrap();
                std::process::exit(4);
            }
        }
    }
    writeln!(out, "{{\"warm\":{:?},\"g0\":{}}}", warm, dispatch::get_default(|d| ident(d))).unwrap();
    for (i, &t) in sched.iter().enumerate() {
        if t < n {
            let st = s.m.lock().unwrap().status[t];
            if let Status::Parked(_) = st {
                {
                    let mut g = s.m.lock().unwrap();
                    g.status[t] = Status::Running;
                    g.go[t] = true;
                    s.cv.notify_all();
                }
                match settle(t) {
                    Status::Parked(id) => pcs[t] = id - 70,
                    _ => {}
                }
            }
        }
        let g = dispatch::get_default(|d| ident(d));
        let recv = emit_once();
        let res: Vec<u8> = (0..n)
            .map(|u| match s.m.lock().unwrap().status[u] {
                Status::Done(true) => 1,
                Status::Done(false) => 2,
                _ => 0,
            })
            .collect();
        writeln!(out, "{{\"i\":{},\"t\":{},\"g\":{},\"recv\":{:?},\"pc\":{},\"res\":{:?}}}", i, t, g, recv, if t < n { pcs[t] } else { 0 }, res).unwrap();
    }
    out.flush().unwrap();
    // threads still parked are abandoned with the process
    std::process::exit(0);
}

fn probe() {
    let _ = SCHED.set(Sched { m: Mutex::new(SchedState { free: true, status: vec![], go: vec![], seen: Vec::new() }), cv: Condvar::new() });
    tracing_core::__verif::set_yield(Some(Box::new(yield_cb)));
    let d = Dispatch::new(Rec { id: 0 });
    let ok = dispatch::set_global_default(d).is_ok();
    let mut seen = SCHED.get().unwrap().m.lock().unwrap().seen.clone();
    seen.sort();
    seen.dedup();
    println!("{{\"ok\":{},\"seen\":{:?}}}", ok as u8, seen);
}

fn run_batch(path: &str, jobs: usize) {
    let text = std::fs::read_to_string(path).expect("read batch file");
    let mut cases: Vec<(String, String)> = Vec::new();
    for line in text.lines() {
        if let Some(id) = line.strip_prefix("case ") {
            cases.push((id.trim().to_string(), String::new()));
        } else if let Some(last) = cases.last_mut() {
            last.1.push_str(line);
            last.1.push('\n');
        }
    }
    let exe = std::env::current_exe().expect("current_exe");
    let queue = Arc::new(Mutex::new(cases.into_iter().rev().collect::<Vec<_>>()));
    let results = Arc::new(Mutex::new(Vec::<String>::new()));
    let mut ths = Vec::new();
    for _ in 0..jobs.max(1) {
        let queue = queue.clone();
        let results = results.clone();
        let exe = exe.clone();
        ths.push(std::thread::spawn(move || loop {
            let item = queue.lock().unwrap().pop();
            let (id, body) = match item {
                Some(x) => x,
                None => break,
            };
            let mut child = std::process::Command::new(&exe)
                .arg("--one")
                .stdin(std::process::Stdio::piped())
                .stdout(std::process::Stdio::piped())
                .stderr(std::process::Stdio::null())
                .spawn()
                .expect("spawn child");
            child.stdin.take().unwrap().write_all(body.as_bytes()).ok();
            let t0 = Instant::now();
            let mut rc: i64 = -9;
            loop {
                match child.try_wait() {
                    Ok(Some(st)) => {
                        rc = st.code().map(|c| c as i64).unwrap_or(-1);
                        break;
                    }
                    Ok(None) => {
                        if t0.elapsed().as_secs() > 90 {
                            let _ = child.kill();
                            let _ = child.wait();
                            break;
                        }
                        std::thread::sleep(Duration::from_millis(2));
                    }
                    Err(_) => break,
                }
            }
            let mut so = String::new();
            if let Some(mut o) = child.stdout.take() {
                let _ = o.read_to_string(&mut so);
            }
            let lines: Vec<&str> = so.lines().filter(|l| l.starts_with('{')).collect();
            results.lock().unwrap().push(format!("{{\"case\":\"{}\",\"rc\":{},\"out\":[{}]}}", id, rc, lines.join(",")));
        }));
    }
    for t in ths {
        t.join().unwrap();
    }
    let out = std::io::stdout();
    let mut out = out.lock();
    for r in results.lock().unwrap().iter() {
        writeln!(out, "{}", r).unwrap();
    }
}

fn main() {
    let args: Vec<String> = std::env::args().collect();
    match args.get(1).map(|s| s.as_str()) {
        Some("--probe") => probe(),
        Some("--one") => {
            let mut s = String::new();
            std::io::stdin().read_to_string(&mut s).unwrap();
            run_one(&s);
        }
        Some("--batch") => {
            let jobs = args.get(3).and_then(|s| s.parse().ok()).unwrap_or(8);
            run_batch(&args[2], jobs);
        }
        _ => {
            eprintln!("usage: h_setglobal --probe | --one | --batch FILE [JOBS]");
            std::process::exit(2);
        }
    }
}
