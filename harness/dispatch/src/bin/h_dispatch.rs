//! C01 / C02 harness: drives the REAL tracing / tracing-core on one history per process.
//!
//!   h_dispatch --pool            print the callsite pool (index, kind, level, target) as JSON lines
//!   h_dispatch --one             read ONE case from stdin, execute it, print one JSON object per op
//!   h_dispatch --batch FILE [J]  FILE holds many cases ("case <id>" header lines); every case is run in a
//!                                fresh child process (`--one`), J at a time; prints {"case":id,"rc":..,"out":[..]}
//!
//! Process-global state (callsite registry, MAX_LEVEL, global default, SCOPED_COUNT) is the reason for one
//! process per case.  Callsites are real `static`s: one macro expansion per pool entry inside `hit`, so the
//! first hit of a pool entry in a process is a real first hit (0xFF interest byte, registration).
//!
//! Case language (one item per line):
//!   col <thr 0..5> <targets e.g. 0,2 or -> <dyn 0 static|1 dynamic,off|2 dynamic,on> <hint 0 none | n+1>
//!       (a target index 100 in the list marks the collector as a `Dispatch::from_static` one: a zero-sized unit struct in a static)
//!   op new | drop <c> | open <t> <d 0=Dispatch::none, c+1> | close <t> <k> | setglobal <t> <c>
//!      | emit <t> <cs> | probe <t> <cs> | getdefault <t> [cs] | getcurrent <t> | rebuild | flip <c>
//!      | panic <t> <d,d,..>      (with_default nesting, observe the default innermost, panic, catch_unwind)
//!      | emitcb <t> <cs> <k> <cs2>   emit at cs; the callback (event / new_span) of the collector that receives it does:
//!                                    k = 0 nothing, 1 panic, 2 emit at cs2 from inside the callback then return, 3 emit at cs2 then
//!                                    panic.  The panic unwinds through tracing's dispatch code and is caught here (catch_unwind).
//!                                    `del` lists the outer delivery first, then what the nested emission delivered.
//!      | exit <t> <d> <cs>       thread t EXITS.  Two of its thread-locals (EARLY: registered when the thread started, before
//!                                its first use of tracing; LATE: registered now, after tracing-core's own CURRENT_STATE)
//!                                have destructors that do `with_default(&d, || emit cs)`.  Whatever order the platform
//!                                runs thread-local destructors in, exactly one of the two runs while CURRENT_STATE is
//!                                still alive (an ordinary scope) and the other after it is destroyed (every `try_with`
//!                                fails).  Before that the thread's remaining guards are dropped innermost-first.  The
//!                                controller joins the thread; a later op on <t> starts a fresh OS thread.
//!      | exitguard <t> <d>       thread t drops its remaining guards innermost-first, calls set_default(&d) and stores the
//!                                DefaultGuard in a thread-local that was registered when the thread started (before its first
//!                                use of tracing, hence destroyed AFTER tracing-core's CURRENT_STATE), then EXITS; joined.
//!      | tryinit <t>             (package harness/dispatch_init only) thread t: `SubscriberInitExt::try_init` of
//!                                tracing-subscriber on a fresh recording collector (the next `col` line) — the public wrapper
//!                                of set_global_default; prints its collector number and whether it returned Ok.
//! Threads are real OS threads, created at first use, driven one op at a time by the controller (main).
//! Encodings equal Dispatch/Model.v: dispatcher 0 = none, c+1 = collector c; interest 0/1/2; level rank 0..5.
use std::io::{Read, Write};
use std::panic::{catch_unwind, AssertUnwindSafe};
use std::sync::atomic::{AtomicBool, Ordering};
use std::sync::{mpsc, Arc, Mutex, OnceLock};
use tracing_core::{
    collect::{Collect, Interest, NoCollector},
    dispatch::{self, DefaultGuard, Dispatch},
    span, Event, Level, LevelFilter, Metadata,
};

const TARGETS: [&str; 4] = ["a", "ab", "a::b", "b"];
const FILTERS: [LevelFilter; 6] = [
    LevelFilter::OFF,
    LevelFilter::ERROR,
    LevelFilter::WARN,
    LevelFilter::INFO,
    LevelFilter::DEBUG,
    LevelFilter::TRACE,
];
const LEVELS: [Level; 5] = [Level::ERROR, Level::WARN, Level::INFO, Level::DEBUG, Level::TRACE];

/// Deliveries: (collector id, 0 = new_span / 1 = event, level rank, target index)
static LOG: Mutex<Vec<(usize, u8, usize, usize)>> = Mutex::new(Vec::new());
/// Armed by `emitcb`: what the NEXT event / new_span callback (of whichever collector receives the emission) does.
static NEXT: Mutex<Option<(u8, usize)>> = Mutex::new(None);

/// Runs inside a collector callback, after the delivery was logged; no harness lock is held while it emits or panics.
fn callback_hook() {
    let armed = NEXT.lock().unwrap().take();
    if let Some((k, cs2)) = armed {
        if k >= 2 {
            let _ = hit(cs2);
        }
        if k == 1 || k == 3 {
            panic!("collector callback panics");
        }
    }
}

fn level_rank(l: &Level) -> usize {
    LEVELS.iter().position(|x| x == l).unwrap() + 1
}
fn filter_rank(f: LevelFilter) -> usize {
    FILTERS.iter().position(|x| *x == f).unwrap()
}
fn target_index(t: &str) -> usize {
    TARGETS.iter().position(|x| *x == t).unwrap_or(99)
}

/// A collector's filter: level threshold x target set x static-or-dynamic interest x optional hint.
struct Filt {
    thr: LevelFilter,
    tgts: Vec<usize>,
    dynamic: bool,
    hint: Option<LevelFilter>,
}
impl Filt {
    fn static_ok(&self, level: &Level, target: &str) -> bool {
        *level <= self.thr && self.tgts.iter().any(|t| TARGETS[*t] == target)
    }
    fn decide_reg(&self, level: &Level, target: &str) -> u8 {
        if self.static_ok(level, target) {
            if self.dynamic {
                1
            } else {
                2
            }
        } else {
            0
        }
    }
    fn decide_en(&self, level: &Level, target: &str, flag: bool) -> bool {
        self.static_ok(level, target) && (!self.dynamic || flag)
    }
}
fn interest_of(k: u8) -> Interest {
    match k {
        0 => Interest::never(),
        1 => Interest::sometimes(),
        _ => Interest::always(),
    }
}
fn log_delivery(id: usize, kind: u8, m: &Metadata<'_>) {
    LOG.lock().unwrap().push((id, kind, level_rank(m.level()), target_index(m.target())));
    callback_hook();
}

/// The recording collector (`Dispatch::new`).  Side-effect free filter methods (they only read), so the oracle may
/// ask them at any time.
struct Rec {
    id: usize,
    filt: Filt,
    flag: Arc<AtomicBool>,
}
impl Collect for Rec {
    fn register_callsite(&self, m: &'static Metadata<'static>) -> Interest {
        interest_of(self.filt.decide_reg(m.level(), m.target()))
    }
    fn enabled(&self, m: &Metadata<'_>) -> bool {
        self.filt.decide_en(m.level(), m.target(), self.flag.load(Ordering::SeqCst))
    }
    fn max_level_hint(&self) -> Option<LevelFilter> {
        self.filt.hint
    }
    fn new_span(&self, a: &span::Attributes<'_>) -> span::Id {
        log_delivery(self.id, 0, a.metadata());
        span::Id::from_u64(1)
    }
    fn event(&self, e: &Event<'_>) {
        log_delivery(self.id, 1, e.metadata());
    }
    fn record(&self, _: &span::Id, _: &span::Record<'_>) {}
    fn record_follows_from(&self, _: &span::Id, _: &span::Id) {}
    fn enter(&self, _: &span::Id) {}
    fn exit(&self, _: &span::Id) {}
    fn current_span(&self) -> span::Current {
        span::Current::none()
    }
}

/// `Dispatch::from_static` collectors, written the usual way: zero-sized unit structs in a `static`.  ZRec<I> is
/// recording collector I; its filter lives in ZCONF[I] / ZFLAG[I].  They are fields of ONE static, so — being
/// zero-sized — all six values start at the same address (distinct collectors, distinct vtables, same data pointer).
const NZ: usize = 6;
static ZCONF: [OnceLock<Filt>; NZ] = [const { OnceLock::new() }; NZ];
static ZFLAG: [AtomicBool; NZ] = [const { AtomicBool::new(false) }; NZ];
struct ZRec<const I: usize>;
impl<const I: usize> Collect for ZRec<I> {
    fn register_callsite(&self, m: &'static Metadata<'static>) -> Interest {
        interest_of(ZCONF[I].get().unwrap().decide_reg(m.level(), m.target()))
    }
    fn enabled(&self, m: &Metadata<'_>) -> bool {
        ZCONF[I].get().unwrap().decide_en(m.level(), m.target(), ZFLAG[I].load(Ordering::SeqCst))
    }
    fn max_level_hint(&self) -> Option<LevelFilter> {
        ZCONF[I].get().unwrap().hint
    }
    fn new_span(&self, a: &span::Attributes<'_>) -> span::Id {
        log_delivery(I, 0, a.metadata());
        span::Id::from_u64(1)
    }
    fn event(&self, e: &Event<'_>) {
        log_delivery(I, 1, e.metadata());
    }
    fn record(&self, _: &span::Id, _: &span::Record<'_>) {}
    fn record_follows_from(&self, _: &span::Id, _: &span::Id) {}
    fn enter(&self, _: &span::Id) {}
    fn exit(&self, _: &span::Id) {}
    fn current_span(&self) -> span::Current {
        span::Current::none()
    }
}
struct ZAll(ZRec<0>, ZRec<1>, ZRec<2>, ZRec<3>, ZRec<4>, ZRec<5>);
static ZS: ZAll = ZAll(ZRec, ZRec, ZRec, ZRec, ZRec, ZRec);
fn from_static(i: usize) -> Dispatch {
    match i {
        0 => Dispatch::from_static(&ZS.0),
        1 => Dispatch::from_static(&ZS.1),
        2 => Dispatch::from_static(&ZS.2),
        3 => Dispatch::from_static(&ZS.3),
        4 => Dispatch::from_static(&ZS.4),
        _ => Dispatch::from_static(&ZS.5),
    }
}
/// Which static collector is behind `d`, if any.
fn zindex(d: &Dispatch) -> Option<usize> {
    if d.is::<ZRec<0>>() {
        Some(0)
    } else if d.is::<ZRec<1>>() {
        Some(1)
    } else if d.is::<ZRec<2>>() {
        Some(2)
    } else if d.is::<ZRec<3>>() {
        Some(3)
    } else if d.is::<ZRec<4>>() {
        Some(4)
    } else if d.is::<ZRec<5>>() {
        Some(5)
    } else {
        None
    }
}
/// The current collector's OWN answers (register_callsite, enabled) for a pool entry.
fn own_answers(d: &Dispatch, lvl: &Level, tgt: &str) -> Option<(u8, bool)> {
    if let Some(r) = d.downcast_ref::<Rec>() {
        Some((r.filt.decide_reg(lvl, tgt), r.filt.decide_en(lvl, tgt, r.flag.load(Ordering::SeqCst))))
    } else if let Some(i) = zindex(d) {
        let f = ZCONF[i].get().unwrap();
        Some((f.decide_reg(lvl, tgt), f.decide_en(lvl, tgt, ZFLAG[i].load(Ordering::SeqCst))))
    } else {
        None
    }
}

/// 0 = the no-op dispatcher, c+1 = recording collector c, -1 = something else.
fn ident(d: &Dispatch) -> i64 {
    if let Some(r) = d.downcast_ref::<Rec>() {
        r.id as i64 + 1
    } else if let Some(i) = zindex(d) {
        i as i64 + 1
    } else if d.is::<NoCollector>() {
        0
    } else {
        -1
    }
}

macro_rules! hit_one {
    (event $lvl:ident $tgt:literal) => {{
        tracing::event!(target: $tgt, tracing::Level::$lvl, "e");
        None
    }};
    (span $lvl:ident $tgt:literal) => {{
        let s = tracing::span!(target: $tgt, tracing::Level::$lvl, "s");
        drop(s);
        None
    }};
    (hint $lvl:ident $tgt:literal) => {{
        Some(tracing::enabled!(target: $tgt, tracing::Level::$lvl))
    }};
}
macro_rules! pool {
    ($( $i:literal => $kind:ident $lvl:ident $ti:literal $tgt:literal ; )*) => {
        /// One real static callsite per arm.
        #[inline(never)]
        fn hit(i: usize) -> Option<bool> {
            match i {
                $( $i => hit_one!($kind $lvl $tgt), )*
                _ => panic!("no such callsite {}", i),
            }
        }
        const POOL: &[(usize, &str, Level, usize)] = &[ $( ($i, stringify!($kind), Level::$lvl, $ti), )* ];
    };
}
pool! {
    0 => span ERROR 0 "a";
    1 => span ERROR 1 "ab";
    2 => span ERROR 2 "a::b";
    3 => span ERROR 3 "b";
    4 => span WARN 0 "a";
    5 => span WARN 1 "ab";
    6 => span WARN 2 "a::b";
    7 => span WARN 3 "b";
    8 => span INFO 0 "a";
    9 => span INFO 1 "ab";
    10 => span INFO 2 "a::b";
    11 => span INFO 3 "b";
    12 => span DEBUG 0 "a";
    13 => span DEBUG 1 "ab";
    14 => span DEBUG 2 "a::b";
    15 => span DEBUG 3 "b";
    16 => span TRACE 0 "a";
    17 => span TRACE 1 "ab";
    18 => span TRACE 2 "a::b";
    19 => span TRACE 3 "b";
    20 => event ERROR 0 "a";
    21 => event ERROR 1 "ab";
    22 => event ERROR 2 "a::b";
    23 => event ERROR 3 "b";
    24 => event WARN 0 "a";
    25 => event WARN 1 "ab";
    26 => event WARN 2 "a::b";
    27 => event WARN 3 "b";
    28 => event INFO 0 "a";
    29 => event INFO 1 "ab";
    30 => event INFO 2 "a::b";
    31 => event INFO 3 "b";
    32 => event DEBUG 0 "a";
    33 => event DEBUG 1 "ab";
    34 => event DEBUG 2 "a::b";
    35 => event DEBUG 3 "b";
    36 => event TRACE 0 "a";
    37 => event TRACE 1 "ab";
    38 => event TRACE 2 "a::b";
    39 => event TRACE 3 "b";
    40 => hint ERROR 0 "a";
    41 => hint ERROR 1 "ab";
    42 => hint ERROR 2 "a::b";
    43 => hint ERROR 3 "b";
    44 => hint WARN 0 "a";
    45 => hint WARN 1 "ab";
    46 => hint WARN 2 "a::b";
    47 => hint WARN 3 "b";
    48 => hint INFO 0 "a";
    49 => hint INFO 1 "ab";
    50 => hint INFO 2 "a::b";
    51 => hint INFO 3 "b";
    52 => hint DEBUG 0 "a";
    53 => hint DEBUG 1 "ab";
    54 => hint DEBUG 2 "a::b";
    55 => hint DEBUG 3 "b";
    56 => hint TRACE 0 "a";
    57 => hint TRACE 1 "ab";
    58 => hint TRACE 2 "a::b";
    59 => hint TRACE 3 "b";
    60 => event INFO 0 "a";
    61 => event DEBUG 1 "ab";
    62 => span INFO 0 "a";
    63 => hint INFO 0 "a";
}

/// "Flush on thread exit": a per-thread resource whose destructor emits inside its own scope.
struct FlushOnExit {
    sink: Dispatch,
    cs: usize,
}
impl Drop for FlushOnExit {
    fn drop(&mut self) {
        let cs = self.cs;
        dispatch::with_default(&self.sink, || {
            let _ = catch_unwind(|| hit(cs));
        });
    }
}
thread_local! {
    static GUARDSLOT: std::cell::RefCell<Option<DefaultGuard>> = const { std::cell::RefCell::new(None) };
    static EARLY: std::cell::RefCell<Option<FlushOnExit>> = const { std::cell::RefCell::new(None) };
    static LATE: std::cell::RefCell<Option<FlushOnExit>> = const { std::cell::RefCell::new(None) };
}

enum Cmd {
    Exit(Option<Dispatch>, usize),
    ExitGuard(Option<Dispatch>),
    TryInit(Rec),
    Open(Option<Dispatch>),
    Close(usize),
    SetGlobal(Dispatch),
    Hit(usize),
    HitCb(usize, u8, usize),
    GetDefault(Option<usize>),
    GetCurrent,
    Panic(Vec<Dispatch>),
    Quit,
}

fn nest(ds: &[Dispatch], f: &mut dyn FnMut()) {
    match ds.split_first() {
        None => f(),
        Some((d, rest)) => dispatch::with_default(d, || nest(rest, f)),
    }
}

fn worker(rx: mpsc::Receiver<Cmd>, tx: mpsc::Sender<String>) {
    // register EARLY's destructor before this thread uses tracing at all
    EARLY.with(|s| drop(s.borrow_mut().take()));
    GUARDSLOT.with(|s| drop(s.borrow_mut().take()));
    let mut guards: Vec<DefaultGuard> = Vec::new();
    while let Ok(cmd) = rx.recv() {
        let reply = match cmd {
            Cmd::Open(d) => {
                let d = d.unwrap_or_else(Dispatch::none);
                let g = dispatch::set_default(&d);
                drop(d);
                guards.push(g);
                String::new()
            }
            Cmd::Close(k) => {
                if k < guards.len() {
                    let g = guards.remove(guards.len() - 1 - k);
                    drop(g);
                    String::new()
                } else {
                    "\"bad\":1".to_string()
                }
            }
            Cmd::SetGlobal(d) => {
                let ok = dispatch::set_global_default(d).is_ok();
                format!("\"ok\":{}", ok as u8)
            }
            Cmd::Hit(i) => match catch_unwind(|| hit(i)) {
                Ok(Some(b)) => format!("\"r\":{}", b as u8),
                Ok(None) => String::new(),
                Err(_) => "\"panic\":1".to_string(),
            },
            Cmd::HitCb(i, k, cs2) => {
                *NEXT.lock().unwrap() = Some((k, cs2));
                let r = catch_unwind(|| hit(i));
                *NEXT.lock().unwrap() = None;
                format!("\"panic\":{}", r.is_err() as u8)
            }
            Cmd::GetDefault(cs) => {
                let (id, own) = dispatch::get_default(|d| {
                    let own = cs.and_then(|i| {
                        let (_, _, lvl, ti) = &POOL[i];
                        own_answers(d, lvl, TARGETS[*ti])
                    });
                    (ident(d), own)
                });
                match own {
                    Some((reg, en)) => format!("\"d\":{},\"own\":[{},{}]", id, reg, en as u8),
                    None => format!("\"d\":{}", id),
                }
            }
            Cmd::GetCurrent => {
                let id = dispatch::get_current(|d| ident(d)).unwrap_or(-2);
                format!("\"d\":{}", id)
            }
            Cmd::Panic(ds) => {
                let mut seen: i64 = -3;
                let r = catch_unwind(AssertUnwindSafe(|| {
                    nest(&ds, &mut || {
                        seen = dispatch::get_default(|d| ident(d));
                        panic!("boom");
                    })
                }));
                drop(ds);
                format!("\"d\":{},\"unwound\":{}", seen, r.is_err() as u8)
            }
            Cmd::Quit => break,
            Cmd::ExitGuard(d) => {
                while let Some(g) = guards.pop() {
                    drop(g);
                }
                let d = d.unwrap_or_else(Dispatch::none);
                let g = dispatch::set_default(&d);
                drop(d);
                GUARDSLOT.with(|s| *s.borrow_mut() = Some(g));
                break;
            }
            Cmd::TryInit(rec) => {
                #[cfg(feature = "init")]
                let ok = {
                    use tracing_subscriber::util::SubscriberInitExt;
                    rec.try_init().is_ok()
                };
                #[cfg(not(feature = "init"))]
                let ok = {
                    drop(rec);
                    false
                };
                format!("\"ok\":{}", ok as u8)
            }
            Cmd::Exit(d, cs) => {
                // CURRENT_STATE is registered now at the latest: after EARLY, before LATE
                let _ = dispatch::get_current(|_| ());
                let d = d.unwrap_or_else(Dispatch::none);
                EARLY.with(|s| *s.borrow_mut() = Some(FlushOnExit { sink: d.clone(), cs }));
                LATE.with(|s| *s.borrow_mut() = Some(FlushOnExit { sink: d, cs }));
                break;
            }
        };
        if tx.send(reply).is_err() {
            break;
        }
    }
    // unwind the remaining scopes innermost first
    while let Some(g) = guards.pop() {
        drop(g);
    }
}

struct Worker {
    tx: mpsc::Sender<Cmd>,
    rx: mpsc::Receiver<String>,
    jh: Option<std::thread::JoinHandle<()>>,
}

fn run_one(text: &str) {
    std::panic::set_hook(Box::new(|_| {}));
    let out = std::io::stdout();
    let mut out = out.lock();
    let mut confs: Vec<(usize, Vec<usize>, usize, usize)> = Vec::new();
    let mut handles: Vec<Option<Dispatch>> = Vec::new();
    let mut flags: Vec<Option<Arc<AtomicBool>>> = Vec::new();   // None = a static collector: its flag is ZFLAG[c]
    let mut workers: Vec<Option<Worker>> = Vec::new();
    let mut opi = 0usize;
    for line in text.lines() {
        let w: Vec<&str> = line.split_whitespace().collect();
        if w.is_empty() || w[0].starts_with('#') {
            continue;
        }
        let num = |s: &str| -> usize { s.parse().expect("number") };
        if w[0] == "col" {
            let tg = if w[2] == "-" { vec![] } else { w[2].split(',').map(num).collect() };
            confs.push((num(w[1]), tg, num(w[3]), num(w[4])));
            continue;
        }
        assert_eq!(w[0], "op");
        let mut body = String::new();
        let mut send = |workers: &mut Vec<Option<Worker>>, t: usize, cmd: Cmd| -> String {
            while workers.len() <= t {
                workers.push(None);
            }
            if workers[t].is_none() {
                let (ctx, crx) = mpsc::channel::<Cmd>();
                let (rtx, rrx) = mpsc::channel::<String>();
                let jh = std::thread::Builder::new()
                    .name(format!("T{}", t))
                    .spawn(move || worker(crx, rtx))
                    .expect("spawn");
                workers[t] = Some(Worker { tx: ctx, rx: rrx, jh: Some(jh) });
            }
            let wk = workers[t].as_ref().unwrap();
            wk.tx.send(cmd).expect("worker gone");
            wk.rx.recv().expect("worker died")
        };
        // a Dispatch for "d" (0 = none, c+1 = clone of the user's handle); None = the op is not expressible
        let disp_of = |handles: &Vec<Option<Dispatch>>, d: usize| -> Option<Option<Dispatch>> {
            if d == 0 {
                Some(None)
            } else {
                handles.get(d - 1).and_then(|h| h.clone()).map(Some)
            }
        };
        match w[1] {
            "new" => {
                let c = handles.len();
                let (thr, tg, dy, hint) = confs.get(c).cloned().expect("not enough `col` lines");
                // target index 100 in the `col` line marks a `Dispatch::from_static` collector (zero-sized, in a static)
                let is_static = tg.contains(&100) && c < NZ;
                let filt = Filt {
                    thr: FILTERS[thr],
                    tgts: tg.into_iter().filter(|t| *t < TARGETS.len()).collect(),
                    dynamic: dy != 0,
                    hint: if hint == 0 { None } else { Some(FILTERS[hint - 1]) },
                };
                if is_static {
                    let _ = ZCONF[c].set(filt);
                    ZFLAG[c].store(dy != 1, Ordering::SeqCst);
                    handles.push(Some(from_static(c)));
                    flags.push(None);
                } else {
                    let flag = Arc::new(AtomicBool::new(dy != 1));
                    handles.push(Some(Dispatch::new(Rec { id: c, filt, flag: flag.clone() })));
                    flags.push(Some(flag));
                }
                body = format!("\"c\":{}", c);
            }
            "drop" => {
                let c = num(w[2]);
                match handles.get_mut(c).and_then(|h| h.take()) {
                    Some(d) => drop(d),
                    None => body = "\"bad\":1".to_string(),
                }
            }
            "open" => match disp_of(&handles, num(w[3])) {
                Some(d) => body = send(&mut workers, num(w[2]), Cmd::Open(d)),
                None => body = "\"bad\":1".to_string(),
            },
            "close" => body = send(&mut workers, num(w[2]), Cmd::Close(num(w[3]))),
            "setglobal" => match handles.get(num(w[3])).and_then(|h| h.clone()) {
                Some(d) => body = send(&mut workers, num(w[2]), Cmd::SetGlobal(d)),
                None => body = "\"bad\":1".to_string(),
            },
            "emit" | "probe" => body = send(&mut workers, num(w[2]), Cmd::Hit(num(w[3]))),
            "emitcb" => body = send(&mut workers, num(w[2]), Cmd::HitCb(num(w[3]), num(w[4]) as u8, num(w[5]))),
            "getdefault" => body = send(&mut workers, num(w[2]), Cmd::GetDefault(w.get(3).map(|s| num(s)))),
            "getcurrent" => body = send(&mut workers, num(w[2]), Cmd::GetCurrent),
            "panic" => {
                let ds: Option<Vec<Dispatch>> = w[3]
                    .split(',')
                    .map(|s| disp_of(&handles, num(s)).map(|d| d.unwrap_or_else(Dispatch::none)))
                    .collect();
                match ds {
                    Some(ds) => body = send(&mut workers, num(w[2]), Cmd::Panic(ds)),
                    None => body = "\"bad\":1".to_string(),
                }
            }
            "exit" => match disp_of(&handles, num(w[3])) {
                Some(d) => {
                    let t = num(w[2]);
                    // make sure the thread exists (so that EARLY was registered at its start), then let it exit and join it
                    let _ = send(&mut workers, t, Cmd::GetDefault(None));
                    let mut wk = workers[t].take().unwrap();
                    wk.tx.send(Cmd::Exit(d, num(w[4]))).expect("worker gone");
                    wk.jh.take().unwrap().join().expect("worker panicked at exit");
                }
                None => body = "\"bad\":1".to_string(),
            },
            "exitguard" => match disp_of(&handles, num(w[3])) {
                Some(d) => {
                    let t = num(w[2]);
                    let _ = send(&mut workers, t, Cmd::GetDefault(None));
                    let mut wk = workers[t].take().unwrap();
                    wk.tx.send(Cmd::ExitGuard(d)).expect("worker gone");
                    wk.jh.take().unwrap().join().expect("worker panicked at exit");
                }
                None => body = "\"bad\":1".to_string(),
            },
            "tryinit" => {
                if cfg!(feature = "init") {
                    let c = handles.len();
                    let (thr, tg, dy, hint) = confs.get(c).cloned().expect("not enough `col` lines");
                    let flag = Arc::new(AtomicBool::new(dy != 1));
                    let filt = Filt {
                        thr: FILTERS[thr],
                        tgts: tg.into_iter().filter(|t| *t < TARGETS.len()).collect(),
                        dynamic: dy != 0,
                        hint: if hint == 0 { None } else { Some(FILTERS[hint - 1]) },
                    };
                    handles.push(None); // the collector is consumed by try_init: no user handle
                    flags.push(Some(flag.clone()));
                    let r = send(&mut workers, num(w[2]), Cmd::TryInit(Rec { id: c, filt, flag }));
                    body = format!("\"c\":{},{}", c, r);
                } else {
                    body = "\"bad\":1".to_string();
                }
            }
            "rebuild" => tracing_core::callsite::rebuild_interest_cache(),
            "flip" => {
                let c = num(w[2]);
                match flags.get(c) {
                    Some(Some(f)) => {
                        f.fetch_xor(true, Ordering::SeqCst);
                    }
                    Some(None) => {
                        ZFLAG[c].fetch_xor(true, Ordering::SeqCst);
                    }
                    None => body = "\"bad\":1".to_string(),
                }
            }
            other => panic!("unknown op {}", other),
        }
        let del: Vec<String> = LOG
            .lock()
            .unwrap()
            .drain(..)
            .map(|(c, k, l, t)| format!("[{},{},{},{}]", c, k, l, t))
            .collect();
        let max = filter_rank(LevelFilter::current());
        writeln!(
            out,
            "{{\"i\":{},\"k\":\"{}\"{}{},\"del\":[{}],\"max\":{}}}",
            opi,
            w[1],
            if body.is_empty() { "" } else { "," },
            body,
            del.join(","),
            max
        )
        .unwrap();
        opi += 1;
    }
    for wk in workers.iter().flatten() {
        let _ = wk.tx.send(Cmd::Quit);
    }
    out.flush().unwrap();
    std::process::exit(0);
}

fn run_batch(path: &str, jobs: usize) {
    let text = std::fs::read_to_string(path).expect("read batch file");
    let mut cases: Vec<(String, String)> = Vec::new();
    for line in text.lines() {
        if let Some(id) = line.strip_prefix("case ") {
            cases.push((id.trim().to_string(), String::new()));
        } else if let Some(last) = cases.last_mut() {
            last.1.push_str(line);
            last.1.push('\n');
        }
    }
    let exe = std::env::current_exe().expect("current_exe");
    let queue = Arc::new(Mutex::new(cases.into_iter().rev().collect::<Vec<_>>()));
    let results = Arc::new(Mutex::new(Vec::<String>::new()));
    let mut ths = Vec::new();
    for _ in 0..jobs.max(1) {
        let queue = queue.clone();
        let results = results.clone();
        let exe = exe.clone();
        ths.push(std::thread::spawn(move || loop {
            let item = queue.lock().unwrap().pop();
            let (id, body) = match item {
                Some(x) => x,
                None => break,
            };
            let mut child = std::process::Command::new(&exe)
                .arg("--one")
                .stdin(std::process::Stdio::piped())
                .stdout(std::process::Stdio::piped())
                .stderr(std::process::Stdio::null())
                .spawn()
                .expect("spawn child");
            child.stdin.take().unwrap().write_all(body.as_bytes()).ok();
            // generous, deterministic bound: a case is a few dozen channel round trips
            let t0 = std::time::Instant::now();
            let mut rc: i64 = -9;
            loop {
                match child.try_wait() {
                    Ok(Some(st)) => {
                        rc = st.code().map(|c| c as i64).unwrap_or(-1);
                        break;
                    }
                    Ok(None) => {
                        if t0.elapsed().as_secs() > 60 {
                            let _ = child.kill();
                            let _ = child.wait();
                            break;
                        }
                        std::thread::sleep(std::time::Duration::from_millis(2));
                    }
                    Err(_) => break,
                }
            }
            let mut so = String::new();
            if let Some(mut o) = child.stdout.take() {
                let _ = o.read_to_string(&mut so);
            }
            let lines: Vec<&str> = so.lines().filter(|l| l.starts_with('{')).collect();
            results
                .lock()
                .unwrap()
                .push(format!("{{\"case\":\"{}\",\"rc\":{},\"out\":[{}]}}", id, rc, lines.join(",")));
        }));
    }
    for t in ths {
        t.join().unwrap();
    }
    let out = std::io::stdout();
    let mut out = out.lock();
    for r in results.lock().unwrap().iter() {
        writeln!(out, "{}", r).unwrap();
    }
}

fn main() {
    let args: Vec<String> = std::env::args().collect();
    match args.get(1).map(|s| s.as_str()) {
        Some("--pool") => {
            for (i, k, l, t) in POOL {
                println!("{{\"i\":{},\"kind\":\"{}\",\"lvl\":{},\"tgt\":{}}}", i, k, level_rank(l), t);
            }
            println!("{{\"static_max\":{}}}", filter_rank(tracing::level_filters::STATIC_MAX_LEVEL));
        }
        Some("--one") => {
            let mut s = String::new();
            std::io::stdin().read_to_string(&mut s).unwrap();
            run_one(&s);
        }
        Some("--batch") => {
            let jobs = args.get(3).and_then(|s| s.parse().ok()).unwrap_or(8);
            run_batch(&args[2], jobs);
        }
        _ => {
            eprintln!("usage: h_dispatch --pool | --one | --batch FILE [JOBS]");
            std::process::exit(2);
        }
    }
}
