//! C10 harness, the corpus of harness/fields compiled with `tracing`'s cargo feature `log` and a `log` logger installed.
//! `nd*` phases run the corpus with NO dispatcher ever set: the disabled branch of every macro then hands its fields
//! to the `log` crate (documented behaviour); afterwards the ordinary collector phases.
#[path = "../../../fields/src/support.rs"]
mod support;
#[path = "../../../fields/src/gen/mod.rs"]
mod gen;

fn main() {
    support::cli_main(&gen::all());
}
