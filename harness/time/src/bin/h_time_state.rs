//! C20 harness, statelessness leg: "for every instant" means the printed text is a function of the instant
//! alone — not of what the thread (or the process) formatted before.  This binary presents instants to the
//! real timestamp code (`fmt::time::__verif_format_system_time`, hook H2) in *scenarios*:
//!
//!     T <sec> <nsec> [<sec> <nsec> ...]
//!
//! Each `T` line spawns a FRESH thread (so every `thread_local!` of the code under test is in its initial
//! state), formats the listed instants on it in the given order, and joins it.  The first `T` line of a process
//! is also the first use in the process (the driver runs a few scenarios one per process for that reason).
//!
//! usage:  h_time_state <strings-out-file>  < scenarios
//! Output 1 (strings file): one line per call, in file order: the string, or `!panic` / `!unrepresentable` /
//! `!fmt-error` — the same format as h_time, so the same model/oracle consume it.
//! Output 2 (stdout): `{"k":"panic","thread":i,"call":j,"msg":..}` per panic, then `{"k":"summary",..}`.
//! No oracle in here: the driver compares every call with the stateless model and the Python oracle.

use std::io::{BufRead, BufWriter, Write};
use std::panic;
use std::time::{Duration, SystemTime, UNIX_EPOCH};

fn system_time(sec: i64, nsec: u32) -> Option<SystemTime> {
    if sec >= 0 {
        UNIX_EPOCH.checked_add(Duration::new(sec as u64, nsec))
    } else {
        UNIX_EPOCH
            .checked_sub(Duration::new(sec.unsigned_abs(), 0))?
            .checked_add(Duration::new(0, nsec))
    }
}

fn real_format(sec: i64, nsec: u32) -> (String, Option<String>) {
    let t = match system_time(sec, nsec) {
        Some(t) => t,
        None => return ("!unrepresentable".into(), None),
    };
    let r = panic::catch_unwind(|| {
        let mut s = String::with_capacity(40);
        tracing_subscriber::fmt::time::__verif_format_system_time(t, &mut s).map(|_| s)
    });
    match r {
        Ok(Ok(s)) => (s, None),
        Ok(Err(_)) => ("!fmt-error".into(), None),
        Err(e) => {
            let msg = if let Some(s) = e.downcast_ref::<&str>() {
                s.to_string()
            } else if let Some(s) = e.downcast_ref::<String>() {
                s.clone()
            } else {
                "?".to_string()
            };
            let msg: String = msg.chars().map(|c| if c == '\n' || c == '\r' || c == '"' || c == '\\' { ' ' } else { c }).collect();
            ("!panic".into(), Some(msg))
        }
    }
}

fn main() {
    panic::set_hook(Box::new(|_| {}));
    let out_path = std::env::args().nth(1).expect("usage: h_time_state <strings-out-file>");
    let mut out = BufWriter::with_capacity(1 << 20, std::fs::File::create(&out_path).expect("create strings file"));
    let stdin = std::io::stdin();
    let (mut threads, mut calls, mut bad_lines) = (0u64, 0u64, 0u64);
    for line in stdin.lock().lines() {
        let line = line.expect("stdin");
        let p: Vec<&str> = line.split_whitespace().collect();
        if p.is_empty() {
            continue;
        }
        if p[0] != "T" || p.len() < 3 || p.len() % 2 != 1 {
            bad_lines += 1;
            continue;
        }
        let mut seq: Vec<(i64, u32)> = Vec::with_capacity(p.len() / 2);
        let mut ok = true;
        for k in (1..p.len()).step_by(2) {
            match (p[k].parse::<i64>(), p[k + 1].parse::<u32>()) {
                (Ok(s), Ok(n)) if n < 1_000_000_000 => seq.push((s, n)),
                _ => ok = false,
            }
        }
        if !ok {
            bad_lines += 1;
            continue;
        }
        let h = std::thread::Builder::new()
            .name(format!("c20-fresh-{}", threads))
            .spawn(move || seq.into_iter().map(|(s, n)| real_format(s, n)).collect::<Vec<_>>())
            .expect("spawn");
        let res = h.join().expect("thread body catches its panics");
        for (j, (s, msg)) in res.into_iter().enumerate() {
            writeln!(out, "{}", s).unwrap();
            if let Some(m) = msg {
                println!("{{\"k\":\"panic\",\"thread\":{},\"call\":{},\"msg\":\"{}\"}}", threads, j, m);
            }
            calls += 1;
        }
        threads += 1;
    }
    out.flush().unwrap();
    println!("{{\"k\":\"summary\",\"threads\":{},\"calls\":{},\"bad_lines\":{}}}", threads, calls, bad_lines);
}
