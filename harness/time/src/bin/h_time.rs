//! C20 harness: present arbitrary instants to the real timestamp code of tracing-subscriber
//! (`fmt::time::__verif_format_system_time`, the hook H2, i.e. `DateTime::from(SystemTime)` + `Display`,
//! exactly what `SystemTime::format_time` runs on `SystemTime::now()`).
//!
//! usage:  h_time <strings-out-file|->  < descriptors
//!
//! Descriptor lines (integers in decimal; `sec` is any i64, `nsec` in 0..1e9; the instant denoted is
//! `sec + nsec/1e9` seconds after the Unix epoch, i.e. floor semantics before 1970):
//!     P <sec> <nsec>                       one instant
//!     R <sec0> <step> <count> <nsec>       the instants sec0 + i*step (i = 0..count-1), all with <nsec>
//! Instants are processed in file order.
//!
//! Output 1 (strings file): one line per instant, the string the real code produced, or `!panic` /
//! `!unrepresentable` (std could not build the SystemTime).  This is what is diffed against the Coq model.
//!
//! Output 2 (stdout, JSON lines): the *oracle*, evaluated here on the real output for volume (the driver
//! re-evaluates every reported failure, and every instant of the small tiers, with its own Python oracle):
//!   * an independent calendar conversion (Howard Hinnant's `civil_from_days`, written from the published
//!     algorithm with Euclidean division; nothing of datetime.rs is used) gives the expected fields;
//!     the real string is *parsed* (`[+-]YYYY..-MM-DDThh:mm:ss.ffffffZ`) and compared field by field;
//!     for years 0000..=9999 the strict RFC 3339 shape (4 digits, no sign, 27 bytes) is required;
//!   * microseconds = floor(nsec / 1000);
//!   * order: whenever two consecutively processed instants are in non-decreasing time order and both in
//!     years 0000..=9999, their strings must be in non-decreasing byte order.
//! One `{"k":"fail",...}` line per failure (first 100), then one `{"k":"summary",...}` line.

use std::fmt::Write as _;
use std::io::{BufRead, BufWriter, Write};
use std::panic;
use std::time::{Duration, SystemTime, UNIX_EPOCH};

fn system_time(sec: i64, nsec: u32) -> Option<SystemTime> {
    if sec >= 0 {
        UNIX_EPOCH.checked_add(Duration::new(sec as u64, nsec))
    } else {
        UNIX_EPOCH
            .checked_sub(Duration::new(sec.unsigned_abs(), 0))?
            .checked_add(Duration::new(0, nsec))
    }
}

/// Writes the string (or `!panic` / `!unrepresentable` / `!fmt-error`) into `buf`; returns the panic message.
fn real_format(sec: i64, nsec: u32, buf: &mut String) -> Option<String> {
    buf.clear();
    let t = match system_time(sec, nsec) {
        Some(t) => t,
        None => {
            buf.push_str("!unrepresentable");
            return None;
        }
    };
    let r = panic::catch_unwind(|| {
        let mut s = String::with_capacity(40);
        tracing_subscriber::fmt::time::__verif_format_system_time(t, &mut s).map(|_| s)
    });
    match r {
        Ok(Ok(s)) => buf.push_str(&s),
        Ok(Err(_)) => buf.push_str("!fmt-error"),
        Err(e) => {
            let msg = if let Some(s) = e.downcast_ref::<&str>() {
                s.to_string()
            } else if let Some(s) = e.downcast_ref::<String>() {
                s.clone()
            } else {
                "?".to_string()
            };
            let msg: String = msg.chars().map(|c| if c == '\n' || c == '\r' { ' ' } else { c }).collect();
            buf.push_str("!panic");
            return Some(msg);
        }
    }
    None
}

/// Howard Hinnant, "chrono-Compatible Low-Level Date Algorithms", civil_from_days.
/// z = days since 1970-01-01.  i128 so that no intermediate can overflow for any i64 second count.
fn civil_from_days(z: i128) -> (i128, u32, u32) {
    let z = z + 719_468;
    let era = z.div_euclid(146_097);
    let doe = z.rem_euclid(146_097); // [0, 146096]
    let yoe = (doe - doe / 1_460 + doe / 36_524 - doe / 146_096) / 365; // [0, 399]
    let y = yoe + era * 400;
    let doy = doe - (365 * yoe + yoe / 4 - yoe / 100); // [0, 365]
    let mp = (5 * doy + 2) / 153; // [0, 11]
    let d = (doy - (153 * mp + 2) / 5 + 1) as u32; // [1, 31]
    let m = if mp < 10 { mp + 3 } else { mp - 9 } as u32; // [1, 12]
    (if m <= 2 { y + 1 } else { y }, m, d)
}

#[derive(PartialEq, Eq, Debug, Clone, Copy)]
struct Fields {
    y: i128,
    mo: u32,
    d: u32,
    h: u32,
    mi: u32,
    s: u32,
    us: u32,
}

fn expected(sec: i64, nsec: u32) -> Fields {
    let sec = sec as i128;
    let days = sec.div_euclid(86_400);
    let rem = sec.rem_euclid(86_400) as u32;
    let (y, mo, d) = civil_from_days(days);
    Fields { y, mo, d, h: rem / 3600, mi: rem / 60 % 60, s: rem % 60, us: nsec / 1000 }
}

fn digits(b: &[u8]) -> Option<i128> {
    if b.is_empty() || !b.iter().all(|c| c.is_ascii_digit()) {
        return None;
    }
    let mut v: i128 = 0;
    for c in b {
        v = v.checked_mul(10)?.checked_add((c - b'0') as i128)?;
    }
    Some(v)
}

/// Parse `[+-]Y{4,}-MM-DDThh:mm:ss.ffffffZ`.  Returns the fields and whether the year part is the strict
/// RFC 3339 form (exactly four digits, no sign).
fn parse(s: &str) -> Option<(Fields, bool)> {
    let b = s.as_bytes();
    if b.len() < 27 {
        return None;
    }
    let (ypart, rest) = b.split_at(b.len() - 23);
    // rest = -MM-DDThh:mm:ss.ffffffZ
    let sep = |i: usize, c: u8| rest[i] == c;
    if !(sep(0, b'-') && sep(3, b'-') && sep(6, b'T') && sep(9, b':') && sep(12, b':') && sep(15, b'.') && sep(22, b'Z')) {
        return None;
    }
    let (sign, ydigits, strict) = match ypart[0] {
        b'+' => (1, &ypart[1..], false),
        b'-' => (-1, &ypart[1..], false),
        _ => (1, ypart, ypart.len() == 4),
    };
    if ydigits.len() < 4 {
        return None;
    }
    let f = Fields {
        y: sign * digits(ydigits)?,
        mo: digits(&rest[1..3])? as u32,
        d: digits(&rest[4..6])? as u32,
        h: digits(&rest[7..9])? as u32,
        mi: digits(&rest[10..12])? as u32,
        s: digits(&rest[13..15])? as u32,
        us: digits(&rest[16..22])? as u32,
    };
    Some((f, strict))
}

struct Oracle {
    n: u64,
    fails: u64,
    order_pairs: u64,
    panics: u64,
    prev: Option<(i64, u32, String, bool)>, // sec, nsec, string, in 0..=9999
}

fn jstr(s: &str) -> String {
    let mut o = String::from("\"");
    for c in s.chars() {
        match c {
            '"' => o.push_str("\\\""),
            '\\' => o.push_str("\\\\"),
            c if (c as u32) < 0x20 => {
                let _ = write!(o, "\\u{:04x}", c as u32);
            }
            c => o.push(c),
        }
    }
    o.push('"');
    o
}

impl Oracle {
    fn fail(&mut self, what: &str, sec: i64, nsec: u32, got: &str, detail: String) {
        self.fails += 1;
        if self.fails <= 100 {
            println!(
                "{{\"k\":\"fail\",\"what\":{},\"sec\":{},\"nsec\":{},\"got\":{},\"detail\":{}}}",
                jstr(what), sec, nsec, jstr(got), jstr(&detail)
            );
        }
    }

    fn observe(&mut self, sec: i64, nsec: u32, got: &str, panic_msg: Option<String>) {
        self.n += 1;
        if got == "!unrepresentable" {
            self.prev = None;
            return;
        }
        let want = expected(sec, nsec);
        let in_rfc = (0..=9999).contains(&want.y);
        if got.starts_with('!') {
            self.panics += 1;
            self.fail("panic", sec, nsec, got, panic_msg.unwrap_or_default());
            self.prev = None;
            return;
        }
        match parse(got) {
            None => self.fail("shape", sec, nsec, got, "not [+-]YYYY-MM-DDThh:mm:ss.ffffffZ".into()),
            Some((f, strict)) => {
                if f != want {
                    let what = if (f.y, f.mo, f.d, f.h, f.mi, f.s) == (want.y, want.mo, want.d, want.h, want.mi, want.s) { "micros" } else { "fields" };
                    self.fail(what, sec, nsec, got, format!("expected {:?}", want));
                } else if in_rfc && !(strict && got.len() == 27) {
                    self.fail("rfc3339-shape", sec, nsec, got, "year 0000..9999 must print as exactly four digits".into());
                }
            }
        }
        if let Some((psec, pnsec, pstr, pin)) = &self.prev {
            if *pin && in_rfc && (*psec, *pnsec) <= (sec, nsec) {
                self.order_pairs += 1;
                if pstr.as_str() > got {
                    let d = format!("previous instant ({}, {}) printed {}", psec, pnsec, pstr);
                    self.fail("order", sec, nsec, got, d);
                }
            }
        }
        self.prev = Some((sec, nsec, got.to_string(), in_rfc));
    }
}

fn main() {
    panic::set_hook(Box::new(|_| {}));
    let out_path = std::env::args().nth(1).unwrap_or_else(|| "-".into());
    let mut out: Box<dyn Write> = if out_path == "-" {
        Box::new(std::io::sink())
    } else {
        Box::new(BufWriter::with_capacity(1 << 20, std::fs::File::create(&out_path).expect("create strings file")))
    };
    let stdin = std::io::stdin();
    let mut buf = String::with_capacity(64);
    let mut o = Oracle { n: 0, fails: 0, order_pairs: 0, panics: 0, prev: None };
    let mut bad_lines = 0u64;
    for line in stdin.lock().lines() {
        let line = line.expect("stdin");
        let p: Vec<&str> = line.split_whitespace().collect();
        if p.is_empty() {
            continue;
        }
        let num = |i: usize| -> Option<i128> { p.get(i)?.parse::<i128>().ok() };
        match p[0] {
            "P" => match (num(1), num(2)) {
                (Some(sec), Some(nsec)) if sec >= i64::MIN as i128 && sec <= i64::MAX as i128 && (0..1_000_000_000).contains(&nsec) => {
                    let msg = real_format(sec as i64, nsec as u32, &mut buf);
                    writeln!(out, "{}", buf).unwrap();
                    o.observe(sec as i64, nsec as u32, &buf, msg);
                }
                _ => bad_lines += 1,
            },
            "R" => match (num(1), num(2), num(3), num(4)) {
                (Some(s0), Some(step), Some(count), Some(nsec)) if (0..1_000_000_000).contains(&nsec) && count >= 0 => {
                    for i in 0..count {
                        let sec = s0 + i * step;
                        if sec < i64::MIN as i128 || sec > i64::MAX as i128 {
                            bad_lines += 1;
                            break;
                        }
                        let msg = real_format(sec as i64, nsec as u32, &mut buf);
                        writeln!(out, "{}", buf).unwrap();
                        o.observe(sec as i64, nsec as u32, &buf, msg);
                    }
                }
                _ => bad_lines += 1,
            },
            _ => bad_lines += 1,
        }
    }
    out.flush().unwrap();
    println!(
        "{{\"k\":\"summary\",\"n\":{},\"fails\":{},\"order_pairs\":{},\"panics\":{},\"bad_lines\":{}}}",
        o.n, o.fails, o.order_pairs, o.panics, bad_lines
    );
}
