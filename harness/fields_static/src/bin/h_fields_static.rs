//! C10 harness, the corpus of harness/fields compiled with `tracing`'s cargo feature `max_level_info`: the *static*
//! filtering stage.  Every DEBUG / TRACE invocation must compile to nothing observable.
#[path = "../../../fields/src/support.rs"]
mod support;
#[path = "../../../fields/src/gen/mod.rs"]
mod gen;

fn main() {
    support::cli_main(&gen::all());
}
