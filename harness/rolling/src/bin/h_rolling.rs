//! C16 harness: drives the real `tracing_appender::rolling::RollingFileAppender` under the injectable
//! clock (hook H1, `--cfg tracing_verif`) through both interfaces and prints the directory after every
//! operation.
//!
//!   h_rolling run <workdir> <gap_ms>     cases = JSON lines on stdin, one JSON line of observations per case
//!   h_rolling probe <workdir> <n>        measures the granularity of `created()` in <workdir>
//!
//! Case: {"id":..,"rot":"m|h|d|n","prefix":str|null,"suffix":str|null,"max":n|null,"iface":"x|s",
//!        "threads":k,"pre":[[name,hex|null],..],"t0":secs,"ops":[op..]}
//! Ops:  ["w",th,secs,hex]        complete write (exclusive interface: io::Write::write_all on &mut appender;
//!                                shared: thread th does make_writer(); write_all; drop)
//!       ["park",th,secs,hex]     shared only: thread th starts the same write but is parked at yield point 1
//!                                (after a successful advance_date, before refresh_writer) if it gets there
//!       ["park0",th,secs,hex]    shared only, needs hook H1b: parked at yield point 0 (should_rollover said Some,
//!                                advance_date not yet attempted) if it gets there
//!       ["rel",th]               releases a parked thread and waits for its write to finish
//!       ["w2",th,secs,hex,secs2] shared only: a complete write (as "w") during which the clock MOVES: it reads secs when
//!                                make_writer starts and secs2 from yield point 1 on (the yield callback, running on the
//!                                calling thread between advance_date and refresh_writer, sets the thread clock) - a wall
//!                                clock stepped back across the boundary, or a long wait for the file lock
//!       ["race",[th..],secs,[hex..]]  shared only: the threads are released together by a barrier
//! Every file creation is preceded by a sleep of gap_ms AND a barrier that reads the created() stamp of a probe file back until it is
//! strictly newer than every entry of the case directory (a sleep alone is not enough under load); stamps are re-checked after every
//! operation and a case with equal / non-increasing stamps is run again (never counted as agreement).
//!
//!   h_rolling sweep <workdir> <out-file>   volume mode, descriptors on stdin (same language and output format as
//!                                          ocaml/c16/main.ml, the extracted model):
//!       B <rot m|h|d|n> <max|-> <prefix|-> <suffix|-> <t0> <first> <step> <count>
//!     = an appender built at clock t0 in an empty directory (exclusive interface), then for i < count the two
//!     writes at clocks first+i*step-1 (byte 'x') and first+i*step (byte 'y'); after each a line
//!     "<clock> <name:size,...>" (sorted by name).  No sleeps: use max 1 or no limit (pruning among several
//!     files needs distinguishable created() stamps).
use serde_json::{json, Value};
use std::cell::Cell;
use std::io::{BufRead, Read, Write};
use std::panic::{catch_unwind, AssertUnwindSafe};
use std::path::{Path, PathBuf};
use std::sync::atomic::{AtomicBool, AtomicU64, Ordering};
use std::sync::{mpsc, Arc, Barrier, Condvar, Mutex};
use std::time::{Duration, UNIX_EPOCH};
use tracing_appender::rolling::{RollingFileAppender, Rotation, __verif};
use tracing_subscriber::fmt::writer::MakeWriter;

const MAXT: usize = 16;
struct ParkState {
    want: [u8; MAXT], // 0 = run through, 1 = park at yield point 1, 2 = park at yield point 0
    released: [bool; MAXT],
}
static PARK: Mutex<ParkState> = Mutex::new(ParkState { want: [0; MAXT], released: [false; MAXT] });
static CV: Condvar = Condvar::new();
static YIELDS: AtomicU64 = AtomicU64::new(0);
/// per worker thread: the reading the clock is switched to when the thread passes yield point 1 (op "w2")
static YCLOCK: Mutex<[Option<i64>; MAXT]> = Mutex::new([None; MAXT]);
static EVENTS: Mutex<Option<mpsc::Sender<Event>>> = Mutex::new(None);
thread_local! { static TH: Cell<usize> = Cell::new(usize::MAX); }

enum Event {
    Parked(usize),
    Done(usize, Result<(), String>),
}
enum Cmd {
    Write { t: i64, buf: Vec<u8>, barrier: Option<Arc<Barrier>> },
    /// make_writer at clock t, then HOLD the RollingWriter (a read guard on the file) until released; then write and drop
    Hold { t: i64, buf: Vec<u8> },
    Stop,
}

fn send_event(e: Event) {
    if let Some(tx) = EVENTS.lock().unwrap().as_ref() {
        let _ = tx.send(e);
    }
}

fn yield_cb(id: u32) {
    if id > 1 {
        return;
    }
    if id == 1 {
        YIELDS.fetch_add(1, Ordering::SeqCst); // = successful advance_date calls
    }
    let th = TH.with(|c| c.get());
    if th >= MAXT {
        return;
    }
    if id == 1 {
        if let Some(t2) = YCLOCK.lock().unwrap()[th].take() {
            __verif::set_thread_clock(Some((t2, 0)));
        }
    }
    let mut g = PARK.lock().unwrap();
    if (id == 1 && g.want[th] == 1) || (id == 0 && g.want[th] == 2) {
        g.want[th] = 0;
        send_event(Event::Parked(th));
        while !g.released[th] {
            g = CV.wait(g).unwrap();
        }
        g.released[th] = false;
    }
}

fn unhex(s: &str) -> Vec<u8> {
    (0..s.len() / 2).map(|i| u8::from_str_radix(&s[2 * i..2 * i + 2], 16).unwrap()).collect()
}
fn hex(b: &[u8]) -> String {
    b.iter().map(|x| format!("{:02x}", x)).collect()
}

fn listing(dir: &Path) -> Value {
    let mut v: Vec<(String, Value, u128)> = Vec::new();
    if let Ok(rd) = std::fs::read_dir(dir) {
        for e in rd.flatten() {
            let name = e.file_name().to_string_lossy().into_owned();
            let md = match e.metadata() {
                Ok(m) => m,
                Err(_) => continue,
            };
            let created = md.created().ok().and_then(|c| c.duration_since(UNIX_EPOCH).ok()).map(|d| d.as_nanos()).unwrap_or(0);
            if md.is_file() {
                let mut s = Vec::new();
                let _ = std::fs::File::open(e.path()).and_then(|mut f| f.read_to_end(&mut s));
                v.push((name, Value::String(hex(&s)), created));
            } else {
                v.push((name, Value::Null, created));
            }
        }
    }
    v.sort_by(|a, b| a.0.cmp(&b.0));
    Value::Array(v.into_iter().map(|(n, c, t)| json!([n, c, t.to_string()])).collect())
}

/// How often the barrier below had to wait, and whether a file appeared with a created() stamp that is not strictly
/// greater than everything that was there before (then the case is run again: the model's creation order would not be
/// the file system's).
static BARRIER_WAITS: AtomicU64 = AtomicU64::new(0);
static STAMP_ANOMALY: AtomicBool = AtomicBool::new(false);

fn stamp_of(p: &Path) -> u128 {
    std::fs::metadata(p).ok().and_then(|m| m.created().ok()).and_then(|c| c.duration_since(UNIX_EPOCH).ok()).map(|d| d.as_nanos()).unwrap_or(0)
}

fn max_stamp(dir: &Path) -> u128 {
    let mut m = 0u128;
    if let Ok(rd) = std::fs::read_dir(dir) {
        for e in rd.flatten() {
            m = m.max(stamp_of(&e.path()));
        }
    }
    m
}

/// Returns once a file created NOW gets a created() stamp strictly greater than that of every entry of `dir`.
/// A sleep is not enough: the stamp comes from the kernel's coarse clock, which under load (a descheduled vCPU) can stand
/// still for longer than any fixed gap - so the stamp of a probe file (next to `dir`, never inside it) is read back.
fn clock_barrier(dir: &Path, gap: Duration) {
    std::thread::sleep(gap);
    let m = max_stamp(dir);
    let mut name = dir.file_name().unwrap().to_os_string();
    name.push(".probe");
    let probe = dir.with_file_name(name);
    for _ in 0..20000 {
        let _ = std::fs::remove_file(&probe);
        std::fs::write(&probe, b"").unwrap();
        let s = stamp_of(&probe);
        let _ = std::fs::remove_file(&probe);
        if s > m {
            return;
        }
        BARRIER_WAITS.fetch_add(1, Ordering::SeqCst);
        std::thread::sleep(Duration::from_millis(1));
    }
    STAMP_ANOMALY.store(true, Ordering::SeqCst);
}

/// every (name, stamp) of `after` that is not in `before` must be strictly newer than everything in `before`, and no two
/// entries may share a stamp
fn check_stamps(before: &Value, after: &Value) {
    let get = |v: &Value| -> Vec<(String, String)> {
        v.as_array().map(|a| a.iter().map(|e| (e[0].as_str().unwrap_or("").to_string(), e[2].as_str().unwrap_or("0").to_string())).collect()).unwrap_or_default()
    };
    let (b, a) = (get(before), get(after));
    let mx = b.iter().map(|(_, s)| s.parse::<u128>().unwrap_or(0)).max().unwrap_or(0);
    let mut seen = std::collections::HashSet::new();
    for (n, s) in &a {
        let v = s.parse::<u128>().unwrap_or(0);
        if !seen.insert(v) {
            STAMP_ANOMALY.store(true, Ordering::SeqCst);
        }
        if !b.iter().any(|(n0, s0)| n0 == n && s0 == s) && v <= mx {
            STAMP_ANOMALY.store(true, Ordering::SeqCst);
        }
    }
}

fn rotation(s: &str) -> Rotation {
    match s {
        "m" => Rotation::MINUTELY,
        "h" => Rotation::HOURLY,
        "d" => Rotation::DAILY,
        _ => Rotation::NEVER,
    }
}

fn panic_msg(e: Box<dyn std::any::Any + Send>) -> String {
    if let Some(s) = e.downcast_ref::<&str>() {
        s.to_string()
    } else if let Some(s) = e.downcast_ref::<String>() {
        s.clone()
    } else {
        "panic".to_string()
    }
}

/// One case = a directory with pre-existing entries and one or more appender LIFETIMES over it: the case's own
/// (t0, max, iface, threads, ops) and then every element of "more" (same keys; rotation/prefix/suffix are the case's).
/// Each lifetime builds a new appender over whatever the directory holds and drops it at the end.
fn run_case(case: &Value, dir: &Path, gap: Duration) -> Value {
    std::fs::create_dir_all(dir).unwrap();
    for p in case["pre"].as_array().map(|a| a.as_slice()).unwrap_or(&[]) {
        let name = p[0].as_str().unwrap();
        // never assume the gap sufficed: the stamp is read back and must be strictly newer than every earlier entry
        let mut ok = false;
        for _ in 0..50 {
            clock_barrier(dir, gap);
            let before = max_stamp(dir);
            match p[1].as_str() {
                Some(h) => std::fs::write(dir.join(name), unhex(h)).unwrap(),
                None => std::fs::create_dir_all(dir.join(name)).unwrap(),
            }
            if stamp_of(&dir.join(name)) > before {
                ok = true;
                break;
            }
            BARRIER_WAITS.fetch_add(1, Ordering::SeqCst);
            let _ = std::fs::remove_file(dir.join(name));
            let _ = std::fs::remove_dir_all(dir.join(name));
        }
        if !ok {
            STAMP_ANOMALY.store(true, Ordering::SeqCst);
        }
    }
    let mut first = run_life(case, dir, gap);
    let mut more = Vec::new();
    for m in case["more"].as_array().map(|a| a.as_slice()).unwrap_or(&[]) {
        let mut c = case.clone();
        for k in ["t0", "max", "iface", "threads", "ops"] {
            c[k] = m[k].clone();
        }
        more.push(run_life(&c, dir, gap));
    }
    if !more.is_empty() {
        first["more"] = Value::Array(more);
    }
    first
}

fn run_life(case: &Value, dir: &Path, gap: Duration) -> Value {
    clock_barrier(dir, gap);
    let before_build = listing(dir);
    let mut b = RollingFileAppender::builder().rotation(rotation(case["rot"].as_str().unwrap()));
    if let Some(p) = case["prefix"].as_str() {
        b = b.filename_prefix(p);
    }
    if let Some(s) = case["suffix"].as_str() {
        b = b.filename_suffix(s);
    }
    if let Some(n) = case["max"].as_u64() {
        b = b.max_log_files(n as usize);
    }
    __verif::set_thread_clock(Some((case["t0"].as_i64().unwrap(), 0)));
    // Builder::build computes next_date first: past the time crate's range that PANICS (before anything is touched)
    let app = match catch_unwind(AssertUnwindSafe(|| b.build(dir))) {
        Ok(Ok(a)) => a,
        Ok(Err(e)) => return json!({"id": case["id"], "error": format!("build: {}", e)}),
        Err(p) => return json!({"id": case["id"], "build_panic": panic_msg(p), "init": listing(dir), "steps": []}),
    };
    let init = listing(dir);
    check_stamps(&before_build, &init);
    let mut last = init.clone();
    let shared = case["iface"].as_str() == Some("s");
    let ops = case["ops"].as_array().unwrap();
    let mut steps = Vec::new();
    YIELDS.store(0, Ordering::SeqCst);

    if !shared {
        let mut app = app;
        for op in ops {
            clock_barrier(dir, gap);
            let t = op[2].as_i64().unwrap();
            let buf = unhex(op[3].as_str().unwrap());
            __verif::set_thread_clock(Some((t, 0)));
            let r = catch_unwind(AssertUnwindSafe(|| app.write_all(&buf).map_err(|e| e.to_string())));
            let res = match r {
                Ok(Ok(())) => Value::Null,
                Ok(Err(e)) => json!(e),
                Err(p) => json!(format!("panic: {}", panic_msg(p))),
            };
            let now = listing(dir);
            check_stamps(&last, &now);
            steps.push(json!({"res": res, "dir": now.clone()}));
            last = now;
        }
        let _ = app.flush();
        drop(app);
        return json!({"id": case["id"], "init": init, "steps": steps});
    }

    // shared interface
    let nth = (case["threads"].as_u64().unwrap_or(2) as usize).min(MAXT);
    let app = Arc::new(app);
    let (etx, erx) = mpsc::channel::<Event>();
    *EVENTS.lock().unwrap() = Some(etx.clone());
    {
        let mut g = PARK.lock().unwrap();
        g.want = [0; MAXT];
        g.released = [false; MAXT];
    }
    let mut txs = Vec::new();
    let mut handles = Vec::new();
    for i in 0..nth {
        let (tx, rx) = mpsc::channel::<Cmd>();
        txs.push(tx);
        let app = app.clone();
        handles.push(std::thread::spawn(move || {
            TH.with(|c| c.set(i));
            while let Ok(cmd) = rx.recv() {
                match cmd {
                    Cmd::Stop => break,
                    Cmd::Hold { t, buf } => {
                        __verif::set_thread_clock(Some((t, 0)));
                        let r = catch_unwind(AssertUnwindSafe(|| {
                            let mut w = app.make_writer();
                            {
                                let mut g = PARK.lock().unwrap();
                                send_event(Event::Parked(i));
                                while !g.released[i] {
                                    g = CV.wait(g).unwrap();
                                }
                                g.released[i] = false;
                            }
                            let r = w.write_all(&buf).map_err(|e| e.to_string());
                            drop(w);
                            r
                        }));
                        let r = match r {
                            Ok(x) => x,
                            Err(p) => Err(format!("panic: {}", panic_msg(p))),
                        };
                        send_event(Event::Done(i, r));
                    }
                    Cmd::Write { t, buf, barrier } => {
                        __verif::set_thread_clock(Some((t, 0)));
                        if let Some(b) = barrier {
                            b.wait();
                        }
                        let r = catch_unwind(AssertUnwindSafe(|| {
                            let mut w = app.make_writer();
                            let r = w.write_all(&buf).map_err(|e| e.to_string());
                            drop(w);
                            r
                        }));
                        let r = match r {
                            Ok(x) => x,
                            Err(p) => Err(format!("panic: {}", panic_msg(p))),
                        };
                        send_event(Event::Done(i, r));
                    }
                }
            }
        }));
    }
    let wait = Duration::from_secs(60);
    let mut fatal: Option<String> = None;
    let mut parked_now = [false; MAXT];
    for op in ops {
        clock_barrier(dir, gap);
        let kind = op[0].as_str().unwrap();
        let y0 = YIELDS.load(Ordering::SeqCst);
        let mut res = Vec::new();
        let mut parked = false;
        match kind {
            "w" | "park" | "park0" | "w2" => {
                let th = op[1].as_u64().unwrap() as usize % nth;
                if kind == "w2" {
                    YCLOCK.lock().unwrap()[th] = op[4].as_i64();
                } else if kind != "w" {
                    PARK.lock().unwrap().want[th] = if kind == "park" { 1 } else { 2 };
                }
                txs[th].send(Cmd::Write { t: op[2].as_i64().unwrap(), buf: unhex(op[3].as_str().unwrap()), barrier: None }).unwrap();
                match erx.recv_timeout(wait) {
                    Ok(Event::Parked(_)) => {
                        parked = true;
                        parked_now[th] = true;
                    }
                    Ok(Event::Done(_, r)) => {
                        PARK.lock().unwrap().want[th] = 0;
                        res.push(r.err());
                    }
                    Err(_) => fatal = Some(format!("timeout in op {}", op)),
                }
                YCLOCK.lock().unwrap()[th] = None;
            }
            "rel" => {
                let th = op[1].as_u64().unwrap() as usize % nth;
                if parked_now[th] {
                    parked_now[th] = false;
                    PARK.lock().unwrap().released[th] = true;
                    CV.notify_all();
                    match erx.recv_timeout(wait) {
                        Ok(Event::Done(_, r)) => res.push(r.err()),
                        Ok(Event::Parked(_)) => fatal = Some("unexpected park".into()),
                        Err(_) => fatal = Some(format!("timeout in op {}", op)),
                    }
                }
            }
            "race" => {
                let ths: Vec<usize> = op[1].as_array().unwrap().iter().map(|x| x.as_u64().unwrap() as usize % nth).collect();
                let bar = Arc::new(Barrier::new(ths.len()));
                for (k, th) in ths.iter().enumerate() {
                    txs[*th].send(Cmd::Write { t: op[2].as_i64().unwrap(), buf: unhex(op[3][k].as_str().unwrap()), barrier: Some(bar.clone()) }).unwrap();
                }
                for _ in 0..ths.len() {
                    match erx.recv_timeout(wait) {
                        Ok(Event::Done(_, r)) => res.push(r.err()),
                        Ok(Event::Parked(_)) => fatal = Some("unexpected park".into()),
                        Err(_) => fatal = Some(format!("timeout in op {}", op)),
                    }
                }
            }
            // ["hold", [holder, rotator], t, [buf_h, buf_r], t_hold]: the holder obtains its writer at clock t_hold and keeps it;
            // the rotator calls make_writer at clock t (parking at yield point 1 if it wins a rotation), is released and given
            // time to reach the file lock while the holder still has its writer; then the holder writes and drops.  One
            // harness operation: the creation barrier stays outside the window in which a writer is held.
            "hold" => {
                let ths: Vec<usize> = op[1].as_array().unwrap().iter().map(|x| x.as_u64().unwrap() as usize % nth).collect();
                let (h, r) = (ths[0], ths[1]);
                let mut pending = 0;
                if h == r {
                    fatal = Some("hold: holder and rotator must differ".into());
                } else {
                    txs[h].send(Cmd::Hold { t: op[4].as_i64().unwrap(), buf: unhex(op[3][0].as_str().unwrap()) }).unwrap();
                    let mut h_parked = false;
                    match erx.recv_timeout(wait) {
                        Ok(Event::Parked(_)) => {
                            pending += 1;
                            h_parked = true;
                        }
                        Ok(Event::Done(_, e)) => res.push(e.err()),
                        Err(_) => fatal = Some(format!("timeout in op {}", op)),
                    }
                    PARK.lock().unwrap().want[r] = 1;
                    txs[r].send(Cmd::Write { t: op[2].as_i64().unwrap(), buf: unhex(op[3][1].as_str().unwrap()), barrier: None }).unwrap();
                    match erx.recv_timeout(wait) {
                        Ok(Event::Parked(_)) => {
                            pending += 1;
                            PARK.lock().unwrap().released[r] = true;
                            CV.notify_all();
                            std::thread::sleep(Duration::from_millis(60));
                        }
                        Ok(Event::Done(_, e)) => {
                            PARK.lock().unwrap().want[r] = 0;
                            res.push(e.err());
                        }
                        Err(_) => fatal = Some(format!("timeout in op {}", op)),
                    }
                    if h_parked {
                        PARK.lock().unwrap().released[h] = true;
                        CV.notify_all();
                    }
                    for _ in 0..pending {
                        match erx.recv_timeout(wait) {
                            Ok(Event::Done(_, e)) => res.push(e.err()),
                            Ok(Event::Parked(_)) => fatal = Some("unexpected park".into()),
                            Err(_) => fatal = Some(format!("timeout in op {}", op)),
                        }
                    }
                }
            }
            _ => fatal = Some(format!("unknown op {}", op)),
        }
        let y1 = YIELDS.load(Ordering::SeqCst);
        let now = listing(dir);
        check_stamps(&last, &now);
        steps.push(json!({"res": res, "parked": parked, "rot": y1 - y0, "dir": now.clone()}));
        last = now;
        if fatal.is_some() {
            break;
        }
    }
    // release anything still parked so the threads can stop
    for th in 0..nth {
        if parked_now[th] {
            PARK.lock().unwrap().released[th] = true;
            CV.notify_all();
            let _ = erx.recv_timeout(wait);
        }
    }
    for tx in &txs {
        let _ = tx.send(Cmd::Stop);
    }
    if fatal.is_none() {
        for h in handles {
            let _ = h.join();
        }
    }
    *EVENTS.lock().unwrap() = None;
    let fin = listing(dir);
    json!({"id": case["id"], "init": init, "steps": steps, "final": fin, "fatal": fatal})
}

fn probe(dir: &Path, n: usize) {
    std::fs::create_dir_all(dir).unwrap();
    let mut stamps = Vec::new();
    for i in 0..n {
        let p = dir.join(format!("p{}", i));
        std::fs::write(&p, b"x").unwrap();
        let c = std::fs::metadata(&p).unwrap().created().map(|c| c.duration_since(UNIX_EPOCH).unwrap().as_nanos());
        match c {
            Ok(c) => stamps.push(c),
            Err(e) => {
                println!("{}", json!({"probe": "unsupported", "error": e.to_string()}));
                let _ = std::fs::remove_dir_all(dir);
                return;
            }
        }
        // ~50 us of busy work so the loop spans several clock ticks
        let t = std::time::Instant::now();
        while t.elapsed() < Duration::from_micros(50) {}
    }
    let mut ties = 0u64;
    let mut inversions = 0u64;
    let mut min_step = u128::MAX;
    let mut max_step = 0u128;
    for w in stamps.windows(2) {
        if w[1] == w[0] {
            ties += 1;
        } else if w[1] < w[0] {
            inversions += 1;
        } else {
            min_step = min_step.min(w[1] - w[0]);
            max_step = max_step.max(w[1] - w[0]);
        }
    }
    let _ = std::fs::remove_dir_all(dir);
    println!(
        "{}",
        json!({"probe": "ok", "n": n, "ties": ties, "inversions": inversions,
               "min_step_ns": if min_step == u128::MAX { 0 } else { min_step as u64 }, "max_step_ns": max_step as u64})
    );
}

fn sweep_listing(dir: &Path, out: &mut String) {
    let mut v: Vec<(String, u64)> = Vec::new();
    if let Ok(rd) = std::fs::read_dir(dir) {
        for e in rd.flatten() {
            let sz = e.metadata().map(|m| m.len()).unwrap_or(u64::MAX);
            v.push((e.file_name().to_string_lossy().into_owned(), sz));
        }
    }
    v.sort();
    for (i, (n, sz)) in v.iter().enumerate() {
        if i > 0 {
            out.push(',');
        }
        out.push_str(n);
        out.push(':');
        out.push_str(&sz.to_string());
    }
}

fn sweep(work: &Path, outpath: &Path) {
    let mut out = std::io::BufWriter::with_capacity(1 << 20, std::fs::File::create(outpath).unwrap());
    let stdin = std::io::stdin();
    let mut n = 0u64;
    let mut line_buf = String::new();
    for line in stdin.lock().lines() {
        let line = line.unwrap();
        let f: Vec<&str> = line.split_whitespace().collect();
        if f.is_empty() {
            continue;
        }
        if f.len() != 9 || f[0] != "B" {
            writeln!(out, "!bad descriptor: {}", line).unwrap();
            continue;
        }
        n += 1;
        let dir = work.join(format!("s{}_{}", std::process::id(), n));
        let _ = std::fs::remove_dir_all(&dir);
        std::fs::create_dir_all(&dir).unwrap();
        let num = |s: &str| s.parse::<i64>().unwrap();
        let (t0, first, step, count) = (num(f[5]), num(f[6]), num(f[7]), num(f[8]));
        let mut b = RollingFileAppender::builder().rotation(rotation(f[1]));
        if f[2] != "-" {
            b = b.max_log_files(f[2].parse().unwrap());
        }
        if f[3] != "-" {
            b = b.filename_prefix(f[3]);
        }
        if f[4] != "-" {
            b = b.filename_suffix(f[4]);
        }
        writeln!(out, "# {}", f.join(" ")).unwrap();
        __verif::set_thread_clock(Some((t0, 0)));
        let r = catch_unwind(AssertUnwindSafe(|| {
            let mut app = match b.build(&dir) {
                Ok(a) => a,
                Err(e) => {
                    writeln!(out, "!build: {}", e).unwrap();
                    return;
                }
            };
            line_buf.clear();
            sweep_listing(&dir, &mut line_buf);
            writeln!(out, "{} {}", t0, line_buf).unwrap();
            for i in 0..count {
                let bd = first + i * step;
                for (t, byte) in [(bd - 1, b"x"), (bd, b"y")] {
                    __verif::set_thread_clock(Some((t, 0)));
                    if let Err(e) = app.write_all(byte) {
                        writeln!(out, "!write at {}: {}", t, e).unwrap();
                    }
                    line_buf.clear();
                    sweep_listing(&dir, &mut line_buf);
                    writeln!(out, "{} {}", t, line_buf).unwrap();
                }
            }
        }));
        if let Err(p) = r {
            writeln!(out, "!panic: {}", panic_msg(p)).unwrap();
        }
        let _ = std::fs::remove_dir_all(&dir);
    }
    out.flush().unwrap();
}

fn main() {
    let args: Vec<String> = std::env::args().collect();
    let mode = args.get(1).map(|s| s.as_str()).unwrap_or("run");
    let work = PathBuf::from(args.get(2).cloned().unwrap_or_else(|| ".".into()));
    if mode == "sweep" {
        std::panic::set_hook(Box::new(|_| {}));
        sweep(&work, &PathBuf::from(args.get(3).cloned().unwrap_or_else(|| "sweep.out".into())));
        return;
    }
    if mode == "probe" {
        probe(&work.join(format!("probe_{}", std::process::id())), args.get(3).and_then(|s| s.parse().ok()).unwrap_or(2000));
        return;
    }
    let gap = Duration::from_micros((args.get(3).and_then(|s| s.parse::<f64>().ok()).unwrap_or(10.0) * 1000.0) as u64);
    __verif::set_yield(Some(Box::new(yield_cb)));
    // silence panic messages of the code under test (they are reported in the JSON)
    std::panic::set_hook(Box::new(|_| {}));
    let stdin = std::io::stdin();
    let out = std::io::stdout();
    let mut n = 0u64;
    for line in stdin.lock().lines() {
        let line = line.unwrap();
        if line.trim().is_empty() {
            continue;
        }
        let case: Value = match serde_json::from_str(&line) {
            Ok(v) => v,
            Err(e) => {
                writeln!(out.lock(), "{}", json!({"error": format!("bad case: {}", e)})).unwrap();
                continue;
            }
        };
        n += 1;
        // a case during which the file system handed out equal or non-increasing created() stamps says nothing about
        // the appender (its pruning order is then the directory's hash order): it is run again in a fresh directory,
        // and reported as a harness failure - never as agreement - if that keeps happening
        let mut v = Value::Null;
        let mut reruns = 0u64;
        for attempt in 0..6 {
            let dir = work.join(format!("c{}_{}_{}", std::process::id(), n, attempt));
            let _ = std::fs::remove_dir_all(&dir);
            STAMP_ANOMALY.store(false, Ordering::SeqCst);
            let r = catch_unwind(AssertUnwindSafe(|| run_case(&case, &dir, gap)));
            v = match r {
                Ok(v) => v,
                Err(p) => json!({"id": case["id"], "error": format!("harness panic: {}", panic_msg(p))}),
            };
            let _ = std::fs::remove_dir_all(&dir);
            if !STAMP_ANOMALY.load(Ordering::SeqCst) {
                break;
            }
            reruns += 1;
            if attempt == 5 {
                v = json!({"id": case["id"], "error": "created() stamps equal or not increasing in 6 attempts: the file system's creation order is unusable"});
            }
        }
        v["stamp_reruns"] = json!(reruns);
        v["barrier_waits"] = json!(BARRIER_WAITS.swap(0, Ordering::SeqCst));
        let mut o = out.lock();
        writeln!(o, "{}", v).unwrap();
        o.flush().unwrap();
    }
}
