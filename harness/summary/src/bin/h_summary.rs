//! C08 harness: static summaries (interest, max-level hint) of filters, combinators and stacks,
//! evaluated on the REAL crates for every metadata of a fixed pool in a few span contexts.
//!
//! Input (stdin or a file given as argv[1]), one case per line:
//!     F <id> <ctxspec> <filter>      a filter expression, probed through a transparent probe layer
//!     S <id> <ctxspec> <stack>       a stack `(stack L1 .. Lk)`, k <= 4, built as registry().with(L1)...with(Lk)
//! ctxspec = `((P VX VY) ...)` (0..2 span instances: pool index of a span metadata + values of x, y);
//! context k = the first k spans entered (k = 0..len), and the closure context number is k.
//!
//! filter ::= (lvl N) | (tgt (T N)*) | (tgts "a=warn,a[{x}]=trace") | (env ID "dirs") | (fn HEX H) | (dyn HEX H CS) | (and F F) | (or F F)
//!          | (not F) | (some F) | (none) | (box F) | (arc F) | (reload F)
//!            N: 0 = OFF, 1..5 = ERROR..TRACE; T: target or `*` (default); H: `-` or N; CS: `-` or (HEXALWAYS HEXNEVER)
//! layer  ::= (rec N) | (glob LEAF) | (filt L F) | (pair OUTER INNER) | (lsome L) | (lnone) | (vec L*) | (lbox L)
//!          | (lreload L) | (lswap L0 L1) | (ident)
//!            (pair A B) is `B.and_then(A)`: A is `Layered::subscriber` (asked first), B is `Layered::inner`.
//!
//! Pool: index i in 0..80, fs = i%2, kind = (i/2)%2 (0 event, 1 span), target = (i/4)%4 of [a, ab, a::b, b],
//! level = i/16 (ERROR..TRACE); name: event `ev`, span `sp` (fs 0) / `sq` (fs 1); fields: fs 0 = [], fs 1 = [x, y].
//! Closure tables: bit (ctx*80 + i) of HEX (FilterFn ignores ctx).
//!
//! Output: one JSON object per case.  interest: 0 never, 1 sometimes, 2 always; hint: -1 none, 0..5.
use std::cell::RefCell;
use std::io::{BufRead, Write};
use std::sync::atomic::{AtomicUsize, Ordering};
use std::sync::{Arc, Mutex};
use tracing_core::{
    callsite::{Callsite, Identifier},
    collect::{Collect, Interest},
    dispatch::{self, Dispatch},
    field::{FieldSet, Value},
    metadata::Kind,
    span, Event, Level, LevelFilter, Metadata,
};
use tracing_subscriber::{
    filter::{dynamic_filter_fn, filter_fn, EnvFilter, FilterExt, Targets},
    registry::{LookupSpan, Registry},
    reload,
    subscribe::{CollectExt, Context, Filter, Identity, Layered, Subscribe},
};

// ------------------------------------------------------------------------------------------------
// the metadata pool (real static callsites + metadata)

const NPOOL: usize = 80;
const LEVELS: [Level; 5] = [Level::ERROR, Level::WARN, Level::INFO, Level::DEBUG, Level::TRACE];
const FILTERS: [LevelFilter; 6] = [
    LevelFilter::OFF,
    LevelFilter::ERROR,
    LevelFilter::WARN,
    LevelFilter::INFO,
    LevelFilter::DEBUG,
    LevelFilter::TRACE,
];
const TARGETS: [&str; 4] = ["a", "ab", "a::b", "b"];
const F0: [&str; 0] = [];
const F1: [&str; 2] = ["x", "y"];

struct Cs(usize);
impl Callsite for Cs {
    fn set_interest(&self, _: Interest) {}
    fn metadata(&self) -> &Metadata<'_> {
        &METAS[self.0]
    }
}

const fn mk(i: usize) -> Metadata<'static> {
    let fs = i % 2;
    let span = (i / 2) % 2 == 1;
    let name = if !span {
        "ev"
    } else if fs == 0 {
        "sp"
    } else {
        "sq"
    };
    let names: &'static [&'static str] = if fs == 0 { &F0 } else { &F1 };
    Metadata::new(
        name,
        TARGETS[(i / 4) % 4],
        LEVELS[i / 16],
        None,
        Some(i as u32),
        None,
        FieldSet::new(names, Identifier(&CSS[i])),
        if span { Kind::SPAN } else { Kind::EVENT },
    )
}

macro_rules! arr {
    ($f:ident; $($i:literal)*) => { [ $( $f($i) ),* ] };
}
static CSS: [Cs; NPOOL] = arr!(Cs; 0 1 2 3 4 5 6 7 8 9 10 11 12 13 14 15 16 17 18 19 20 21 22 23 24 25 26 27 28 29 30 31 32 33 34 35 36 37 38 39 40 41 42 43 44 45 46 47 48 49 50 51 52 53 54 55 56 57 58 59 60 61 62 63 64 65 66 67 68 69 70 71 72 73 74 75 76 77 78 79);
static METAS: [Metadata<'static>; NPOOL] = arr!(mk; 0 1 2 3 4 5 6 7 8 9 10 11 12 13 14 15 16 17 18 19 20 21 22 23 24 25 26 27 28 29 30 31 32 33 34 35 36 37 38 39 40 41 42 43 44 45 46 47 48 49 50 51 52 53 54 55 56 57 58 59 60 61 62 63 64 65 66 67 68 69 70 71 72 73 74 75 76 77 78 79);

fn idx(m: &Metadata<'_>) -> usize {
    m.line().expect("pool metadata carries its index in `line`") as usize
}

/// the closure context number (set by the prober; read by DynFilterFn closures)
static CTXN: AtomicUsize = AtomicUsize::new(0);

// ------------------------------------------------------------------------------------------------
// s-expressions

#[derive(Debug, Clone)]
enum Sx {
    A(String),
    L(Vec<Sx>),
}
impl Sx {
    fn list(&self) -> &[Sx] {
        match self {
            Sx::L(v) => v,
            Sx::A(a) => panic!("expected a list, got atom {}", a),
        }
    }
    fn atom(&self) -> &str {
        match self {
            Sx::A(a) => a,
            Sx::L(_) => panic!("expected an atom, got a list"),
        }
    }
    fn head(&self) -> &str {
        self.list()[0].atom()
    }
    fn arg(&self, i: usize) -> &Sx {
        &self.list()[i]
    }
    fn num(&self) -> usize {
        self.atom().parse().unwrap_or_else(|_| panic!("bad number {}", self.atom()))
    }
}

fn parse_sx(s: &str) -> Vec<Sx> {
    let b: Vec<char> = s.chars().collect();
    let mut stack: Vec<Vec<Sx>> = vec![vec![]];
    let mut i = 0;
    while i < b.len() {
        let c = b[i];
        if c.is_whitespace() {
            i += 1;
        } else if c == '(' {
            stack.push(vec![]);
            i += 1;
        } else if c == ')' {
            let l = stack.pop().expect("unbalanced )");
            stack.last_mut().expect("unbalanced )").push(Sx::L(l));
            i += 1;
        } else if c == '"' {
            let mut j = i + 1;
            while b[j] != '"' {
                j += 1;
            }
            stack.last_mut().unwrap().push(Sx::A(b[i + 1..j].iter().collect()));
            i = j + 1;
        } else {
            let mut j = i;
            while j < b.len() && !b[j].is_whitespace() && b[j] != '(' && b[j] != ')' {
                j += 1;
            }
            stack.last_mut().unwrap().push(Sx::A(b[i..j].iter().collect()));
            i = j;
        }
    }
    assert!(stack.len() == 1, "unbalanced (");
    stack.pop().unwrap()
}

fn hexbits(h: &str) -> Arc<Vec<bool>> {
    // big-endian hex numeral; bit k of the number = entry k
    let mut v = Vec::with_capacity(h.len() * 4);
    for c in h.chars().rev() {
        let d = c.to_digit(16).expect("hex digit");
        for k in 0..4 {
            v.push((d >> k) & 1 == 1);
        }
    }
    Arc::new(v)
}
fn bit(v: &[bool], k: usize) -> bool {
    v.get(k).copied().unwrap_or(false)
}
fn opt_hint(s: &Sx) -> Option<LevelFilter> {
    if s.atom() == "-" {
        None
    } else {
        Some(FILTERS[s.num()])
    }
}

// ------------------------------------------------------------------------------------------------
// building real filters and layers

type BF<C> = Box<dyn Filter<C> + Send + Sync + 'static>;
type BL<C> = Box<dyn Subscribe<C> + Send + Sync + 'static>;

trait Col: Collect + for<'a> LookupSpan<'a> + Send + Sync + 'static {}
impl<T: Collect + for<'a> LookupSpan<'a> + Send + Sync + 'static> Col for T {}

struct Rt {
    log: Arc<Mutex<Vec<u32>>>,
    /// `lreload`: run once the stack is complete, before anything is observed
    after: RefCell<Vec<Box<dyn FnOnce()>>>,
    /// `lswap`: run between the two observation phases (Handle::reload of a layer of a live stack)
    swap: RefCell<Vec<Box<dyn FnOnce()>>>,
}

/// Builds the leaf filter described by `$s` and hands it (with its concrete type) to `$k`, which boxes it
/// as a `Filter` or as a `Subscribe` (the leaf filters implement both).
macro_rules! leaf {
    ($s:expr, $C:ty, $bx:ty) => {{
        let s: &Sx = $s;
        match s.head() {
            "lvl" => Some(Box::new(FILTERS[s.arg(1).num()]) as $bx),
            "tgt" => {
                let mut t = Targets::new();
                for d in &s.list()[1..] {
                    let lf = FILTERS[d.arg(1).num()];
                    if d.arg(0).atom() == "*" {
                        t = t.with_default(lf);
                    } else {
                        t = t.with_target(d.arg(0).atom().to_string(), lf);
                    }
                }
                Some(Box::new(t) as $bx)
            }
            "tgts" => {
                // parsed from a string: `Targets::from_str` also accepts `target[{field,..}]=level`
                let t: Targets = s.arg(1).atom().parse().expect("Targets string parses");
                Some(Box::new(t) as $bx)
            }
            "env" => {
                let f = EnvFilter::builder().parse(s.arg(2).atom()).expect("directive string parses");
                Some(Box::new(f) as $bx)
            }
            "fn" => {
                let bits = hexbits(s.arg(1).atom());
                let f = filter_fn(move |m: &Metadata<'_>| bit(&bits, idx(m)));
                Some(match opt_hint(s.arg(2)) {
                    Some(h) => Box::new(f.with_max_level_hint(h)) as $bx,
                    None => Box::new(f) as $bx,
                })
            }
            "dyn" => {
                let bits = hexbits(s.arg(1).atom());
                let f = dynamic_filter_fn(move |m: &Metadata<'_>, _cx: &Context<'_, $C>| {
                    bit(&bits, CTXN.load(Ordering::SeqCst) * NPOOL + idx(m))
                });
                let hint = opt_hint(s.arg(2));
                Some(match s.arg(3) {
                    Sx::A(_) => match hint {
                        Some(h) => Box::new(f.with_max_level_hint(h)) as $bx,
                        None => Box::new(f) as $bx,
                    },
                    Sx::L(cs) => {
                        let al = hexbits(cs[0].atom());
                        let nv = hexbits(cs[1].atom());
                        let f = f.with_callsite_filter(move |m: &'static Metadata<'static>| {
                            if bit(&al, idx(m)) {
                                Interest::always()
                            } else if bit(&nv, idx(m)) {
                                Interest::never()
                            } else {
                                Interest::sometimes()
                            }
                        });
                        match hint {
                            Some(h) => Box::new(f.with_max_level_hint(h)) as $bx,
                            None => Box::new(f) as $bx,
                        }
                    }
                })
            }
            _ => None,
        }
    }};
}

fn build_filter<C: Col>(s: &Sx, rt: &Rt) -> BF<C> {
    if let Some(f) = leaf!(s, C, BF<C>) {
        return f;
    }
    match s.head() {
        "and" => Box::new(build_filter::<C>(s.arg(1), rt).and(build_filter::<C>(s.arg(2), rt))),
        "or" => Box::new(build_filter::<C>(s.arg(1), rt).or(build_filter::<C>(s.arg(2), rt))),
        "not" => Box::new(build_filter::<C>(s.arg(1), rt).not()),
        "some" => Box::new(Some(build_filter::<C>(s.arg(1), rt))),
        "none" => Box::new(None::<BF<C>>),
        "box" => Box::new(build_filter::<C>(s.arg(1), rt)),
        "arc" => {
            let a: Arc<dyn Filter<C> + Send + Sync + 'static> = Arc::from(build_filter::<C>(s.arg(1), rt));
            Box::new(a)
        }
        "reload" => {
            // constructed around a placeholder, then reloaded to the real value through the handle
            let placeholder: BF<C> = Box::new(LevelFilter::OFF);
            let (r, h) = reload::Subscriber::new(placeholder);
            h.reload(build_filter::<C>(s.arg(1), rt)).expect("reload");
            Box::new(r)
        }
        h => panic!("unknown filter form {}", h),
    }
}

struct Rec {
    name: u32,
    log: Arc<Mutex<Vec<u32>>>,
}
impl<C: Collect + for<'a> LookupSpan<'a>> Subscribe<C> for Rec {
    fn on_event(&self, _: &Event<'_>, _: Context<'_, C>) {
        self.log.lock().unwrap().push(self.name);
    }
    fn on_new_span(&self, _: &span::Attributes<'_>, _: &span::Id, _: Context<'_, C>) {
        self.log.lock().unwrap().push(self.name);
    }
}

fn has_filtered(s: &Sx) -> bool {
    match s {
        Sx::A(_) => false,
        Sx::L(v) => (!v.is_empty() && matches!(&v[0], Sx::A(a) if a == "filt")) || v.iter().any(has_filtered),
    }
}

fn build_layer<C: Col>(s: &Sx, rt: &Rt) -> BL<C> {
    match s.head() {
        "rec" => Box::new(Rec { name: s.arg(1).num() as u32, log: rt.log.clone() }),
        "glob" => leaf!(s.arg(1), C, BL<C>).expect("(glob F): F must be a leaf filter"),
        "filt" => Box::new(build_layer::<C>(s.arg(1), rt).with_filter(build_filter::<C>(s.arg(2), rt))),
        "pair" => {
            let outer = build_layer::<C>(s.arg(1), rt);
            let inner = build_layer::<C>(s.arg(2), rt);
            Box::new(inner.and_then(outer))
        }
        "lsome" => Box::new(Some(build_layer::<C>(s.arg(1), rt))),
        "lnone" => Box::new(None::<BL<C>>),
        "vec" => {
            let v: Vec<BL<C>> = s.list()[1..].iter().map(|e| build_layer::<C>(e, rt)).collect();
            Box::new(v)
        }
        "lbox" => Box::new(build_layer::<C>(s.arg(1), rt)),
        "lreload" => {
            let real = build_layer::<C>(s.arg(1), rt);
            if has_filtered(s.arg(1)) {
                // the documented restriction: a Filtered must be inside when the stack is built
                let (r, _h) = reload::Subscriber::new(real);
                Box::new(r)
            } else {
                // built around a placeholder; the real value is installed after the stack is complete
                let placeholder: BL<C> = Box::new(Identity::new());
                let (r, h) = reload::Subscriber::new(placeholder);
                rt.after.borrow_mut().push(Box::new(move || h.reload(real).expect("reload")));
                Box::new(r)
            }
        }
        "lswap" => {
            // reload::Subscriber holding V0 while the stack is built and observed (phase `pre`), then
            // Handle::reload(V1) and a second observation of the same live stack
            let v0 = build_layer::<C>(s.arg(1), rt);
            let v1 = build_layer::<C>(s.arg(2), rt);
            let (r, h) = reload::Subscriber::new(v0);
            rt.swap.borrow_mut().push(Box::new(move || h.reload(v1).expect("reload")));
            Box::new(r)
        }
        "ident" => Box::new(Identity::new()),
        h => panic!("unknown layer form {}", h),
    }
}

type C0 = Registry;
type C1 = Layered<BL<C0>, C0>;
type C2 = Layered<BL<C1>, C1>;
type C3 = Layered<BL<C2>, C2>;

fn build_stack(s: &Sx, rt: &Rt) -> Arc<dyn Collect + Send + Sync> {
    assert_eq!(s.head(), "stack");
    let ls = &s.list()[1..];
    let c0 = tracing_subscriber::registry();
    if ls.is_empty() {
        return Arc::new(c0);
    }
    let c1: C1 = c0.with(build_layer::<C0>(&ls[0], rt));
    if ls.len() == 1 {
        return Arc::new(c1);
    }
    let c2: C2 = c1.with(build_layer::<C1>(&ls[1], rt));
    if ls.len() == 2 {
        return Arc::new(c2);
    }
    let c3: C3 = c2.with(build_layer::<C2>(&ls[2], rt));
    if ls.len() == 3 {
        return Arc::new(c3);
    }
    let c4 = c3.with(build_layer::<C3>(&ls[3], rt));
    assert!(ls.len() == 4, "at most 4 layers");
    Arc::new(c4)
}

// ------------------------------------------------------------------------------------------------
// probing

fn enc_i(i: Interest) -> u8 {
    if i.is_never() {
        0
    } else if i.is_always() {
        2
    } else {
        1
    }
}
fn enc_h(h: Option<LevelFilter>) -> i32 {
    match h {
        None => -1,
        Some(f) => FILTERS.iter().position(|x| *x == f).unwrap() as i32,
    }
}

/// Emits the span/event described by pool entry `i` through the dispatcher WITHOUT asking `enabled`.
fn emit(d: &Dispatch, i: usize, vx: u64, vy: u64, keep: bool) -> Option<span::Id> {
    let m: &'static Metadata<'static> = &METAS[i];
    let fs = m.fields();
    macro_rules! go {
        ($vs:expr) => {{
            let vs = $vs;
            if m.is_span() {
                let attrs = span::Attributes::new(m, &vs);
                let id = d.new_span(&attrs);
                if keep {
                    Some(id)
                } else {
                    d.try_close(id);
                    None
                }
            } else {
                d.event(&Event::new(m, &vs));
                None
            }
        }};
    }
    if fs.len() == 0 {
        let none: [(&tracing_core::field::Field, Option<&dyn Value>); 0] = [];
        go!(fs.value_set(&none))
    } else {
        let fx = fs.field("x").unwrap();
        let fy = fs.field("y").unwrap();
        let vals = [(&fx, Some(&vx as &dyn Value)), (&fy, Some(&vy as &dyn Value))];
        go!(fs.value_set(&vals))
    }
}

fn ctx_spans(s: &Sx) -> Vec<(usize, u64, u64)> {
    s.list().iter().map(|e| (e.arg(0).num(), e.arg(1).num() as u64, e.arg(2).num() as u64)).collect()
}

fn join<T: std::fmt::Display>(v: &[T]) -> String {
    v.iter().map(|x| x.to_string()).collect::<Vec<_>>().join(",")
}

fn probe_stack(id: &str, spans: &[(usize, u64, u64)], stack: Arc<dyn Collect + Send + Sync>, rt: &Rt) -> String {
    for f in rt.after.borrow_mut().drain(..) {
        f();
    }
    if rt.swap.borrow().is_empty() {
        return format!("{{\"k\":\"s\",\"id\":{},{}}}", id, probe_core(spans, stack, rt));
    }
    let pre = probe_core(spans, stack.clone(), rt);
    for f in rt.swap.borrow_mut().drain(..) {
        f();
    }
    let post = probe_core(spans, stack, rt);
    format!("{{\"k\":\"s\",\"id\":{},{},\"pre\":{{{}}}}}", id, post, pre)
}

fn probe_core(spans: &[(usize, u64, u64)], stack: Arc<dyn Collect + Send + Sync>, rt: &Rt) -> String {
    // pass 1: the static summaries, every callsite in pool order
    let ints: Vec<u8> = METAS.iter().map(|m| enc_i(stack.register_callsite(m))).collect();
    let hint = enc_h(stack.max_level_hint());
    let d = Dispatch::new(stack.clone());
    let mut ctxs = Vec::new();
    dispatch::with_default(&d, || {
        for k in 0..=spans.len() {
            CTXN.store(k, Ordering::SeqCst);
            let ids: Vec<span::Id> = spans[..k]
                .iter()
                .map(|&(p, vx, vy)| {
                    let id = emit(&d, p, vx, vy, true).expect("context entries are spans");
                    d.enter(&id);
                    id
                })
                .collect();
            let mut en = Vec::new();
            let mut recv = Vec::new();
            let mut direct = Vec::new();
            for i in 0..NPOOL {
                rt.log.lock().unwrap().clear();
                // the dynamic path: enabled(), and if it says yes the emission follows (this also consumes
                // the per-layer filter state of the pass, as the real macros do)
                let e = d.enabled(&METAS[i]);
                if e {
                    emit(&d, i, 1, 2, false);
                }
                en.push(e as u8);
                recv.push(format!("[{}]", join(&std::mem::take(&mut *rt.log.lock().unwrap()))));
                // the cached-`always` path: no enabled() call
                emit(&d, i, 1, 2, false);
                direct.push(format!("[{}]", join(&std::mem::take(&mut *rt.log.lock().unwrap()))));
            }
            for id in ids.into_iter().rev() {
                d.exit(&id);
                d.try_close(id);
            }
            ctxs.push(format!("{{\"en\":[{}],\"recv\":[{}],\"direct\":[{}]}}", join(&en), recv.join(","), direct.join(",")));
        }
    });
    CTXN.store(0, Ordering::SeqCst);
    format!("\"hint\":{},\"int\":[{}],\"ctx\":[{}]", hint, join(&ints), ctxs.join(","))
}

/// A transparent layer that lets us call `Filter::{enabled, on_*}` of a bare filter with a real `Context`.
struct Probe {
    f: BF<Registry>,
    last: Arc<Mutex<Option<bool>>>,
}
impl Subscribe<Registry> for Probe {
    fn enabled(&self, m: &Metadata<'_>, cx: Context<'_, Registry>) -> bool {
        *self.last.lock().unwrap() = Some(self.f.enabled(m, &cx));
        true
    }
    fn on_new_span(&self, a: &span::Attributes<'_>, id: &span::Id, cx: Context<'_, Registry>) {
        self.f.on_new_span(a, id, cx)
    }
    fn on_record(&self, id: &span::Id, v: &span::Record<'_>, cx: Context<'_, Registry>) {
        self.f.on_record(id, v, cx)
    }
    fn on_enter(&self, id: &span::Id, cx: Context<'_, Registry>) {
        self.f.on_enter(id, cx)
    }
    fn on_exit(&self, id: &span::Id, cx: Context<'_, Registry>) {
        self.f.on_exit(id, cx)
    }
    fn on_close(&self, id: span::Id, cx: Context<'_, Registry>) {
        self.f.on_close(id, cx)
    }
}

fn probe_filter(id: &str, spans: &[(usize, u64, u64)], f: BF<Registry>) -> String {
    let ints: Vec<u8> = METAS.iter().map(|m| enc_i(f.callsite_enabled(m))).collect();
    let hint = enc_h(f.max_level_hint());
    let last = Arc::new(Mutex::new(None));
    let stack = tracing_subscriber::registry().with(Probe { f, last: last.clone() });
    let d = Dispatch::new(stack);
    let mut ctxs = Vec::new();
    dispatch::with_default(&d, || {
        for k in 0..=spans.len() {
            CTXN.store(k, Ordering::SeqCst);
            let ids: Vec<span::Id> = spans[..k]
                .iter()
                .map(|&(p, vx, vy)| {
                    let id = emit(&d, p, vx, vy, true).expect("context entries are spans");
                    d.enter(&id);
                    id
                })
                .collect();
            let mut acc = Vec::new();
            for m in METAS.iter() {
                *last.lock().unwrap() = None;
                d.enabled(m);
                acc.push(last.lock().unwrap().expect("probe was asked") as u8);
            }
            for id in ids.into_iter().rev() {
                d.exit(&id);
                d.try_close(id);
            }
            ctxs.push(format!("[{}]", join(&acc)));
        }
    });
    CTXN.store(0, Ordering::SeqCst);
    format!("{{\"k\":\"f\",\"id\":{},\"hint\":{},\"int\":[{}],\"acc\":[{}]}}", id, hint, join(&ints), ctxs.join(","))
}

fn run_line(line: &str) -> Option<String> {
    let line = line.trim();
    if line.is_empty() || line.starts_with('#') {
        return None;
    }
    let (kind, rest) = line.split_at(1);
    let rest = rest.trim_start();
    let sp = rest.find(char::is_whitespace).expect("id");
    let id = &rest[..sp];
    let sx = parse_sx(&rest[sp..]);
    assert!(sx.len() == 2, "expected <ctxspec> <expr>");
    let spans = ctx_spans(&sx[0]);
    let rt = Rt { log: Arc::new(Mutex::new(Vec::new())), after: RefCell::new(Vec::new()), swap: RefCell::new(Vec::new()) };
    Some(match kind {
        "F" => probe_filter(id, &spans, build_filter::<Registry>(&sx[1], &rt)),
        "S" => {
            let st = build_stack(&sx[1], &rt);
            probe_stack(id, &spans, st, &rt)
        }
        k => panic!("unknown case kind {}", k),
    })
}

fn main() {
    let input: Box<dyn BufRead> = match std::env::args().nth(1) {
        Some(p) => Box::new(std::io::BufReader::new(std::fs::File::open(p).expect("case file"))),
        None => Box::new(std::io::BufReader::new(std::io::stdin())),
    };
    let stdout = std::io::stdout();
    let mut out = std::io::BufWriter::new(stdout.lock());
    // one fresh thread per case: thread-local filter state, the registry's span stack and EnvFilter scopes start
    // clean for every case, also after a case that panicked (a panic is reported as an observation)
    std::panic::set_hook(Box::new(|_| {}));
    for line in input.lines() {
        let line = line.unwrap();
        let l2 = line.clone();
        match std::thread::spawn(move || run_line(&l2)).join() {
            Ok(Some(s)) => writeln!(out, "{}", s).unwrap(),
            Ok(None) => {}
            Err(e) => {
                let msg = e
                    .downcast_ref::<String>()
                    .cloned()
                    .or_else(|| e.downcast_ref::<&str>().map(|s| s.to_string()))
                    .unwrap_or_default()
                    .replace('\\', "/")
                    .replace('"', "'")
                    .replace('\n', " ");
                let id = line.split_whitespace().nth(1).unwrap_or("0").to_string();
                let cut = msg.char_indices().nth(300).map(|(i, _)| i).unwrap_or(msg.len());
                writeln!(out, "{{\"k\":\"panic\",\"id\":{},\"msg\":\"{}\"}}", id, &msg[..cut]).unwrap();
            }
        }
    }
}
