//! C19 harness: evaluates every Level/LevelFilter operator on every pair, the text functions on a
//! string corpus (hex lines on stdin), set_max -> current() through a real collector, the
//! LevelFilter layer test and the log conversions.  One JSON object per output line.
//!
//! Value encoding (same as Levels/Model.v enc_value): Level ERROR..TRACE = 1..5, LevelFilter OFF..TRACE = 10..15.
use std::cmp::Ordering;
use std::io::{BufRead, Write};
use tracing_core::{
    callsite::Callsite,
    collect::{Collect, Interest},
    dispatch::Dispatch,
    field::FieldSet,
    metadata::Kind,
    span, Event, Level, LevelFilter, Metadata,
};
use tracing_log::{AsLog, AsTrace};

const LEVELS: [Level; 5] = [Level::ERROR, Level::WARN, Level::INFO, Level::DEBUG, Level::TRACE];
const FILTERS: [LevelFilter; 6] = [
    LevelFilter::OFF,
    LevelFilter::ERROR,
    LevelFilter::WARN,
    LevelFilter::INFO,
    LevelFilter::DEBUG,
    LevelFilter::TRACE,
];

fn ord(o: Ordering) -> u8 {
    match o {
        Ordering::Less => 0,
        Ordering::Equal => 1,
        Ordering::Greater => 2,
    }
}
fn oord(o: Option<Ordering>) -> u8 {
    o.map(ord).unwrap_or(9)
}

// identify values by pointer-free means: position in the public constant arrays, found WITHOUT using
// the operators under test (match on Debug text for filters, on as_str for levels would also use code
// under test; we index instead).
macro_rules! ops {
    ($out:expr, $a:expr, $ea:expr, $b:expr, $eb:expr) => {{
        let a = $a;
        let b = $b;
        writeln!($out, "{{\"k\":\"op\",\"op\":\"eq\",\"a\":{},\"b\":{},\"r\":[0,{}]}}", $ea, $eb, (a == b) as u8).unwrap();
        writeln!($out, "{{\"k\":\"op\",\"op\":\"ne\",\"a\":{},\"b\":{},\"r\":[0,{}]}}", $ea, $eb, (a != b) as u8).unwrap();
        writeln!($out, "{{\"k\":\"op\",\"op\":\"lt\",\"a\":{},\"b\":{},\"r\":[0,{}]}}", $ea, $eb, (a < b) as u8).unwrap();
        writeln!($out, "{{\"k\":\"op\",\"op\":\"le\",\"a\":{},\"b\":{},\"r\":[0,{}]}}", $ea, $eb, (a <= b) as u8).unwrap();
        writeln!($out, "{{\"k\":\"op\",\"op\":\"gt\",\"a\":{},\"b\":{},\"r\":[0,{}]}}", $ea, $eb, (a > b) as u8).unwrap();
        writeln!($out, "{{\"k\":\"op\",\"op\":\"ge\",\"a\":{},\"b\":{},\"r\":[0,{}]}}", $ea, $eb, (a >= b) as u8).unwrap();
        writeln!($out, "{{\"k\":\"op\",\"op\":\"partial_cmp\",\"a\":{},\"b\":{},\"r\":[2,{}]}}", $ea, $eb, oord(a.partial_cmp(&b))).unwrap();
    }};
}

fn enc_l(i: usize) -> usize {
    i + 1
}
fn enc_f(i: usize) -> usize {
    10 + i
}
fn idx_l(l: &Level) -> usize {
    // structural identification through the derived Hash/Debug-free route: compare as_str text
    // is code under test too, so use pointer-free brute force over `LEVELS` with derived `==` only as a
    // last resort.  Level is Copy and has no public discriminant; we transmute-free identify through
    // `tracing_core::Level`'s derived `Hash`.
    use std::collections::hash_map::DefaultHasher;
    use std::hash::{Hash, Hasher};
    let h = |x: &Level| {
        let mut s = DefaultHasher::new();
        x.hash(&mut s);
        s.finish()
    };
    LEVELS.iter().position(|c| h(c) == h(l)).unwrap()
}
fn idx_f(f: &LevelFilter) -> usize {
    use std::collections::hash_map::DefaultHasher;
    use std::hash::{Hash, Hasher};
    let h = |x: &LevelFilter| {
        let mut s = DefaultHasher::new();
        x.hash(&mut s);
        s.finish()
    };
    FILTERS.iter().position(|c| h(c) == h(f)).unwrap()
}

struct HintCollector(Option<LevelFilter>);
impl Collect for HintCollector {
    fn register_callsite(&self, _: &'static Metadata<'static>) -> Interest {
        Interest::sometimes()
    }
    fn enabled(&self, _: &Metadata<'_>) -> bool {
        true
    }
    fn max_level_hint(&self) -> Option<LevelFilter> {
        self.0
    }
    fn new_span(&self, _: &span::Attributes<'_>) -> span::Id {
        span::Id::from_u64(1)
    }
    fn record(&self, _: &span::Id, _: &span::Record<'_>) {}
    fn record_follows_from(&self, _: &span::Id, _: &span::Id) {}
    fn event(&self, _: &Event<'_>) {}
    fn enter(&self, _: &span::Id) {}
    fn exit(&self, _: &span::Id) {}
    fn current_span(&self) -> tracing_core::span::Current {
        tracing_core::span::Current::unknown()
    }
}

struct Cs(&'static Metadata<'static>);
impl Callsite for Cs {
    fn set_interest(&self, _: Interest) {}
    fn metadata(&self) -> &Metadata<'_> {
        self.0
    }
}
macro_rules! cs {
    ($cs:ident, $meta:ident, $lvl:expr) => {
        static $cs: Cs = Cs(&$meta);
        static $meta: Metadata<'static> = Metadata::new(
            "ev",
            "tv",
            $lvl,
            None,
            None,
            None,
            FieldSet::new(&[], tracing_core::identify_callsite!(&$cs)),
            Kind::EVENT,
        );
    };
}
cs!(CS1, M1, Level::ERROR);
cs!(CS2, M2, Level::WARN);
cs!(CS3, M3, Level::INFO);
cs!(CS4, M4, Level::DEBUG);
cs!(CS5, M5, Level::TRACE);

fn hex(s: &str) -> Option<Vec<u8>> {
    if s.len() % 2 != 0 {
        return None;
    }
    (0..s.len() / 2).map(|i| u8::from_str_radix(&s[2 * i..2 * i + 2], 16).ok()).collect()
}
fn tohex(b: &[u8]) -> String {
    b.iter().map(|x| format!("{:02x}", x)).collect()
}

fn main() {
    let stdout = std::io::stdout();
    let mut out = std::io::BufWriter::new(stdout.lock());
    // 1. operators
    for (i, a) in LEVELS.iter().enumerate() {
        for (j, b) in LEVELS.iter().enumerate() {
            ops!(out, *a, enc_l(i), *b, enc_l(j));
            writeln!(out, "{{\"k\":\"op\",\"op\":\"cmp\",\"a\":{},\"b\":{},\"r\":[1,{}]}}", enc_l(i), enc_l(j), ord(a.cmp(b))).unwrap();
            writeln!(out, "{{\"k\":\"op\",\"op\":\"max\",\"a\":{},\"b\":{},\"r\":[3,{}]}}", enc_l(i), enc_l(j), enc_l(idx_l(&std::cmp::max(*a, *b)))).unwrap();
            writeln!(out, "{{\"k\":\"op\",\"op\":\"min\",\"a\":{},\"b\":{},\"r\":[3,{}]}}", enc_l(i), enc_l(j), enc_l(idx_l(&std::cmp::min(*a, *b)))).unwrap();
        }
        for (j, b) in FILTERS.iter().enumerate() {
            ops!(out, *a, enc_l(i), *b, enc_f(j));
        }
    }
    for (i, a) in FILTERS.iter().enumerate() {
        for (j, b) in FILTERS.iter().enumerate() {
            ops!(out, *a, enc_f(i), *b, enc_f(j));
            writeln!(out, "{{\"k\":\"op\",\"op\":\"cmp\",\"a\":{},\"b\":{},\"r\":[1,{}]}}", enc_f(i), enc_f(j), ord(a.cmp(b))).unwrap();
            writeln!(out, "{{\"k\":\"op\",\"op\":\"max\",\"a\":{},\"b\":{},\"r\":[3,{}]}}", enc_f(i), enc_f(j), enc_f(idx_f(&std::cmp::max(*a, *b)))).unwrap();
            writeln!(out, "{{\"k\":\"op\",\"op\":\"min\",\"a\":{},\"b\":{},\"r\":[3,{}]}}", enc_f(i), enc_f(j), enc_f(idx_f(&std::cmp::min(*a, *b)))).unwrap();
        }
        for (j, b) in LEVELS.iter().enumerate() {
            ops!(out, *a, enc_f(i), *b, enc_l(j));
        }
    }
    // 2. display / as_str / conversions
    for (i, l) in LEVELS.iter().enumerate() {
        writeln!(out, "{{\"k\":\"display_level\",\"a\":{},\"s\":\"{}\"}}", i + 1, tohex(l.to_string().as_bytes())).unwrap();
        writeln!(out, "{{\"k\":\"as_str\",\"a\":{},\"s\":\"{}\"}}", i + 1, tohex(l.as_str().as_bytes())).unwrap();
        let lg = l.as_log();
        writeln!(out, "{{\"k\":\"as_log_level\",\"a\":{},\"r\":{}}}", i + 1, lg as usize).unwrap();
        // width/precision handling of Display (f.pad): padded output still starts with the name
        writeln!(out, "{{\"k\":\"display_level_pad\",\"a\":{},\"s\":\"{}\"}}", i + 1, tohex(format!("{:>7}", l).as_bytes())).unwrap();
        // into / from
        let f: LevelFilter = (*l).into();
        writeln!(out, "{{\"k\":\"level_into_filter\",\"a\":{},\"r\":{}}}", i + 1, idx_f(&f)).unwrap();
        writeln!(out, "{{\"k\":\"from_level\",\"a\":{},\"r\":{}}}", i + 1, idx_f(&LevelFilter::from_level(*l))).unwrap();
    }
    for lg in [log::Level::Error, log::Level::Warn, log::Level::Info, log::Level::Debug, log::Level::Trace] {
        writeln!(out, "{{\"k\":\"as_trace_level\",\"a\":{},\"r\":{}}}", lg as usize, idx_l(&lg.as_trace()) + 1).unwrap();
    }
    for (i, f) in FILTERS.iter().enumerate() {
        writeln!(out, "{{\"k\":\"display_filter\",\"a\":{},\"s\":\"{}\"}}", i, tohex(f.to_string().as_bytes())).unwrap();
        writeln!(out, "{{\"k\":\"as_log_filter\",\"a\":{},\"r\":{}}}", i, f.as_log() as usize).unwrap();
        let il = f.into_level().map(|l| idx_l(&l) + 1).unwrap_or(0);
        writeln!(out, "{{\"k\":\"into_level\",\"a\":{},\"r\":{}}}", i, il).unwrap();
    }
    for lg in [
        log::LevelFilter::Off,
        log::LevelFilter::Error,
        log::LevelFilter::Warn,
        log::LevelFilter::Info,
        log::LevelFilter::Debug,
        log::LevelFilter::Trace,
    ] {
        writeln!(out, "{{\"k\":\"as_trace_filter\",\"a\":{},\"r\":{}}}", lg as usize, idx_f(&lg.as_trace())).unwrap();
    }
    // 3. set_max -> current, through a real collector carrying each hint (one live dispatcher at a time)
    for (i, f) in FILTERS.iter().enumerate() {
        let d = Dispatch::new(HintCollector(Some(*f)));
        let cur = std::panic::catch_unwind(LevelFilter::current);
        let r = match cur {
            Ok(c) => idx_f(&c) as i64,
            Err(_) => -1,
        };
        writeln!(out, "{{\"k\":\"current_after\",\"a\":{},\"r\":{}}}", i, r).unwrap();
        drop(d);
    }
    {
        // no hint => TRACE
        let d = Dispatch::new(HintCollector(None));
        writeln!(out, "{{\"k\":\"current_after_nohint\",\"r\":{}}}", idx_f(&LevelFilter::current())).unwrap();
        drop(d);
    }
    // 4. LevelFilter as a layer: enabled / register_callsite against each level
    {
        use tracing_subscriber::subscribe::CollectExt;
        let metas: [&'static Metadata<'static>; 5] = [&M1, &M2, &M3, &M4, &M5];
        for (i, f) in FILTERS.iter().enumerate() {
            let stack = tracing_subscriber::registry().with(*f);
            for (j, m) in metas.iter().enumerate() {
                let en = Collect::enabled(&stack, m);
                let ri = Collect::register_callsite(&stack, m);
                let ri = if ri.is_never() { 0 } else if ri.is_always() { 2 } else { 1 };
                writeln!(out, "{{\"k\":\"layer\",\"f\":{},\"l\":{},\"enabled\":{},\"interest\":{}}}", i, j + 1, en as u8, ri).unwrap();
            }
            let h = Collect::max_level_hint(&stack).map(|h| idx_f(&h) as i64).unwrap_or(-1);
            writeln!(out, "{{\"k\":\"layer_hint\",\"f\":{},\"r\":{}}}", i, h).unwrap();
        }
    }
    // 5. parsing: one hex-encoded UTF-8 string per stdin line
    let stdin = std::io::stdin();
    for line in stdin.lock().lines() {
        let line = line.unwrap();
        let line = line.trim();
        let bytes = match hex(line) {
            Some(b) => b,
            None => continue,
        };
        let s = match std::str::from_utf8(&bytes) {
            Ok(s) => s,
            Err(_) => continue,
        };
        let pl = s.parse::<Level>().ok().map(|l| idx_l(&l) as i64 + 1).unwrap_or(-1);
        let pf = s.parse::<LevelFilter>().ok().map(|f| idx_f(&f) as i64).unwrap_or(-1);
        writeln!(out, "{{\"k\":\"parse\",\"s\":\"{}\",\"level\":{},\"filter\":{}}}", line, pl, pf).unwrap();
    }
}
