//! C19 harness: evaluates every Level/LevelFilter operator on every pair, the text functions on a
//! string corpus (hex lines on stdin), set_max -> current() through a real collector, the
//! LevelFilter layer test and the log conversions.  One JSON object per output line.
//!
//! Value encoding (same as Levels/Model.v enc_value): Level ERROR..TRACE = 1..5, LevelFilter OFF..TRACE = 10..15.
use std::cmp::Ordering;
use std::io::{BufRead, Write};
use tracing_core::{
    callsite::Callsite,
    collect::{Collect, Interest},
    dispatch::Dispatch,
    field::FieldSet,
    metadata::Kind,
    span, Event, Level, LevelFilter, Metadata,
};
use tracing_log::{AsLog, AsTrace};

const LEVELS: [Level; 5] = [Level::ERROR, Level::WARN, Level::INFO, Level::DEBUG, Level::TRACE];
const FILTERS: [LevelFilter; 6] = [
    LevelFilter::OFF,
    LevelFilter::ERROR,
    LevelFilter::WARN,
    LevelFilter::INFO,
    LevelFilter::DEBUG,
    LevelFilter::TRACE,
];

fn ord(o: Ordering) -> u8 {
    match o {
        Ordering::Less => 0,
        Ordering::Equal => 1,
        Ordering::Greater => 2,
    }
}
fn oord(o: Option<Ordering>) -> u8 {
    o.map(ord).unwrap_or(9)
}

// identify values by pointer-free means: position in the public constant arrays, found WITHOUT using
// the operators under test (match on Debug text for filters, on as_str for levels would also use code
// under test; we index instead).
macro_rules! ops {
    ($out:expr, $a:expr, $ea:expr, $b:expr, $eb:expr) => {{
        let a = $a;
        let b = $b;
        writeln!($out, "{{\"k\":\"op\",\"op\":\"eq\",\"a\":{},\"b\":{},\"r\":[0,{}]}}", $ea, $eb, (a == b) as u8).unwrap();
        writeln!($out, "{{\"k\":\"op\",\"op\":\"ne\",\"a\":{},\"b\":{},\"r\":[0,{}]}}", $ea, $eb, (a != b) as u8).unwrap();
        writeln!($out, "{{\"k\":\"op\",\"op\":\"lt\",\"a\":{},\"b\":{},\"r\":[0,{}]}}", $ea, $eb, (a < b) as u8).unwrap();
        writeln!($out, "{{\"k\":\"op\",\"op\":\"le\",\"a\":{},\"b\":{},\"r\":[0,{}]}}", $ea, $eb, (a <= b) as u8).unwrap();
        writeln!($out, "{{\"k\":\"op\",\"op\":\"gt\",\"a\":{},\"b\":{},\"r\":[0,{}]}}", $ea, $eb, (a > b) as u8).unwrap();
        writeln!($out, "{{\"k\":\"op\",\"op\":\"ge\",\"a\":{},\"b\":{},\"r\":[0,{}]}}", $ea, $eb, (a >= b) as u8).unwrap();
        writeln!($out, "{{\"k\":\"op\",\"op\":\"partial_cmp\",\"a\":{},\"b\":{},\"r\":[2,{}]}}", $ea, $eb, oord(a.partial_cmp(&b))).unwrap();
    }};
}

fn enc_l(i: usize) -> usize {
    i + 1
}
fn enc_f(i: usize) -> usize {
    10 + i
}
fn idx_l(l: &Level) -> usize {
    // structural identification through the derived Hash/Debug-free route: compare as_str text
    // is code under test too, so use pointer-free brute force over `LEVELS` with derived `==` only as a
    // last resort.  Level is Copy and has no public discriminant; we transmute-free identify through
    // `tracing_core::Level`'s derived `Hash`.
    use std::collections::hash_map::DefaultHasher;
    use std::hash::{Hash, Hasher};
    let h = |x: &Level| {
        let mut s = DefaultHasher::new();
        x.hash(&mut s);
        s.finish()
    };
    LEVELS.iter().position(|c| h(c) == h(l)).unwrap()
}
fn idx_f(f: &LevelFilter) -> usize {
    use std::collections::hash_map::DefaultHasher;
    use std::hash::{Hash, Hasher};
    let h = |x: &LevelFilter| {
        let mut s = DefaultHasher::new();
        x.hash(&mut s);
        s.finish()
    };
    FILTERS.iter().position(|c| h(c) == h(f)).unwrap()
}

struct HintCollector(Option<LevelFilter>);
impl Collect for HintCollector {
    fn register_callsite(&self, _: &'static Metadata<'static>) -> Interest {
        Interest::sometimes()
    }
    fn enabled(&self, _: &Metadata<'_>) -> bool {
        true
    }
    fn max_level_hint(&self) -> Option<LevelFilter> {
        self.0
    }
    fn new_span(&self, _: &span::Attributes<'_>) -> span::Id {
        span::Id::from_u64(1)
    }
    fn record(&self, _: &span::Id, _: &span::Record<'_>) {}
    fn record_follows_from(&self, _: &span::Id, _: &span::Id) {}
    fn event(&self, _: &Event<'_>) {}
    fn enter(&self, _: &span::Id) {}
    fn exit(&self, _: &span::Id) {}
    fn current_span(&self) -> tracing_core::span::Current {
        tracing_core::span::Current::unknown()
    }
}

struct Cs(&'static Metadata<'static>);
impl Callsite for Cs {
    fn set_interest(&self, _: Interest) {}
    fn metadata(&self) -> &Metadata<'_> {
        self.0
    }
}
macro_rules! cs {
    ($cs:ident, $meta:ident, $lvl:expr) => {
        static $cs: Cs = Cs(&$meta);
        static $meta: Metadata<'static> = Metadata::new(
            "ev",
            "tv",
            $lvl,
            None,
            None,
            None,
            FieldSet::new(&[], tracing_core::identify_callsite!(&$cs)),
            Kind::EVENT,
        );
    };
}
cs!(CS1, M1, Level::ERROR);
cs!(CS2, M2, Level::WARN);
cs!(CS3, M3, Level::INFO);
cs!(CS4, M4, Level::DEBUG);
cs!(CS5, M5, Level::TRACE);

// ---- section 6: a collector whose hint changes at run time and whose `register_callsite` can hold a rebuild
// in the middle (after the hints were read, before `set_max`), to find out whether a second rebuild may overlap it.
mod overlap {
    use std::sync::atomic::{AtomicBool, AtomicUsize};
    use std::sync::mpsc::{Receiver, Sender};
    use std::sync::Mutex;
    pub static HINT: AtomicUsize = AtomicUsize::new(0);
    pub static ARMED: AtomicBool = AtomicBool::new(false);
    pub static CHANS: Mutex<Option<(Sender<()>, Receiver<()>)>> = Mutex::new(None);
}
struct DynCollector;
impl Collect for DynCollector {
    fn register_callsite(&self, _: &'static Metadata<'static>) -> Interest {
        use std::sync::atomic::Ordering::SeqCst;
        if overlap::ARMED.swap(false, SeqCst) {
            if let Some((paused, resume)) = overlap::CHANS.lock().unwrap().take() {
                let _ = paused.send(());
                let _ = resume.recv_timeout(std::time::Duration::from_secs(60));
            }
        }
        Interest::sometimes()
    }
    fn enabled(&self, _: &Metadata<'_>) -> bool {
        true
    }
    fn max_level_hint(&self) -> Option<LevelFilter> {
        Some(FILTERS[overlap::HINT.load(std::sync::atomic::Ordering::SeqCst)])
    }
    fn new_span(&self, _: &span::Attributes<'_>) -> span::Id {
        span::Id::from_u64(1)
    }
    fn record(&self, _: &span::Id, _: &span::Record<'_>) {}
    fn record_follows_from(&self, _: &span::Id, _: &span::Id) {}
    fn event(&self, _: &Event<'_>) {}
    fn enter(&self, _: &span::Id) {}
    fn exit(&self, _: &span::Id) {}
    fn current_span(&self) -> tracing_core::span::Current {
        tracing_core::span::Current::unknown()
    }
}
static REG1: tracing_core::callsite::Registration = tracing_core::callsite::Registration::new(&CS1);

fn hex(s: &str) -> Option<Vec<u8>> {
    if s.len() % 2 != 0 {
        return None;
    }
    (0..s.len() / 2).map(|i| u8::from_str_radix(&s[2 * i..2 * i + 2], 16).ok()).collect()
}
fn tohex(b: &[u8]) -> String {
    b.iter().map(|x| format!("{:02x}", x)).collect()
}

fn main() {
    let stdout = std::io::stdout();
    let mut out = std::io::BufWriter::new(stdout.lock());
    // 0. before anything was published
    {
        let r = match std::panic::catch_unwind(LevelFilter::current) {
            Ok(c) => idx_f(&c) as i64,
            Err(_) => -1,
        };
        writeln!(out, "{{\"k\":\"current_initial\",\"r\":{}}}", r).unwrap();
    }
    // 1. operators
    for (i, a) in LEVELS.iter().enumerate() {
        for (j, b) in LEVELS.iter().enumerate() {
            ops!(out, *a, enc_l(i), *b, enc_l(j));
            writeln!(out, "{{\"k\":\"op\",\"op\":\"cmp\",\"a\":{},\"b\":{},\"r\":[1,{}]}}", enc_l(i), enc_l(j), ord(a.cmp(b))).unwrap();
            writeln!(out, "{{\"k\":\"op\",\"op\":\"max\",\"a\":{},\"b\":{},\"r\":[3,{}]}}", enc_l(i), enc_l(j), enc_l(idx_l(&std::cmp::max(*a, *b)))).unwrap();
            writeln!(out, "{{\"k\":\"op\",\"op\":\"min\",\"a\":{},\"b\":{},\"r\":[3,{}]}}", enc_l(i), enc_l(j), enc_l(idx_l(&std::cmp::min(*a, *b)))).unwrap();
        }
        for (j, b) in FILTERS.iter().enumerate() {
            ops!(out, *a, enc_l(i), *b, enc_f(j));
        }
    }
    for (i, a) in FILTERS.iter().enumerate() {
        for (j, b) in FILTERS.iter().enumerate() {
            ops!(out, *a, enc_f(i), *b, enc_f(j));
            writeln!(out, "{{\"k\":\"op\",\"op\":\"cmp\",\"a\":{},\"b\":{},\"r\":[1,{}]}}", enc_f(i), enc_f(j), ord(a.cmp(b))).unwrap();
            writeln!(out, "{{\"k\":\"op\",\"op\":\"max\",\"a\":{},\"b\":{},\"r\":[3,{}]}}", enc_f(i), enc_f(j), enc_f(idx_f(&std::cmp::max(*a, *b)))).unwrap();
            writeln!(out, "{{\"k\":\"op\",\"op\":\"min\",\"a\":{},\"b\":{},\"r\":[3,{}]}}", enc_f(i), enc_f(j), enc_f(idx_f(&std::cmp::min(*a, *b)))).unwrap();
        }
        for (j, b) in LEVELS.iter().enumerate() {
            ops!(out, *a, enc_f(i), *b, enc_l(j));
        }
    }
    // 2. display / as_str / conversions
    for (i, l) in LEVELS.iter().enumerate() {
        writeln!(out, "{{\"k\":\"display_level\",\"a\":{},\"s\":\"{}\"}}", i + 1, tohex(l.to_string().as_bytes())).unwrap();
        writeln!(out, "{{\"k\":\"as_str\",\"a\":{},\"s\":\"{}\"}}", i + 1, tohex(l.as_str().as_bytes())).unwrap();
        let lg = l.as_log();
        writeln!(out, "{{\"k\":\"as_log_level\",\"a\":{},\"r\":{}}}", i + 1, lg as usize).unwrap();
        // width/precision handling of Display (f.pad): padded output still starts with the name
        writeln!(out, "{{\"k\":\"display_level_pad\",\"a\":{},\"s\":\"{}\"}}", i + 1, tohex(format!("{:>7}", l).as_bytes())).unwrap();
        // into / from
        let f: LevelFilter = (*l).into();
        writeln!(out, "{{\"k\":\"level_into_filter\",\"a\":{},\"r\":{}}}", i + 1, idx_f(&f)).unwrap();
        writeln!(out, "{{\"k\":\"from_level\",\"a\":{},\"r\":{}}}", i + 1, idx_f(&LevelFilter::from_level(*l))).unwrap();
        let fo: LevelFilter = Some(*l).into();
        writeln!(out, "{{\"k\":\"from_option\",\"a\":{},\"r\":{}}}", i + 1, idx_f(&fo)).unwrap();
    }
    for lg in [log::Level::Error, log::Level::Warn, log::Level::Info, log::Level::Debug, log::Level::Trace] {
        writeln!(out, "{{\"k\":\"as_trace_level\",\"a\":{},\"r\":{}}}", lg as usize, idx_l(&lg.as_trace()) + 1).unwrap();
    }
    for (i, f) in FILTERS.iter().enumerate() {
        writeln!(out, "{{\"k\":\"display_filter\",\"a\":{},\"s\":\"{}\"}}", i, tohex(f.to_string().as_bytes())).unwrap();
        writeln!(out, "{{\"k\":\"as_log_filter\",\"a\":{},\"r\":{}}}", i, f.as_log() as usize).unwrap();
        let il = f.into_level().map(|l| idx_l(&l) + 1).unwrap_or(0);
        writeln!(out, "{{\"k\":\"into_level\",\"a\":{},\"r\":{}}}", i, il).unwrap();
        let ol: Option<Level> = (*f).into();
        writeln!(out, "{{\"k\":\"into_option\",\"a\":{},\"r\":{}}}", i, ol.map(|l| idx_l(&l) + 1).unwrap_or(0)).unwrap();
    }
    {
        let none: Option<Level> = None;
        let fo: LevelFilter = none.into();
        writeln!(out, "{{\"k\":\"from_option\",\"a\":0,\"r\":{}}}", idx_f(&fo)).unwrap();
    }
    for lg in [
        log::LevelFilter::Off,
        log::LevelFilter::Error,
        log::LevelFilter::Warn,
        log::LevelFilter::Info,
        log::LevelFilter::Debug,
        log::LevelFilter::Trace,
    ] {
        writeln!(out, "{{\"k\":\"as_trace_filter\",\"a\":{},\"r\":{}}}", lg as usize, idx_f(&lg.as_trace())).unwrap();
    }
    // 3. set_max -> current, through a real collector carrying each hint (one live dispatcher at a time)
    for (i, f) in FILTERS.iter().enumerate() {
        let d = Dispatch::new(HintCollector(Some(*f)));
        let cur = std::panic::catch_unwind(LevelFilter::current);
        let r = match cur {
            Ok(c) => idx_f(&c) as i64,
            Err(_) => -1,
        };
        writeln!(out, "{{\"k\":\"current_after\",\"a\":{},\"r\":{}}}", i, r).unwrap();
        drop(d);
    }
    {
        // no hint => TRACE
        let d = Dispatch::new(HintCollector(None));
        writeln!(out, "{{\"k\":\"current_after_nohint\",\"r\":{}}}", idx_f(&LevelFilter::current())).unwrap();
        drop(d);
    }
    // 3b. several live dispatchers: after the last registration `current()` must be the greatest hint
    //     (no hint counts as TRACE); a dropped dispatcher no longer counts; none at all gives OFF.
    //     Hint encoding: 0..5 = OFF..TRACE, 9 = the collector gives no hint.
    {
        let hints: [(usize, Option<LevelFilter>); 7] = [
            (0, Some(LevelFilter::OFF)),
            (1, Some(LevelFilter::ERROR)),
            (2, Some(LevelFilter::WARN)),
            (3, Some(LevelFilter::INFO)),
            (4, Some(LevelFilter::DEBUG)),
            (5, Some(LevelFilter::TRACE)),
            (9, None),
        ];
        let cur = || match std::panic::catch_unwind(LevelFilter::current) {
            Ok(c) => idx_f(&c) as i64,
            Err(_) => -1,
        };
        tracing_core::callsite::rebuild_interest_cache();
        writeln!(out, "{{\"k\":\"published\",\"hs\":[],\"r\":{}}}", cur()).unwrap();
        for (ea, a) in hints.iter() {
            for (eb, b) in hints.iter() {
                {
                    let d1 = Dispatch::new(HintCollector(*a));
                    let d2 = Dispatch::new(HintCollector(*b));
                    writeln!(out, "{{\"k\":\"published\",\"hs\":[{},{}],\"r\":{}}}", ea, eb, cur()).unwrap();
                    for (ec, c) in hints.iter() {
                        let d3 = Dispatch::new(HintCollector(*c));
                        writeln!(out, "{{\"k\":\"published\",\"hs\":[{},{},{}],\"r\":{}}}", ea, eb, ec, cur()).unwrap();
                        drop(d3);
                    }
                    drop(d2);
                    drop(d1);
                }
                {
                    let d1 = Dispatch::new(HintCollector(*a));
                    drop(d1);
                    let d2 = Dispatch::new(HintCollector(*b));
                    writeln!(out, "{{\"k\":\"published\",\"dead\":{},\"hs\":[{}],\"r\":{}}}", ea, eb, cur()).unwrap();
                    drop(d2);
                }
            }
        }
    }
    // 4. LevelFilter as a layer: enabled / register_callsite against each level
    {
        use tracing_subscriber::subscribe::CollectExt;
        let metas: [&'static Metadata<'static>; 5] = [&M1, &M2, &M3, &M4, &M5];
        for (i, f) in FILTERS.iter().enumerate() {
            let stack = tracing_subscriber::registry().with(*f);
            for (j, m) in metas.iter().enumerate() {
                let en = Collect::enabled(&stack, m);
                let ri = Collect::register_callsite(&stack, m);
                let ri = if ri.is_never() { 0 } else if ri.is_always() { 2 } else { 1 };
                writeln!(out, "{{\"k\":\"layer\",\"f\":{},\"l\":{},\"enabled\":{},\"interest\":{}}}", i, j + 1, en as u8, ri).unwrap();
            }
            let h = Collect::max_level_hint(&stack).map(|h| idx_f(&h) as i64).unwrap_or(-1);
            writeln!(out, "{{\"k\":\"layer_hint\",\"f\":{},\"r\":{}}}", i, h).unwrap();
        }
    }
    // 5. parsing: one hex-encoded UTF-8 string per stdin line
    let stdin = std::io::stdin();
    for line in stdin.lock().lines() {
        let line = line.unwrap();
        let line = line.trim();
        let bytes = match hex(line) {
            Some(b) => b,
            None => continue,
        };
        let s = match std::str::from_utf8(&bytes) {
            Ok(s) => s,
            Err(_) => continue,
        };
        let pl = s.parse::<Level>().ok().map(|l| idx_l(&l) as i64 + 1).unwrap_or(-1);
        let pf = s.parse::<LevelFilter>().ok().map(|f| idx_f(&f) as i64).unwrap_or(-1);
        writeln!(out, "{{\"k\":\"parse\",\"s\":\"{}\",\"level\":{},\"filter\":{}}}", line, pl, pf).unwrap();
    }
    // 6. may two `rebuild_interest_cache()` calls overlap, and if so, which value ends up published?
    //    Thread A starts a rebuild and is held inside the collector's `register_callsite` (so after it read the
    //    hints); the hint changes; `__verif_lock_state()` says whether a second rebuild could enter now.  If the
    //    registry lock is held exclusively it cannot (serialised: nothing to run concurrently).  If it can, it is
    //    run to completion, then A is released.  No sleeps, no races: every step waits for the previous one.
    {
        use std::sync::atomic::Ordering::SeqCst;
        tracing_core::callsite::register(&REG1);
        for (old, new) in [(3usize, 5usize), (5, 3), (1, 4), (4, 0), (0, 2), (2, 5)] {
            overlap::HINT.store(old, SeqCst);
            let d = Dispatch::new(DynCollector);
            let before = idx_f(&LevelFilter::current());
            let (ptx, prx) = std::sync::mpsc::channel();
            let (rtx, rrx) = std::sync::mpsc::channel();
            *overlap::CHANS.lock().unwrap() = Some((ptx, rrx));
            overlap::ARMED.store(true, SeqCst);
            let a = std::thread::spawn(tracing_core::callsite::rebuild_interest_cache);
            let paused = prx.recv_timeout(std::time::Duration::from_secs(60)).is_ok();
            overlap::HINT.store(new, SeqCst);
            let (readable, _writable) = tracing_core::callsite::__verif_lock_state();
            let mut mid = -1i64;
            if paused && readable {
                tracing_core::callsite::rebuild_interest_cache();
                mid = idx_f(&LevelFilter::current()) as i64;
            }
            let _ = rtx.send(());
            let _ = a.join();
            if !(paused && readable) {
                tracing_core::callsite::rebuild_interest_cache();
            }
            let fin = idx_f(&LevelFilter::current());
            writeln!(
                out,
                "{{\"k\":\"overlap\",\"old\":{},\"new\":{},\"before\":{},\"paused\":{},\"overlapped\":{},\"mid\":{},\"r\":{}}}",
                old, new, before, paused as u8, (paused && readable) as u8, mid, fin
            )
            .unwrap();
            drop(d);
        }
    }
}
