//! C18 harness, log -> tracing.  ONE PROCESS PER CONFIGURATION (the `log` logger installs once per process).
//!
//! argv[1] = case file.  Lines (strings are `x<hex of utf-8>`, absent values `-`):
//!   logmax <0..5>                               LogTracer::builder().with_max_level
//!   init <builder|all|default|init|filter|new>  how the logger is installed: builder().with_max_level(logmax)
//!                                               .ignore_crate(..)* .init() | the same with .ignore_all(list) | builder()
//!                                               without with_max_level | LogTracer::init() | init_with_filter(logmax) |
//!                                               LogTracer::new() + log::set_boxed_logger + log::set_max_level(logmax)
//!   ignore <str>                                .ignore_crate (repeatable)
//!   collector <none|scoped|global> <hint -1|0..5> <default 0..5> [<target>=<0..5> ...]
//!   dangling <hint -1|0..5>                     a second, accept-all Dispatch that is created but never installed
//!   rec <D|M|F> <level 1..5> <target> <msg> <file|-> <line|-> <module|->
//!   lit <D|M|F> <level 1..5> <target> <idx> <file|-> <line|-> <module|->      like `rec`, but the message is the idx-th
//!                                               string LITERAL of `with_lit` (no interpolated arguments:
//!                                               `record.args().as_str()` is Some)
//!   foreign <level 1..5> <target str>           an event on the harness' own callsite that looks like a log event
//!   enq <level 1..5> <target>                   log::logger().enabled(&metadata)        (what log_enabled! asks)
//!   cvm <level 1..5> <target>                   log::Metadata::as_trace()
//!   cvr <level 1..5> <target> <file|-> <line|-> <module|->      log::Record::as_trace()
//!   cvl <level 1..5> <target>                   tracing Metadata::as_log()
//! Entry D = `log::logger().log(&record)`, M = the real `log::log!` macro (file/line/module are the harness' own),
//! F = `tracing_log::format_trace(&record)`.
//!
//! Output: one JSON object per line; see `driver/props/c18.py`.  Levels: 0 = OFF, 1 = ERROR .. 5 = TRACE.
//! Every event is recorded through TWO visitors: a typed one (record_str / record_u64 / ... overridden: `fields`) and a
//! minimal one that implements only the required `record_debug` (`dbg`: the `{:?}` text of every value, which for the
//! `message` field must be the record's message itself).
use std::fmt::Write as _;
use std::sync::{Arc, Mutex};
use tracing_core::{
    callsite::{Callsite, Identifier},
    collect::{Collect, Interest},
    dispatch::{self, Dispatch},
    field::{Field, FieldSet, Visit},
    identify_callsite,
    metadata::Kind,
    span, Event, Level, LevelFilter, Metadata,
};
use tracing_log::{AsLog, AsTrace, LogTracer, NormalizeEvent};

fn hex(s: &str) -> String {
    let mut o = String::with_capacity(2 * s.len() + 1);
    for b in s.as_bytes() {
        write!(o, "{:02x}", b).unwrap();
    }
    o
}
fn jstr(s: &str) -> String {
    format!("\"{}\"", hex(s))
}
fn jopt(s: Option<&str>) -> String {
    s.map(jstr).unwrap_or_else(|| "null".into())
}
fn jnum<T: std::fmt::Display>(s: Option<T>) -> String {
    s.map(|x| x.to_string()).unwrap_or_else(|| "null".into())
}
fn unhex(s: &str) -> String {
    let s = s.strip_prefix('x').expect("string token must start with x");
    let bytes: Vec<u8> = (0..s.len() / 2).map(|i| u8::from_str_radix(&s[2 * i..2 * i + 2], 16).unwrap()).collect();
    String::from_utf8(bytes).expect("utf-8")
}
fn unhex_opt(s: &str) -> Option<String> {
    if s == "-" {
        None
    } else {
        Some(unhex(s))
    }
}
fn lvl_num(l: &Level) -> u8 {
    // identification without the operators / conversions under test: Level's derived Hash
    use std::collections::hash_map::DefaultHasher;
    use std::hash::{Hash, Hasher};
    let h = |x: &Level| {
        let mut s = DefaultHasher::new();
        x.hash(&mut s);
        s.finish()
    };
    let all = [Level::ERROR, Level::WARN, Level::INFO, Level::DEBUG, Level::TRACE];
    all.iter().position(|c| h(c) == h(l)).unwrap() as u8 + 1
}
fn filter_num(f: &LevelFilter) -> u8 {
    use std::collections::hash_map::DefaultHasher;
    use std::hash::{Hash, Hasher};
    let h = |x: &LevelFilter| {
        let mut s = DefaultHasher::new();
        x.hash(&mut s);
        s.finish()
    };
    let all = [LevelFilter::OFF, LevelFilter::ERROR, LevelFilter::WARN, LevelFilter::INFO, LevelFilter::DEBUG, LevelFilter::TRACE];
    all.iter().position(|c| h(c) == h(f)).unwrap() as u8
}
fn filter_of(n: i32) -> Option<LevelFilter> {
    match n {
        -1 => None,
        0 => Some(LevelFilter::OFF),
        1 => Some(LevelFilter::ERROR),
        2 => Some(LevelFilter::WARN),
        3 => Some(LevelFilter::INFO),
        4 => Some(LevelFilter::DEBUG),
        5 => Some(LevelFilter::TRACE),
        _ => panic!("bad filter"),
    }
}
fn log_level_of(n: u8) -> log::Level {
    match n {
        1 => log::Level::Error,
        2 => log::Level::Warn,
        3 => log::Level::Info,
        4 => log::Level::Debug,
        5 => log::Level::Trace,
        _ => panic!("bad level"),
    }
}
fn log_filter_of(n: u8) -> log::LevelFilter {
    match n {
        0 => log::LevelFilter::Off,
        1 => log::LevelFilter::Error,
        2 => log::LevelFilter::Warn,
        3 => log::LevelFilter::Info,
        4 => log::LevelFilter::Debug,
        5 => log::LevelFilter::Trace,
        _ => panic!("bad filter"),
    }
}

// ---- the harness' own callsite: same name/target/field names as tracing-log's synthetic ones, one per level
static FIELD_NAMES: &[&str] = &["message", "log.target", "log.module_path", "log.file", "log.line"];
macro_rules! foreign_cs {
    ($level:expr, $cs:ident, $meta:ident, $ty:ident) => {
        struct $ty;
        static $cs: $ty = $ty;
        static $meta: Metadata<'static> =
            Metadata::new("log event", "log", $level, None, None, None, FieldSet::new(FIELD_NAMES, identify_callsite!(&$cs)), Kind::EVENT);
        impl Callsite for $ty {
            fn set_interest(&self, _: Interest) {}
            fn metadata(&self) -> &Metadata<'_> {
                &$meta
            }
        }
    };
}
foreign_cs!(Level::ERROR, F_ERROR_CS, F_ERROR_META, FErr);
foreign_cs!(Level::WARN, F_WARN_CS, F_WARN_META, FWarn);
foreign_cs!(Level::INFO, F_INFO_CS, F_INFO_META, FInfo);
foreign_cs!(Level::DEBUG, F_DEBUG_CS, F_DEBUG_META, FDebug);
foreign_cs!(Level::TRACE, F_TRACE_CS, F_TRACE_META, FTrace);
fn foreign_meta(n: u8) -> &'static Metadata<'static> {
    match n {
        1 => &F_ERROR_META,
        2 => &F_WARN_META,
        3 => &F_INFO_META,
        4 => &F_DEBUG_META,
        _ => &F_TRACE_META,
    }
}
fn is_foreign(id: &Identifier) -> bool {
    (1..=5u8).any(|n| foreign_meta(n).callsite() == *id)
}
/// Which callsite does a field set identify?  -1: one of the harness' own; else the level of that callsite's own
/// static metadata (tracing-log's TRACE_CS carries Level::TRACE, ...).
fn cs_level(id: &Identifier) -> i32 {
    if is_foreign(id) {
        -1
    } else {
        lvl_num(id.0.metadata().level()) as i32
    }
}

// ---- recording collector with a level-and-target table filter
struct Rec {
    hint: Option<LevelFilter>,
    rules: Vec<(String, u8)>,
    dflt: u8,
    out: Arc<Mutex<Vec<String>>>,
    record: bool,
}
impl Rec {
    fn allows(&self, target: &str, level: u8) -> bool {
        let max = self.rules.iter().find(|(t, _)| t == target).map(|(_, m)| *m).unwrap_or(self.dflt);
        level <= max
    }
}
struct FieldDump(String);
impl Visit for FieldDump {
    fn record_debug(&mut self, f: &Field, v: &dyn std::fmt::Debug) {
        let _ = write!(self.0, "[{},0,{},0],", jstr(f.name()), jstr(&format!("{:?}", v)));
    }
    fn record_str(&mut self, f: &Field, v: &str) {
        let _ = write!(self.0, "[{},1,{},0],", jstr(f.name()), jstr(v));
    }
    fn record_u64(&mut self, f: &Field, v: u64) {
        let _ = write!(self.0, "[{},2,\"\",{}],", jstr(f.name()), v);
    }
    fn record_i64(&mut self, f: &Field, v: i64) {
        let _ = write!(self.0, "[{},3,{},0],", jstr(f.name()), jstr(&v.to_string()));
    }
    fn record_bool(&mut self, f: &Field, v: bool) {
        let _ = write!(self.0, "[{},4,{},0],", jstr(f.name()), jstr(&v.to_string()));
    }
}
/// a visitor with nothing but the one required method
struct DebugOnly(String);
impl Visit for DebugOnly {
    fn record_debug(&mut self, f: &Field, v: &dyn std::fmt::Debug) {
        let _ = write!(self.0, "[{},{}],", jstr(f.name()), jstr(&format!("{:?}", v)));
    }
}
/// string literals without arguments (keep in step with LITS in driver/props/c18.py)
fn with_lit(idx: usize, f: &mut dyn FnMut(std::fmt::Arguments<'_>)) {
    match idx {
        0 => f(format_args!("plain literal message")),
        1 => f(format_args!("with \"quotes\" inside")),
        2 => f(format_args!("back\\slash and \ttab")),
        3 => f(format_args!("line1\nline2")),
        4 => f(format_args!("{{braces}} and %s")),
        5 => f(format_args!("")),
        6 => f(format_args!("ünï✓ 🦀")),
        7 => f(format_args!("log.target=evil 'single'")),
        _ => panic!("no such literal"),
    }
}
#[rustfmt::skip]
fn emit_macro_lit(idx: usize, target: &str, lvl: log::Level) -> u32 {
    match idx {
        0 => { let l = line!(); log::log!(target: target, lvl, "plain literal message"); l }
        1 => { let l = line!(); log::log!(target: target, lvl, "with \"quotes\" inside"); l }
        2 => { let l = line!(); log::log!(target: target, lvl, "back\\slash and \ttab"); l }
        3 => { let l = line!(); log::log!(target: target, lvl, "line1\nline2"); l }
        4 => { let l = line!(); log::log!(target: target, lvl, "{{braces}} and %s"); l }
        5 => { let l = line!(); log::log!(target: target, lvl, ""); l }
        6 => { let l = line!(); log::log!(target: target, lvl, "ünï✓ 🦀"); l }
        7 => { let l = line!(); log::log!(target: target, lvl, "log.target=evil 'single'"); l }
        _ => panic!("no such literal"),
    }
}
fn meta_json(m: &Metadata<'_>) -> String {
    format!(
        "\"name\":{},\"target\":{},\"level\":{},\"file\":{},\"line\":{},\"module\":{},\"cs\":{}",
        jstr(m.name()),
        jstr(m.target()),
        lvl_num(m.level()),
        jopt(m.file()),
        jnum(m.line()),
        jopt(m.module_path()),
        cs_level(&m.callsite())
    )
}
impl Collect for Rec {
    fn enabled(&self, m: &Metadata<'_>) -> bool {
        if self.record {
            self.out.lock().unwrap().push(format!("{{\"t\":\"en\",{}}}", meta_json(m)));
        }
        self.allows(m.target(), lvl_num(m.level()))
    }
    fn max_level_hint(&self) -> Option<LevelFilter> {
        self.hint
    }
    fn new_span(&self, _: &span::Attributes<'_>) -> span::Id {
        span::Id::from_u64(1)
    }
    fn record(&self, _: &span::Id, _: &span::Record<'_>) {}
    fn record_follows_from(&self, _: &span::Id, _: &span::Id) {}
    fn event(&self, ev: &Event<'_>) {
        if !self.record {
            return;
        }
        let mut fd = FieldDump(String::new());
        ev.record(&mut fd);
        let fields = fd.0.trim_end_matches(',').to_string();
        let mut dv = DebugOnly(String::new());
        ev.record(&mut dv);
        let dbg = dv.0.trim_end_matches(',').to_string();
        let norm = match ev.normalized_metadata() {
            None => "null".to_string(),
            Some(n) => {
                let names: Vec<String> = n.fields().iter().map(|f| jstr(f.name())).collect();
                format!(
                    "{{{},\"fields\":[{}],\"same_callsite\":{}}}",
                    meta_json(&n),
                    names.join(","),
                    n.callsite() == ev.metadata().callsite()
                )
            }
        };
        self.out.lock().unwrap().push(format!(
            "{{\"t\":\"ev\",{},\"fields\":[{}],\"dbg\":[{}],\"is_log\":{},\"norm\":{}}}",
            meta_json(ev.metadata()),
            fields,
            dbg,
            ev.is_log(),
            norm
        ));
    }
    fn enter(&self, _: &span::Id) {}
    fn exit(&self, _: &span::Id) {}
    fn current_span(&self) -> span::Current {
        span::Current::none()
    }
}

fn emit_macro(target: &str, lvl: log::Level, msg: &str) -> u32 {
    #[rustfmt::skip]
    let line = line!(); log::log!(target: target, lvl, "{}", msg);
    line
}

fn main() {
    let path = std::env::args().nth(1).expect("case file");
    let text = std::fs::read_to_string(&path).expect("read case file");
    let mut logmax = 5u8;
    let mut ignore: Vec<String> = vec![];
    let mut coll: Option<(String, i32, u8, Vec<(String, u8)>)> = None;
    let mut dangling: Option<i32> = None;
    let mut init = String::from("builder");
    let mut items: Vec<Vec<String>> = vec![];
    for line in text.lines() {
        let t: Vec<String> = line.split_whitespace().map(|s| s.to_string()).collect();
        if t.is_empty() || t[0].starts_with('#') {
            continue;
        }
        match t[0].as_str() {
            "logmax" => logmax = t[1].parse().unwrap(),
            "init" => init = t[1].clone(),
            "ignore" => ignore.push(unhex(&t[1])),
            "collector" => {
                let rules = t[4..]
                    .iter()
                    .map(|r| {
                        let (a, b) = r.split_once('=').unwrap();
                        (unhex(a), b.parse().unwrap())
                    })
                    .collect();
                coll = Some((t[1].clone(), t[2].parse().unwrap(), t[3].parse().unwrap(), rules));
            }
            "dangling" => dangling = Some(t[1].parse().unwrap()),
            "rec" | "lit" | "foreign" | "enq" | "cvm" | "cvr" | "cvl" => items.push(t),
            other => panic!("unknown line kind {}", other),
        }
    }
    // the logger
    match init.as_str() {
        "builder" => {
            let mut b = LogTracer::builder().with_max_level(log_filter_of(logmax));
            for i in &ignore {
                b = b.ignore_crate(i.clone());
            }
            b.init().expect("LogTracer init");
        }
        "all" => LogTracer::builder().with_max_level(log_filter_of(logmax)).ignore_all(ignore.clone()).init().expect("LogTracer init"),
        "default" => {
            let mut b = tracing_log::log_tracer::Builder::new();
            for i in &ignore {
                b = b.ignore_crate(i.clone());
            }
            b.init().expect("LogTracer init");
        }
        "init" => LogTracer::init().expect("LogTracer init"),
        "filter" => LogTracer::init_with_filter(log_filter_of(logmax)).expect("LogTracer init"),
        "new" => {
            log::set_boxed_logger(Box::new(LogTracer::new())).expect("set logger");
            log::set_max_level(log_filter_of(logmax));
        }
        other => panic!("unknown init {}", other),
    }
    // the collector(s)
    let out = Arc::new(Mutex::new(Vec::<String>::new()));
    let _dangling_dispatch = dangling.map(|h| {
        Dispatch::new(Rec { hint: filter_of(h), rules: vec![], dflt: 5, out: Arc::new(Mutex::new(vec![])), record: false })
    });
    let (mode, hint, dflt, rules) = coll.unwrap_or(("none".into(), -1, 5, vec![]));
    let mut _guard = None;
    let mut _keep = None;
    if mode != "none" {
        let d = Dispatch::new(Rec { hint: filter_of(hint), rules, dflt, out: out.clone(), record: true });
        if mode == "scoped" {
            _guard = Some(dispatch::set_default(&d));
        } else {
            dispatch::set_global_default(d.clone()).expect("global default");
        }
        _keep = Some(d);
    }
    out.lock().unwrap().clear();
    // the level conversions, both directions (identification by derived Hash / discriminant, not by the operators)
    let lv_as_trace: Vec<String> = (1..=5u8).map(|n| lvl_num(&log_level_of(n).as_trace()).to_string()).collect();
    let lv_as_log: Vec<String> = [Level::ERROR, Level::WARN, Level::INFO, Level::DEBUG, Level::TRACE].iter().map(|l| (l.as_log() as usize).to_string()).collect();
    let f_as_trace: Vec<String> = (0..=5u8).map(|n| filter_num(&log_filter_of(n).as_trace()).to_string()).collect();
    let f_as_log: Vec<String> = (0..=5i32).map(|n| (filter_of(n).unwrap().as_log() as usize).to_string()).collect();
    println!(
        "{{\"k\":\"cfg\",\"current\":{},\"log_max\":{},\"file\":{},\"module\":{},\"lv_as_trace\":[{}],\"lv_as_log\":[{}],\"f_as_trace\":[{}],\"f_as_log\":[{}]}}",
        filter_num(&LevelFilter::current()),
        log::max_level() as usize,
        jstr(file!()),
        jstr(module_path!()),
        lv_as_trace.join(","),
        lv_as_log.join(","),
        f_as_trace.join(","),
        f_as_log.join(",")
    );
    for (i, t) in items.iter().enumerate() {
        let mut extra = String::new();
        let r = std::panic::catch_unwind(std::panic::AssertUnwindSafe(|| {
            if t[0] == "lit" {
                let lvl = log_level_of(t[2].parse().unwrap());
                let target = unhex(&t[3]);
                let idx: usize = t[4].parse().unwrap();
                let file = unhex_opt(&t[5]);
                let line: Option<u32> = if t[6] == "-" { None } else { Some(t[6].parse().unwrap()) };
                let module = unhex_opt(&t[7]);
                let mut text = String::new();
                let mut is_lit = false;
                with_lit(idx, &mut |a| {
                    text = format!("{}", a);
                    is_lit = a.as_str().is_some();
                });
                extra = format!(",\"lit_text\":{},\"as_str\":{}", jstr(&text), is_lit);
                if t[1] == "M" {
                    let l = emit_macro_lit(idx, &target, lvl);
                    extra = format!("{},\"macro_line\":{}", extra, l);
                } else {
                    with_lit(idx, &mut |args| {
                        let rec = log::Record::builder()
                            .level(lvl)
                            .target(&target)
                            .args(args)
                            .file(file.as_deref())
                            .line(line)
                            .module_path(module.as_deref())
                            .build();
                        if t[1] == "D" {
                            log::logger().log(&rec);
                        } else {
                            tracing_log::format_trace(&rec).unwrap();
                        }
                    });
                }
            } else if t[0] == "rec" {
                let lvl = log_level_of(t[2].parse().unwrap());
                let target = unhex(&t[3]);
                let msg = unhex(&t[4]);
                let file = unhex_opt(&t[5]);
                let line: Option<u32> = if t[6] == "-" { None } else { Some(t[6].parse().unwrap()) };
                let module = unhex_opt(&t[7]);
                match t[1].as_str() {
                    "M" => {
                        let l = emit_macro(&target, lvl, &msg);
                        extra = format!(",\"macro_line\":{}", l);
                    }
                    e => {
                        let args = format_args!("{}", msg);
                        let rec = log::Record::builder()
                            .level(lvl)
                            .target(&target)
                            .args(args)
                            .file(file.as_deref())
                            .line(line)
                            .module_path(module.as_deref())
                            .build();
                        if e == "D" {
                            log::logger().log(&rec);
                        } else {
                            tracing_log::format_trace(&rec).unwrap();
                        }
                    }
                }
            } else if t[0] == "enq" {
                let lvl = log_level_of(t[1].parse().unwrap());
                let target = unhex(&t[2]);
                let md = log::Metadata::builder().level(lvl).target(&target).build();
                let ans = log::logger().enabled(&md);
                extra = format!(",\"ans\":{}", ans);
            } else if t[0] == "cvm" {
                let lvl = log_level_of(t[1].parse().unwrap());
                let target = unhex(&t[2]);
                let md = log::Metadata::builder().level(lvl).target(&target).build();
                extra = format!(",\"conv\":{{{}}}", meta_json(&md.as_trace()));
            } else if t[0] == "cvr" {
                let lvl = log_level_of(t[1].parse().unwrap());
                let target = unhex(&t[2]);
                let file = unhex_opt(&t[3]);
                let line: Option<u32> = if t[4] == "-" { None } else { Some(t[4].parse().unwrap()) };
                let module = unhex_opt(&t[5]);
                let args = format_args!("x");
                let rec = log::Record::builder().level(lvl).target(&target).args(args).file(file.as_deref()).line(line).module_path(module.as_deref()).build();
                extra = format!(",\"conv\":{{{}}}", meta_json(&rec.as_trace()));
            } else if t[0] == "cvl" {
                let n: u8 = t[1].parse().unwrap();
                let target = unhex(&t[2]);
                let fm = foreign_meta(n);
                let md = Metadata::new("conv", &target, *fm.level(), None, None, None, FieldSet::new(&[], fm.callsite()), Kind::EVENT);
                let lm = md.as_log();
                extra = format!(",\"aslog\":[{},{}]", lm.level() as usize, jstr(lm.target()));
            } else {
                // an event that is NOT a log event, straight to the current collector
                let meta = foreign_meta(t[1].parse().unwrap());
                let target = unhex(&t[2]);
                let fs = meta.fields();
                let mut it = fs.iter();
                let (k_msg, k_target) = (it.next().unwrap(), it.next().unwrap());
                let args = format_args!("not a log record");
                let vals = [
                    (&k_msg, Some(&args as &dyn tracing_core::field::Value)),
                    (&k_target, Some(&target.as_str() as &dyn tracing_core::field::Value)),
                ];
                let vs = fs.value_set(&vals);
                dispatch::get_default(|d| d.event(&Event::new(meta, &vs)));
            }
        }));
        let obs: Vec<String> = out.lock().unwrap().drain(..).collect();
        println!("{{\"k\":\"item\",\"i\":{},\"panic\":{},\"obs\":[{}]{}}}", i, r.is_err(), obs.join(","), extra);
    }
    println!("{{\"k\":\"end\",\"current\":{}}}", filter_num(&LevelFilter::current()));
}
