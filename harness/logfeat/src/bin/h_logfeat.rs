//! C18 harness, tracing -> log (cargo feature `log`; the package `logalways` compiles this same file, through a
//! symlink, against `tracing` with `log-always`).  ONE PROCESS PER CASE: the `log` logger installs once and
//! `dispatch::has_been_set()` is process-global and monotone.
//!
//! argv[1] = case file.  Lines (strings are `x<hex of utf-8>`):
//!   logmax <0..5>                                   log::set_max_level
//!   logger <default 0..5> [<target>=<0..5> ...]     the recording logger's `enabled` table
//!   collector <hint -1|0..5> <default 0..5> [<target>=<0..5> ...]   the recording collector used by `install`
//!   dangling                                        Dispatch::new(collector) WITHOUT installing it
//!   install <scoped|global>        uninstall        (drop the scoped guard)
//!   ev <cs> <vals>                 sp <slot> <cs> <vals>        none <slot>     (slot := Span::none())
//!   rec <slot> <field name> <vals>                  span.record(name, vals.i)
//!   en <slot>   ex <slot>   dr <slot>
//!   fol <slot> <from slot|->                        span.follows_from(from.id())   (no log call in the source)
//!   insc <slot>                                     span.in_scope(|| ())                       (enter + exit)
//!   ins <slot> <t|f>                                the span in the slot is moved into `pending().instrument(span)`:
//!                                                   t = tracing::Instrument, f = tracing_futures::Instrument
//!   poll <slot>                                     poll that future once (no-op waker): the span is entered and exited
//!   idrop <slot>                                    drop the future: the span is entered and exited around the inner
//!                                                   value's drop, then the span itself is dropped
//!   hbs                                             nothing: only observe has_been_set()
//!   ltinit <0..5>                                   tracing_log::LogTracer::builder().with_max_level(l).init() — this
//!                                                   process already has a logger (the recording one), so the call must
//!                                                   fail and change nothing; reports `lt_err` and `log_max` afterwards
//!   @<k> ev ... | install <scoped|global> | uninstall | hbs       the same op on WORKER THREAD k (1..3); the main
//!                                                   thread waits for it to finish (every op is ordered after the last)
//!   gmid <k> <70|71|72> ev <cs> <vals>              worker k calls set_global_default and stops at the given yield
//!                                                   point (before the CAS / before the GLOBAL_DISPATCH write / before
//!                                                   the GLOBAL_INIT store); the main thread runs the event; the worker
//!                                                   finishes.  If the point is never reached the event runs afterwards.
//! <vals> = i=<i64> u=<u64> b=<0|1> s=<str> t=<str> m=<str>
//!
//! Output: one JSON object per op: the log records the recording logger received during the op, the span id (for
//! `sp`), `has_been_set()` after the op (on the main thread; `exists_t`: on the thread that ran the op; `exists_mid`:
//! on the main thread inside the `gmid` window), the number of tracing events/spans the collector saw, and the `{:?}`
//! rendering of `s` (std's, so the driver need not re-implement `<str as Debug>`).
use std::cell::{Cell, RefCell};
use std::future::Future;
use std::pin::Pin;
use std::task::{Context, Waker};
use std::fmt::Write as _;
use std::sync::atomic::{AtomicBool, AtomicU64, Ordering};
use std::sync::mpsc::{channel, Receiver, Sender};
use std::sync::{Arc, Mutex};
use tracing::span::{EnteredSpan, Id};
use tracing::{Level, Span};
use tracing_core::{
    collect::Collect,
    dispatch::{self, Dispatch},
    span, Event, LevelFilter, Metadata,
};

fn hex(s: &str) -> String {
    let mut o = String::with_capacity(2 * s.len() + 1);
    for b in s.as_bytes() {
        write!(o, "{:02x}", b).unwrap();
    }
    o
}
fn jstr(s: &str) -> String {
    format!("\"{}\"", hex(s))
}
fn jopt(s: Option<&str>) -> String {
    s.map(jstr).unwrap_or_else(|| "null".into())
}
fn jnum<T: std::fmt::Display>(s: Option<T>) -> String {
    s.map(|x| x.to_string()).unwrap_or_else(|| "null".into())
}
fn unhex(s: &str) -> String {
    let s = s.strip_prefix('x').expect("string token must start with x");
    let bytes: Vec<u8> = (0..s.len() / 2).map(|i| u8::from_str_radix(&s[2 * i..2 * i + 2], 16).unwrap()).collect();
    String::from_utf8(bytes).expect("utf-8")
}
fn filter_of(n: i32) -> Option<LevelFilter> {
    match n {
        -1 => None,
        0 => Some(LevelFilter::OFF),
        1 => Some(LevelFilter::ERROR),
        2 => Some(LevelFilter::WARN),
        3 => Some(LevelFilter::INFO),
        4 => Some(LevelFilter::DEBUG),
        5 => Some(LevelFilter::TRACE),
        _ => panic!("bad filter"),
    }
}
fn log_filter_of(n: u8) -> log::LevelFilter {
    match n {
        0 => log::LevelFilter::Off,
        1 => log::LevelFilter::Error,
        2 => log::LevelFilter::Warn,
        3 => log::LevelFilter::Info,
        4 => log::LevelFilter::Debug,
        5 => log::LevelFilter::Trace,
        _ => panic!("bad filter"),
    }
}
fn lvl_num(l: &Level) -> u8 {
    use std::collections::hash_map::DefaultHasher;
    use std::hash::{Hash, Hasher};
    let h = |x: &Level| {
        let mut s = DefaultHasher::new();
        x.hash(&mut s);
        s.finish()
    };
    let all = [Level::ERROR, Level::WARN, Level::INFO, Level::DEBUG, Level::TRACE];
    all.iter().position(|c| h(c) == h(l)).unwrap() as u8 + 1
}
fn parse_rules(t: &[String]) -> Vec<(String, u8)> {
    t.iter()
        .map(|r| {
            let (a, b) = r.split_once('=').unwrap();
            (unhex(a), b.parse().unwrap())
        })
        .collect()
}
fn table(rules: &[(String, u8)], dflt: u8, target: &str, level: u8) -> bool {
    level <= rules.iter().find(|(t, _)| t == target).map(|(_, m)| *m).unwrap_or(dflt)
}

// ---- recording logger
struct RecLogger {
    rules: Vec<(String, u8)>,
    dflt: u8,
    out: Arc<Mutex<Vec<String>>>,
}
impl log::Log for RecLogger {
    fn enabled(&self, m: &log::Metadata<'_>) -> bool {
        table(&self.rules, self.dflt, m.target(), m.level() as usize as u8)
    }
    fn log(&self, r: &log::Record<'_>) {
        // deliberately no second `enabled` test: every record handed to the logger is recorded
        self.out.lock().unwrap().push(format!(
            "{{\"level\":{},\"target\":{},\"text\":{},\"file\":{},\"line\":{},\"module\":{}}}",
            r.level() as usize,
            jstr(r.target()),
            jstr(&format!("{}", r.args())),
            jopt(r.file()),
            jnum(r.line()),
            jopt(r.module_path())
        ));
    }
    fn flush(&self) {}
}

// ---- recording collector (level-and-target table; ids 1, 2, 3, ... in creation order)
struct Shared {
    events: AtomicU64,
    spans: AtomicU64,
    next: AtomicU64,
}
#[derive(Clone)]
struct Rec {
    hint: Option<LevelFilter>,
    rules: Vec<(String, u8)>,
    dflt: u8,
    sh: Arc<Shared>,
}
impl Collect for Rec {
    fn enabled(&self, m: &Metadata<'_>) -> bool {
        table(&self.rules, self.dflt, m.target(), lvl_num(m.level()))
    }
    fn max_level_hint(&self) -> Option<LevelFilter> {
        self.hint
    }
    fn new_span(&self, _: &span::Attributes<'_>) -> span::Id {
        self.sh.spans.fetch_add(1, Ordering::SeqCst);
        span::Id::from_u64(self.sh.next.fetch_add(1, Ordering::SeqCst))
    }
    fn record(&self, _: &span::Id, _: &span::Record<'_>) {}
    fn record_follows_from(&self, _: &span::Id, _: &span::Id) {}
    fn event(&self, _: &Event<'_>) {
        self.sh.events.fetch_add(1, Ordering::SeqCst);
    }
    fn enter(&self, _: &span::Id) {}
    fn exit(&self, _: &span::Id) {}
    fn current_span(&self) -> span::Current {
        span::Current::none()
    }
}

struct Vals {
    i: i64,
    u: u64,
    b: bool,
    s: String,
    t: String,
    m: String,
}
fn parse_vals(t: &[String]) -> Vals {
    let mut v = Vals { i: 0, u: 0, b: false, s: String::new(), t: String::new(), m: String::new() };
    for kv in t {
        let (k, x) = kv.split_once('=').unwrap();
        match k {
            "i" => v.i = x.parse().unwrap(),
            "u" => v.u = x.parse().unwrap(),
            "b" => v.b = x == "1",
            "s" => v.s = unhex(x),
            "t" => v.t = unhex(x),
            "m" => v.m = unhex(x),
            _ => panic!("bad value key"),
        }
    }
    v
}

// ---- the callsite pools (mirrored by EVENT_CS / SPAN_CS in driver/props/c18.py; keep in step)
fn emit_event(cs: usize, v: &Vals) {
    match cs {
        0 => tracing::event!(Level::INFO, "{}", v.m),
        1 => tracing::event!(target: "app::db", Level::WARN, a = v.i, "{}", v.m),
        2 => tracing::error!(a = v.i, b = v.u, c = v.b),
        3 => tracing::debug!(target: "app", s = v.s.as_str(), "{}", v.m),
        4 => tracing::trace!(d = ?v.s, e = %v.t, "{}", v.m),
        5 => tracing::info!(message = v.s.as_str(), x = v.i),
        6 => tracing::info!(x = v.i, message = v.s.as_str()),
        7 => tracing::warn!(target: "ignored::crate", "{}", v.m),
        8 => tracing::event!(name: "named", target: "tgt", Level::DEBUG, k.dotted = v.u, "{}", v.m),
        9 => tracing::info!("quoted name" = v.i, "{}", v.m),
        10 => tracing::trace!("{}", v.m),
        11 => tracing::error!(target: "app::db", e = %v.t),
        12 => tracing::debug!(parent: None::<Id>, z = v.b, "{}", v.m),
        13 => tracing::warn!(s = v.s.as_str(), t = v.t.as_str(), i = v.i, u = v.u, b = v.b, "{}", v.m),
        14 => tracing::event!(target: "tracing::span", Level::TRACE, n = v.i),
        15 => tracing::info!(target: "app", "{} and {}", v.m, v.i),
        _ => panic!("no such event callsite"),
    }
}
const N_SPAN_CS: usize = 9;
fn make_span(cs: usize, v: &Vals) -> Span {
    match cs {
        0 => tracing::span!(Level::INFO, "s0"),
        1 => tracing::info_span!("s1", a = v.i, s = v.s.as_str()),
        2 => tracing::span!(target: "app::db", Level::DEBUG, "s2", e = tracing::field::Empty),
        3 => tracing::trace_span!("s3", d = ?v.s),
        4 => tracing::error_span!(target: "tgt", "s4", m = %v.t, b = v.b),
        5 => tracing::warn_span!(parent: None::<Id>, "s5", u = v.u),
        6 => tracing::span!(target: "app", Level::TRACE, "s6"),
        7 => tracing::info_span!("s7", message = v.s.as_str()),
        8 => tracing::debug_span!("span with spaces; and = signs", e = tracing::field::Empty, a = v.i),
        _ => panic!("no such span callsite"),
    }
}

type Never = std::future::Pending<()>;
enum Slot {
    Empty,
    Idle(Span),
    Entered(EnteredSpan),
    FutT(Pin<Box<tracing::instrument::Instrumented<Never>>>),
    FutF(Pin<Box<tracing_futures::Instrumented<Never>>>),
}

// ---- worker threads: each executes one command at a time and reports back; the main thread waits for the reply
static GLOBAL_SET: AtomicBool = AtomicBool::new(false);
enum Reply {
    Paused,
    Done { skip: bool, panic: bool, exists_t: bool, extra: String },
}
thread_local! {
    static ARM: Cell<Option<u32>> = const { Cell::new(None) };
    static PAUSE_TX: RefCell<Option<Sender<Reply>>> = const { RefCell::new(None) };
    static RESUME_RX: RefCell<Option<Receiver<()>>> = const { RefCell::new(None) };
}
/// the yield callback: a thread that armed itself for point `id` reports `Paused` and waits to be resumed
fn on_yield(id: u32) {
    if ARM.with(|a| a.get()) == Some(id) {
        ARM.with(|a| a.set(None));
        PAUSE_TX.with(|t| t.borrow().as_ref().unwrap().send(Reply::Paused).unwrap());
        RESUME_RX.with(|r| r.borrow().as_ref().unwrap().recv().unwrap());
    }
}
struct Worker {
    cmd: Sender<Vec<String>>,
    resume: Sender<()>,
    reply: Receiver<Reply>,
}
fn spawn_worker(rec: Rec) -> Worker {
    let (cmd_tx, cmd_rx) = channel::<Vec<String>>();
    let (resume_tx, resume_rx) = channel::<()>();
    let (reply_tx, reply_rx) = channel::<Reply>();
    std::thread::spawn(move || {
        PAUSE_TX.with(|t| *t.borrow_mut() = Some(reply_tx.clone()));
        RESUME_RX.with(|r| *r.borrow_mut() = Some(resume_rx));
        let mut guard: Option<dispatch::DefaultGuard> = None;
        let mut keep: Vec<Dispatch> = vec![];
        while let Ok(t) = cmd_rx.recv() {
            let mut skip = false;
            let mut extra = String::new();
            let r = std::panic::catch_unwind(std::panic::AssertUnwindSafe(|| match t[0].as_str() {
                "hbs" => {}
                "ev" => {
                    let v = parse_vals(&t[2..]);
                    extra = format!(",\"ds\":{}", jstr(&format!("{:?}", v.s)));
                    emit_event(t[1].parse().unwrap(), &v);
                }
                "install" => {
                    if t[1] == "scoped" {
                        if guard.is_some() {
                            skip = true;
                        } else {
                            let d = Dispatch::new(rec.clone());
                            guard = Some(dispatch::set_default(&d));
                            keep.push(d);
                        }
                    } else if GLOBAL_SET.load(Ordering::SeqCst) {
                        skip = true;
                    } else {
                        let d = Dispatch::new(rec.clone());
                        dispatch::set_global_default(d.clone()).expect("global default");
                        keep.push(d);
                        GLOBAL_SET.store(true, Ordering::SeqCst);
                    }
                }
                "uninstall" => {
                    if guard.is_none() {
                        skip = true;
                    }
                    guard = None;
                }
                "gmid" => {
                    // set_global_default, stopping at yield point t[1] (if it is reached)
                    ARM.with(|a| a.set(Some(t[1].parse().unwrap())));
                    let d = Dispatch::new(rec.clone());
                    let ok = dispatch::set_global_default(d.clone()).is_ok();
                    ARM.with(|a| a.set(None));
                    if ok {
                        keep.push(d);
                        GLOBAL_SET.store(true, Ordering::SeqCst);
                    }
                    extra = format!(",\"gl_ok\":{}", ok);
                }
                _ => skip = true,
            }));
            let _ = reply_tx.send(Reply::Done { skip, panic: r.is_err(), exists_t: dispatch::has_been_set(), extra });
        }
    });
    Worker { cmd: cmd_tx, resume: resume_tx, reply: reply_rx }
}

fn main() {
    let path = std::env::args().nth(1).expect("case file");
    let text = std::fs::read_to_string(&path).expect("read case file");
    let mut logmax = 5u8;
    let mut logger = (5u8, Vec::<(String, u8)>::new());
    let mut coll = (-1i32, 5u8, Vec::<(String, u8)>::new());
    let mut ops: Vec<Vec<String>> = vec![];
    for line in text.lines() {
        let t: Vec<String> = line.split_whitespace().map(|s| s.to_string()).collect();
        if t.is_empty() || t[0].starts_with('#') {
            continue;
        }
        match t[0].as_str() {
            "logmax" => logmax = t[1].parse().unwrap(),
            "logger" => logger = (t[1].parse().unwrap(), parse_rules(&t[2..])),
            "collector" => coll = (t[1].parse().unwrap(), t[2].parse().unwrap(), parse_rules(&t[3..])),
            _ => ops.push(t),
        }
    }
    let out = Arc::new(Mutex::new(Vec::<String>::new()));
    log::set_boxed_logger(Box::new(RecLogger { rules: logger.1, dflt: logger.0, out: out.clone() })).expect("set logger");
    log::set_max_level(log_filter_of(logmax));
    let sh = Arc::new(Shared { events: AtomicU64::new(0), spans: AtomicU64::new(0), next: AtomicU64::new(1) });
    let rec = Rec { hint: filter_of(coll.0), rules: coll.2, dflt: coll.1, sh: sh.clone() };
    println!(
        "{{\"k\":\"hdr\",\"file\":{},\"module\":{},\"exists\":{},\"static_max\":{},\"n_span_cs\":{}}}",
        jstr(file!()),
        jstr(module_path!()),
        dispatch::has_been_set(),
        log::STATIC_MAX_LEVEL as usize,
        N_SPAN_CS
    );
    let mut slots: Vec<Slot> = (0..8).map(|_| Slot::Empty).collect();
    let mut guard: Option<dispatch::DefaultGuard> = None;
    let mut keep: Vec<Dispatch> = vec![];
    tracing_core::__verif::set_yield(Some(Box::new(on_yield)));
    let workers: Vec<Worker> = (0..3).map(|_| spawn_worker(rec.clone())).collect();
    for (i, t) in ops.iter().enumerate() {
        let (ev0, sp0) = (sh.events.load(Ordering::SeqCst), sh.spans.load(Ordering::SeqCst));
        let mut extra = String::new();
        let mut skip = false;
        let mut exists_t: Option<bool> = None;
        let mut wpanic = false;
        let r = std::panic::catch_unwind(std::panic::AssertUnwindSafe(|| match t[0].as_str() {
            w if w.starts_with('@') => {
                let k: usize = w[1..].parse().unwrap();
                let wk = &workers[k - 1];
                wk.cmd.send(t[1..].to_vec()).unwrap();
                match wk.reply.recv().unwrap() {
                    Reply::Done { skip: s, panic: p, exists_t: e, extra: x } => {
                        skip = s;
                        wpanic = p;
                        exists_t = Some(e);
                        extra = x;
                    }
                    Reply::Paused => panic!("a worker paused outside gmid"),
                }
            }
            "gmid" => {
                let k: usize = t[1].parse().unwrap();
                let wk = &workers[k - 1];
                assert!(t[3] == "ev", "gmid runs an event");
                let v = parse_vals(&t[5..]);
                wk.cmd.send(vec!["gmid".to_string(), t[2].clone()]).unwrap();
                let mut first = wk.reply.recv().unwrap();
                let paused = matches!(first, Reply::Paused);
                let mut mid = String::new();
                if paused {
                    emit_event(t[4].parse().unwrap(), &v);
                    mid = format!(",\"exists_mid\":{}", dispatch::has_been_set());
                    wk.resume.send(()).unwrap();
                    first = wk.reply.recv().unwrap();
                }
                if let Reply::Done { panic: p, exists_t: e, extra: x, .. } = first {
                    wpanic = p;
                    exists_t = Some(e);
                    extra = x;
                }
                if !paused {
                    emit_event(t[4].parse().unwrap(), &v);
                    mid = format!(",\"exists_mid\":{}", dispatch::has_been_set());
                }
                extra = format!("{},\"paused\":{}{},\"ds\":{}", extra, paused, mid, jstr(&format!("{:?}", v.s)));
            }
            "hbs" => {}
            "ltinit" => {
                let r = tracing_log::LogTracer::builder().with_max_level(log_filter_of(t[1].parse().unwrap())).init();
                extra = format!(",\"lt_err\":{},\"log_max\":{}", r.is_err(), log::max_level() as usize);
            }
            "insc" => {
                let slot: usize = t[1].parse().unwrap();
                match &slots[slot] {
                    Slot::Idle(s) => s.in_scope(|| ()),
                    _ => skip = true,
                }
            }
            "ins" => {
                let slot: usize = t[1].parse().unwrap();
                match std::mem::replace(&mut slots[slot], Slot::Empty) {
                    Slot::Idle(s) => {
                        slots[slot] = if t[2] == "t" {
                            Slot::FutT(Box::pin(tracing::Instrument::instrument(std::future::pending::<()>(), s)))
                        } else {
                            Slot::FutF(Box::pin(tracing_futures::Instrument::instrument(std::future::pending::<()>(), s)))
                        }
                    }
                    other => {
                        slots[slot] = other;
                        skip = true;
                    }
                }
            }
            "poll" => {
                let slot: usize = t[1].parse().unwrap();
                let mut cx = Context::from_waker(Waker::noop());
                match &mut slots[slot] {
                    Slot::FutT(f) => assert!(f.as_mut().poll(&mut cx).is_pending()),
                    Slot::FutF(f) => assert!(f.as_mut().poll(&mut cx).is_pending()),
                    _ => skip = true,
                }
            }
            "idrop" => {
                let slot: usize = t[1].parse().unwrap();
                match std::mem::replace(&mut slots[slot], Slot::Empty) {
                    Slot::FutT(f) => drop(f),
                    Slot::FutF(f) => drop(f),
                    other => {
                        slots[slot] = other;
                        skip = true;
                    }
                }
            }
            "fol" => {
                let slot: usize = t[1].parse().unwrap();
                let from: Option<Id> = if t[2] == "-" {
                    None
                } else {
                    match &slots[t[2].parse::<usize>().unwrap()] {
                        Slot::Idle(s) => s.id(),
                        Slot::Entered(s) => s.id(),
                        _ => None,
                    }
                };
                match &slots[slot] {
                    Slot::Idle(s) => {
                        s.follows_from(from);
                    }
                    Slot::Entered(s) => {
                        s.follows_from(from);
                    }
                    _ => skip = true,
                }
            }
            "dangling" => keep.push(Dispatch::new(rec.clone())),
            "install" => {
                if t[1] == "scoped" {
                    if guard.is_some() {
                        skip = true;
                    } else {
                        let d = Dispatch::new(rec.clone());
                        guard = Some(dispatch::set_default(&d));
                        keep.push(d);
                    }
                } else if GLOBAL_SET.load(Ordering::SeqCst) {
                    skip = true;
                } else {
                    let d = Dispatch::new(rec.clone());
                    dispatch::set_global_default(d.clone()).expect("global default");
                    keep.push(d);
                    GLOBAL_SET.store(true, Ordering::SeqCst);
                }
            }
            "uninstall" => {
                if guard.is_none() {
                    skip = true;
                }
                guard = None;
            }
            "ev" => {
                let v = parse_vals(&t[2..]);
                extra = format!(",\"ds\":{}", jstr(&format!("{:?}", v.s)));
                emit_event(t[1].parse().unwrap(), &v);
            }
            "sp" => {
                let slot: usize = t[1].parse().unwrap();
                let v = parse_vals(&t[3..]);
                if !matches!(slots[slot], Slot::Empty) {
                    skip = true;
                    return;
                }
                let s = make_span(t[2].parse().unwrap(), &v);
                let m = s.metadata().expect("macro spans carry metadata under the log feature");
                let names: Vec<String> = m.fields().iter().map(|f| jstr(f.name())).collect();
                extra = format!(
                    ",\"ds\":{},\"sid\":{},\"meta\":{{\"name\":{},\"target\":{},\"level\":{},\"file\":{},\"line\":{},\"module\":{},\"fields\":[{}]}}",
                    jstr(&format!("{:?}", v.s)),
                    jnum(s.id().map(|i| i.into_u64())),
                    jstr(m.name()),
                    jstr(m.target()),
                    lvl_num(m.level()),
                    jopt(m.file()),
                    jnum(m.line()),
                    jopt(m.module_path()),
                    names.join(",")
                );
                slots[slot] = Slot::Idle(s);
            }
            "none" => {
                let slot: usize = t[1].parse().unwrap();
                if !matches!(slots[slot], Slot::Empty) {
                    skip = true;
                    return;
                }
                slots[slot] = Slot::Idle(Span::none());
            }
            "rec" => {
                let slot: usize = t[1].parse().unwrap();
                let name = unhex(&t[2]);
                let v = parse_vals(&t[3..]);
                match &slots[slot] {
                    Slot::Idle(s) => {
                        s.record(name.as_str(), v.i);
                    }
                    Slot::Entered(s) => {
                        s.record(name.as_str(), v.i);
                    }
                    _ => skip = true,
                }
            }
            "en" => {
                let slot: usize = t[1].parse().unwrap();
                match std::mem::replace(&mut slots[slot], Slot::Empty) {
                    Slot::Idle(s) => slots[slot] = Slot::Entered(s.entered()),
                    other => {
                        slots[slot] = other;
                        skip = true;
                    }
                }
            }
            "ex" => {
                let slot: usize = t[1].parse().unwrap();
                match std::mem::replace(&mut slots[slot], Slot::Empty) {
                    Slot::Entered(s) => slots[slot] = Slot::Idle(s.exit()),
                    other => {
                        slots[slot] = other;
                        skip = true;
                    }
                }
            }
            "dr" => {
                let slot: usize = t[1].parse().unwrap();
                match std::mem::replace(&mut slots[slot], Slot::Empty) {
                    Slot::Idle(s) => drop(s),
                    other => {
                        slots[slot] = other;
                        skip = true;
                    }
                }
            }
            other => panic!("unknown op {}", other),
        }));
        let recs: Vec<String> = out.lock().unwrap().drain(..).collect();
        println!(
            "{{\"k\":\"op\",\"i\":{},\"op\":\"{}\",\"skip\":{},\"panic\":{},\"exists\":{},\"exists_t\":{},\"evs\":{},\"spans\":{},\"recs\":[{}]{}}}",
            i,
            t[0],
            skip,
            r.is_err() || wpanic,
            dispatch::has_been_set(),
            exists_t.map(|b| b.to_string()).unwrap_or_else(|| "null".into()),
            sh.events.load(Ordering::SeqCst) - ev0,
            sh.spans.load(Ordering::SeqCst) - sp0,
            recs.join(","),
            extra
        );
    }
    // leave every remaining span alone: forget them so that process exit emits nothing unobserved
    for s in slots {
        std::mem::forget(s);
    }
}
