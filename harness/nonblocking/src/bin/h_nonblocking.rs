//! C15 harness: the real `tracing_appender::non_blocking::{NonBlocking, WorkerGuard}` over a *scripted*
//! underlying writer.  One case per process: a JSON object on stdin, one JSON object on stdout.
//!
//! The scripted writer parks the worker thread at five points (entry / exit of `write_all`, entry / exit of
//! `flush`, exit of its own `Drop`) until the controller releases it, fails the calls whose global index
//! (write_all and flush counted together, from 0) is in the fault script, and logs every call.  Producer
//! threads perform one `write` per command.  `drop(guard)` runs on a thread of its own.  After every
//! command the controller waits until every thread is *at rest*: parked at a harness gate, idle, or
//! asleep inside crossbeam (thread state `S` in /proc/self/task/<tid>/stat, sampled three times with an
//! unchanged event counter) - no sleep decides an outcome; the only real-time waits are the guard's own
//! 100 ms / 1 s timeouts when a command (`T`) asks for them.
//!
//! input : {"cap":2,"lossy":true,"progs":[[1,2],[11]],"lines":{"1":"6869","2":"",..},"faults":[3],
//!          "cmds":[["P",0],["W"],["Wp"],["C",0],["G"],["T"],["O"],["H"]], "twait_ms": 4000}
//! output: {"snaps":[[status,wk,inflight,nlog,dropped,pend,nhist,grun,gres],..],
//!          "log":[[kind,id,ok,hex,via_write],..], "hist":[[p,id,outcome],..], "dropped":n,
//!          "worker_exited":b, "writer_dropped":b, "stderr":"..", "problems":[..]}
use std::cell::RefCell;
use std::collections::{HashMap, HashSet};
use std::io::{self, Read, Write};
use std::sync::mpsc;
use std::sync::{Arc, Condvar, Mutex};
use std::thread;
use std::time::{Duration, Instant};

use serde_json::{json, Value};
use tracing_appender::non_blocking::{ErrorCounter, NonBlocking, NonBlockingBuilder, WorkerGuard};
use tracing_subscriber::fmt::MakeWriter;

const WORKER_NAME: &str = "nbw-c15";

struct Ev {
    kind: u8, // 1 write, 2 flush, 3 drop
    id: u64,
    ok: bool,
    hex: String,
    via_write: bool,
}

struct St {
    gated: bool,
    parked: Option<(u8, u64)>,
    waking: bool,
    log: Vec<Ev>,
    ncalls: usize,
    faults: HashSet<usize>,
    epoch: u64,
    worker_exited: bool,
    worker_tid: Option<i32>,
    writer_dropped: bool,
    ids: HashMap<Vec<u8>, u64>,
    // producers: 0 idle, 1 commanded, 2 closed, 3 inside the call
    pstate: Vec<u8>,
    ptid: Vec<Option<i32>>,
    results: Vec<(usize, u64, u8)>,
    // guard drop: 0 not started, 1 spawned, 2 inside drop, 3 returned
    dstate: u8,
    dtid: Option<i32>,
    drop_ms: u128,
    foreign_calls: usize,
    // storm mode: how the free-running worker is slowed down inside write_all (0 none, n: n yields, 1000+n: sleep n us)
    throttle: u64,
}

struct Shared {
    st: Mutex<St>,
    cv: Condvar,
}

fn mytid() -> i32 {
    thread_local! { static TID: i32 = {
        std::fs::read_link("/proc/thread-self").ok()
            .and_then(|p| p.file_name().map(|s| s.to_string_lossy().into_owned()))
            .and_then(|s| s.parse().ok()).unwrap_or(-1)
    }; }
    TID.with(|t| *t)
}

fn tstate(tid: i32) -> Option<char> {
    let s = std::fs::read_to_string(format!("/proc/self/task/{}/stat", tid)).ok()?;
    let i = s.rfind(')')?;
    s[i + 1..].trim_start().chars().next()
}

fn find_thread_by_name(name: &str) -> Option<i32> {
    for e in std::fs::read_dir("/proc/self/task").ok()? {
        let e = e.ok()?;
        let comm = std::fs::read_to_string(e.path().join("comm")).unwrap_or_default();
        if comm.trim_end() == name {
            return e.file_name().to_string_lossy().parse().ok();
        }
    }
    None
}

struct ExitSignal(Arc<Shared>);
impl Drop for ExitSignal {
    fn drop(&mut self) {
        if let Ok(mut st) = self.0.st.lock() {
            st.worker_exited = true;
            st.epoch += 1;
        }
    }
}
thread_local! { static SENTINEL: RefCell<Option<ExitSignal>> = RefCell::new(None); }

fn hex(b: &[u8]) -> String {
    b.iter().map(|x| format!("{:02x}", x)).collect()
}
fn unhex(s: &str) -> Vec<u8> {
    (0..s.len() / 2).map(|i| u8::from_str_radix(&s[2 * i..2 * i + 2], 16).unwrap_or(0)).collect()
}

/// The scripted underlying writer.
struct SW {
    sh: Arc<Shared>,
}

impl SW {
    fn note_thread(&self) {
        let tid = mytid();
        {
            let mut st = self.sh.st.lock().unwrap();
            match st.worker_tid {
                Some(t) if t == tid => {}
                Some(_) => st.foreign_calls += 1,
                None => st.worker_tid = Some(tid),
            }
        }
        SENTINEL.with(|s| {
            if s.borrow().is_none() {
                *s.borrow_mut() = Some(ExitSignal(self.sh.clone()));
            }
        });
    }

    fn park(&self, kind: u8, id: u64) {
        let mut st = self.sh.st.lock().unwrap();
        if !st.gated {
            return;
        }
        st.parked = Some((kind, id));
        st.epoch += 1;
        while st.parked.is_some() && st.gated {
            st = self.sh.cv.wait(st).unwrap();
        }
        st.parked = None;
        st.waking = false;
        st.epoch += 1;
    }

    fn do_write(&self, buf: &[u8], via_write: bool) -> io::Result<()> {
        self.note_thread();
        let id = { self.sh.st.lock().unwrap().ids.get(buf).copied().unwrap_or(0) };
        self.park(1, id);
        let throttle = { self.sh.st.lock().unwrap().throttle };
        if throttle >= 1000 {
            thread::sleep(Duration::from_micros(throttle - 1000));
        } else {
            for _ in 0..throttle {
                thread::yield_now();
            }
        }
        let ok = {
            let mut st = self.sh.st.lock().unwrap();
            let k = st.ncalls;
            st.ncalls += 1;
            let ok = !st.faults.contains(&k);
            st.log.push(Ev { kind: 1, id, ok, hex: hex(buf), via_write });
            st.epoch += 1;
            ok
        };
        self.park(2, id);
        if ok {
            Ok(())
        } else {
            Err(io::Error::new(io::ErrorKind::Other, "scripted write fault"))
        }
    }
}

impl Write for SW {
    /// The worker is expected to use `write_all`.  A plain `write` is answered like a real file or socket may
    /// answer it: with a *short* write (half the buffer), so a caller that ignores the count shows up in the log.
    fn write(&mut self, buf: &[u8]) -> io::Result<usize> {
        let n = if buf.len() >= 2 { buf.len() / 2 } else { buf.len() };
        self.do_write(&buf[..n], true).map(|_| n)
    }
    fn write_all(&mut self, buf: &[u8]) -> io::Result<()> {
        self.do_write(buf, false)
    }
    fn flush(&mut self) -> io::Result<()> {
        self.note_thread();
        self.park(3, 0);
        let ok = {
            let mut st = self.sh.st.lock().unwrap();
            let k = st.ncalls;
            st.ncalls += 1;
            let ok = !st.faults.contains(&k);
            st.log.push(Ev { kind: 2, id: 0, ok, hex: String::new(), via_write: false });
            st.epoch += 1;
            ok
        };
        self.park(4, 0);
        if ok {
            Ok(())
        } else {
            Err(io::Error::new(io::ErrorKind::Other, "scripted flush fault"))
        }
    }
}

impl Drop for SW {
    fn drop(&mut self) {
        self.note_thread();
        {
            let mut st = self.sh.st.lock().unwrap();
            st.log.push(Ev { kind: 3, id: 0, ok: true, hex: String::new(), via_write: false });
            st.writer_dropped = true;
            st.epoch += 1;
        }
        self.park(5, 0);
    }
}

enum PCmd {
    Write(u64, Vec<u8>, bool),
    Close,
}

fn producer(p: usize, nb: NonBlocking, ec: ErrorCounter, lossy: bool, rx: mpsc::Receiver<PCmd>, sh: Arc<Shared>) {
    {
        let mut st = sh.st.lock().unwrap();
        st.ptid[p] = Some(mytid());
        st.epoch += 1;
    }
    let mut nb = Some(nb);
    for cmd in rx {
        match cmd {
            PCmd::Write(id, buf, use_write_all) => {
                let before = ec.dropped_lines();
                {
                    let mut st = sh.st.lock().unwrap();
                    st.pstate[p] = 3;
                    st.epoch += 1;
                }
                let w = nb.as_mut().expect("open");
                let r: io::Result<usize> = if use_write_all { w.write_all(&buf).map(|_| buf.len()) } else { w.write(&buf) };
                let after = ec.dropped_lines();
                let outcome = match (&r, lossy) {
                    (Ok(n), _) if *n != buf.len() => 8,
                    (Ok(_), true) => if after > before { 2 } else { 1 },
                    (Ok(_), false) => 1,
                    (Err(_), false) => 3,
                    (Err(_), true) => 9,
                };
                let mut st = sh.st.lock().unwrap();
                st.results.push((p, id, outcome));
                st.pstate[p] = 0;
                st.epoch += 1;
            }
            PCmd::Close => {
                drop(nb.take());
                let mut st = sh.st.lock().unwrap();
                st.pstate[p] = 2;
                st.epoch += 1;
            }
        }
    }
}

/// (everything at rest?, event counter)
fn at_rest(sh: &Shared) -> (bool, u64) {
    let mut need: Vec<i32> = Vec::new();
    let epoch;
    {
        let st = sh.st.lock().unwrap();
        epoch = st.epoch;
        for p in 0..st.pstate.len() {
            match st.pstate[p] {
                1 => return (false, epoch),
                3 => match st.ptid[p] {
                    Some(t) => need.push(t),
                    None => return (false, epoch),
                },
                _ => {
                    if st.ptid[p].is_none() {
                        return (false, epoch);
                    }
                }
            }
        }
        if !st.worker_exited {
            if st.waking {
                return (false, epoch);
            }
            if st.parked.is_none() {
                match st.worker_tid {
                    Some(t) => need.push(t),
                    None => return (false, epoch),
                }
            }
        }
        // `worker_exited` is raised by a thread-local destructor, i.e. slightly BEFORE the OS thread is gone.  A guard
        // drop that is still running then is not in a stable wait: its rendezvous / send sees the receiver gone at
        // once and its join() returns as soon as the thread is really gone.  Wait for the explicit "drop returned".
        if st.worker_exited && (st.dstate == 1 || st.dstate == 2) {
            return (false, epoch);
        }
        match st.dstate {
            1 => return (false, epoch),
            2 => match st.dtid {
                Some(t) => need.push(t),
                None => return (false, epoch),
            },
            _ => {}
        }
    }
    for t in need {
        match tstate(t) {
            Some('S') | None => {}
            _ => return (false, epoch),
        }
    }
    (true, epoch)
}

fn settle(sh: &Shared, bound: Duration) -> bool {
    let deadline = Instant::now() + bound;
    let mut good = 0;
    let mut last = u64::MAX;
    loop {
        let (r, e) = at_rest(sh);
        if r && e == last {
            good += 1;
        } else {
            good = if r { 1 } else { 0 };
            last = e;
        }
        if good >= 4 {
            return true;
        }
        if Instant::now() > deadline {
            return false;
        }
        thread::sleep(Duration::from_micros(200));
    }
}

fn drain_fd(fd: i32) -> String {
    let mut out = Vec::new();
    let mut buf = [0u8; 4096];
    loop {
        let n = unsafe { libc::read(fd, buf.as_mut_ptr() as *mut libc::c_void, buf.len()) };
        if n <= 0 {
            break;
        }
        out.extend_from_slice(&buf[..n as usize]);
    }
    String::from_utf8_lossy(&out).into_owned()
}

/// Truly concurrent leg: N free-running producer threads x K lines each into a small queue, the worker free-running
/// (optionally slowed down inside write_all), then the guard is dropped.  Nothing is compared with a model; the
/// observations (what every producer offered and got back, the whole call log, dropped_lines()) are judged by
/// clauses that hold on EVERY schedule, so the verdict does not depend on timing.
///
/// input : {"mode":"storm","cap":2,"lossy":true,"nprod":8,"nlines":300,"throttle":3,"faults":[..],"guard_after":null|n}
///         guard_after = n: drop the guard as soon as n writes have returned (producers still running)
fn storm(case: &Value, err_fd: i32) -> ! {
    use std::sync::atomic::{AtomicUsize, Ordering};
    use std::sync::Barrier;
    let cap = case["cap"].as_u64().unwrap_or(1) as usize;
    let lossy = case["lossy"].as_bool().unwrap_or(true);
    let nprod = case["nprod"].as_u64().unwrap_or(8) as usize;
    let nlines = case["nlines"].as_u64().unwrap_or(100) as usize;
    let throttle = case["throttle"].as_u64().unwrap_or(0);
    let guard_after = case["guard_after"].as_u64().map(|x| x as usize);
    let bound = Duration::from_millis(case["bound_ms"].as_u64().unwrap_or(20000));
    let faults: HashSet<usize> = case["faults"].as_array().map(|a| a.iter().filter_map(|x| x.as_u64()).map(|x| x as usize).collect()).unwrap_or_default();
    let payload = |id: u64| -> Vec<u8> {
        let mut v = format!("<{}>", id).into_bytes();
        v.extend(std::iter::repeat(b'x').take((id % 23) as usize));
        v.push(b'\n');
        v
    };
    let mut ids: HashMap<Vec<u8>, u64> = HashMap::new();
    for p in 0..nprod {
        for i in 0..nlines {
            let id = (p as u64 + 1) * 1_000_000 + i as u64 + 1;
            ids.insert(payload(id), id);
        }
    }
    let sh = Arc::new(Shared {
        st: Mutex::new(St {
            gated: false, parked: None, waking: false, log: Vec::new(), ncalls: 0, faults, epoch: 0,
            worker_exited: false, worker_tid: None, writer_dropped: false, ids,
            pstate: vec![], ptid: vec![], results: Vec::new(),
            dstate: 0, dtid: None, drop_ms: 0, foreign_calls: 0, throttle,
        }),
        cv: Condvar::new(),
    });
    let mut problems: Vec<String> = Vec::new();
    let (nb, guard) = NonBlockingBuilder::default().buffered_lines_limit(cap).lossy(lossy).thread_name(WORKER_NAME).finish(SW { sh: sh.clone() });
    let ec = nb.error_counter();
    let barrier = Arc::new(Barrier::new(nprod + 1));
    let returned = Arc::new(AtomicUsize::new(0));
    let mut joins = Vec::new();
    for p in 0..nprod {
        let mut h = if p % 2 == 1 { MakeWriter::make_writer(&nb) } else { nb.clone() };
        let (b, r) = (barrier.clone(), returned.clone());
        joins.push(thread::spawn(move || {
            // (ok, err, short) counts
            let mut res = (0u64, 0u64, 0u64);
            b.wait();
            for i in 0..nlines {
                let id = (p as u64 + 1) * 1_000_000 + i as u64 + 1;
                let mut buf = format!("<{}>", id).into_bytes();
                buf.extend(std::iter::repeat(b'x').take((id % 23) as usize));
                buf.push(b'\n');
                let out: io::Result<usize> = if i % 2 == 0 { h.write(&buf) } else { h.write_all(&buf).map(|_| buf.len()) };
                match out {
                    Ok(n) if n == buf.len() => res.0 += 1,
                    Ok(_) => res.2 += 1,
                    Err(_) => res.1 += 1,
                }
                r.fetch_add(1, Ordering::SeqCst);
            }
            drop(h);
            res
        }));
    }
    drop(nb);
    let t0 = Instant::now();
    barrier.wait();
    let mut guard = Some(guard);
    let spawn_drop = |g: WorkerGuard, sh2: Arc<Shared>| {
        thread::spawn(move || {
            let t = Instant::now();
            drop(g);
            let mut st = sh2.st.lock().unwrap();
            st.drop_ms = t.elapsed().as_millis();
            st.dstate = 3;
        })
    };
    let mut dropper = None;
    if let Some(n) = guard_after {
        while returned.load(Ordering::SeqCst) < n.min(nprod * nlines) && t0.elapsed() < bound {
            thread::yield_now();
        }
        dropper = Some(spawn_drop(guard.take().unwrap(), sh.clone()));
    }
    // producers (bounded: a producer that never returns is reported, not waited for)
    let mut pres: Vec<Value> = Vec::new();
    for (p, j) in joins.into_iter().enumerate() {
        while !j.is_finished() && t0.elapsed() < bound {
            thread::sleep(Duration::from_millis(1));
        }
        if j.is_finished() {
            let r = j.join().unwrap_or((0, 0, 0));
            pres.push(json!([r.0, r.1, r.2]));
        } else {
            problems.push(format!("producer {} did not finish within {:?}", p, bound));
            pres.push(json!([0, 0, 0]));
        }
    }
    if let Some(g) = guard.take() {
        dropper = Some(spawn_drop(g, sh.clone()));
    }
    while sh.st.lock().unwrap().dstate != 3 && t0.elapsed() < bound {
        thread::sleep(Duration::from_millis(1));
    }
    if sh.st.lock().unwrap().dstate != 3 {
        problems.push(format!("drop(guard) did not return within {:?}", bound));
    }
    let _ = dropper;
    // every sender is gone now: the worker must exit
    while !sh.st.lock().unwrap().worker_exited && t0.elapsed() < bound {
        thread::sleep(Duration::from_millis(1));
    }
    let msg = drain_fd(err_fd);
    let st = sh.st.lock().unwrap();
    let mut unknown: Vec<String> = Vec::new();
    let log: Vec<Value> = st.log.iter().map(|e| {
        if e.kind == 1 && e.id == 0 && unknown.len() < 5 {
            unknown.push(e.hex.clone());
        }
        json!([e.kind, e.id, if e.ok { 1 } else { 0 }])
    }).collect();
    let out = json!({
        "mode": "storm", "log": log, "unknown": unknown, "producers": pres, "dropped": ec.dropped_lines(),
        "worker_exited": st.worker_exited, "writer_dropped": st.writer_dropped, "drop_ms": st.drop_ms as u64,
        "stderr": msg, "problems": problems, "wall_ms": t0.elapsed().as_millis() as u64,
    });
    drop(st);
    println!("{}", out);
    let _ = io::stdout().flush();
    std::process::exit(0);
}

/// Byte-level leg: an underlying writer that implements only `write` (std's default `write_all` on top) and answers
/// successive `write` calls from a script: accept at most n bytes (a short write), WouldBlock, Interrupted, another
/// error, or Ok(0).  One producer, every line accepted (capacity >= #lines), the worker free-running, then
/// drop(guard).  Output: every `write` call (buffer presented, response, bytes accepted), in order.
///
/// input : {"mode":"bytes","lossy":true,"lines":["hex",..],"script":[["a",3],["wb"],["int"],["err"],["zero"],..]}
struct BW {
    sh: Arc<Mutex<BSt>>,
}
struct BSt {
    script: Vec<(String, usize)>,
    k: usize,
    calls: Vec<Value>,
    flushes: usize,
    dropped: bool,
    exited: bool,
}
struct BExit(Arc<Mutex<BSt>>);
impl Drop for BExit {
    fn drop(&mut self) {
        if let Ok(mut st) = self.0.lock() {
            st.exited = true;
        }
    }
}
thread_local! { static BSENT: RefCell<Option<BExit>> = RefCell::new(None); }
impl BW {
    fn note(&self) {
        BSENT.with(|s| {
            if s.borrow().is_none() {
                *s.borrow_mut() = Some(BExit(self.sh.clone()));
            }
        });
    }
}
impl Write for BW {
    fn write(&mut self, buf: &[u8]) -> io::Result<usize> {
        self.note();
        let mut st = self.sh.lock().unwrap();
        let k = st.k;
        st.k += 1;
        let (op, n) = st.script.get(k).cloned().unwrap_or(("a".to_string(), usize::MAX));
        let (resp, res): (&str, io::Result<usize>) = match op.as_str() {
            "wb" => ("wb", Err(io::Error::new(io::ErrorKind::WouldBlock, "scripted"))),
            "int" => ("int", Err(io::Error::new(io::ErrorKind::Interrupted, "scripted"))),
            "err" => ("err", Err(io::Error::new(io::ErrorKind::Other, "scripted"))),
            "zero" => ("zero", Ok(0)),
            _ => ("a", Ok(n.max(1).min(buf.len()))),
        };
        let acc = match &res { Ok(n) => *n, Err(_) => 0 };
        let flushes = st.flushes;
        st.calls.push(json!([hex(buf), resp, acc, flushes]));
        res
    }
    fn flush(&mut self) -> io::Result<()> {
        self.note();
        self.sh.lock().unwrap().flushes += 1;
        Ok(())
    }
}
impl Drop for BW {
    fn drop(&mut self) {
        self.note();
        self.sh.lock().unwrap().dropped = true;
    }
}

fn bytes_mode(case: &Value, err_fd: i32) -> ! {
    let lossy = case["lossy"].as_bool().unwrap_or(true);
    let lines: Vec<Vec<u8>> = case["lines"].as_array().map(|a| a.iter().map(|x| unhex(x.as_str().unwrap_or(""))).collect()).unwrap_or_default();
    let script: Vec<(String, usize)> = case["script"].as_array().map(|a| {
        a.iter().map(|x| (x[0].as_str().unwrap_or("a").to_string(), x[1].as_u64().unwrap_or(u64::MAX) as usize)).collect()
    }).unwrap_or_default();
    let bound = Duration::from_millis(case["bound_ms"].as_u64().unwrap_or(20000));
    let sh = Arc::new(Mutex::new(BSt { script, k: 0, calls: Vec::new(), flushes: 0, dropped: false, exited: false }));
    let (mut nb, guard) = NonBlockingBuilder::default().buffered_lines_limit(lines.len().max(1)).lossy(lossy).thread_name(WORKER_NAME).finish(BW { sh: sh.clone() });
    let ec = nb.error_counter();
    let mut rets: Vec<u8> = Vec::new();
    for l in &lines {
        rets.push(match nb.write(l) { Ok(n) if n == l.len() => 1, Ok(_) => 8, Err(_) => 3 });
    }
    drop(nb);
    let t0 = Instant::now();
    let (tx, rx) = mpsc::channel();
    thread::spawn(move || {
        drop(guard);
        let _ = tx.send(());
    });
    let mut problems: Vec<String> = Vec::new();
    if rx.recv_timeout(bound).is_err() {
        problems.push(format!("drop(guard) did not return within {:?}", bound));
    }
    while !sh.lock().unwrap().exited && t0.elapsed() < bound {
        thread::sleep(Duration::from_millis(1));
    }
    let msg = drain_fd(err_fd);
    let st = sh.lock().unwrap();
    let out = json!({"mode": "bytes", "calls": st.calls, "flushes": st.flushes, "writer_dropped": st.dropped, "worker_exited": st.exited,
                     "rets": rets, "dropped": ec.dropped_lines(), "stderr": msg, "problems": problems});
    drop(st);
    println!("{}", out);
    let _ = io::stdout().flush();
    std::process::exit(0);
}

fn main() {
    let mut input = String::new();
    io::stdin().read_to_string(&mut input).expect("stdin");
    let case: Value = serde_json::from_str(&input).expect("case json");

    // capture fd 2 (the guard reports its timeouts with eprintln!)
    let mut fds = [0i32; 2];
    let err_fd = unsafe {
        libc::pipe(fds.as_mut_ptr());
        libc::dup2(fds[1], 2);
        libc::close(fds[1]);
        let fl = libc::fcntl(fds[0], libc::F_GETFL);
        libc::fcntl(fds[0], libc::F_SETFL, fl | libc::O_NONBLOCK);
        fds[0]
    };

    if case["mode"].as_str() == Some("storm") {
        storm(&case, err_fd);
    }
    if case["mode"].as_str() == Some("bytes") {
        bytes_mode(&case, err_fd);
    }
    // contained panics ("Gp") must not write to the captured fd 2
    std::panic::set_hook(Box::new(|_| {}));
    let cap = case["cap"].as_u64().unwrap_or(1) as usize;
    let lossy = case["lossy"].as_bool().unwrap_or(true);
    let progs: Vec<Vec<u64>> = case["progs"].as_array().map(|a| {
        a.iter().map(|p| p.as_array().map(|l| l.iter().filter_map(|x| x.as_u64()).collect()).unwrap_or_default()).collect()
    }).unwrap_or_default();
    let mut lines: HashMap<u64, Vec<u8>> = HashMap::new();
    if let Some(m) = case["lines"].as_object() {
        for (k, v) in m {
            lines.insert(k.parse().unwrap_or(0), unhex(v.as_str().unwrap_or("")));
        }
    }
    let faults: HashSet<usize> = case["faults"].as_array().map(|a| a.iter().filter_map(|x| x.as_u64()).map(|x| x as usize).collect()).unwrap_or_default();
    let twait = Duration::from_millis(case["twait_ms"].as_u64().unwrap_or(4000));
    let settle_bound = Duration::from_millis(case["settle_ms"].as_u64().unwrap_or(8000));
    let np = progs.len();

    let sh = Arc::new(Shared {
        st: Mutex::new(St {
            gated: true, parked: None, waking: false, log: Vec::new(), ncalls: 0, faults, epoch: 0,
            worker_exited: false, worker_tid: None, writer_dropped: false,
            ids: lines.iter().map(|(k, v)| (v.clone(), *k)).collect(),
            pstate: vec![0; np], ptid: vec![None; np], results: Vec::new(),
            dstate: 0, dtid: None, drop_ms: 0, foreign_calls: 0, throttle: 0,
        }),
        cv: Condvar::new(),
    });
    let mut problems: Vec<String> = Vec::new();

    // "defaults": the convenience constructor (NonBlockingBuilder::default(): the driver passes the cap / lossy the
    // translator read from the source, for the model's side)
    let defaults = case["defaults"].as_bool().unwrap_or(false);
    let worker_name: &str = if defaults { "tracing-appende" } else { WORKER_NAME }; // comm is cut at 15 bytes
    let (nb, guard) = if defaults {
        tracing_appender::non_blocking(SW { sh: sh.clone() })
    } else {
        NonBlockingBuilder::default()
            .buffered_lines_limit(cap)
            .lossy(lossy)
            .thread_name(WORKER_NAME)
            .finish(SW { sh: sh.clone() })
    };
    let ec = nb.error_counter();
    let mut guard: Option<WorkerGuard> = Some(guard);

    // the worker thread's id (before its first call of the writer it can only be found by name)
    {
        let t0 = Instant::now();
        loop {
            if let Some(t) = find_thread_by_name(worker_name) {
                let mut st = sh.st.lock().unwrap();
                if st.worker_tid.is_none() {
                    st.worker_tid = Some(t);
                }
                break;
            }
            if sh.st.lock().unwrap().worker_tid.is_some() {
                break;
            }
            if t0.elapsed() > Duration::from_secs(5) {
                problems.push("worker thread not found by name".into());
                break;
            }
            thread::sleep(Duration::from_micros(200));
        }
    }

    // producers: producer 0 owns the original handle, the others own clones
    let mut txs: Vec<mpsc::Sender<PCmd>> = Vec::new();
    let mut next: Vec<usize> = vec![0; np];
    {
        // odd producers get their handle the way the fmt layer does: MakeWriter::make_writer
        let mut handles: Vec<NonBlocking> = (1..np).map(|p| if p % 2 == 1 { MakeWriter::make_writer(&nb) } else { nb.clone() }).collect();
        handles.insert(0, nb);
        for (p, h) in handles.into_iter().enumerate() {
            let (tx, rx) = mpsc::channel();
            txs.push(tx);
            let (ec2, sh2) = (ec.clone(), sh.clone());
            thread::Builder::new().name(format!("prod{}", p)).spawn(move || producer(p, h, ec2, lossy, rx, sh2)).expect("spawn producer");
        }
    }
    if !settle(&sh, settle_bound) {
        problems.push("no quiescence at start".into());
    }

    let mut snaps: Vec<Value> = Vec::new();
    let mut gres: u64 = 0;
    let mut stderr_all = String::new();
    let empty = Vec::new();
    let cmds = case["cmds"].as_array().unwrap_or(&empty).clone();
    for (ci, cmd) in cmds.iter().enumerate() {
        let op = cmd[0].as_str().unwrap_or("");
        let arg = cmd[1].as_u64().unwrap_or(0) as usize;
        let mut status = 0u64;
        match op {
            "P" => {
                let ok = {
                    let st = sh.st.lock().unwrap();
                    arg < np && st.pstate[arg] == 0 && next[arg] < progs[arg].len()
                };
                if ok {
                    let id = progs[arg][next[arg]];
                    next[arg] += 1;
                    let buf = lines.get(&id).cloned().unwrap_or_else(|| format!("line{}\n", id).into_bytes());
                    {
                        let mut st = sh.st.lock().unwrap();
                        st.ids.entry(buf.clone()).or_insert(id);
                        st.pstate[arg] = 1;
                        st.epoch += 1;
                    }
                    let _ = txs[arg].send(PCmd::Write(id, buf, id % 2 == 0));
                    status = 1;
                }
            }
            "C" => {
                let ok = {
                    let st = sh.st.lock().unwrap();
                    arg < np && st.pstate[arg] == 0
                };
                if ok {
                    {
                        let mut st = sh.st.lock().unwrap();
                        st.pstate[arg] = 1;
                        st.epoch += 1;
                    }
                    let _ = txs[arg].send(PCmd::Close);
                    status = 1;
                }
            }
            "W" | "Wp" => {
                let mut st = sh.st.lock().unwrap();
                let busy = st.pstate.iter().any(|&x| x == 3 || x == 1) || st.dstate == 1 || st.dstate == 2;
                if st.gated && st.parked.is_some() && (op == "W" || busy) {
                    st.parked = None;
                    st.waking = true;
                    st.epoch += 1;
                    sh.cv.notify_all();
                    status = 1;
                }
            }
            // "G": drop(guard) on a thread of its own.  "Gp": the same guard dropped BY UNWINDING - it is a local of a
            // closure that panics under catch_unwind (the case the guard is documented for: a panic near program exit).
            "G" | "Gp" => {
                let by_panic = op == "Gp";
                let startable = { sh.st.lock().unwrap().dstate == 0 };
                if startable && guard.is_some() {
                    let g = guard.take().unwrap();
                    {
                        let mut st = sh.st.lock().unwrap();
                        st.dstate = 1;
                        st.epoch += 1;
                    }
                    let sh2 = sh.clone();
                    thread::Builder::new().name("dropper".into()).spawn(move || {
                        {
                            let mut st = sh2.st.lock().unwrap();
                            st.dtid = Some(mytid());
                            st.dstate = 2;
                            st.epoch += 1;
                        }
                        let t = Instant::now();
                        if by_panic {
                            let r = std::panic::catch_unwind(std::panic::AssertUnwindSafe(move || {
                                let _guard_local = g;
                                panic!("contained panic: the guard is dropped by unwinding");
                            }));
                            assert!(r.is_err());
                        } else {
                            drop(g);
                        }
                        let mut st = sh2.st.lock().unwrap();
                        st.drop_ms = t.elapsed().as_millis();
                        st.dstate = 3;
                        st.epoch += 1;
                    }).expect("spawn dropper");
                    status = 1;
                }
            }
            "T" => {
                let running = { let d = sh.st.lock().unwrap().dstate; d == 1 || d == 2 };
                if running {
                    let deadline = Instant::now() + twait;
                    loop {
                        if sh.st.lock().unwrap().dstate == 3 {
                            break;
                        }
                        if Instant::now() > deadline {
                            problems.push(format!("cmd {}: drop(guard) did not return within {:?}", ci, twait));
                            break;
                        }
                        thread::sleep(Duration::from_millis(1));
                    }
                    status = 1;
                }
            }
            "O" => {
                let mut st = sh.st.lock().unwrap();
                if st.gated {
                    st.gated = false;
                    if st.parked.is_some() {
                        st.parked = None;
                        st.waking = true;
                    }
                    st.epoch += 1;
                    sh.cv.notify_all();
                    status = 1;
                }
            }
            "H" => {
                let mut st = sh.st.lock().unwrap();
                if !st.gated {
                    st.gated = true;
                    st.epoch += 1;
                    status = 1;
                }
            }
            _ => problems.push(format!("cmd {}: unknown op {}", ci, op)),
        }
        let quiet = settle(&sh, settle_bound);
        if !quiet {
            problems.push(format!("cmd {} ({}): no quiescence within {:?}", ci, op, settle_bound));
        }
        // the guard drop has returned: which way?
        {
            let done = sh.st.lock().unwrap().dstate == 3;
            if done && gres == 0 {
                let msg = drain_fd(err_fd);
                gres = if msg.contains("Sending shutdown signal to logging worker timed out") {
                    3
                } else if msg.contains("Shutting down logging worker timed out") {
                    4
                } else if msg.contains("Logging worker thread panicked") {
                    9
                } else {
                    2
                };
                stderr_all.push_str(&msg);
            }
        }
        let st = sh.st.lock().unwrap();
        let pend = st.pstate.iter().position(|&x| x == 3 || x == 1).map(|p| p as u64 + 1).unwrap_or(0);
        if op == "P" && status == 1 && pend as usize == arg + 1 {
            status = 2;
        }
        let wk: u64 = if st.worker_exited { 6 } else { st.parked.map(|(k, _)| k as u64).unwrap_or(0) };
        let infl: u64 = match st.parked { Some((1, id)) => id + 1, _ => 0 };
        let grun = if st.dstate == 1 || st.dstate == 2 { 1 } else { 0 };
        snaps.push(json!([status, wk, infl, st.log.len(), ec.dropped_lines(), pend, st.results.len(), grun, gres, if quiet { 1 } else { 0 }]));
        drop(st);
        if !quiet {
            break;
        }
    }

    stderr_all.push_str(&drain_fd(err_fd));
    let st = sh.st.lock().unwrap();
    if st.foreign_calls > 0 {
        problems.push(format!("{} calls of the underlying writer from a thread other than the worker", st.foreign_calls));
    }
    let out = json!({
        "snaps": snaps,
        "log": st.log.iter().map(|e| json!([e.kind, e.id, if e.ok {1} else {0}, e.hex, if e.via_write {1} else {0}])).collect::<Vec<_>>(),
        "hist": st.results.iter().map(|(p, id, o)| json!([p, id, o])).collect::<Vec<_>>(),
        "dropped": ec.dropped_lines(),
        "worker_exited": st.worker_exited,
        "writer_dropped": st.writer_dropped,
        "gres": gres,
        "drop_ms": st.drop_ms as u64,
        "stderr": stderr_all,
        "problems": problems,
    });
    drop(st);
    println!("{}", out);
    let _ = io::stdout().flush();
    // threads may still be parked or blocked (cases that end early): leave without joining them
    std::process::exit(0);
}
