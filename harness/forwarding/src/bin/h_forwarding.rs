//! C09 harness: recording collectors / layers / filters driven through the REAL forwarding impls.
//!
//! stdin: one JSON case per line.
//!   {"id":.., "mode":"tree",   "root": <beh>, "tree": <coll>, "ops":[..]}          type-erased trees (Box<dyn ..> at every node)
//!   {"id":.., "mode":"static", "root":"rec"|"reg", "shape":"<name>", "behs":[<beh>..], "ops":[..]}   statically typed stacks
//!   {"id":.., "mode":"macro",  "shape":"<name>", "behs":[..]}   (fresh process per case) real tracing macros on a Registry
//!   {"id":.., "mode":"conc",   "root":.., "shape":"<name>", "behs":[..], "ops":[..], "bound_ms":N}   thread B runs the ops while thread A
//!                                                  is parked inside `Handle::modify` of the shape's reload wrapper (baselines: nobody is)
//! A static / tree case may carry "install": "from_static" (the stack is leaked and installed with `Dispatch::from_static` instead of `Dispatch::new`).
//! Any direct-mode case may carry "unwind_from": k — ops k.. then run inside a Drop impl while a panic propagates (caught by the harness).
//! stdout: {"id":.., "build":[e..], "reg":[e..], "ops":[{"log":[e..],"res":r}..], "panic":null|"msg"}   e = [leaf, method, cs, id, id2]
//!
//! Leaves answer queries from their <beh> = {"int":[0|1|2 per callsite], "en":[bool..], "ev":[bool..], "hint":null|0..5,
//! "close":mask, "change":bool}; everything they are told is appended to one shared log, in order.
use serde_json::{json, Value};
use std::panic::{catch_unwind, AssertUnwindSafe};
use std::sync::atomic::{AtomicU64, Ordering::SeqCst};
use std::sync::{Arc, Mutex};
use tracing_core::{
    callsite::Callsite,
    collect::{Collect, Interest},
    metadata::Kind,
    span, Dispatch, Event, Level, LevelFilter, Metadata,
};
use tracing_subscriber::{
    prelude::*,
    registry::Registry,
    reload,
    subscribe::{Context, Filter, Identity, Subscribe},
};

// ------------------------------------------------------------------------------------------------ log

#[derive(Clone, Debug)]
struct Entry {
    leaf: u64,
    m: &'static str,
    cs: u64,
    id: u64,
    id2: u64,
}
type Log = Arc<Mutex<Vec<Entry>>>;

fn push(log: &Log, leaf: u64, m: &'static str, cs: u64, id: u64, id2: u64) {
    log.lock().unwrap_or_else(|e| e.into_inner()).push(Entry { leaf, m, cs, id, id2 });
}

#[derive(Clone, Debug, Default)]
struct Beh {
    int: Vec<u64>,
    en: Vec<bool>,
    ev: Vec<bool>,
    hint: Option<u64>,
    close: u64,
    change: bool,
}

fn beh_of(v: &Value) -> Arc<Beh> {
    let bools = |k: &str| v[k].as_array().map(|a| a.iter().map(|x| x.as_bool().unwrap_or(true)).collect()).unwrap_or_default();
    Arc::new(Beh {
        int: v["int"].as_array().map(|a| a.iter().map(|x| x.as_u64().unwrap_or(2)).collect()).unwrap_or_default(),
        en: bools("en"),
        ev: bools("ev"),
        hint: v["hint"].as_u64(),
        close: v["close"].as_u64().unwrap_or(255),
        change: v["change"].as_bool().unwrap_or(false),
    })
}

impl Beh {
    fn interest(&self, cs: u64) -> Interest {
        match self.int.get(cs as usize).copied().unwrap_or(2) {
            0 => Interest::never(),
            1 => Interest::sometimes(),
            _ => Interest::always(),
        }
    }
    fn enabled(&self, cs: u64) -> bool {
        self.en.get(cs as usize).copied().unwrap_or(true)
    }
    fn event_enabled(&self, cs: u64) -> bool {
        self.ev.get(cs as usize).copied().unwrap_or(true)
    }
    fn hint(&self) -> Option<LevelFilter> {
        self.hint.map(filter_of_rank)
    }
}

fn filter_of_rank(r: u64) -> LevelFilter {
    match r {
        0 => LevelFilter::OFF,
        1 => LevelFilter::ERROR,
        2 => LevelFilter::WARN,
        3 => LevelFilter::INFO,
        4 => LevelFilter::DEBUG,
        _ => LevelFilter::TRACE,
    }
}
fn rank_of_filter(f: LevelFilter) -> u64 {
    [LevelFilter::OFF, LevelFilter::ERROR, LevelFilter::WARN, LevelFilter::INFO, LevelFilter::DEBUG, LevelFilter::TRACE]
        .iter()
        .position(|x| *x == f)
        .unwrap() as u64
}

/// Callsites are told apart by their target, "cs<N>".
fn cs_of(meta: &Metadata<'_>) -> u64 {
    meta.target().strip_prefix("cs").and_then(|s| s.parse().ok()).unwrap_or(99)
}

// ------------------------------------------------------------------------------------------------ static callsites (direct mode)

struct Cs(usize);
impl Callsite for Cs {
    fn set_interest(&self, _: Interest) {}
    fn metadata(&self) -> &Metadata<'_> {
        METAS[self.0]
    }
}
static C0: Cs = Cs(0);
static C1: Cs = Cs(1);
static C2: Cs = Cs(2);
static C3: Cs = Cs(3);
static M0: Metadata<'static> =
    tracing_core::metadata! { name: "cs0", target: "cs0", level: Level::INFO, fields: &[], callsite: &C0, kind: Kind::SPAN };
static M1: Metadata<'static> =
    tracing_core::metadata! { name: "cs1", target: "cs1", level: Level::DEBUG, fields: &[], callsite: &C1, kind: Kind::SPAN };
static M2: Metadata<'static> =
    tracing_core::metadata! { name: "cs2", target: "cs2", level: Level::INFO, fields: &[], callsite: &C2, kind: Kind::EVENT };
static M3: Metadata<'static> =
    tracing_core::metadata! { name: "cs3", target: "cs3", level: Level::TRACE, fields: &[], callsite: &C3, kind: Kind::EVENT };
static METAS: [&Metadata<'static>; 4] = [&M0, &M1, &M2, &M3];

// ------------------------------------------------------------------------------------------------ recording leaves

#[derive(Clone)]
struct RecLayer {
    id: u64,
    b: Arc<Beh>,
    log: Log,
}
/// Leaves log raw span ids; `drive` renames them to creation order afterwards (a Registry root hands out slab indices,
/// the model speaks in creation order; a recording root hands out 1, 2, 3, ... itself).
fn canon(ids: &[u64], raw: u64) -> u64 {
    match ids.iter().rposition(|x| *x == raw) {
        Some(i) => i as u64 + 1,
        None => raw,
    }
}
fn canon_entries(ids: &[u64], es: &mut [Entry]) {
    for e in es {
        if e.id != 0 {
            e.id = canon(ids, e.id);
        }
        if e.id2 != 0 {
            e.id2 = canon(ids, e.id2);
        }
    }
}

impl<C: Collect> Subscribe<C> for RecLayer {
    fn on_register_dispatch(&self, _: &Dispatch) {
        push(&self.log, self.id, "on_register_dispatch", 0, 0, 0)
    }
    fn on_subscribe(&mut self, _: &mut C) {
        push(&self.log, self.id, "on_subscribe", 0, 0, 0)
    }
    fn register_callsite(&self, m: &'static Metadata<'static>) -> Interest {
        push(&self.log, self.id, "register_callsite", cs_of(m), 0, 0);
        self.b.interest(cs_of(m))
    }
    fn enabled(&self, m: &Metadata<'_>, _: Context<'_, C>) -> bool {
        push(&self.log, self.id, "enabled", cs_of(m), 0, 0);
        self.b.enabled(cs_of(m))
    }
    fn on_new_span(&self, a: &span::Attributes<'_>, id: &span::Id, _: Context<'_, C>) {
        push(&self.log, self.id, "on_new_span", cs_of(a.metadata()), id.into_u64(), 0)
    }
    fn max_level_hint(&self) -> Option<LevelFilter> {
        push(&self.log, self.id, "max_level_hint", 0, 0, 0);
        self.b.hint()
    }
    fn on_record(&self, id: &span::Id, _: &span::Record<'_>, _: Context<'_, C>) {
        push(&self.log, self.id, "on_record", 0, id.into_u64(), 0)
    }
    fn on_follows_from(&self, id: &span::Id, f: &span::Id, _: Context<'_, C>) {
        push(&self.log, self.id, "on_follows_from", 0, id.into_u64(), f.into_u64())
    }
    fn event_enabled(&self, e: &Event<'_>, _: Context<'_, C>) -> bool {
        push(&self.log, self.id, "event_enabled", cs_of(e.metadata()), 0, 0);
        self.b.event_enabled(cs_of(e.metadata()))
    }
    fn on_event(&self, e: &Event<'_>, _: Context<'_, C>) {
        push(&self.log, self.id, "on_event", cs_of(e.metadata()), 0, 0)
    }
    fn on_enter(&self, id: &span::Id, _: Context<'_, C>) {
        push(&self.log, self.id, "on_enter", 0, id.into_u64(), 0)
    }
    fn on_exit(&self, id: &span::Id, _: Context<'_, C>) {
        push(&self.log, self.id, "on_exit", 0, id.into_u64(), 0)
    }
    fn on_close(&self, id: span::Id, _: Context<'_, C>) {
        push(&self.log, self.id, "on_close", 0, id.into_u64(), 0)
    }
    fn on_id_change(&self, old: &span::Id, new: &span::Id, _: Context<'_, C>) {
        push(&self.log, self.id, "on_id_change", 0, old.into_u64(), new.into_u64())
    }
}

#[derive(Clone)]
struct RecFilter {
    id: u64,
    b: Arc<Beh>,
    log: Log,
}
impl<C> Filter<C> for RecFilter {
    fn enabled(&self, m: &Metadata<'_>, _: &Context<'_, C>) -> bool {
        push(&self.log, self.id, "enabled", cs_of(m), 0, 0);
        self.b.enabled(cs_of(m))
    }
    fn callsite_enabled(&self, m: &'static Metadata<'static>) -> Interest {
        push(&self.log, self.id, "callsite_enabled", cs_of(m), 0, 0);
        self.b.interest(cs_of(m))
    }
    fn max_level_hint(&self) -> Option<LevelFilter> {
        push(&self.log, self.id, "max_level_hint", 0, 0, 0);
        self.b.hint()
    }
    fn event_enabled(&self, e: &Event<'_>, _: &Context<'_, C>) -> bool {
        push(&self.log, self.id, "event_enabled", cs_of(e.metadata()), 0, 0);
        self.b.event_enabled(cs_of(e.metadata()))
    }
    fn on_new_span(&self, a: &span::Attributes<'_>, id: &span::Id, _: Context<'_, C>) {
        push(&self.log, self.id, "on_new_span", cs_of(a.metadata()), id.into_u64(), 0)
    }
    fn on_record(&self, id: &span::Id, _: &span::Record<'_>, _: Context<'_, C>) {
        push(&self.log, self.id, "on_record", 0, id.into_u64(), 0)
    }
    fn on_enter(&self, id: &span::Id, _: Context<'_, C>) {
        push(&self.log, self.id, "on_enter", 0, id.into_u64(), 0)
    }
    fn on_exit(&self, id: &span::Id, _: Context<'_, C>) {
        push(&self.log, self.id, "on_exit", 0, id.into_u64(), 0)
    }
    fn on_close(&self, id: span::Id, _: Context<'_, C>) {
        push(&self.log, self.id, "on_close", 0, id.into_u64(), 0)
    }
}

/// A layer that hands every callback it gets to the corresponding method of a `Filter` (so that Filter wrappers can be
/// called method by method without going through `Filtered`'s own logic).
struct Probe<F>(F);
impl<C: Collect, F: Filter<C> + 'static> Subscribe<C> for Probe<F> {
    fn register_callsite(&self, m: &'static Metadata<'static>) -> Interest {
        self.0.callsite_enabled(m)
    }
    fn enabled(&self, m: &Metadata<'_>, cx: Context<'_, C>) -> bool {
        self.0.enabled(m, &cx)
    }
    fn max_level_hint(&self) -> Option<LevelFilter> {
        self.0.max_level_hint()
    }
    fn event_enabled(&self, e: &Event<'_>, cx: Context<'_, C>) -> bool {
        self.0.event_enabled(e, &cx)
    }
    fn on_new_span(&self, a: &span::Attributes<'_>, id: &span::Id, cx: Context<'_, C>) {
        self.0.on_new_span(a, id, cx)
    }
    fn on_record(&self, id: &span::Id, v: &span::Record<'_>, cx: Context<'_, C>) {
        self.0.on_record(id, v, cx)
    }
    fn on_enter(&self, id: &span::Id, cx: Context<'_, C>) {
        self.0.on_enter(id, cx)
    }
    fn on_exit(&self, id: &span::Id, cx: Context<'_, C>) {
        self.0.on_exit(id, cx)
    }
    fn on_close(&self, id: span::Id, cx: Context<'_, C>) {
        self.0.on_close(id, cx)
    }
}

struct RecCollector {
    id: u64,
    b: Arc<Beh>,
    log: Log,
    next: AtomicU64,
}
impl Collect for RecCollector {
    fn on_register_dispatch(&self, _: &Dispatch) {
        push(&self.log, self.id, "on_register_dispatch", 0, 0, 0)
    }
    fn register_callsite(&self, m: &'static Metadata<'static>) -> Interest {
        push(&self.log, self.id, "register_callsite", cs_of(m), 0, 0);
        self.b.interest(cs_of(m))
    }
    fn enabled(&self, m: &Metadata<'_>) -> bool {
        push(&self.log, self.id, "enabled", cs_of(m), 0, 0);
        self.b.enabled(cs_of(m))
    }
    fn max_level_hint(&self) -> Option<LevelFilter> {
        push(&self.log, self.id, "max_level_hint", 0, 0, 0);
        self.b.hint()
    }
    fn new_span(&self, a: &span::Attributes<'_>) -> span::Id {
        let k = self.next.fetch_add(1, SeqCst) + 1;
        push(&self.log, self.id, "new_span", cs_of(a.metadata()), k, 0);
        span::Id::from_u64(k)
    }
    fn record(&self, id: &span::Id, _: &span::Record<'_>) {
        push(&self.log, self.id, "record", 0, id.into_u64(), 0)
    }
    fn record_follows_from(&self, id: &span::Id, f: &span::Id) {
        push(&self.log, self.id, "record_follows_from", 0, id.into_u64(), f.into_u64())
    }
    fn event_enabled(&self, e: &Event<'_>) -> bool {
        push(&self.log, self.id, "event_enabled", cs_of(e.metadata()), 0, 0);
        self.b.event_enabled(cs_of(e.metadata()))
    }
    fn event(&self, e: &Event<'_>) {
        push(&self.log, self.id, "event", cs_of(e.metadata()), 0, 0)
    }
    fn enter(&self, id: &span::Id) {
        push(&self.log, self.id, "enter", 0, id.into_u64(), 0)
    }
    fn exit(&self, id: &span::Id) {
        push(&self.log, self.id, "exit", 0, id.into_u64(), 0)
    }
    fn clone_span(&self, id: &span::Id) -> span::Id {
        push(&self.log, self.id, "clone_span", 0, id.into_u64(), 0);
        if self.b.change {
            span::Id::from_u64(id.into_u64() + 100)
        } else {
            id.clone()
        }
    }
    #[allow(deprecated)]
    fn drop_span(&self, id: span::Id) {
        push(&self.log, self.id, "drop_span", 0, id.into_u64(), 0)
    }
    fn try_close(&self, id: span::Id) -> bool {
        push(&self.log, self.id, "try_close", 0, id.into_u64(), 0);
        (self.b.close >> (id.into_u64() % 8)) & 1 == 1
    }
    fn current_span(&self) -> span::Current {
        push(&self.log, self.id, "current_span", 0, 0, 0);
        span::Current::unknown()
    }
}

// ------------------------------------------------------------------------------------------------ driving a stack

thread_local! {
    /// `"unwind_from": k` of the current case: ops k.. are executed inside a Drop impl while a panic propagates (caught at the top).
    static UNWIND_FROM: std::cell::Cell<Option<usize>> = std::cell::Cell::new(None);
    /// `"install": "from_static"` of the current case: the stack is leaked and installed with `Dispatch::from_static`
    static FROM_STATIC: std::cell::Cell<bool> = std::cell::Cell::new(false);
    /// how many ops of the current case ran with `std::thread::panicking() == true`
    static UNWOUND: std::cell::Cell<usize> = std::cell::Cell::new(0);
}

struct RunOnDrop<F: FnMut()>(F);
impl<F: FnMut()> Drop for RunOnDrop<F> {
    fn drop(&mut self) {
        (self.0)()
    }
}

struct Env {
    log: Log,
}
impl Env {
    fn new() -> Self {
        Env { log: Arc::new(Mutex::new(Vec::new())) }
    }
    fn layer(&self, id: u64, b: &Arc<Beh>) -> RecLayer {
        RecLayer { id, b: b.clone(), log: self.log.clone() }
    }
    fn filter(&self, id: u64, b: &Arc<Beh>) -> RecFilter {
        RecFilter { id, b: b.clone(), log: self.log.clone() }
    }
    fn root(&self, b: &Arc<Beh>) -> RecCollector {
        RecCollector { id: 0, b: b.clone(), log: self.log.clone(), next: AtomicU64::new(0) }
    }
    fn take(&self) -> Vec<Entry> {
        std::mem::take(&mut *self.log.lock().unwrap_or_else(|e| e.into_inner()))
    }
}

fn ent(v: &[Entry]) -> Value {
    Value::Array(v.iter().map(|e| json!([e.leaf, e.m, e.cs, e.id, e.id2])).collect())
}

fn interest_code(i: &Interest) -> u64 {
    if i.is_never() {
        0
    } else if i.is_sometimes() {
        1
    } else {
        2
    }
}

/// `Dispatch::new(stack)`, then the ops through the Dispatch's public methods (max_level_hint: on the stack itself).
fn drive<C: Collect + Send + Sync + 'static>(env: &Env, stack: C, ops: &[Value]) -> Value {
    let build = env.take();
    let d = if FROM_STATIC.with(|c| c.get()) {
        let leaked: &'static C = Box::leak(Box::new(stack));
        Dispatch::from_static(leaked)
    } else {
        Dispatch::new(stack)
    };
    // Dispatch::new also rebuilds the (empty) callsite registry's interest, which asks every live dispatcher for its hint:
    // that traffic belongs to the callsite registry (C01/C04), not to this property.
    let reg: Vec<Entry> = env.take().into_iter().filter(|e| e.m != "max_level_hint" && e.m != "register_callsite").collect();
    let mut outs = Vec::new();
    tracing_core::dispatch::with_default(&d, || outs = run_ops::<C>(env, &d, ops, false));
    json!({"build": ent(&build), "reg": ent(&reg), "ops": outs})
}

/// The ops, one after the other, on the calling thread; the callback log is cut after each op.
/// `quiet_registry_traffic`: drop `max_level_hint` / `register_callsite` entries (in the concurrency leg another thread's
/// `Handle::modify` ends with `rebuild_interest_cache`, which asks every dispatcher for its hint at an arbitrary moment).
fn run_ops<C: Collect + Send + Sync + 'static>(env: &Env, d: &Dispatch, ops: &[Value], quiet_registry_traffic: bool) -> Vec<Value> {
    let outs: std::cell::RefCell<Vec<Value>> = std::cell::RefCell::new(Vec::new());
    let ids: std::cell::RefCell<Vec<u64>> = std::cell::RefCell::new(Vec::new());
    let real = |k: u64| -> span::Id {
        match ids.borrow().get((k as usize).wrapping_sub(1)) {
            Some(r) if k >= 1 => span::Id::from_u64(*r),
            _ => span::Id::from_u64(k.max(1)),
        }
    };
    let exec = |op: &Value| {
        if std::thread::panicking() {
            UNWOUND.with(|c| c.set(c.get() + 1));
        }
        let name = op[0].as_str().unwrap_or("");
        let n1 = op[1].as_u64().unwrap_or(0);
        let n2 = op[2].as_u64().unwrap_or(0);
        let meta: &'static Metadata<'static> = METAS[(n1 as usize) % 4];
        let vs = meta.fields().value_set(&[]);
        let res = match name {
            "rc" => json!(["int", interest_code(&d.register_callsite(meta))]),
            "en" => json!(["bool", d.enabled(meta)]),
            "hint" => match d.downcast_ref::<C>() {
                Some(c) => json!(["hint", c.max_level_hint().map(rank_of_filter)]),
                None => json!(["nodowncast"]),
            },
            "new" => {
                let id = d.new_span(&span::Attributes::new_root(meta, &vs));
                ids.borrow_mut().push(id.into_u64());
                json!(["id", canon(&ids.borrow(), id.into_u64())])
            }
            "rec" => {
                d.record(&real(n1), &span::Record::new(&vs));
                json!(["unit"])
            }
            "ff" => {
                d.record_follows_from(&real(n1), &real(n2));
                json!(["unit"])
            }
            "ev" => {
                d.event(&Event::new(meta, &vs));
                json!(["unit"])
            }
            "enter" => {
                d.enter(&real(n1));
                json!(["unit"])
            }
            "exit" => {
                d.exit(&real(n1));
                json!(["unit"])
            }
            "clone" => {
                let id = d.clone_span(&real(n1));
                json!(["id", canon(&ids.borrow(), id.into_u64())])
            }
            "close" => json!(["bool", d.try_close(real(n1))]),
            "drop" => {
                #[allow(deprecated)]
                d.drop_span(real(n1));
                json!(["unit"])
            }
            "cur" => {
                let _ = d.current_span();
                json!(["unit"])
            }
            _ => json!(["badop"]),
        };
        let mut es = env.take();
        if quiet_registry_traffic {
            es.retain(|e| e.m != "max_level_hint" && e.m != "register_callsite");
        }
        canon_entries(&ids.borrow(), &mut es);
        outs.borrow_mut().push(json!({"log": ent(&es), "res": res}));
    };
    let k = UNWIND_FROM.with(|c| c.get()).unwrap_or(ops.len()).min(ops.len());
    for op in &ops[..k] {
        exec(op);
    }
    if k < ops.len() {
        // the rest of the workload runs in a Drop impl while a panic propagates; the panic is caught right here
        let _ = catch_unwind(AssertUnwindSafe(|| {
            let _guard = RunOnDrop(|| {
                for op in &ops[k..] {
                    exec(op);
                }
            });
            std::panic::resume_unwind(Box::new("unwinding segment"));
        }));
    }
    outs.into_inner()
}

// ------------------------------------------------------------------------------------------------ the reload wrapper while another thread modifies

/// What thread A does: call `Handle::modify` (or `reload`) with a closure that reports "inside" and then parks until released.
type Hold = Box<dyn FnOnce(std::sync::mpsc::Sender<()>, std::sync::mpsc::Receiver<()>) + Send>;

/// Thread A enters `handle.modify(|_| { signal; wait for release })`; only then thread B starts the workload on the same
/// Dispatch.  The main thread waits (bounded) for B to finish: with the blocking read lock B cannot finish while A is
/// inside, so the wait always times out and A is then released; whatever happens, B is joined and its complete per-op
/// callback log is returned.  No outcome is decided by the wait: the verdict is the comparison of B's log with the log of
/// the same workload on the same stack without the reload wrapper (`hold = None`).
fn drive_conc<C: Collect + Send + Sync + 'static>(env: &Env, stack: C, hold: Option<Hold>, ops: &[Value], bound_ms: u64) -> Value {
    use std::sync::mpsc::channel;
    let build = env.take();
    let d = Dispatch::new(stack);
    let _ = env.take();
    let (entered_tx, entered_rx) = channel::<()>();
    let (release_tx, release_rx) = channel::<()>();
    let held = hold.is_some();
    let a = hold.map(|h| std::thread::spawn(move || h(entered_tx, release_rx)));
    if held {
        // A is inside the closure (write lock held) once this returns
        let _ = entered_rx.recv_timeout(std::time::Duration::from_secs(20));
    }
    let (done_tx, done_rx) = channel::<()>();
    let mut outs = Vec::new();
    let mut done_while_held = false;
    let mut logged_while_held = 0usize;
    std::thread::scope(|sc| {
        let d2 = d.clone();
        let b = sc.spawn(move || {
            let r = tracing_core::dispatch::with_default(&d2, || run_ops::<C>(env, &d2, ops, true));
            let _ = done_tx.send(());
            r
        });
        if held {
            done_while_held = done_rx.recv_timeout(std::time::Duration::from_millis(bound_ms)).is_ok();
            logged_while_held = env.log.lock().unwrap_or_else(|e| e.into_inner()).len();
            let _ = release_tx.send(());
        }
        outs = b.join().unwrap_or_default();
    });
    if let Some(a) = a {
        let _ = a.join();
    }
    let _ = env.take();
    json!({"build": ent(&build), "reg": [], "ops": outs, "held": held, "b_finished_while_held": done_while_held,
           "entries_pending_while_held": logged_while_held})
}

fn hold_modify<T: Send + Sync + 'static>(h: reload::Handle<T>) -> Hold {
    Box::new(move |entered, release| {
        let _ = h.modify(|_| {
            let _ = entered.send(());
            let _ = release.recv_timeout(std::time::Duration::from_secs(30));
        });
    })
}

fn conc_any<R, MK>(name: &str, env: &Env, ops: &[Value], mk: MK, behs: &[Arc<Beh>], bound_ms: u64) -> Option<Value>
where
    R: Collect + Send + Sync + 'static,
    MK: Fn() -> R,
{
    let l = |i: u64| env.layer(i, &behs[(i as usize).min(behs.len() - 1)]);
    let f = |i: u64| env.filter(i, &behs[(i as usize).min(behs.len() - 1)]);
    Some(match name {
        // baselines: the same stacks without the reload wrapper, nobody modifying
        "p1" => drive_conc(env, mk().with(l(1)), None, ops, bound_ms),
        "p3" => drive_conc(env, mk().with(l(1)).with(l(2)).with(l(3)), None, ops, bound_ms),
        "fp" => drive_conc(env, mk().with(Probe(f(1))), None, ops, bound_ms),
        "fp3" => drive_conc(env, mk().with(l(2)).with(Probe(f(1))).with(l(3)), None, ops, bound_ms),
        // the wrapped layer alone / between two neighbours / nested in other wrappers; a reloadable filter
        "reload" => {
            let (s, h) = reload::Subscriber::new(l(1));
            drive_conc(env, mk().with(s), Some(hold_modify(h)), ops, bound_ms)
        }
        "mid_reload" => {
            let (s, h) = reload::Subscriber::new(l(2));
            drive_conc(env, mk().with(l(1)).with(s).with(l(3)), Some(hold_modify(h)), ops, bound_ms)
        }
        "mid_box_reload" => {
            let (s, h) = reload::Subscriber::new(l(2));
            drive_conc(env, mk().with(l(1)).with(Box::new(Some(s))).with(l(3)), Some(hold_modify(h)), ops, bound_ms)
        }
        "mid_reload_box" => {
            let (s, h) = reload::Subscriber::new(Box::new(l(2)));
            drive_conc(env, mk().with(l(1)).with(s).with(l(3)), Some(hold_modify(h)), ops, bound_ms)
        }
        // the whole stack behind a collector wrapper (Box<C> / Arc<C> have no lock of their own: they must simply forward to the waiting stack)
        "cbox_mid_reload" => {
            let (s, h) = reload::Subscriber::new(l(2));
            drive_conc(env, Box::new(mk().with(l(1)).with(s).with(l(3))), Some(hold_modify(h)), ops, bound_ms)
        }
        "carc_mid_reload" => {
            let (s, h) = reload::Subscriber::new(l(2));
            drive_conc(env, Arc::new(mk().with(l(1)).with(s).with(l(3))), Some(hold_modify(h)), ops, bound_ms)
        }
        "cbox_under_reload" => {
            let (s, h) = reload::Subscriber::new(l(2));
            drive_conc(env, Box::new(mk().with(l(1))).with(s).with(l(3)), Some(hold_modify(h)), ops, bound_ms)
        }
        "fp_reload" => {
            let (s, h) = reload::Subscriber::new(f(1));
            drive_conc(env, mk().with(Probe(s)), Some(hold_modify(h)), ops, bound_ms)
        }
        "fp3_reload" => {
            let (s, h) = reload::Subscriber::new(f(1));
            drive_conc(env, mk().with(l(2)).with(Probe(s)).with(l(3)), Some(hold_modify(h)), ops, bound_ms)
        }
        _ => return None,
    })
}

// ------------------------------------------------------------------------------------------------ type-erased trees

type BC = Box<dyn Collect + Send + Sync>;
type BS = Box<dyn Subscribe<BC> + Send + Sync>;
type BF = Box<dyn Filter<BC> + Send + Sync>;

fn build_filt(env: &Env, t: &Value) -> BF {
    match t["k"].as_str().unwrap_or("") {
        "leaf" => Box::new(env.filter(t["id"].as_u64().unwrap(), &beh_of(&t["beh"]))),
        "none" => Box::new(None::<BF>),
        "wrap" => {
            let x = build_filt(env, &t["x"]);
            match t["w"].as_str().unwrap_or("") {
                "boxdyn" => Box::new(x),
                "arcdyn" => {
                    let a: Arc<dyn Filter<BC> + Send + Sync> = Arc::new(x);
                    Box::new(a)
                }
                "some" => Box::new(Some(x)),
                "reload" => Box::new(reload::Subscriber::new(x).0),
                w => panic!("unknown filter wrapper {}", w),
            }
        }
        k => panic!("unknown filter node {}", k),
    }
}

fn build_sub(env: &Env, t: &Value) -> BS {
    match t["k"].as_str().unwrap_or("") {
        "leaf" => Box::new(env.layer(t["id"].as_u64().unwrap(), &beh_of(&t["beh"]))),
        "none" => Box::new(None::<BS>),
        "identity" => Box::new(Identity::new()),
        "vec" => Box::new(t["xs"].as_array().unwrap().iter().map(|x| build_sub(env, x)).collect::<Vec<BS>>()),
        "pair" => {
            let i = build_sub(env, &t["i"]);
            let o = build_sub(env, &t["o"]);
            Box::new(i.and_then(o))
        }
        "probe" => Box::new(Probe(build_filt(env, &t["f"]))),
        "wrap" => {
            let x = build_sub(env, &t["x"]);
            match t["w"].as_str().unwrap_or("") {
                "box" => Box::new(Box::new(x)),
                "boxdyn" => Box::new(x),
                "some" => Box::new(Some(x)),
                "reload" => Box::new(reload::Subscriber::new(x).0),
                w => panic!("unknown subscriber wrapper {}", w),
            }
        }
        k => panic!("unknown subscriber node {}", k),
    }
}

fn build_coll(env: &Env, t: &Value) -> BC {
    match t["k"].as_str().unwrap_or("") {
        "leaf" => Box::new(env.root(&beh_of(&t["beh"]))),
        "layered" => {
            let c = build_coll(env, &t["c"]);
            let s = build_sub(env, &t["s"]);
            Box::new(c.with(s))
        }
        "wrap" => {
            let c = build_coll(env, &t["c"]);
            match t["w"].as_str().unwrap_or("") {
                "box" => Box::new(c),
                "arc" => Box::new(Arc::new(c)),
                w => panic!("unknown collector wrapper {}", w),
            }
        }
        k => panic!("unknown collector node {}", k),
    }
}

// ------------------------------------------------------------------------------------------------ statically typed shapes

macro_rules! shapes {
    ($name:expr, $env:expr, $ops:expr, $root:expr, $l:ident, $f:ident; $( $n:literal => $e:expr ),* $(,)?) => {
        match $name {
            $( $n => Some(drive($env, $e, $ops)), )*
            _ => None,
        }
    };
}

fn static_any<R, MK>(name: &str, env: &Env, ops: &[Value], mk: MK, behs: &[Arc<Beh>]) -> Option<Value>
where
    R: Collect + Send + Sync + 'static,
    MK: Fn() -> R,
{
    let l = |i: u64| env.layer(i, &behs[(i as usize).min(behs.len() - 1)]);
    let f = |i: u64| env.filter(i, &behs[(i as usize).min(behs.len() - 1)]);
    type DS<R> = Box<dyn Subscribe<R> + Send + Sync>;
    type DF<R> = Box<dyn Filter<R> + Send + Sync>;
    type AF<R> = Arc<dyn Filter<R> + Send + Sync>;
    shapes! { name, env, ops, mk, l, f;
        "p0" => mk(),
        "p1" => mk().with(l(1)),
        "p2" => mk().with(l(1)).with(l(2)),
        "p3" => mk().with(l(1)).with(l(2)).with(l(3)),
        "p4" => mk().with(l(1)).with(l(2)).with(l(3)).with(l(4)),
        "p5" => mk().with(l(1)).with(l(2)).with(l(3)).with(l(4)).with(l(5)),
        // one wrapper around the only layer
        "box" => mk().with(Box::new(l(1))),
        "boxdyn" => mk().with(Box::new(l(1)) as DS<R>),
        "some" => mk().with(Some(l(1))),
        "vec1" => mk().with(vec![l(1)]),
        "reload" => mk().with(reload::Subscriber::new(l(1)).0),
        "id_outer" => mk().with(l(1).and_then(Identity::new())),
        "id_inner" => mk().with(Identity::new().and_then(l(1))),
        // two wrappers
        "box_some" => mk().with(Box::new(Some(l(1)))),
        "some_box" => mk().with(Some(Box::new(l(1)))),
        "vec_some" => mk().with(vec![Some(l(1))]),
        "some_vec" => mk().with(Some(vec![l(1)])),
        "reload_box" => mk().with(reload::Subscriber::new(Box::new(l(1))).0),
        "some_reload" => mk().with(Some(reload::Subscriber::new(l(1)).0)),
        "box_vec" => mk().with(Box::new(vec![l(1)])),
        "vec_reload" => mk().with(vec![reload::Subscriber::new(l(1)).0]),
        "boxdyn_boxdyn" => mk().with(Box::new(Box::new(l(1)) as DS<R>) as DS<R>),
        // the wrapped layer between two plain ones
        "mid_box" => mk().with(l(1)).with(Box::new(l(2))).with(l(3)),
        "mid_boxdyn" => mk().with(l(1)).with(Box::new(l(2)) as DS<Layered1<R>>).with(l(3)),
        "mid_some" => mk().with(l(1)).with(Some(l(2))).with(l(3)),
        "mid_vec1" => mk().with(l(1)).with(vec![l(2)]).with(l(3)),
        "mid_reload" => mk().with(l(1)).with(reload::Subscriber::new(l(2)).0).with(l(3)),
        "mid_id_outer" => mk().with(l(1)).with(l(2).and_then(Identity::new())).with(l(3)),
        "mid_id_inner" => mk().with(l(1)).with(Identity::new().and_then(l(2))).with(l(3)),
        // None / empty Vec
        "none_only" => mk().with(None::<RecLayer>),
        "vec0_only" => mk().with(Vec::<RecLayer>::new()),
        "none_top" => mk().with(l(1)).with(l(2)).with(None::<RecLayer>),
        "none_mid" => mk().with(l(1)).with(None::<RecLayer>).with(l(2)),
        "none_bot" => mk().with(None::<RecLayer>).with(l(1)).with(l(2)),
        "vec0_top" => mk().with(l(1)).with(l(2)).with(Vec::<RecLayer>::new()),
        "vec0_mid" => mk().with(l(1)).with(Vec::<RecLayer>::new()).with(l(2)),
        "vec0_bot" => mk().with(Vec::<RecLayer>::new()).with(l(1)).with(l(2)),
        "vec0_top1" => mk().with(l(1)).with(Vec::<RecLayer>::new()),
        "none_top1" => mk().with(l(1)).with(None::<RecLayer>),
        "none_bot1" => mk().with(None::<RecLayer>).with(l(1)),
        "vec0_bot1" => mk().with(Vec::<RecLayer>::new()).with(l(1)),
        "box_none" => mk().with(l(1)).with(Box::new(None::<RecLayer>)),
        "reload_none" => mk().with(l(1)).with(reload::Subscriber::new(None::<RecLayer>).0),
        "vec_none" => mk().with(l(1)).with(vec![None::<RecLayer>]),
        "pair_none_o" => mk().with(l(1).and_then(None::<RecLayer>)),
        "pair_none_i" => mk().with(Subscribe::and_then(None::<RecLayer>, l(1))),
        "box_vec0" => mk().with(l(1)).with(Box::new(Vec::<RecLayer>::new())),
        "pair_none_mid" => mk().with(l(1)).with(l(2).and_then(None::<RecLayer>)).with(l(3)),
        "pair_vec0_mid" => mk().with(l(1)).with(l(2).and_then(Vec::<RecLayer>::new())).with(l(3)),
        // trees
        "vec3" => mk().with(vec![l(1), l(2), l(3)]),
        "pair2" => mk().with(l(1).and_then(l(2))),
        "pair3" => mk().with(l(1).and_then(l(2)).and_then(l(3))),
        "pair_r" => mk().with(l(1).and_then(l(2).and_then(l(3)))),
        "vec2_top" => mk().with(l(1)).with(vec![l(2), l(3)]),
        // collector wrappers
        "cbox0" => Box::new(mk()),
        "carc0" => Arc::new(mk()),
        "cbox" => Box::new(mk().with(l(1))),
        "carc" => Arc::new(mk().with(l(1))),
        "cboxdyn" => Box::new(mk().with(l(1))) as Box<dyn Collect + Send + Sync>,
        "carcdyn" => Arc::new(mk().with(l(1))) as Arc<dyn Collect + Send + Sync>,
        "cbox_mid" => Box::new(mk().with(l(1))).with(l(2)),
        "carc_mid" => Arc::new(mk().with(l(1))).with(l(2)),
        "cbox_carc" => Box::new(Arc::new(mk().with(l(1)))),
        "carc_cbox" => Arc::new(Box::new(mk().with(l(1)))),
        // Filter wrappers, called method by method through Probe
        "fp" => mk().with(Probe(f(1))),
        "fp_boxdyn" => mk().with(Probe(Box::new(f(1)) as DF<R>)),
        "fp_arcdyn" => mk().with(Probe(Arc::new(f(1)) as AF<R>)),
        "fp_some" => mk().with(Probe(Some(f(1)))),
        "fp_reload" => mk().with(Probe(reload::Subscriber::new(f(1)).0)),
        "fp_some_boxdyn" => mk().with(Probe(Some(Box::new(f(1)) as DF<R>))),
        "fp_reload_arcdyn" => mk().with(Probe(reload::Subscriber::new(Arc::new(f(1)) as AF<R>).0)),
        "fp_boxdyn_some" => mk().with(Probe(Box::new(Some(f(1))) as DF<R>)),
        "fp_none" => mk().with(l(1)).with(Probe(None::<RecFilter>)),
    }
}
type Layered1<R> = tracing_subscriber::subscribe::Layered<RecLayer, R>;

/// Per-layer filters in their real habitat (`Filtered` on a `Registry`): differential only.
fn static_filtered(name: &str, env: &Env, ops: &[Value], behs: &[Arc<Beh>]) -> Option<Value> {
    let l = |i: u64| env.layer(i, &behs[(i as usize).min(behs.len() - 1)]);
    let f = |i: u64| env.filter(i, &behs[(i as usize).min(behs.len() - 1)]);
    type R = Registry;
    type DF = Box<dyn Filter<R> + Send + Sync>;
    type AF = Arc<dyn Filter<R> + Send + Sync>;
    let mk = Registry::default;
    shapes! { name, env, ops, mk, l, f;
        "flt" => mk().with(l(1).with_filter(f(2))),
        "flt_boxdyn" => mk().with(l(1).with_filter(Box::new(f(2)) as DF)),
        "flt_arcdyn" => mk().with(l(1).with_filter(Arc::new(f(2)) as AF)),
        "flt_some" => mk().with(l(1).with_filter(Some(f(2)))),
        "flt_reload" => mk().with(l(1).with_filter(reload::Subscriber::new(f(2)).0)),
        "flt_box_layer" => mk().with(Box::new(l(1).with_filter(f(2)))),
        "flt_some_layer" => mk().with(Some(l(1).with_filter(f(2)))),
        "flt_vec_layer" => mk().with(vec![l(1).with_filter(f(2))]),
        "flt_inner_box" => mk().with(Box::new(l(1)).with_filter(f(2))),
        "flt_inner_some" => mk().with(Some(l(1)).with_filter(f(2))),
        "flt_inner_reload" => mk().with(reload::Subscriber::new(l(1)).0.with_filter(f(2))),
        "flt2" => mk().with(l(1).with_filter(f(2))).with(l(3)),
        "flt2_boxdyn" => mk().with(l(1).with_filter(Box::new(f(2)) as DF)).with(l(3)),
        "flt2_reload" => mk().with(l(1).with_filter(reload::Subscriber::new(f(2)).0)).with(l(3)),
    }
}

// ------------------------------------------------------------------------------------------------ macro mode

/// The same shapes under a Registry, driven by the real macros and span handles (fresh process: the callsite
/// registry and the interest caches are process-global).
fn macro_workload() {
    use tracing::{debug_span, event, info_span};
    let s1 = info_span!(target: "cs0", "s1", x = tracing::field::Empty);
    s1.record("x", 1);
    let s2 = debug_span!(target: "cs1", "s2");
    s2.follows_from(&s1);
    {
        let _g = s1.enter();
        event!(target: "cs2", Level::INFO, "in s1");
        {
            let _g2 = s2.enter();
            event!(target: "cs3", Level::TRACE, "in s2");
        }
    }
    let s1b = s1.clone();
    drop(s1);
    event!(target: "cs2", Level::INFO, "again");
    drop(s1b);
    drop(s2);
    for _ in 0..2 {
        let s = info_span!(target: "cs0", "s1");
        s.in_scope(|| event!(target: "cs2", Level::INFO, "loop"));
    }
}

/// "prehit": true in a macro case — a callsite (target "cs4", ERROR) is hit for the FIRST time after `Dispatch::new(stack)` but
/// OUTSIDE any default (start-up logging before the collector is installed): the stack is a registered dispatcher, so
/// every layer must be asked `register_callsite` exactly once then (and sees no event); hit again inside `with_default`,
/// the event reaches every layer exactly once with no second registration.
static PREHIT: std::sync::atomic::AtomicBool = std::sync::atomic::AtomicBool::new(false);
fn prehit_site() {
    tracing::event!(target: "cs4", Level::ERROR, "prehit");
}

fn run_macro<C: Collect + Send + Sync + 'static>(env: &Env, stack: C) -> Value {
    let build = env.take();
    let hint = stack.max_level_hint().map(rank_of_filter);
    let _ = env.take();
    let d = Dispatch::new(stack);
    let reg = env.take();
    let mut pre = json!(null);
    if PREHIT.load(SeqCst) {
        prehit_site();
        let outside = env.take();
        tracing_core::dispatch::with_default(&d, prehit_site);
        let inside = env.take();
        pre = json!({"outside": ent(&outside), "inside": ent(&inside)});
    }
    tracing_core::dispatch::with_default(&d, macro_workload);
    let log = env.take();
    // real Registry ids -> creation order.  A run of consecutive on_new_span entries with one raw id is one creation
    // (the Registry's slab reuses the ids of closed spans).
    let mut ids: Vec<u64> = Vec::new();
    let mut log = log;
    let mut prev: Option<(&'static str, u64)> = None;
    for e in log.iter_mut() {
        if e.m == "on_new_span" && prev != Some(("on_new_span", e.id)) {
            ids.push(e.id);
        }
        prev = Some((e.m, e.id));
        let mut one = [e.clone()];
        canon_entries(&ids, &mut one);
        *e = one[0].clone();
    }
    json!({"build": ent(&build), "reg": ent(&reg), "ops": [{"log": ent(&log), "res": ["hint", hint]}], "prehit": pre})
}

macro_rules! mshapes {
    ($name:expr, $env:expr; $( $n:literal => $e:expr ),* $(,)?) => {
        match $name { $( $n => Some(run_macro($env, $e)), )* _ => None }
    };
}

fn macro_case(name: &str, env: &Env, behs: &[Arc<Beh>]) -> Option<Value> {
    let l = |i: u64| env.layer(i, &behs[(i as usize).min(behs.len() - 1)]);
    let mk = Registry::default;
    type DS<R> = Box<dyn Subscribe<R> + Send + Sync>;
    mshapes! { name, env;
        "p1" => mk().with(l(1)),
        "p2" => mk().with(l(1)).with(l(2)),
        "p3" => mk().with(l(1)).with(l(2)).with(l(3)),
        "box" => mk().with(Box::new(l(1))),
        "boxdyn" => mk().with(Box::new(l(1)) as DS<Registry>),
        "some" => mk().with(Some(l(1))),
        "vec1" => mk().with(vec![l(1)]),
        "reload" => mk().with(reload::Subscriber::new(l(1)).0),
        "id_outer" => mk().with(l(1).and_then(Identity::new())),
        "id_inner" => mk().with(Identity::new().and_then(l(1))),
        "mid_box" => mk().with(l(1)).with(Box::new(l(2))).with(l(3)),
        "mid_some" => mk().with(l(1)).with(Some(l(2))).with(l(3)),
        "mid_vec1" => mk().with(l(1)).with(vec![l(2)]).with(l(3)),
        "mid_reload" => mk().with(l(1)).with(reload::Subscriber::new(l(2)).0).with(l(3)),
        "none_top" => mk().with(l(1)).with(l(2)).with(None::<RecLayer>),
        "none_mid" => mk().with(l(1)).with(None::<RecLayer>).with(l(2)),
        "none_bot" => mk().with(None::<RecLayer>).with(l(1)).with(l(2)),
        "vec0_top" => mk().with(l(1)).with(l(2)).with(Vec::<RecLayer>::new()),
        "vec0_mid" => mk().with(l(1)).with(Vec::<RecLayer>::new()).with(l(2)),
        "vec0_bot" => mk().with(Vec::<RecLayer>::new()).with(l(1)).with(l(2)),
        "none_top1" => mk().with(l(1)).with(None::<RecLayer>),
        "vec0_top1" => mk().with(l(1)).with(Vec::<RecLayer>::new()),
        "vec0_dyn_top1" => mk().with(l(1)).with(Vec::<DS<Layered1<Registry>>>::new()),
        "cbox" => Box::new(mk().with(l(1))),
        "carc" => Arc::new(mk().with(l(1))),
        "cboxdyn" => Box::new(mk().with(l(1))) as Box<dyn Collect + Send + Sync>,
        "pair_none_o" => mk().with(l(1).and_then(None::<RecLayer>)),
        "pair_none_i" => mk().with(Subscribe::and_then(None::<RecLayer>, l(1))),
        "box_none" => mk().with(l(1)).with(Box::new(None::<RecLayer>)),
        "reload_none" => mk().with(l(1)).with(reload::Subscriber::new(None::<RecLayer>).0),
        "pair_none_mid" => mk().with(l(1)).with(l(2).and_then(None::<RecLayer>)).with(l(3)),
        "pair_vec0_mid" => mk().with(l(1)).with(l(2).and_then(Vec::<RecLayer>::new())).with(l(3)),
        "pair2" => mk().with(l(1).and_then(l(2))),
    }
}

// ------------------------------------------------------------------------------------------------ main

fn run_line(line: &str) -> Value {
    let case: Value = match serde_json::from_str(line) {
        Ok(v) => v,
        Err(e) => return json!({"id": null, "panic": format!("bad json: {}", e)}),
    };
    let id = case["id"].clone();
    let empty = Vec::new();
    let ops = case["ops"].as_array().unwrap_or(&empty).clone();
    let behs: Vec<Arc<Beh>> = case["behs"].as_array().unwrap_or(&empty).iter().map(beh_of).collect();
    UNWIND_FROM.with(|c| c.set(case["unwind_from"].as_u64().map(|k| k as usize)));
    UNWOUND.with(|c| c.set(0));
    FROM_STATIC.with(|c| c.set(case["install"].as_str() == Some("from_static")));
    let r = catch_unwind(AssertUnwindSafe(|| {
        let env = Env::new();
        match case["mode"].as_str().unwrap_or("") {
            "tree" => Some(drive(&env, build_coll(&env, &case["tree"]), &ops)),
            "static" => {
                let name = case["shape"].as_str().unwrap_or("");
                if name.starts_with("flt") {
                    static_filtered(name, &env, &ops, &behs)
                } else if case["root"].as_str() == Some("reg") {
                    static_any(name, &env, &ops, Registry::default, &behs)
                } else {
                    let b0 = behs[0].clone();
                    let e2 = &env;
                    static_any(name, &env, &ops, move || e2.root(&b0), &behs)
                }
            }
            "macro" => {
                PREHIT.store(case["prehit"].as_bool().unwrap_or(false), SeqCst);
                macro_case(case["shape"].as_str().unwrap_or(""), &env, &behs)
            }
            "conc" => {
                let name = case["shape"].as_str().unwrap_or("");
                let bound = case["bound_ms"].as_u64().unwrap_or(300);
                if case["root"].as_str() == Some("reg") {
                    conc_any(name, &env, &ops, Registry::default, &behs, bound)
                } else {
                    let b0 = behs[0].clone();
                    let e2 = &env;
                    conc_any(name, &env, &ops, move || e2.root(&b0), &behs, bound)
                }
            }
            _ => None,
        }
    }));
    match r {
        Ok(Some(mut v)) => {
            v["id"] = id;
            v["unwound"] = json!(UNWOUND.with(|c| c.get()));
            v["panic"] = Value::Null;
            v
        }
        Ok(None) => json!({"id": id, "panic": "unknown mode or shape"}),
        Err(p) => {
            let msg = p.downcast_ref::<String>().cloned().or_else(|| p.downcast_ref::<&str>().map(|s| s.to_string())).unwrap_or_default();
            json!({"id": id, "panic": format!("panic: {}", msg)})
        }
    }
}

fn main() {
    std::panic::set_hook(Box::new(|_| {}));
    let stdin = std::io::stdin();
    let mut line = String::new();
    loop {
        line.clear();
        match stdin.read_line(&mut line) {
            Ok(0) | Err(_) => break,
            Ok(_) => {
                let l = line.trim();
                if l.is_empty() {
                    continue;
                }
                // one fresh thread per case: `Filtered`'s per-thread filter state (FILTERING) must not leak from one case
                // into the next (an `enabled` probe on a Filtered stack leaves bits behind: F3, C07's business)
                let owned = l.to_string();
                let out = std::thread::Builder::new()
                    .stack_size(16 << 20)
                    .spawn(move || run_line(&owned))
                    .ok()
                    .and_then(|h| h.join().ok())
                    .unwrap_or_else(|| json!({"id": null, "panic": "case thread died"}));
                println!("{}", out);
            }
        }
    }
}
