//! C14 harness: drives the REAL JSON formatter (tracing-subscriber `fmt().json()` over the registry, fields
//! serialised by tracing-serde / JsonFields) on generated cases and prints, for every event of every case,
//! the exact bytes handed to the writer (one entry per `write` call), hex encoded.
//!
//! Input: one case per line (file given as argv[1], or stdin).  Strings are hex-encoded UTF-8 so that the
//! case reader never has to interpret escapes; serde_json is used only to READ the case structure, never to
//! judge the formatter's output (the driver parses that with Python's json module).
//!
//! case  = {"id":N, "opts":{flatten,cur,list,target,level,file,line,tname,tid : bool, "ts": null|hex,
//!                         sev_new,sev_enter,sev_exit,sev_close : bool (with_span_events; absent = false)},
//!          "thread": null|hex,
//!          "callsites":[{"kind":"span"|"event","name":hex,"target":hex,"level":0..4,"file":null|hex,"line":null|N,"fields":[hex..]}],
//!          "ops":[{"op":"span","cs":i,"id":k,"parent":-2(contextual)|-1(root)|j,"vals":VALS}
//!                 {"op":"enter","id":k} {"op":"exit","id":k} {"op":"record","id":k,"vals":VALS}
//!                 {"op":"event","cs":i,"parent":-2|-1|j,"vals":VALS}
//!                 {"op":"log","cs":i,"msg":hex,"module":null|hex}   (`log` build only: a record of the `log` crate with the
//!                                          level / target / file / line of callsite i goes through tracing-log's LogTracer)
//!                 {"op":"race","id":k,"t1":[VALS,..],"t2":[VALS,..],"wait_ms":N}   two threads record on span k at the same time:
//!                        thread 1 makes the calls t1, thread 2 the calls t2.  A value of TYPE gate1 (in t1's first call) is a
//!                        Debug impl that announces "formatting has begun" and then waits — bounded by wait_ms — for thread 2's
//!                        gate2 value to be formatted; thread 2 starts its calls only after that announcement; gate2 announces
//!                        itself and waits (bounded) for thread 1's first call to return.  When record calls on one span exclude
//!                        each other (the extensions write lock is held across add_fields) thread 2 blocks, gate1 times out and
//!                        the calls run one after the other; if they can overlap they are MADE to overlap, deterministically.
//!                 {"op":"close","id":k}   (the handle is dropped; the driver only does this when nothing else
//!                                          refers to the span, so that it closes right here)]}
//! VALS  = [[field_index, {"t":TYPE,"v":...}], ...]   (array order = order of the pairs in the ValueSet)
//! TYPE  = u8 u16 u32 u64 usize i8 i16 i32 i64 isize u128 i128 ("v": decimal string) | bool ("v": true/false)
//!         | str | debug | display | args ("v": hex text) | bytes ("v": hex) | f64 ("v": 16 hex digits = bits)
//!         | f32 ("v": 8 hex digits) | error ("v": [hex text, ...] = Display of the error and of its sources)
//!         | empty (tracing::field::Empty) | unset (the pair carries no value)
//!         | gate1 | gate2 ("v": hex text; Debug values, only inside a race op, see there)
//!         | panic ("v": hex text; a Debug impl that writes the text and then PANICS; the op must carry "caught": true, the
//!           harness then runs it under catch_unwind and goes on with the next operation)
//! output = {"id":N,"tid":hex(Debug of the thread id),"out":[[hex chunk,...] per op, in op order],
//!           "race":[[overlapped, gate1_timed_out, thread2_started] per race op],"panic":null|hex}
//!          "caught":[op index, ...] = the operations that unwound and were caught,
//!          (one chunk per `write` call on the MakeWriter's writer; the fmt layer hands over one record per call)
//! Built twice by the driver: plain, and with the package feature `log` = tracing-subscriber's (default) `tracing-log`
//! feature (bin h_json_log); the first output line says which.
use std::fmt;
use std::io::{self, BufRead, Write};
use std::cell::RefCell;
use std::sync::atomic::{AtomicBool, Ordering};
use std::sync::{Arc, Condvar, Mutex, OnceLock};
use std::time::Duration;

use serde_json::Value as J;
use tracing::Span;
use tracing_core::{
    callsite::{Callsite, Identifier},
    collect::Interest,
    dispatch::Dispatch,
    field::{Field, FieldSet, Value, ValueSet},
    metadata::Kind,
    span::Id,
    Event, Level, Metadata,
};
use tracing_subscriber::fmt::format::Writer as FmtWriter;
use tracing_subscriber::fmt::time::FormatTime;
use tracing_subscriber::fmt::MakeWriter;
use tracing_subscriber::subscribe::CollectExt;

// ---------------------------------------------------------------------------------------------
// helpers

fn unhex(s: &str) -> Vec<u8> {
    (0..s.len() / 2).map(|i| u8::from_str_radix(&s[2 * i..2 * i + 2], 16).expect("hex")).collect()
}
fn hex(b: &[u8]) -> String {
    let mut s = String::with_capacity(b.len() * 2);
    for x in b {
        s.push_str(&format!("{:02x}", x));
    }
    s
}
fn hstr(j: &J) -> String {
    String::from_utf8(unhex(j.as_str().expect("hex string"))).expect("utf8")
}
fn leak(s: String) -> &'static str {
    Box::leak(s.into_boxed_str())
}

// ---------------------------------------------------------------------------------------------
// dynamic callsites (metadata built at run time, leaked: one process handles a bounded number of cases)

struct DynCallsite {
    meta: OnceLock<Metadata<'static>>,
}
impl Callsite for DynCallsite {
    fn set_interest(&self, _: Interest) {}
    fn metadata(&self) -> &Metadata<'_> {
        self.meta.get().expect("metadata set")
    }
}

fn make_meta(c: &J) -> &'static Metadata<'static> {
    let cs: &'static DynCallsite = Box::leak(Box::new(DynCallsite { meta: OnceLock::new() }));
    let names: Vec<&'static str> = c["fields"].as_array().unwrap().iter().map(|n| leak(hstr(n))).collect();
    let names: &'static [&'static str] = Box::leak(names.into_boxed_slice());
    let fs = FieldSet::new(names, Identifier(cs));
    let level = [Level::ERROR, Level::WARN, Level::INFO, Level::DEBUG, Level::TRACE][c["level"].as_u64().unwrap() as usize];
    let file = if c["file"].is_null() { None } else { Some(leak(hstr(&c["file"]))) };
    let line = c["line"].as_u64().map(|l| l as u32);
    let kind = if c["kind"] == "span" { Kind::SPAN } else { Kind::EVENT };
    let meta = Metadata::new(leak(hstr(&c["name"])), leak(hstr(&c["target"])), level, file, line, None, fs, kind);
    let _ = cs.meta.set(meta);
    cs.meta.get().unwrap()
}

// ---------------------------------------------------------------------------------------------
// values

struct DebugText(String);
impl fmt::Debug for DebugText {
    fn fmt(&self, f: &mut fmt::Formatter<'_>) -> fmt::Result {
        f.write_str(&self.0)
    }
}
struct PanicText(String);
impl fmt::Debug for PanicText {
    fn fmt(&self, f: &mut fmt::Formatter<'_>) -> fmt::Result {
        let _ = f.write_str(&self.0);
        panic!("Debug impl of a recorded value panicked (on purpose)");
    }
}
struct DisplayText(String);
impl fmt::Display for DisplayText {
    fn fmt(&self, f: &mut fmt::Formatter<'_>) -> fmt::Result {
        f.write_str(&self.0)
    }
}
#[derive(Debug)]
struct ChainErr {
    msg: String,
    source: Option<Box<ChainErr>>,
}
impl fmt::Display for ChainErr {
    fn fmt(&self, f: &mut fmt::Formatter<'_>) -> fmt::Result {
        f.write_str(&self.msg)
    }
}
impl std::error::Error for ChainErr {
    fn source(&self) -> Option<&(dyn std::error::Error + 'static)> {
        self.source.as_ref().map(|b| &**b as &(dyn std::error::Error + 'static))
    }
}

/// a one-shot flag with a BOUNDED wait
struct Flag(Mutex<bool>, Condvar);
impl Flag {
    fn new() -> Self {
        Flag(Mutex::new(false), Condvar::new())
    }
    fn set(&self) {
        *self.0.lock().unwrap() = true;
        self.1.notify_all();
    }
    fn wait(&self, d: Duration) -> bool {
        let g = self.0.lock().unwrap();
        let (g, _) = self.1.wait_timeout_while(g, d, |set| !*set).unwrap();
        *g
    }
}
struct RaceCtl {
    begun1: Flag,
    entered2: Flag,
    done1: Flag,
    overlap: AtomicBool,
    timed_out: AtomicBool,
    wait: Duration,
}
thread_local! {
    static RACE_CTL: RefCell<Option<Arc<RaceCtl>>> = const { RefCell::new(None) };
}
struct Gate {
    text: String,
    ctl: Arc<RaceCtl>,
    which: u8,
    once: AtomicBool,
}
impl fmt::Debug for Gate {
    fn fmt(&self, f: &mut fmt::Formatter<'_>) -> fmt::Result {
        if !self.once.swap(true, Ordering::SeqCst) {
            if self.which == 1 {
                self.ctl.begun1.set();
                if self.ctl.entered2.wait(self.ctl.wait) {
                    self.ctl.overlap.store(true, Ordering::SeqCst);
                } else {
                    self.ctl.timed_out.store(true, Ordering::SeqCst);
                }
            } else {
                self.ctl.entered2.set();
                let _ = self.ctl.done1.wait(self.ctl.wait);
            }
        }
        f.write_str(&self.text)
    }
}

enum Val {
    Boxed(Box<dyn Value>),
    Args(String), // fmt::Arguments cannot be stored; materialised at the dispatch site
    Unset,
}

fn dec<T: std::str::FromStr>(v: &J) -> T
where
    T::Err: fmt::Debug,
{
    v.as_str().expect("decimal string").parse::<T>().expect("number in range")
}

fn make_val(v: &J) -> Val {
    let t = v["t"].as_str().unwrap();
    let x = &v["v"];
    let b: Box<dyn Value> = match t {
        "u8" => Box::new(dec::<u8>(x)),
        "u16" => Box::new(dec::<u16>(x)),
        "u32" => Box::new(dec::<u32>(x)),
        "u64" => Box::new(dec::<u64>(x)),
        "usize" => Box::new(dec::<usize>(x)),
        "i8" => Box::new(dec::<i8>(x)),
        "i16" => Box::new(dec::<i16>(x)),
        "i32" => Box::new(dec::<i32>(x)),
        "i64" => Box::new(dec::<i64>(x)),
        "isize" => Box::new(dec::<isize>(x)),
        "u128" => Box::new(dec::<u128>(x)),
        "i128" => Box::new(dec::<i128>(x)),
        "bool" => Box::new(x.as_bool().unwrap()),
        "str" => Box::new(hstr(x)),
        "debug" => Box::new(tracing::field::debug(DebugText(hstr(x)))),
        "display" => Box::new(tracing::field::display(DisplayText(hstr(x)))),
        "args" => return Val::Args(hstr(x)),
        "bytes" => Box::new(unhex(x.as_str().unwrap()).into_boxed_slice()),
        "f64" => Box::new(f64::from_bits(u64::from_str_radix(x.as_str().unwrap(), 16).unwrap())),
        "f32" => Box::new(f32::from_bits(u32::from_str_radix(x.as_str().unwrap(), 16).unwrap())),
        "error" => {
            let mut e: Option<Box<ChainErr>> = None;
            for m in x.as_array().unwrap().iter().rev() {
                e = Some(Box::new(ChainErr { msg: hstr(m), source: e }));
            }
            let e: Box<dyn std::error::Error + 'static> = e.expect("non-empty error chain");
            Box::new(e)
        }
        "panic" => Box::new(tracing::field::debug(PanicText(hstr(x)))),
        "gate1" | "gate2" => {
            let ctl = RACE_CTL.with(|c| c.borrow().clone()).expect("gate value outside a race op");
            Box::new(tracing::field::debug(Gate { text: hstr(x), ctl, which: if t == "gate1" { 1 } else { 2 }, once: AtomicBool::new(false) }))
        }
        "empty" => Box::new(tracing::field::Empty),
        "unset" => return Val::Unset,
        other => panic!("unknown value type {}", other),
    };
    Val::Boxed(b)
}

/// Build the ValueSet for `vals` (pairs of field index + value) and hand it to `f`.
fn with_values<R>(meta: &'static Metadata<'static>, vals: &J, f: &mut dyn FnMut(&ValueSet<'_>) -> R) -> R {
    let fs = meta.fields();
    let all: Vec<Field> = fs.iter().collect();
    let pairs: Vec<(Field, Val)> = vals
        .as_array()
        .unwrap()
        .iter()
        .map(|p| (all[p[0].as_u64().unwrap() as usize].clone(), make_val(&p[1])))
        .collect();
    // fmt::Arguments values borrow temporaries: materialise them in a nested call chain.
    fn go<R>(
        fs: &FieldSet,
        pairs: &[(Field, Val)],
        i: usize,
        acc: &mut Vec<Option<*const (dyn Value + 'static)>>,
        f: &mut dyn FnMut(&ValueSet<'_>) -> R,
    ) -> R {
        if i == pairs.len() {
            // SAFETY: every pointer in `acc` refers to a value that outlives this call (boxed in `pairs`
            // or a temporary held by a caller frame of this recursion).
            let refs: Vec<(&Field, Option<&dyn Value>)> =
                pairs.iter().zip(acc.iter()).map(|((fld, _), p)| (fld, p.map(|p| unsafe { &*p as &dyn Value }))).collect();
            macro_rules! arm {
                ($n:literal) => {{
                    let arr: [(&Field, Option<&dyn Value>); $n] = core::array::from_fn(|k| refs[k]);
                    f(&fs.value_set(&arr))
                }};
            }
            return match refs.len() {
                0 => arm!(0),
                1 => arm!(1),
                2 => arm!(2),
                3 => arm!(3),
                4 => arm!(4),
                5 => arm!(5),
                6 => arm!(6),
                7 => arm!(7),
                8 => arm!(8),
                9 => arm!(9),
                10 => arm!(10),
                11 => arm!(11),
                12 => arm!(12),
                n => panic!("too many values in one set: {}", n),
            };
        }
        match &pairs[i].1 {
            Val::Boxed(b) => {
                let p: *const (dyn Value + '_) = &**b;
                acc.push(Some(unsafe { std::mem::transmute::<*const (dyn Value + '_), *const (dyn Value + 'static)>(p) }));
                go(fs, pairs, i + 1, acc, f)
            }
            Val::Unset => {
                acc.push(None);
                go(fs, pairs, i + 1, acc, f)
            }
            Val::Args(text) => {
                let a = format_args!("{}", text);
                let r: &dyn Value = &a;
                let p: *const (dyn Value + '_) = r;
                acc.push(Some(unsafe { std::mem::transmute::<*const (dyn Value + '_), *const (dyn Value + 'static)>(p) }));
                go(fs, pairs, i + 1, acc, f)
            }
        }
    }
    let mut acc = Vec::new();
    go(fs, &pairs, 0, &mut acc, f)
}

// ---------------------------------------------------------------------------------------------
// recording writer + fixed timer

#[derive(Clone, Default)]
struct Rec(Arc<Mutex<Vec<Vec<u8>>>>);
struct RecW(Rec);
impl io::Write for RecW {
    fn write(&mut self, buf: &[u8]) -> io::Result<usize> {
        (self.0).0.lock().unwrap().push(buf.to_vec());
        Ok(buf.len())
    }
    fn flush(&mut self) -> io::Result<()> {
        Ok(())
    }
}
impl<'a> MakeWriter<'a> for Rec {
    type Writer = RecW;
    fn make_writer(&'a self) -> RecW {
        RecW(self.clone())
    }
}

struct FixedTime(String);
impl FormatTime for FixedTime {
    fn format_time(&self, w: &mut FmtWriter<'_>) -> fmt::Result {
        use fmt::Write as _;
        w.write_str(&self.0)
    }
}

// ---------------------------------------------------------------------------------------------

struct Out {
    events: Vec<Vec<String>>,
    tid: String,
    race: Vec<(bool, bool, bool)>,
    caught: Vec<usize>,
}

fn run_ops(case: &J, rec: &Rec, out: &Arc<Mutex<Out>>, disp: &Dispatch) {
    out.lock().unwrap().tid = hex(format!("{:?}", std::thread::current().id()).as_bytes());
    let metas: Vec<&'static Metadata<'static>> = case["callsites"].as_array().unwrap().iter().map(make_meta).collect();
    let mut spans: std::collections::BTreeMap<i64, Span> = Default::default();
    let parent_id = |spans: &std::collections::BTreeMap<i64, Span>, p: i64| -> Option<Id> { spans.get(&p).and_then(|s| s.id()) };
    for (op_index, op) in case["ops"].as_array().unwrap().iter().enumerate() {
        rec.0.lock().unwrap().clear();
        if op["caught"].as_bool().unwrap_or(false) {
            // an operation expected to unwind (a panicking Debug impl): caught here, the history goes on
            let kind = op["op"].as_str().unwrap();
            let r = std::panic::catch_unwind(std::panic::AssertUnwindSafe(|| match kind {
                "record" => {
                    let s = &spans[&op["id"].as_i64().unwrap()];
                    let meta = s.metadata().expect("span metadata");
                    with_values(meta, &op["vals"], &mut |vs| {
                        s.record_all(vs);
                    });
                }
                other => panic!("op {} cannot be run caught", other),
            }));
            if r.is_err() {
                out.lock().unwrap().caught.push(op_index);
            }
            let chunks: Vec<String> = rec.0.lock().unwrap().drain(..).map(|c| hex(&c)).collect();
            out.lock().unwrap().events.push(chunks);
            continue;
        }
        match op["op"].as_str().unwrap() {
            "span" => {
                let meta = metas[op["cs"].as_u64().unwrap() as usize];
                let p = op["parent"].as_i64().unwrap();
                let pid = parent_id(&spans, p);
                let s = with_values(meta, &op["vals"], &mut |vs| match p {
                    -2 => Span::new(meta, vs),
                    -1 => Span::new_root(meta, vs),
                    _ => Span::child_of(pid.clone(), meta, vs),
                });
                spans.insert(op["id"].as_i64().unwrap(), s);
            }
            "enter" => {
                let id = spans[&op["id"].as_i64().unwrap()].id().expect("enabled span");
                // NOT inside `get_default(|d| ..)`: the registry's `exit` releases the entry's reference through
                // `dispatch::get_default`, which is the no-op collector while a `get_default` closure is running
                disp.enter(&id);
            }
            "exit" => {
                let id = spans[&op["id"].as_i64().unwrap()].id().expect("enabled span");
                disp.exit(&id);
            }
            "record" => {
                let s = &spans[&op["id"].as_i64().unwrap()];
                let meta = s.metadata().expect("span metadata");
                with_values(meta, &op["vals"], &mut |vs| {
                    s.record_all(vs);
                });
            }
            "event" => {
                let meta = metas[op["cs"].as_u64().unwrap() as usize];
                let p = op["parent"].as_i64().unwrap();
                let pid = parent_id(&spans, p);
                with_values(meta, &op["vals"], &mut |vs| match p {
                    -2 => Event::dispatch(meta, vs),
                    -1 => Event::child_of(None, meta, vs),
                    _ => Event::child_of(pid.clone(), meta, vs),
                });
            }
            "log" => {
                #[cfg(feature = "log")]
                {
                    let c = &case["callsites"][op["cs"].as_u64().unwrap() as usize];
                    let lvl = [log::Level::Error, log::Level::Warn, log::Level::Info, log::Level::Debug, log::Level::Trace]
                        [c["level"].as_u64().unwrap() as usize];
                    let target = hstr(&c["target"]);
                    let file = if c["file"].is_null() { None } else { Some(hstr(&c["file"])) };
                    let line = c["line"].as_u64().map(|l| l as u32);
                    let module = if op["module"].is_null() { None } else { Some(hstr(&op["module"])) };
                    let msg = hstr(&op["msg"]);
                    let tracer = tracing_log::LogTracer::new();
                    log::Log::log(
                        &tracer,
                        &log::Record::builder()
                            .args(format_args!("{}", msg))
                            .level(lvl)
                            .target(&target)
                            .module_path(module.as_deref())
                            .file(file.as_deref())
                            .line(line)
                            .build(),
                    );
                }
                #[cfg(not(feature = "log"))]
                panic!("op log needs the log build");
            }
            "race" => {
                let s = &spans[&op["id"].as_i64().unwrap()];
                let meta = s.metadata().expect("span metadata");
                let ctl = Arc::new(RaceCtl {
                    begun1: Flag::new(),
                    entered2: Flag::new(),
                    done1: Flag::new(),
                    overlap: AtomicBool::new(false),
                    timed_out: AtomicBool::new(false),
                    wait: Duration::from_millis(op["wait_ms"].as_u64().unwrap_or(1000)),
                });
                let (s1, s2) = (s.clone(), s.clone());
                let (c1, c2) = (ctl.clone(), ctl.clone());
                let (t1, t2) = (op["t1"].clone(), op["t2"].clone());
                let h1 = std::thread::spawn(move || {
                    RACE_CTL.with(|c| *c.borrow_mut() = Some(c1.clone()));
                    for (i, vals) in t1.as_array().unwrap().iter().enumerate() {
                        with_values(meta, vals, &mut |vs| {
                            s1.record_all(vs);
                        });
                        if i == 0 {
                            c1.done1.set();
                        }
                    }
                    c1.done1.set();
                    c1.begun1.set(); // a first call without a gate value: do not keep thread 2 waiting
                });
                let h2 = std::thread::spawn(move || {
                    RACE_CTL.with(|c| *c.borrow_mut() = Some(c2.clone()));
                    let started = c2.begun1.wait(Duration::from_secs(30));
                    for vals in t2.as_array().unwrap().iter() {
                        with_values(meta, vals, &mut |vs| {
                            s2.record_all(vs);
                        });
                    }
                    started
                });
                let r1 = h1.join();
                let started = h2.join();
                if r1.is_err() || started.is_err() {
                    panic!("a racing record call panicked");
                }
                out.lock().unwrap().race.push((ctl.overlap.load(Ordering::SeqCst), ctl.timed_out.load(Ordering::SeqCst), started.unwrap()));
            }
            "close" => {
                drop(spans.remove(&op["id"].as_i64().unwrap()).expect("live span handle"));
            }
            other => panic!("unknown op {}", other),
        }
        let chunks: Vec<String> = rec.0.lock().unwrap().drain(..).map(|c| hex(&c)).collect();
        out.lock().unwrap().events.push(chunks);
    }
    // exit everything that is still entered is unnecessary: the dispatcher dies with the thread's scope.
    std::mem::forget(spans); // handles are never dropped before the case ends (no span closes mid-case)
}

fn run_case(case: &J) -> String {
    let o = &case["opts"];
    let b = |k: &str| o[k].as_bool().unwrap_or(false);
    let rec = Rec::default();
    let layer = tracing_subscriber::fmt::subscriber()
        .json()
        .flatten_event(b("flatten"))
        .with_current_span(b("cur"))
        .with_span_list(b("list"))
        .with_target(b("target"))
        .with_level(b("level"))
        .with_file(b("file"))
        .with_line_number(b("line"))
        .with_thread_names(b("tname"))
        .with_thread_ids(b("tid"))
        .with_span_events({
            use tracing_subscriber::fmt::format::FmtSpan;
            let mut k = FmtSpan::NONE;
            if b("sev_new") {
                k |= FmtSpan::NEW;
            }
            if b("sev_enter") {
                k |= FmtSpan::ENTER;
            }
            if b("sev_exit") {
                k |= FmtSpan::EXIT;
            }
            if b("sev_close") {
                k |= FmtSpan::CLOSE;
            }
            k
        })
        .with_writer(rec.clone());
    let dispatch = if o["ts"].is_null() {
        Dispatch::new(tracing_subscriber::registry().with(layer.without_time()))
    } else {
        Dispatch::new(tracing_subscriber::registry().with(layer.with_timer(FixedTime(hstr(&o["ts"])))))
    };
    let out = Arc::new(Mutex::new(Out { events: vec![], tid: String::new(), race: vec![], caught: vec![] }));
    let mut builder = std::thread::Builder::new();
    if !case["thread"].is_null() {
        builder = builder.name(hstr(&case["thread"]));
    }
    let (case2, rec2, out2) = (case.clone(), rec.clone(), out.clone());
    let h = builder
        .spawn(move || {
            tracing::dispatch::with_default(&dispatch, || run_ops(&case2, &rec2, &out2, &dispatch));
        })
        .expect("spawn");
    let panic = match h.join() {
        Ok(()) => None,
        Err(e) => Some(if let Some(s) = e.downcast_ref::<String>() {
            s.clone()
        } else if let Some(s) = e.downcast_ref::<&str>() {
            s.to_string()
        } else {
            "<non-string panic>".to_string()
        }),
    };
    let o = out.lock().unwrap_or_else(|e| e.into_inner());
    // chunks written by an event whose dispatch panicked half-way (none expected) are reported as a last, partial event
    let pending: Vec<String> = rec.0.lock().unwrap_or_else(|e| e.into_inner()).drain(..).map(|c| hex(&c)).collect();
    let mut s = format!("{{\"id\":{},\"tid\":\"{}\",\"out\":[", case["id"], o.tid);
    for (i, ev) in o.events.iter().enumerate() {
        if i > 0 {
            s.push(',');
        }
        s.push('[');
        s.push_str(&ev.iter().map(|c| format!("\"{}\"", c)).collect::<Vec<_>>().join(","));
        s.push(']');
    }
    s.push_str("],\"race\":[");
    s.push_str(&o.race.iter().map(|(a, b, c)| format!("[{},{},{}]", a, b, c)).collect::<Vec<_>>().join(","));
    s.push_str("],\"caught\":[");
    s.push_str(&o.caught.iter().map(|k| k.to_string()).collect::<Vec<_>>().join(","));
    s.push_str("],\"pending\":[");
    s.push_str(&pending.iter().map(|c| format!("\"{}\"", c)).collect::<Vec<_>>().join(","));
    s.push_str("],\"panic\":");
    match panic {
        None => s.push_str("null"),
        Some(p) => s.push_str(&format!("\"{}\"", hex(p.as_bytes()))),
    }
    s.push('}');
    s
}

fn main() {
    std::panic::set_hook(Box::new(|_| {})); // panics are reported per case, not on stderr
    let args: Vec<String> = std::env::args().collect();
    let input: Box<dyn BufRead> = if args.len() > 1 {
        Box::new(io::BufReader::new(std::fs::File::open(&args[1]).expect("case file")))
    } else {
        Box::new(io::BufReader::new(io::stdin()))
    };
    let stdout = io::stdout();
    let mut w = io::BufWriter::new(stdout.lock());
    writeln!(
        w,
        "{{\"build\":\"{}\",\"log\":{},\"pl\":{}}}",
        if cfg!(debug_assertions) { "debug" } else { "release" },
        cfg!(feature = "log"),
        cfg!(feature = "pl")
    )
    .unwrap();
    // `--parallel`: all cases at once (the race stream: every case spends a bounded wait, they overlap)
    let parallel = args.iter().any(|a| a == "--parallel");
    let mut pending = Vec::new();
    for line in input.lines() {
        let line = line.expect("read");
        if line.trim().is_empty() {
            continue;
        }
        let case: J = serde_json::from_str(&line).expect("case json");
        if parallel {
            pending.push(std::thread::spawn(move || run_case(&case)));
        } else {
            let r = run_case(&case);
            writeln!(w, "{}", r).unwrap();
        }
    }
    for h in pending {
        writeln!(w, "{}", h.join().expect("case thread")).unwrap();
    }
    w.flush().unwrap();
}
