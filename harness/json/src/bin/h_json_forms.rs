//! C14 harness, part 2: field-name FORMS as the real `tracing` macros produce them (dotted names, string-literal
//! names with odd characters, raw identifiers, `message`, shorthand `?x` / `%x`), through the real JSON formatter.
//! Fixed scenario list; prints {"k":"forms","label":..,"line":hex} per emitted record.
use std::io::{self, Write};
use std::sync::{Arc, Mutex};
use tracing::{info, info_span, Level};
use tracing_subscriber::fmt::MakeWriter;
use tracing_subscriber::subscribe::CollectExt;

#[derive(Clone, Default)]
struct Rec(Arc<Mutex<Vec<Vec<u8>>>>);
struct RecW(Rec);
impl io::Write for RecW {
    fn write(&mut self, buf: &[u8]) -> io::Result<usize> {
        (self.0).0.lock().unwrap().push(buf.to_vec());
        Ok(buf.len())
    }
    fn flush(&mut self) -> io::Result<()> {
        Ok(())
    }
}
impl<'a> MakeWriter<'a> for Rec {
    type Writer = RecW;
    fn make_writer(&'a self) -> RecW {
        RecW(self.clone())
    }
}
fn hex(b: &[u8]) -> String {
    b.iter().map(|x| format!("{:02x}", x)).collect()
}

fn scenario(label: &str, flatten: bool, f: impl FnOnce()) {
    let rec = Rec::default();
    let layer = tracing_subscriber::fmt::subscriber().json().flatten_event(flatten).with_writer(rec.clone()).without_time();
    let c = tracing_subscriber::registry().with(layer);
    tracing::collect::with_default(c, f);
    let out = io::stdout();
    let mut w = out.lock();
    for chunk in rec.0.lock().unwrap().iter() {
        writeln!(w, "{{\"k\":\"forms\",\"label\":\"{}\",\"flatten\":{},\"line\":\"{}\"}}", label, flatten, hex(chunk)).unwrap();
    }
}

fn main() {
    for &flatten in &[false, true] {
        scenario("dotted", flatten, || {
            let s = info_span!("sp", http.method = "GET", http.status = 200u64, a.b.c = ?Some(1));
            let _g = s.enter();
            info!(user.id = 7u64, user.name = "x\"y", "dotted {}", 1);
        });
        scenario("literal", flatten, || {
            let s = info_span!("sp", "quo\"te" = 1u64, "back\\slash" = "v", "new\nline" = true, "uni\u{2028}sep" = 2i64, "ast\u{1F600}ral" = "\u{1F600}", "spa ce" = 1u64, later = tracing::field::Empty);
            let _g = s.enter();
            info!("quo\"te" = 1u64, "back\\slash" = "v", "new\nline" = true, "uni\u{2028}sep" = 2i64, "ast\u{1F600}ral" = "\u{1F600}", "tab\there" = 3u64, "nul\u{0}" = 4u64, "first");
            s.record("later", 5u64);
            info!("second");
        });
        scenario("literal_plain_record", flatten, || {
            let s = info_span!("sp", "spa ce" = 1u64, "dotted.name" = 2u64, later = tracing::field::Empty);
            let _g = s.enter();
            s.record("later", 5u64);
            s.record("spa ce", "over");
            info!("after");
        });
        scenario("raw", flatten, || {
            let r#type = 3u64;
            let s = info_span!("sp", r#type = 1u64, r#match = ?"dbg", r#fn = %"disp", r#loop = "str");
            let _g = s.enter();
            info!(r#type, r#match = ?"dbg", r#fn = %"disp", r#struct = true, "raw");
        });
        scenario("shorthand", flatten, || {
            let x = 5u64;
            let y = "why";
            let z = vec![1, 2];
            let s = info_span!("sp", x, %y, ?z);
            let _g = s.enter();
            info!(x, %y, ?z, "short");
        });
        scenario("message_forms", flatten, || {
            info!("plain");
            info!("fmt {} {:?}", 1, "q\"");
            info!(message = "explicit");
            info!(a = 1u64, "with field");
            info!(target: "tgt\"x", "custom target");
            tracing::event!(Level::WARN, "lvl");
        });
        scenario("dup_event_names", flatten, || {
            info!(a = 1u64, a = 2u64, "dup");
        });
        scenario("dup_span_names", flatten, || {
            let s = info_span!("sp", a = 1u64, a = 2u64);
            let _g = s.enter();
            info!("in dup span");
        });
        scenario("message_dup", flatten, || {
            info!(message = "explicit", "and a format message");
        });
        scenario("span_named_name", flatten, || {
            let s = info_span!("sp", name = "field called name");
            let _g = s.enter();
            info!("x");
        });
        scenario("explicit_parent", flatten, || {
            let root = info_span!("root");
            let child = info_span!(parent: &root, "child");
            info!(parent: &child, "explicit");
            let other = info_span!("other");
            let _g = other.enter();
            info!(parent: &child, "explicit with other entered");
            info!(parent: None, "explicit root");
            info!("contextual");
        });
    }
}
