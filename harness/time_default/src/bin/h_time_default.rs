//! C20 harness, default-configuration leg: "the timestamp the formatting layer prints by default".
//!
//! Every configuration below builds a `fmt` collector / layer / event formatter WITHOUT naming a timer (no
//! `with_timer`, no `without_time`): whatever timer type and whatever formatting path the library picks by
//! default is what runs.  The clock is not controlled here.  Per sample the binary reads the clock (t0), lets the
//! configuration print one record (an event, or a synthesized span-lifecycle record), reads the clock again (t1)
//! and prints
//!
//!     {"cfg":..,"kind":..,"t0":[sec,nsec],"t1":[sec,nsec],"f0":"<hook text of t0>","f1":"<hook text of t1>","out":"<bytes written, escaped>"}
//!
//! The driver (driver/props/c20.py, default_leg) extracts the timestamp from `out`, demands f0 <= ts <= f1 in byte
//! order (theorems C20_window_sandwich / C20_window_tight say why that is exactly right), and runs t0, t1 through
//! the model to tie f0/f1.  usage: h_time_default <samples-per-configuration>
use std::io;
use std::sync::{Arc, Mutex};
use std::time::{SystemTime, UNIX_EPOCH};
use tracing_subscriber::fmt::format::FmtSpan;
use tracing_subscriber::fmt::MakeWriter;
use tracing_subscriber::prelude::*;

#[derive(Clone, Default)]
struct Buf(Arc<Mutex<Vec<u8>>>);
struct BufW(Arc<Mutex<Vec<u8>>>);
impl io::Write for BufW {
    fn write(&mut self, b: &[u8]) -> io::Result<usize> {
        self.0.lock().unwrap().extend_from_slice(b);
        Ok(b.len())
    }
    fn flush(&mut self) -> io::Result<()> {
        Ok(())
    }
}
impl<'a> MakeWriter<'a> for Buf {
    type Writer = BufW;
    fn make_writer(&'a self) -> BufW {
        BufW(self.0.clone())
    }
}
impl Buf {
    fn take(&self) -> Vec<u8> {
        std::mem::take(&mut *self.0.lock().unwrap())
    }
}

fn parts(t: SystemTime) -> (i64, u32) {
    match t.duration_since(UNIX_EPOCH) {
        Ok(d) => (d.as_secs() as i64, d.subsec_nanos()),
        Err(e) => {
            let d = e.duration();
            if d.subsec_nanos() == 0 {
                (-(d.as_secs() as i64), 0)
            } else {
                (-(d.as_secs() as i64) - 1, 1_000_000_000 - d.subsec_nanos())
            }
        }
    }
}

fn hook(t: SystemTime) -> String {
    let mut s = String::new();
    match tracing_subscriber::fmt::time::__verif_format_system_time(t, &mut s) {
        Ok(()) => s,
        Err(_) => "!fmt-error".into(),
    }
}

fn esc(b: &[u8]) -> String {
    let mut s = String::new();
    for &c in b {
        match c {
            b'"' => s.push_str("\\\""),
            b'\\' => s.push_str("\\\\"),
            0x20..=0x7e => s.push(c as char),
            _ => s.push_str(&format!("\\u{:04x}", c)),
        }
    }
    s
}

/// One sample: `emit` makes the configuration under `d` print exactly one record (anything printed before it is
/// discarded by `pre`).
fn sample(cfg: &str, kind: &str, buf: &Buf, d: &tracing::Dispatch, pre: &dyn Fn(), emit: &dyn Fn()) {
    tracing::dispatch::with_default(d, || {
        pre();
        buf.take();
        let t0 = SystemTime::now();
        emit();
        let t1 = SystemTime::now();
        let out = buf.take();
        let (a, b) = (parts(t0), parts(t1));
        println!(
            "{{\"cfg\":\"{}\",\"kind\":\"{}\",\"t0\":[{},{}],\"t1\":[{},{}],\"f0\":\"{}\",\"f1\":\"{}\",\"out\":\"{}\"}}",
            cfg, kind, a.0, a.1, b.0, b.1, hook(t0), hook(t1), esc(&out)
        );
    });
}

fn run(cfg: &str, buf: &Buf, d: tracing::Dispatch, n: usize, lifecycle: bool) {
    for i in 0..n {
        sample(cfg, "event", buf, &d, &|| {}, &|| tracing::info!(i = i as u64, "hello"));
        // an event inside a span (the span context is printed after the timestamp)
        sample(
            cfg,
            "event-in-span",
            buf,
            &d,
            &|| {},
            &|| {
                let sp = tracing::info_span!("outer", k = 1u64);
                let _e = sp.enter();
                tracing::warn!(answer = 42u64, "inside");
            },
        );
        if lifecycle {
            // with FmtSpan::CLOSE the record is synthesized when the span closes
            let holder: std::cell::RefCell<Option<tracing::Span>> = std::cell::RefCell::new(None);
            sample(
                cfg,
                "span-close",
                buf,
                &d,
                &|| *holder.borrow_mut() = Some(tracing::info_span!("job", n = 7u64)),
                &|| drop(holder.borrow_mut().take()),
            );
        }
    }
}

fn main() {
    let n: usize = std::env::args().nth(1).and_then(|s| s.parse().ok()).unwrap_or(3);
    use tracing_subscriber::fmt;
    macro_rules! cfg {
        ($name:expr, $lc:expr, |$b:ident| $mk:expr) => {{
            let $b = Buf::default();
            let d = tracing::Dispatch::new($mk);
            run($name, &$b, d, n, $lc);
        }};
    }
    // collectors built by the builder
    cfg!("fmt().finish", false, |b| fmt().with_writer(b.clone()).finish());
    cfg!("fmt().with_ansi(false)", false, |b| fmt().with_writer(b.clone()).with_ansi(false).finish());
    cfg!("fmt().compact()", false, |b| fmt().compact().with_writer(b.clone()).finish());
    cfg!("fmt().pretty()", false, |b| fmt().pretty().with_writer(b.clone()).finish());
    cfg!("fmt().json()", false, |b| fmt().json().with_writer(b.clone()).finish());
    cfg!("fmt().json().flatten_event(true)", false, |b| fmt().json().flatten_event(true).with_writer(b.clone()).finish());
    cfg!("fmt().with_span_events(CLOSE)", true, |b| fmt().with_span_events(FmtSpan::CLOSE).with_writer(b.clone()).finish());
    cfg!("fmt().json().with_span_events(CLOSE)", true, |b| fmt().json().with_span_events(FmtSpan::CLOSE).with_writer(b.clone()).finish());
    cfg!("fmt().with_level(false).with_target(false)", false, |b| fmt().with_level(false).with_target(false).with_writer(b.clone()).finish());
    cfg!("fmt().with_thread_ids(true).with_thread_names(true)", false, |b| fmt()
        .with_thread_ids(true)
        .with_thread_names(true)
        .with_writer(b.clone())
        .finish());
    cfg!("fmt::Collector::builder().with_max_level(TRACE)", false, |b| fmt::Collector::builder()
        .with_max_level(tracing::Level::TRACE)
        .with_writer(b.clone())
        .finish());
    // layers on a registry
    cfg!("registry().with(fmt::subscriber())", false, |b| tracing_subscriber::registry().with(fmt::subscriber().with_writer(b.clone())));
    cfg!("registry().with(fmt::Subscriber::default())", false, |b| tracing_subscriber::registry()
        .with(fmt::Subscriber::default().with_writer(b.clone())));
    cfg!("registry().with(fmt::subscriber().compact())", false, |b| tracing_subscriber::registry()
        .with(fmt::subscriber().compact().with_writer(b.clone())));
    cfg!("registry().with(fmt::subscriber().pretty())", false, |b| tracing_subscriber::registry()
        .with(fmt::subscriber().pretty().with_writer(b.clone())));
    cfg!("registry().with(fmt::subscriber().json())", false, |b| tracing_subscriber::registry()
        .with(fmt::subscriber().json().with_writer(b.clone())));
    cfg!("registry().with(fmt::subscriber().with_span_events(CLOSE))", true, |b| tracing_subscriber::registry()
        .with(fmt::subscriber().with_span_events(FmtSpan::CLOSE).with_writer(b.clone())));
    // event formatters built on their own and handed to a layer
    cfg!("event_format(format())", false, |b| tracing_subscriber::registry()
        .with(fmt::subscriber().event_format(fmt::format()).with_writer(b.clone())));
    cfg!("event_format(Format::default())", false, |b| tracing_subscriber::registry()
        .with(fmt::subscriber().event_format(fmt::format::Format::default()).with_writer(b.clone())));
    cfg!("event_format(format().compact())", false, |b| tracing_subscriber::registry()
        .with(fmt::subscriber().event_format(fmt::format().compact()).with_writer(b.clone())));
    cfg!("event_format(format().pretty())", false, |b| tracing_subscriber::registry()
        .with(fmt::subscriber().event_format(fmt::format().pretty()).with_writer(b.clone())));
    cfg!("event_format(format().json())", false, |b| tracing_subscriber::registry().with(
        fmt::subscriber()
            .event_format(fmt::format().json())
            .fmt_fields(fmt::format::JsonFields::new())
            .with_writer(b.clone())
    ));
    cfg!("event_format(format::json())", false, |b| tracing_subscriber::registry().with(
        fmt::subscriber()
            .event_format(fmt::format::json())
            .fmt_fields(fmt::format::JsonFields::new())
            .with_writer(b.clone())
    ));
    cfg!("event_format(format().with_source_location(true))", false, |b| tracing_subscriber::registry()
        .with(fmt::subscriber().event_format(fmt::format().with_source_location(true)).with_writer(b.clone())));
}
