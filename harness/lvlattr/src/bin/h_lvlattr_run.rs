//! C19, attribute level parser, stage 2 (meaning): `cases_run.rs` holds the cases stage 1 found accepted plus
//! `fn run_all()`, which calls each of them.  A recording collector prints the level of every span (named after
//! its function) and of every `ret`/`err` event together with the function it was emitted in.
#![allow(dead_code, unused)]
use std::collections::hash_map::DefaultHasher;
use std::hash::{Hash, Hasher};
use std::sync::Mutex;
use tracing::Level;
use tracing_core::{
    collect::Collect,
    dispatch::{self, Dispatch},
    span, Event, Metadata,
};

include!(concat!(env!("CARGO_MANIFEST_DIR"), "/cases_run.rs"));

const LEVELS: [Level; 5] = [Level::ERROR, Level::WARN, Level::INFO, Level::DEBUG, Level::TRACE];
/// 1..5 = ERROR..TRACE, identified through the derived `Hash` only (not through the operators under test)
fn enc(l: &Level) -> usize {
    let h = |x: &Level| {
        let mut s = DefaultHasher::new();
        x.hash(&mut s);
        s.finish()
    };
    LEVELS.iter().position(|c| h(c) == h(l)).map(|i| i + 1).unwrap_or(0)
}

struct State {
    names: Vec<&'static str>,
    stack: Vec<u64>,
}
static STATE: Mutex<State> = Mutex::new(State { names: Vec::new(), stack: Vec::new() });

struct Recorder;
impl Collect for Recorder {
    fn enabled(&self, _: &Metadata<'_>) -> bool {
        true
    }
    fn max_level_hint(&self) -> Option<tracing_core::LevelFilter> {
        Some(tracing_core::LevelFilter::TRACE)
    }
    fn new_span(&self, attrs: &span::Attributes<'_>) -> span::Id {
        let mut st = STATE.lock().unwrap();
        st.names.push(attrs.metadata().name());
        println!("{{\"k\":\"span\",\"name\":\"{}\",\"level\":{}}}", attrs.metadata().name(), enc(attrs.metadata().level()));
        span::Id::from_u64(st.names.len() as u64)
    }
    fn record(&self, _: &span::Id, _: &span::Record<'_>) {}
    fn record_follows_from(&self, _: &span::Id, _: &span::Id) {}
    fn event(&self, ev: &Event<'_>) {
        let st = STATE.lock().unwrap();
        let cur = st.stack.last().map(|id| st.names[*id as usize - 1]).unwrap_or("");
        println!("{{\"k\":\"event\",\"in\":\"{}\",\"level\":{}}}", cur, enc(ev.metadata().level()));
    }
    fn enter(&self, id: &span::Id) {
        STATE.lock().unwrap().stack.push(id.into_u64());
    }
    fn exit(&self, _: &span::Id) {
        STATE.lock().unwrap().stack.pop();
    }
    fn current_span(&self) -> span::Current {
        span::Current::unknown()
    }
}

fn main() {
    dispatch::set_global_default(Dispatch::new(Recorder)).unwrap();
    run_all();
    println!("{{\"k\":\"done\"}}");
}
