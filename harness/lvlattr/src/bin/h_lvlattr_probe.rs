//! C19, attribute level parser, stage 1 (acceptance): every case is one line
//! `#[tracing::instrument(level = <token>)] fn cN() {}` of `cases_probe.rs`.  Acceptance is decided while the
//! attribute is expanded, so this binary is only *compiled*: the driver reads rustc's JSON diagnostics and
//! attributes each error to the line (= case) it points at.  A case without an error was accepted.
#![allow(dead_code, unused)]
use tracing::Level;
include!(concat!(env!("CARGO_MANIFEST_DIR"), "/cases_probe.rs"));
fn main() {}
