// Detects whether the repository under check has the H3 lock probe (`callsite::__verif_lock_state`), so that the
// harness also compiles against a tree without it (then a shadow of the lock, driven by the yield ids, is used).
use std::path::PathBuf;
fn main() {
    println!("cargo:rustc-check-cfg=cfg(h3_lockprobe)");
    let dir = PathBuf::from(std::env::var("CARGO_MANIFEST_DIR").unwrap());
    let toml = std::fs::read_to_string(dir.join("Cargo.toml")).unwrap_or_default();
    for line in toml.lines() {
        if line.trim_start().starts_with("tracing-core") {
            if let Some(i) = line.find("path = \"") {
                let rest = &line[i + 8..];
                if let Some(j) = rest.find('"') {
                    let f = PathBuf::from(&rest[..j]).join("src").join("callsite.rs");
                    println!("cargo:rerun-if-changed={}", f.display());
                    if std::fs::read_to_string(&f).map(|s| s.contains("__verif_lock_state")).unwrap_or(false) {
                        println!("cargo:rustc-cfg=h3_lockprobe");
                    }
                }
            }
        }
    }
    println!("cargo:rerun-if-changed=build.rs");
}
