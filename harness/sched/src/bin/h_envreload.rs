//! C12, assumption check "the reloadable value's callbacks are a pure function of the value": a reloadable `EnvFilter` with
//! span-scoped (dynamic) directives, changed through `Handle::reload` (whole value) and `Handle::modify` (IN PLACE:
//! `*f = mem::take(f).add_directive(d)`), probed from the calling thread and from another thread.
//!
//! One process per case.  Case file (lines):
//!   init D1,D2,...        build `registry().with(reload::Subscriber::new(EnvFilter::new("D1,D2,..."))).with(Rec)`, global default
//!   inits D1,D2,...       the same, but the recording layer on top answers `Interest::sometimes()` for every callsite
//!   reload D1,D2,...      handle.reload(EnvFilter::new("D1,D2,..."))
//!   modify D              handle.modify(|f| *f = mem::take(f).add_directive(D))
//!   newdispatch           an unrelated `Dispatch::new(registry())`, dropped at once (forces a rebuild of the interest cache)
//!   rebuild               callsite::rebuild_interest_cache()
//!   probe T               on thread T (0 = main, 1 = a worker): the fixed battery below; prints {"k":"probe","t":T,"d":[...]}
//! The battery: for each context in [no span, req{id=1}, req{id=2}, req{id=3}, job{}] : create the span (one static callsite per
//! span name), record whether the recording layer saw `on_new_span`, enter it, emit 6 events (targets a/b at INFO/DEBUG/TRACE),
//! record which reached `on_event`, exit, drop.  All spans are created after the step before, none is open across a step.
//! The driver compares each probe with the probe of a FRESH process whose filter is parsed from the same directive list.
use std::cell::RefCell;
use std::io::Write;
use std::sync::mpsc::{channel, Sender};

use tracing_core::{span, Event};
use tracing_subscriber::filter::EnvFilter;
use tracing_subscriber::prelude::*;
use tracing_subscriber::subscribe::{Context, Subscribe};
use tracing_subscriber::{reload, Registry};

thread_local! {
    static SEEN: RefCell<Vec<String>> = const { RefCell::new(Vec::new()) };
}

struct Rec;
impl<C: tracing_core::Collect + for<'a> tracing_subscriber::registry::LookupSpan<'a>> Subscribe<C> for Rec {
    fn on_event(&self, e: &Event<'_>, _: Context<'_, C>) {
        SEEN.with(|s| s.borrow_mut().push(format!("e:{}", e.metadata().name())));
    }
    fn on_new_span(&self, a: &span::Attributes<'_>, _: &span::Id, _: Context<'_, C>) {
        SEEN.with(|s| s.borrow_mut().push(format!("s:{}", a.metadata().name())));
    }
}

/// The same recording layer, but one that answers `Interest::sometimes()` for every callsite (a sampling / dynamically
/// configured layer): the layers below it must still be told about every callsite (`inits`, seeded C12-I).
struct RecS;
impl<C: tracing_core::Collect + for<'a> tracing_subscriber::registry::LookupSpan<'a>> Subscribe<C> for RecS {
    fn register_callsite(&self, _: &'static tracing_core::Metadata<'static>) -> tracing_core::Interest {
        tracing_core::Interest::sometimes()
    }
    fn on_event(&self, e: &Event<'_>, _: Context<'_, C>) {
        SEEN.with(|s| s.borrow_mut().push(format!("e:{}", e.metadata().name())));
    }
    fn on_new_span(&self, a: &span::Attributes<'_>, _: &span::Id, _: Context<'_, C>) {
        SEEN.with(|s| s.borrow_mut().push(format!("s:{}", a.metadata().name())));
    }
}

fn events() {
    use tracing::Level as L;
    tracing::event!(name: "a3", target: "a", L::INFO, "x");
    tracing::event!(name: "a4", target: "a", L::DEBUG, "x");
    tracing::event!(name: "a5", target: "a", L::TRACE, "x");
    tracing::event!(name: "b3", target: "b", L::INFO, "x");
    tracing::event!(name: "b4", target: "b", L::DEBUG, "x");
    tracing::event!(name: "b5", target: "b", L::TRACE, "x");
}

/// returns, per context, "<span seen 0/1/->:<events seen, in order>"
fn battery() -> Vec<String> {
    let mut out = Vec::new();
    let mut take = |tag: &str, had_span: Option<&str>| {
        let seen: Vec<String> = SEEN.with(|s| std::mem::take(&mut *s.borrow_mut()));
        let sp = match had_span {
            None => "-".to_string(),
            Some(n) => if seen.iter().any(|x| x == &format!("s:{}", n)) { "1".into() } else { "0".into() },
        };
        let ev: Vec<&str> = seen.iter().filter(|x| x.starts_with("e:")).map(|x| &x[2..]).collect();
        out.push(format!("{}={}:{}", tag, sp, ev.join("+")));
    };
    events();
    take("none", None);
    for id in 1u64..=3 {
        {
            let s = tracing::info_span!(target: "a", "req", id);
            let _g = s.enter();
            events();
        }
        take(&format!("req{}", id), Some("req"));
    }
    {
        let s = tracing::debug_span!(target: "b", "job");
        let _g = s.enter();
        events();
    }
    take("job", Some("job"));
    out
}

fn out(line: String) {
    let so = std::io::stdout();
    let mut l = so.lock();
    let _ = writeln!(l, "{}", line);
    let _ = l.flush();
}
fn jlist(v: &[String]) -> String {
    format!("[{}]", v.iter().map(|x| format!("\"{}\"", x)).collect::<Vec<_>>().join(","))
}

fn main() {
    let path = std::env::args().nth(1).expect("case file");
    let text = std::fs::read_to_string(&path).expect("read case");
    let mut handle: Option<reload::Handle<EnvFilter>> = None;
    // worker thread 1: runs the battery on request
    let (req_tx, req_rx) = channel::<Sender<Vec<String>>>();
    std::thread::spawn(move || {
        while let Ok(reply) = req_rx.recv() {
            let _ = reply.send(battery());
        }
    });
    for (ln, line) in text.lines().enumerate() {
        let line = line.split('#').next().unwrap().trim();
        if line.is_empty() { continue; }
        let (kw, rest) = line.split_once(' ').unwrap_or((line, ""));
        let rest = rest.trim();
        let r = std::panic::catch_unwind(std::panic::AssertUnwindSafe(|| -> Result<(), String> {
            match kw {
                "init" => {
                    let (layer, h) = reload::Subscriber::new(EnvFilter::new(rest));
                    let d = tracing_core::Dispatch::new(Registry::default().with(layer).with(Rec));
                    tracing_core::dispatch::set_global_default(d).map_err(|_| "global default already set".to_string())?;
                    handle = Some(h);
                }
                "inits" => {
                    let (layer, h) = reload::Subscriber::new(EnvFilter::new(rest));
                    let d = tracing_core::Dispatch::new(Registry::default().with(layer).with(RecS));
                    tracing_core::dispatch::set_global_default(d).map_err(|_| "global default already set".to_string())?;
                    handle = Some(h);
                }
                "reload" => {
                    let h = handle.as_ref().ok_or("no handle")?;
                    h.reload(EnvFilter::new(rest)).map_err(|e| e.to_string())?;
                }
                "modify" => {
                    let h = handle.as_ref().ok_or("no handle")?;
                    let d: tracing_subscriber::filter::Directive = rest.parse().map_err(|_| format!("bad directive {}", rest))?;
                    h.modify(move |f| {
                        let cur = std::mem::take(f);
                        *f = cur.add_directive(d);
                    })
                    .map_err(|e| e.to_string())?;
                }
                "newdispatch" => {
                    let d = tracing_core::Dispatch::new(Registry::default());
                    drop(d);
                }
                "rebuild" => tracing_core::callsite::rebuild_interest_cache(),
                "probe" => {
                    let t: usize = rest.parse().map_err(|_| "bad thread".to_string())?;
                    let d = if t == 0 {
                        battery()
                    } else {
                        let (tx, rx) = channel();
                        req_tx.send(tx).map_err(|_| "worker gone".to_string())?;
                        rx.recv_timeout(std::time::Duration::from_secs(30)).map_err(|_| "worker hung".to_string())?
                    };
                    let cur = handle.as_ref().and_then(|h| h.with_current(|f| f.to_string()).ok()).unwrap_or_default();
                    out(format!("{{\"k\":\"probe\",\"line\":{},\"t\":{},\"d\":{},\"filter\":\"{}\",\"max\":\"{}\"}}", ln + 1, t, jlist(&d),
                                cur.replace('"', "'"), tracing_core::LevelFilter::current()));
                }
                _ => return Err(format!("bad line {}", ln + 1)),
            }
            Ok(())
        }));
        match r {
            Ok(Ok(())) => {}
            Ok(Err(e)) => out(format!("{{\"k\":\"error\",\"line\":{},\"msg\":\"{}\"}}", ln + 1, e.replace('"', "'"))),
            Err(_) => out(format!("{{\"k\":\"panic\",\"line\":{}}}", ln + 1)),
        }
    }
    out("{\"k\":\"done\"}".to_string());
}
