//! h_sched — C04 / C12 harness: runs ONE case (argv[1]) against the real crates, prints JSON lines.
//!
//! A case = per-thread programs + a forced schedule (phase 1: real OS threads parked at the H3 yield
//! points `tracing_core::__verif::yield_point(id)` and released one at a time by a controller, exactly
//! as the schedule says) + a quiescent history (phase 2: ops executed one at a time, each to completion).
//! The process-global state of tracing (callsite registry, MAX_LEVEL, global default) is the reason for
//! one process per case.  The Coq model `Dispatch/Sched_Model.v` (`run_case`) consumes the same case;
//! event encodings are those of `enc_ev`; the yield ids are those of `yield_id`.
//!
//! Case file:  threads N | filter FID KIND ARGS | pre T op | prog T op ; op ; .. | sched T T T .. | hist T op
//!             (pre = quiescent set-up ops, run one at a time BEFORE the forced-schedule phase; hist = after it)
//! ops:        emit CS | new C FID plain|rlayer|rlayer2|rfilter | drop C | setdefault C | close | setglobal C |
//!             rebuild | reload C FID
use std::any::TypeId;
use std::cell::{Cell, RefCell};
use std::collections::BTreeSet;
use std::io::Write;
use std::panic::{catch_unwind, AssertUnwindSafe};
use std::ptr::NonNull;
use std::sync::atomic::{AtomicBool, Ordering};
use std::sync::mpsc::{channel, Receiver, Sender};
use std::sync::{Condvar, Mutex, OnceLock};
use std::time::{Duration, Instant};

use tracing_core::collect::{Collect, Interest};
use tracing_core::dispatch::{self, DefaultGuard, Dispatch};
use tracing_core::{span, Event, Level, LevelFilter, Metadata};
use tracing_subscriber::filter::{DynFilterFn, EnvFilter, Targets};
use tracing_subscriber::prelude::*;
use tracing_subscriber::subscribe::{Context, Filter, Subscribe};
use tracing_subscriber::{reload, Registry};

const MAXC: usize = 32;
const WAIT: Duration = Duration::from_secs(30);
const CONTROLLER: u64 = 99;

// ------------------------------------------------------------------------------------------------
// callsite pool: every arm is its own static callsite

fn emit(cs: usize) {
    use tracing::Level as L;
    match cs {
        0 => tracing::event!(name: "e0", target: "a", L::ERROR, "x"),
        1 => tracing::event!(name: "e1", target: "a", L::WARN, "x"),
        2 => tracing::event!(name: "e2", target: "a", L::INFO, "x"),
        3 => tracing::event!(name: "e3", target: "a", L::DEBUG, "x"),
        4 => tracing::event!(name: "e4", target: "a", L::TRACE, "x"),
        5 => tracing::event!(name: "e5", target: "b", L::ERROR, "x"),
        6 => tracing::event!(name: "e6", target: "b", L::WARN, "x"),
        7 => tracing::event!(name: "e7", target: "b", L::INFO, "x"),
        8 => tracing::event!(name: "e8", target: "b", L::DEBUG, "x"),
        9 => tracing::event!(name: "e9", target: "b", L::TRACE, "x"),
        10 => {
            let _s = tracing::span!(target: "a", L::INFO, "s10");
        }
        11 => {
            let _s = tracing::span!(target: "b", L::DEBUG, "s11");
        }
        _ => {}
    }
}
const POOL: [(u8, &str, u8); 12] = [
    (1, "a", 0), (2, "a", 0), (3, "a", 0), (4, "a", 0), (5, "a", 0),
    (1, "b", 0), (2, "b", 0), (3, "b", 0), (4, "b", 0), (5, "b", 0),
    (3, "a", 1), (4, "b", 1),
];

fn rank(l: &Level) -> u8 {
    if *l == Level::ERROR { 1 } else if *l == Level::WARN { 2 } else if *l == Level::INFO { 3 } else if *l == Level::DEBUG { 4 } else { 5 }
}
fn lf(r: u8) -> LevelFilter {
    match r { 0 => LevelFilter::OFF, 1 => LevelFilter::ERROR, 2 => LevelFilter::WARN, 3 => LevelFilter::INFO, 4 => LevelFilter::DEBUG, _ => LevelFilter::TRACE }
}
fn lf_rank(f: LevelFilter) -> u64 {
    if f == LevelFilter::OFF { 0 } else if f == LevelFilter::ERROR { 1 } else if f == LevelFilter::WARN { 2 } else if f == LevelFilter::INFO { 3 } else if f == LevelFilter::DEBUG { 4 } else { 5 }
}
fn lname(r: u8) -> &'static str {
    ["off", "error", "warn", "info", "debug", "trace"][r.min(5) as usize]
}
fn cs_of(meta: &Metadata<'_>) -> u64 {
    meta.name()[1..].parse::<u64>().unwrap_or(999)
}

// ------------------------------------------------------------------------------------------------
// filter specifications

#[derive(Clone, Copy, Debug)]
enum Spec { Level(u8), LvlNh(u8), Targets(u8, u8), Env(u8, u8), Dyn(u8, u8), NoneF }

impl Spec {
    fn enabled(&self, m: &Metadata<'_>) -> bool {
        let l = rank(m.level());
        match *self {
            Spec::Level(x) | Spec::LvlNh(x) => l <= x,
            Spec::Targets(a, b) | Spec::Env(a, b) => l <= if m.target() == "a" { a } else { b },
            Spec::Dyn(x, _) => l <= x,
            Spec::NoneF => true,
        }
    }
    fn interest(&self, m: &Metadata<'_>) -> Interest {
        match *self {
            Spec::Dyn(_, h) => if rank(m.level()) > h { Interest::never() } else { Interest::sometimes() },
            _ => if self.enabled(m) { Interest::always() } else { Interest::never() },
        }
    }
    fn hint(&self) -> Option<LevelFilter> {
        match *self {
            Spec::Level(x) => Some(lf(x)),
            Spec::LvlNh(_) | Spec::NoneF => None,
            Spec::Targets(a, b) | Spec::Env(a, b) => Some(lf(a.max(b))),
            Spec::Dyn(_, h) => Some(lf(h)),
        }
    }
    fn boxed_layer(&self) -> Box<dyn Subscribe<Registry> + Send + Sync> {
        self.boxed_layer_on::<Registry>()
    }
    /// the value as a (global) layer on any collector type `S`
    fn boxed_layer_on<S>(&self) -> Box<dyn Subscribe<S> + Send + Sync>
    where
        S: Collect + for<'a> tracing_subscriber::registry::LookupSpan<'a> + 'static,
    {
        match *self {
            Spec::Level(x) | Spec::LvlNh(x) => Box::new(lf(x)),
            Spec::Targets(a, b) => Box::new(Targets::new().with_target("a", lf(a)).with_target("b", lf(b))),
            Spec::Env(a, b) => Box::new(EnvFilter::new(format!("a={},b={}", lname(a), lname(b)))),
            Spec::Dyn(x, h) => Box::new(
                DynFilterFn::new(move |m: &Metadata<'_>, _: &Context<'_, S>| rank(m.level()) <= x).with_max_level_hint(lf(h)),
            ),
            Spec::NoneF => Box::new(Option::<LevelFilter>::None),
        }
    }
    fn boxed_filter(&self) -> Box<dyn Filter<Registry> + Send + Sync> {
        match *self {
            Spec::Level(x) | Spec::LvlNh(x) => Box::new(lf(x)),
            Spec::Targets(a, b) => Box::new(Targets::new().with_target("a", lf(a)).with_target("b", lf(b))),
            Spec::Env(a, b) => Box::new(EnvFilter::new(format!("a={},b={}", lname(a), lname(b)))),
            Spec::Dyn(x, h) => Box::new(
                DynFilterFn::new(move |m: &Metadata<'_>, _: &Context<'_, Registry>| rank(m.level()) <= x).with_max_level_hint(lf(h)),
            ),
            Spec::NoneF => Box::new(Option::<LevelFilter>::None),
        }
    }
}

// ------------------------------------------------------------------------------------------------
// global tables, log, thread-locals

thread_local! {
    static TIDX: Cell<u64> = const { Cell::new(CONTROLLER) };
    static DELIVERED: Cell<Option<u64>> = const { Cell::new(None) };
    static GUARDS: RefCell<Vec<DefaultGuard>> = const { RefCell::new(Vec::new()) };
}
static LOG: Mutex<Vec<Vec<u64>>> = Mutex::new(Vec::new());
/// what the operation a worker is executing does at yield point 10: 1 = rebuild_interest_cache (Rebuild, Reload), 2 = register_dispatch (New)
static CUR_W: [std::sync::atomic::AtomicU8; 8] = [const { std::sync::atomic::AtomicU8::new(0) }; 8];
/// lock kinds as calibrated on the repository under check (true = exclusive): rebuild_interest_cache, register_dispatch, register
/// Linux thread ids of the workers (0 = unknown): used to see whether a released thread sleeps in a futex wait (= blocked on a lock)
static TIDS: [std::sync::atomic::AtomicU64; 8] = [const { std::sync::atomic::AtomicU64::new(0) }; 8];
static EXCL: [AtomicBool; 3] = [AtomicBool::new(true), AtomicBool::new(true), AtomicBool::new(false)];
fn log(e: Vec<u64>) {
    LOG.lock().unwrap().push(e);
}
fn tidx() -> u64 {
    TIDX.with(|t| t.get())
}

/// the collector type under the reloadable layer of stack shape `rlayer2`: a hintless layer on the registry
type L2 = tracing_subscriber::subscribe::Layered<NopLayer2, Registry>;
enum RHandle {
    Layer(reload::Handle<Box<dyn Subscribe<Registry> + Send + Sync>>),
    Layer2(reload::Handle<Box<dyn Subscribe<L2> + Send + Sync>>),
    Filt(reload::Handle<Box<dyn Filter<Registry> + Send + Sync>>),
}
struct Tables {
    slots: Vec<Mutex<Option<Dispatch>>>,
    created: Vec<AtomicBool>,
    rhandles: Vec<Mutex<Option<RHandle>>>,
    filters: Vec<Option<Spec>>,
}
static TABLES: OnceLock<Tables> = OnceLock::new();
fn tables() -> &'static Tables {
    TABLES.get().unwrap()
}

/// real state of the DISPATCHERS lock: (a reader could enter, a writer could enter)
#[cfg(h3_lockprobe)]
fn lock_probe() -> Option<(bool, bool)> {
    Some(tracing_core::callsite::__verif_lock_state())
}
#[cfg(not(h3_lockprobe))]
fn lock_probe() -> Option<(bool, bool)> {
    None
}

fn yp(id: u32) {
    tracing_core::__verif::yield_point(id);
}

// ------------------------------------------------------------------------------------------------
// collectors

/// A collector that is nothing but its filter; parks at yield point 81 before answering (the place where
/// a reload layer would read its cell).
struct PlainCollector { spec: Spec }
impl Collect for PlainCollector {
    fn register_callsite(&self, m: &'static Metadata<'static>) -> Interest { yp(81); self.spec.interest(m) }
    fn enabled(&self, m: &Metadata<'_>) -> bool { yp(81); self.spec.enabled(m) }
    fn max_level_hint(&self) -> Option<LevelFilter> { yp(81); self.spec.hint() }
    fn new_span(&self, _: &span::Attributes<'_>) -> span::Id { span::Id::from_u64(1) }
    fn record(&self, _: &span::Id, _: &span::Record<'_>) {}
    fn record_follows_from(&self, _: &span::Id, _: &span::Id) {}
    fn event(&self, _: &Event<'_>) {}
    fn enter(&self, _: &span::Id) {}
    fn exit(&self, _: &span::Id) {}
    fn current_span(&self) -> span::Current { span::Current::none() }
}

/// Observation wrapper at the `Collect` boundary: forwards everything, logs after the inner call returns.
struct Observed<C> { name: u64, inner: C, log_enabled: bool, deliver_here: bool }
impl<C: Collect + 'static> Collect for Observed<C> {
    fn on_register_dispatch(&self, d: &Dispatch) { self.inner.on_register_dispatch(d) }
    fn register_callsite(&self, m: &'static Metadata<'static>) -> Interest {
        let r = self.inner.register_callsite(m);
        log(vec![1, tidx(), self.name, cs_of(m)]);
        r
    }
    fn enabled(&self, m: &Metadata<'_>) -> bool {
        let r = self.inner.enabled(m);
        if self.log_enabled { log(vec![3, tidx(), self.name, cs_of(m), r as u64]); }
        r
    }
    fn max_level_hint(&self) -> Option<LevelFilter> {
        let r = self.inner.max_level_hint();
        log(vec![2, tidx(), self.name]);
        r
    }
    fn new_span(&self, a: &span::Attributes<'_>) -> span::Id {
        if self.deliver_here { DELIVERED.with(|d| d.set(Some(self.name))); }
        self.inner.new_span(a)
    }
    fn record(&self, s: &span::Id, v: &span::Record<'_>) { self.inner.record(s, v) }
    fn record_follows_from(&self, s: &span::Id, f: &span::Id) { self.inner.record_follows_from(s, f) }
    fn event_enabled(&self, e: &Event<'_>) -> bool { self.inner.event_enabled(e) }
    fn event(&self, e: &Event<'_>) {
        if self.deliver_here { DELIVERED.with(|d| d.set(Some(self.name))); }
        self.inner.event(e)
    }
    fn enter(&self, s: &span::Id) { self.inner.enter(s) }
    fn exit(&self, s: &span::Id) { self.inner.exit(s) }
    fn clone_span(&self, id: &span::Id) -> span::Id { self.inner.clone_span(id) }
    #[allow(deprecated)]
    fn drop_span(&self, id: span::Id) { self.inner.drop_span(id) }
    fn try_close(&self, id: span::Id) -> bool { self.inner.try_close(id) }
    fn current_span(&self) -> span::Current { self.inner.current_span() }
    unsafe fn downcast_raw(&self, id: TypeId) -> Option<NonNull<()>> {
        if id == TypeId::of::<Self>() { return Some(NonNull::from(self).cast()); }
        self.inner.downcast_raw(id)
    }
}

/// a layer with no opinion (max_level_hint = None, interested in everything)
struct NopLayer;
impl Subscribe<tracing_subscriber::subscribe::Layered<reload::Subscriber<Box<dyn Subscribe<Registry> + Send + Sync>>, Registry>> for NopLayer {}

/// a layer with no opinion UNDER the reloadable layer (stack shape `rlayer2`: the reloadable layer is not the innermost one)
struct NopLayer2;
impl Subscribe<Registry> for NopLayer2 {}

/// recording layer for the per-layer-filter stack
struct RecLayer { name: u64 }
impl Subscribe<Registry> for RecLayer {
    fn on_event(&self, _: &Event<'_>, _: Context<'_, Registry>) { DELIVERED.with(|d| d.set(Some(self.name))); }
    fn on_new_span(&self, _: &span::Attributes<'_>, _: &span::Id, _: Context<'_, Registry>) {
        DELIVERED.with(|d| d.set(Some(self.name)));
    }
}
/// logs the per-layer filter's `enabled` verdict
struct ObsF<F> { name: u64, inner: F }
impl<F: Filter<Registry>> Filter<Registry> for ObsF<F> {
    fn enabled(&self, m: &Metadata<'_>, cx: &Context<'_, Registry>) -> bool {
        let r = self.inner.enabled(m, cx);
        log(vec![3, tidx(), self.name, cs_of(m), r as u64]);
        r
    }
    fn callsite_enabled(&self, m: &'static Metadata<'static>) -> Interest { self.inner.callsite_enabled(m) }
    fn max_level_hint(&self) -> Option<LevelFilter> { self.inner.max_level_hint() }
    fn event_enabled(&self, e: &Event<'_>, cx: &Context<'_, Registry>) -> bool { self.inner.event_enabled(e, cx) }
    fn on_new_span(&self, a: &span::Attributes<'_>, id: &span::Id, cx: Context<'_, Registry>) { self.inner.on_new_span(a, id, cx) }
    fn on_record(&self, id: &span::Id, v: &span::Record<'_>, cx: Context<'_, Registry>) { self.inner.on_record(id, v, cx) }
    fn on_enter(&self, id: &span::Id, cx: Context<'_, Registry>) { self.inner.on_enter(id, cx) }
    fn on_exit(&self, id: &span::Id, cx: Context<'_, Registry>) { self.inner.on_exit(id, cx) }
    fn on_close(&self, id: span::Id, cx: Context<'_, Registry>) { self.inner.on_close(id, cx) }
}

// ------------------------------------------------------------------------------------------------
// operations

#[derive(Clone, Debug)]
enum Op { Emit(usize), New(usize, usize, u8), Drop(usize), SetDefault(usize), Close, SetGlobal(usize), Rebuild, Reload(usize, usize) }

fn parse_op(s: &str) -> Option<Op> {
    let w: Vec<&str> = s.split_whitespace().collect();
    let n = |i: usize| w.get(i).and_then(|x| x.parse::<usize>().ok());
    Some(match *w.first()? {
        "emit" => Op::Emit(n(1)?),
        "new" => Op::New(n(1)?, n(2)?, match *w.get(3)? { "plain" => 0, "rlayer" => 1, "rfilter" => 2, "rlayer2" => 3, _ => return None }),
        "drop" => Op::Drop(n(1)?),
        "setdefault" => Op::SetDefault(n(1)?),
        "close" => Op::Close,
        "setglobal" => Op::SetGlobal(n(1)?),
        "rebuild" => Op::Rebuild,
        "reload" => Op::Reload(n(1)?, n(2)?),
        _ => return None,
    })
}

fn spec_of(fid: usize) -> Spec {
    tables().filters.get(fid).copied().flatten().unwrap_or(Spec::Level(0))
}

fn run_op(op: &Op) {
    let t = tidx();
    let tb = tables();
    if (t as usize) < CUR_W.len() {
        CUR_W[t as usize].store(match *op { Op::New(..) => 2, Op::Rebuild | Op::Reload(..) => 1, _ => 0 }, Ordering::SeqCst);
    }
    match *op {
        Op::Emit(cs) => {
            DELIVERED.with(|d| d.set(None));
            emit(cs);
            let d = DELIVERED.with(|d| d.get());
            log(vec![4, t, cs as u64, d.map(|c| c + 1).unwrap_or(0)]);
        }
        Op::New(c, fid, kind) => {
            if c >= MAXC || tb.created[c].swap(true, Ordering::SeqCst) { return; }
            let spec = spec_of(fid);
            let name = c as u64;
            let d = match kind {
                0 => Dispatch::new(Observed { name, inner: PlainCollector { spec }, log_enabled: true, deliver_here: true }),
                1 => {
                    let (layer, handle) = reload::Subscriber::new(spec.boxed_layer());
                    *tb.rhandles[c].lock().unwrap() = Some(RHandle::Layer(handle));
                    // NopLayer on top: a stack whose only layer is `None` hints OFF by design (tests/option.rs); with
                    // any other layer present `None` is transparent, which is the documented meaning used by the spec
                    Dispatch::new(Observed { name, inner: Registry::default().with(layer).with(NopLayer), log_enabled: true, deliver_here: true })
                }
                3 => {
                    // the reloadable layer on top of a hintless layer: `Option::None` values must stay transparent
                    // (hint = whatever the rest agrees on) across reloads between Some and None
                    let (layer, handle) = reload::Subscriber::new(spec.boxed_layer_on::<L2>());
                    *tb.rhandles[c].lock().unwrap() = Some(RHandle::Layer2(handle));
                    Dispatch::new(Observed { name, inner: Registry::default().with(NopLayer2).with(layer), log_enabled: true, deliver_here: true })
                }
                _ => {
                    let (filter, handle) = reload::Subscriber::new(spec.boxed_filter());
                    *tb.rhandles[c].lock().unwrap() = Some(RHandle::Filt(handle));
                    let stack = Registry::default().with(RecLayer { name }.with_filter(ObsF { name, inner: filter }));
                    Dispatch::new(Observed { name, inner: stack, log_enabled: false, deliver_here: false })
                }
            };
            *tb.slots[c].lock().unwrap() = Some(d);
        }
        Op::Drop(c) => {
            if c >= MAXC { return; }
            let d = tb.slots[c].lock().unwrap().take();
            drop(d);
        }
        Op::SetDefault(c) => {
            if c >= MAXC { return; }
            let d = tb.slots[c].lock().unwrap().clone();
            if let Some(d) = d {
                let g = dispatch::set_default(&d);
                GUARDS.with(|gs| gs.borrow_mut().push(g));
            }
        }
        Op::Close => {
            let g = GUARDS.with(|gs| gs.borrow_mut().pop());
            drop(g);
        }
        Op::SetGlobal(c) => {
            if c >= MAXC { return; }
            let d = tb.slots[c].lock().unwrap().clone();
            if let Some(d) = d {
                let ok = dispatch::set_global_default(d).is_ok();
                log(vec![5, t, c as u64, ok as u64]);
            }
        }
        Op::Rebuild => tracing_core::callsite::rebuild_interest_cache(),
        Op::Reload(c, fid) => {
            if c >= MAXC || !tb.created[c].load(Ordering::SeqCst) { return; }
            let spec = spec_of(fid);
            // clone the handle out so that no harness mutex is held across a yield point
            let h = match tb.rhandles[c].lock().unwrap().as_ref() {
                Some(RHandle::Layer(h)) => Some(RHandle::Layer(h.clone())),
                Some(RHandle::Layer2(h)) => Some(RHandle::Layer2(h.clone())),
                Some(RHandle::Filt(h)) => Some(RHandle::Filt(h.clone())),
                None => None,
            };
            let r = match h {
                // `reload(v)` is `modify(|o| *o = v)`; the closure parks at this harness' own yield point 83 first, so that a
                // forced schedule can run other threads while the cell's WRITE lock is held
                Some(RHandle::Layer(h)) => { let v = spec.boxed_layer(); h.modify(move |o| { yp(83); *o = v; }) }
                Some(RHandle::Layer2(h)) => { let v = spec.boxed_layer_on::<L2>(); h.modify(move |o| { yp(83); *o = v; }) }
                Some(RHandle::Filt(h)) => { let v = spec.boxed_filter(); h.modify(move |o| { yp(83); *o = v; }) }
                None => return,
            };
            match r {
                Ok(()) => log(vec![6, t, c as u64, 1]),
                Err(e) if e.is_dropped() => log(vec![6, t, c as u64, 0]),
                Err(_) => log(vec![6, t, c as u64, 2]),
            }
        }
    }
}

// ------------------------------------------------------------------------------------------------
// scheduler

#[derive(Clone, Copy, PartialEq, Debug)]
enum Status { Running, Parked(u32), Done }
struct SchedState { free: bool, status: Vec<Status>, go: Vec<bool>, woke: Vec<bool>, seen: BTreeSet<u32> }
struct Sched { m: Mutex<SchedState>, cv: Condvar }
static SCHED: OnceLock<Sched> = OnceLock::new();

/// the yield points of the code this harness schedules (callsite.rs, metadata.rs set_max, dispatch.rs set_global_default,
/// MacroCallsite, reload.rs) = the `yield_id`s of Dispatch/Sched_Model.v; the set is pinned against the sources by
/// C04_source_points.  Yield points of other subsystems (e.g. 51-56 in the sharded registry, C05's) are not scheduling points here.
const MODEL_YIELDS: [u32; 24] = [10, 19, 20, 29, 30, 31, 32, 40, 41, 42, 44, 50, 60, 61, 62, 63, 64, 70, 71, 72, 80, 81, 82, 83];

fn yield_cb(id: u32) {
    if id != 0 && !MODEL_YIELDS.contains(&id) { return; }   // 0 = between operations (this harness' own point)
    let t = tidx();
    if t == CONTROLLER { return; }
    let t = t as usize;
    let s = SCHED.get().unwrap();
    let mut g = s.m.lock().unwrap();
    g.seen.insert(id);
    if g.free { return; }
    g.status[t] = Status::Parked(id);
    s.cv.notify_all();
    while !g.go[t] && !g.free {
        g = s.cv.wait(g).unwrap();
    }
    g.go[t] = false;
    g.woke[t] = true;      // acknowledged: from here on a futex sleep of this thread is a lock wait, not this condvar
    g.status[t] = Status::Running;
}

fn panic_msg(e: Box<dyn std::any::Any + Send>) -> String {
    if let Some(s) = e.downcast_ref::<&str>() { s.to_string() } else if let Some(s) = e.downcast_ref::<String>() { s.clone() } else { "?".into() }
}
fn jstr(s: &str) -> String {
    let mut o = String::from("\"");
    for ch in s.chars() {
        match ch {
            '"' => o.push_str("\\\""),
            '\\' => o.push_str("\\\\"),
            c if (c as u32) < 0x20 => o.push(' '),
            c => o.push(c),
        }
    }
    o.push('"');
    o
}
fn jev(ev: &[Vec<u64>]) -> String {
    let items: Vec<String> = ev.iter().map(|e| format!("[{}]", e.iter().map(|x| x.to_string()).collect::<Vec<_>>().join(","))).collect();
    format!("[{}]", items.join(","))
}
fn out(line: String) {
    let so = std::io::stdout();
    let mut l = so.lock();
    let _ = writeln!(l, "{}", line);
    let _ = l.flush();
}

enum Msg { Do(Op), Phase1 }

/// is the OS thread sleeping in a futex wait right now?  (/proc/self/task/<tid>/syscall starts with the futex syscall number)
fn in_futex_wait(t: usize) -> bool {
    let tid = if t < TIDS.len() { TIDS[t].load(Ordering::SeqCst) } else { 0 };
    if tid == 0 { return false; }
    let nr = if cfg!(target_arch = "x86_64") { "202" } else if cfg!(target_arch = "aarch64") { "98" } else { return false };
    match std::fs::read_to_string(format!("/proc/self/task/{}/syscall", tid)) {
        Ok(s) => s.split_whitespace().next() == Some(nr),
        Err(_) => false,
    }
}

fn worker(t: usize, prog: Vec<Op>, rx: Receiver<Msg>, done: Sender<usize>) {
    TIDX.with(|x| x.set(t as u64));
    if let Ok(l) = std::fs::read_link("/proc/thread-self") {
        if let Some(tid) = l.file_name().and_then(|x| x.to_str()).and_then(|x| x.parse::<u64>().ok()) {
            if t < TIDS.len() { TIDS[t].store(tid, Ordering::SeqCst); }
        }
    }
    // phase 0: quiescent set-up ops, until the controller starts phase 1
    loop {
        match rx.recv() {
            Ok(Msg::Do(op)) => {
                if let Err(e) = catch_unwind(AssertUnwindSafe(|| run_op(&op))) {
                    out(format!("{{\"k\":\"panic\",\"t\":{},\"phase\":0,\"msg\":{}}}", t, jstr(&panic_msg(e))));
                }
                let _ = done.send(t);
            }
            Ok(Msg::Phase1) => break,
            Err(_) => return,
        }
    }
    for op in prog.iter() {
        yield_cb(0);
        if let Err(e) = catch_unwind(AssertUnwindSafe(|| run_op(op))) {
            out(format!("{{\"k\":\"panic\",\"t\":{},\"phase\":1,\"msg\":{}}}", t, jstr(&panic_msg(e))));
        }
    }
    {
        let s = SCHED.get().unwrap();
        let mut g = s.m.lock().unwrap();
        g.status[t] = Status::Done;
        s.cv.notify_all();
    }
    while let Ok(msg) = rx.recv() {
        let op = match msg { Msg::Do(op) => op, Msg::Phase1 => continue };
        if let Err(e) = catch_unwind(AssertUnwindSafe(|| run_op(&op))) {
            out(format!("{{\"k\":\"panic\",\"t\":{},\"phase\":2,\"msg\":{}}}", t, jstr(&panic_msg(e))));
        }
        let _ = done.send(t);
    }
}

fn main() {
    let path = std::env::args().nth(1).expect("case file");
    let text = std::fs::read_to_string(&path).expect("read case");
    let mut nthreads = 1usize;
    let mut filters: Vec<Option<Spec>> = vec![None; 64];
    let mut progs: Vec<Vec<Op>> = Vec::new();
    let mut sched: Vec<usize> = Vec::new();
    let mut hist: Vec<(usize, Op)> = Vec::new();
    let mut pre: Vec<(usize, Op)> = Vec::new();
    let mut calibrate = false;
    for (ln, line) in text.lines().enumerate() {
        let line = line.split('#').next().unwrap().trim();
        if line.is_empty() { continue; }
        let (kw, rest) = line.split_once(' ').unwrap_or((line, ""));
        let bad = || -> ! {
            out(format!("{{\"k\":\"badcase\",\"line\":{}}}", ln + 1));
            std::process::exit(2)
        };
        match kw {
            "threads" => nthreads = rest.trim().parse().unwrap_or_else(|_| bad()),
            // `locks K K K` (K = excl | shared): the kind of lock rebuild_interest_cache / register_dispatch / register take on the
            // dispatcher list in the repository under check, as measured by a `calibrate` case; decides when a thread parked
            // before such an acquisition is runnable
            "locks" => {
                let w: Vec<&str> = rest.split_whitespace().collect();
                if w.len() != 3 { bad() }
                for (i, k) in w.iter().enumerate() { EXCL[i].store(match *k { "excl" => true, "shared" => false, _ => bad() }, Ordering::SeqCst); }
            }
            // `calibrate`: thread 1 is run until it sits inside `register` holding its lock, thread 0 until it is parked before its
            // acquisition; then thread 0 is released REGARDLESS of the lock state and given 400 ms to reach its next yield point
            "calibrate" => calibrate = true,
            "filter" => {
                let w: Vec<&str> = rest.split_whitespace().collect();
                let n = |i: usize| -> u8 { w.get(i).and_then(|x| x.parse::<u8>().ok()).unwrap_or_else(|| bad()) };
                let fid = n(0) as usize;
                let spec = match *w.get(1).unwrap_or_else(|| bad()) {
                    "level" => Spec::Level(n(2)),
                    "lvlnh" => Spec::LvlNh(n(2)),
                    "targets" => Spec::Targets(n(2), n(3)),
                    "env" => Spec::Env(n(2), n(3)),
                    "dyn" => Spec::Dyn(n(2), n(3)),
                    "none" => Spec::NoneF,
                    _ => bad(),
                };
                if fid >= filters.len() { bad() }
                filters[fid] = Some(spec);
            }
            "prog" => {
                let (t, ops) = rest.trim().split_once(' ').unwrap_or((rest.trim(), ""));
                let t: usize = t.parse().unwrap_or_else(|_| bad());
                while progs.len() <= t { progs.push(Vec::new()); }
                for o in ops.split(';') {
                    if o.trim().is_empty() { continue; }
                    progs[t].push(parse_op(o).unwrap_or_else(|| bad()));
                }
            }
            "sched" => sched.extend(rest.split_whitespace().map(|x| x.parse::<usize>().unwrap_or_else(|_| bad()))),
            "hist" | "pre" => {
                let (t, o) = rest.trim().split_once(' ').unwrap_or_else(|| bad());
                let item = (t.parse().unwrap_or_else(|_| bad()), parse_op(o).unwrap_or_else(|| bad()));
                if kw == "pre" { pre.push(item) } else { hist.push(item) }
            }
            _ => bad(),
        }
    }
    while progs.len() < nthreads { progs.push(Vec::new()); }
    let _ = TABLES.set(Tables {
        slots: (0..MAXC).map(|_| Mutex::new(None)).collect(),
        created: (0..MAXC).map(|_| AtomicBool::new(false)).collect(),
        rhandles: (0..MAXC).map(|_| Mutex::new(None)).collect(),
        filters,
    });
    out(format!(
        "{{\"k\":\"pool\",\"cs\":[{}]}}",
        POOL.iter().map(|(l, t, k)| format!("[{},\"{}\",{}]", l, t, k)).collect::<Vec<_>>().join(",")
    ));
    let has_phase1 = progs.iter().any(|p| !p.is_empty());
    let _ = SCHED.set(Sched {
        m: Mutex::new(SchedState { free: true, status: vec![Status::Running; nthreads], go: vec![false; nthreads], woke: vec![true; nthreads], seen: BTreeSet::new() }),
        cv: Condvar::new(),
    });
    tracing_core::__verif::set_yield(Some(Box::new(yield_cb)));
    let s = SCHED.get().unwrap();

    let (done_tx, done_rx) = channel::<usize>();
    let mut op_tx: Vec<Sender<Msg>> = Vec::new();
    for t in 0..nthreads {
        let (tx, rx) = channel::<Msg>();
        op_tx.push(tx);
        let prog = progs[t].clone();
        let d = done_tx.clone();
        std::thread::Builder::new().name(format!("w{}", t)).spawn(move || worker(t, prog, rx, d)).unwrap();
    }

    // wait until thread t is parked or done; None = timeout
    let settle = |t: usize| -> Option<Status> {
        let deadline = Instant::now() + WAIT;
        let mut g = s.m.lock().unwrap();
        loop {
            match g.status[t] {
                Status::Running => {}
                st => return Some(st),
            }
            let now = Instant::now();
            if now >= deadline { return None; }
            g = s.cv.wait_timeout(g, deadline - now).unwrap().0;
        }
    };
    // like settle, but also recognises a thread that is blocked on a lock in the OS: status Running and steadily (12 polls, >= 60 ms)
    // sleeping in a futex wait.  Some(None) = blocked.
    let settle_b = |t: usize| -> Option<Option<Status>> {
        let deadline = Instant::now() + WAIT;
        let mut steady = 0u32;
        let mut g = s.m.lock().unwrap();
        loop {
            match g.status[t] {
                Status::Running => {}
                st => return Some(Some(st)),
            }
            let now = Instant::now();
            if now >= deadline { return None; }
            g = s.cv.wait_timeout(g, Duration::from_millis(5)).unwrap().0;
            if g.status[t] == Status::Running {
                let woke = g.woke[t];
                drop(g);
                // only a thread that has acknowledged its release can be asleep on a LOCK (before that it sleeps on the scheduler's condvar)
                if woke && in_futex_wait(t) { steady += 1 } else { steady = 0 }
                if steady >= 20 { return Some(None); }
                g = s.m.lock().unwrap();
            }
        }
    };
    let hang = |t: usize, i: i64, phase: u8| -> ! {
        let g = s.m.lock().unwrap();
        let st: Vec<String> = g.status.iter().map(|x| format!("{:?}", x)).collect();
        out(format!("{{\"k\":\"hang\",\"t\":{},\"after_entry\":{},\"phase\":{},\"status\":{}}}", t, i, phase, jstr(&st.join(" "))));
        std::process::exit(3)
    };

    // quiescent histories (phase 0 = pre, phase 2 = hist)
    let run_hist = |items: &[(usize, Op)], phase: u8| {
        for (i, (t, op)) in items.iter().enumerate() {
            if *t >= nthreads { continue; }
            let before = LOG.lock().unwrap().len();
            op_tx[*t].send(Msg::Do(op.clone())).unwrap();
            match done_rx.recv_timeout(WAIT) {
                Ok(_) => {}
                Err(_) => hang(*t, i as i64, phase),
            }
            let ev: Vec<Vec<u64>> = LOG.lock().unwrap()[before..].to_vec();
            out(format!("{{\"k\":\"op\",\"ph\":{},\"i\":{},\"st\":0,\"ev\":{},\"max\":{}}}", phase, i, jev(&ev), lf_rank(LevelFilter::current())));
        }
    };
    run_hist(&pre, 0);
    let log0 = LOG.lock().unwrap().len();
    {
        let mut g = s.m.lock().unwrap();
        g.free = !has_phase1;
    }
    for t in 0..nthreads { op_tx[t].send(Msg::Phase1).unwrap(); }

    if has_phase1 && calibrate {
        for t in 0..nthreads {
            if settle(t).is_none() { hang(t, -1, 1); }
        }
        let release = |t: usize| {
            let mut g = s.m.lock().unwrap();
            g.status[t] = Status::Running;
            g.woke[t] = false;
            g.go[t] = true;
            s.cv.notify_all();
        };
        // thread 1 into `register`, holding its lock (parked at 31 = before set_interest; 30 if a dispatcher exists)
        let mut inside = false;
        for _ in 0..12 {
            match s.m.lock().unwrap().status[1] { Status::Parked(30) | Status::Parked(31) => { inside = true; break; } Status::Done => break, _ => {} }
            release(1);
            if settle(1).is_none() { hang(1, -2, 1); }
        }
        // thread 0 up to the point before its acquisition
        let mut before = 0u32;
        for _ in 0..6 {
            match s.m.lock().unwrap().status[0] { Status::Parked(id @ (10 | 20)) => { before = id; break; } Status::Done => break, _ => {} }
            release(0);
            if settle(0).is_none() { hang(0, -3, 1); }
        }
        let mut shared: Option<bool> = None;
        if inside && before != 0 {
            release(0);
            let deadline = Instant::now() + Duration::from_millis(400);
            let mut g = s.m.lock().unwrap();
            loop {
                match g.status[0] { Status::Running => {} _ => { shared = Some(true); break; } }
                let now = Instant::now();
                if now >= deadline { shared = Some(false); break; }
                g = s.cv.wait_timeout(g, deadline - now).unwrap().0;
            }
        }
        out(format!("{{\"k\":\"calib\",\"inside\":{},\"before\":{},\"shared\":{}}}", inside, before,
                    match shared { Some(true) => "true", Some(false) => "false", None => "null" }));
        {
            let mut g = s.m.lock().unwrap();
            g.free = true;
            s.cv.notify_all();
        }
        let deadline = Instant::now() + WAIT;
        loop {
            if s.m.lock().unwrap().status.iter().all(|x| *x == Status::Done) { break; }
            if Instant::now() >= deadline { hang(0, -4, 1); }
            std::thread::sleep(Duration::from_millis(5));
        }
        out("{\"k\":\"drained\"}".to_string());
    } else if has_phase1 {
        for t in 0..nthreads {
            if settle(t).is_none() { hang(t, -1, 1); }
        }
        let mut ys: Vec<u32> = Vec::with_capacity(sched.len());
        let (mut sh_writer, mut sh_readers): (Option<usize>, i64) = (None, 0);
        // threads released into a lock acquisition that did not succeed: asleep in the OS until the lock is free
        let mut blocked: Vec<bool> = vec![false; nthreads];
        for (i, &e) in sched.iter().enumerate() {
            // an entry 100 + t releases thread t REGARDLESS of the lock state (it may then block in the OS): oracle-only schedules
            let (t, forced) = if e >= 100 { (e - 100, true) } else { (e, false) };
            if t >= nthreads { ys.push(998); continue; }
            let st = s.m.lock().unwrap().status[t];
            if blocked[t] {
                if st == Status::Running { ys.push(998); continue; }
                // the lock was freed meanwhile and the thread has run on to its next yield point by itself: this entry accounts for
                // that step (it is not released again)
                blocked[t] = false;
                ys.push(match st { Status::Parked(id) => id, _ => 0 });
                continue;
            }
            let (can_read, can_write) = lock_probe().unwrap_or((sh_writer.is_none(), sh_writer.is_none() && sh_readers == 0));
            let wants_excl = |t: usize, id: u32| -> bool {
                if id == 20 { EXCL[2].load(Ordering::SeqCst) }
                else if t < CUR_W.len() && CUR_W[t].load(Ordering::SeqCst) == 2 { EXCL[1].load(Ordering::SeqCst) }
                else { EXCL[0].load(Ordering::SeqCst) }
            };
            let runnable = match st {
                Status::Done | Status::Running => false,
                Status::Parked(id @ (10 | 20)) => forced || if wants_excl(t, id) { can_write } else { can_read },
                Status::Parked(_) => true,
            };
            if !runnable { ys.push(998); continue; }
            match st {
                Status::Parked(id @ (10 | 20)) => if wants_excl(t, id) { sh_writer = Some(t) } else { sh_readers += 1 },
                Status::Parked(19) | Status::Parked(29) => if sh_writer == Some(t) { sh_writer = None } else { sh_readers -= 1 },
                _ => {}
            }
            {
                let mut g = s.m.lock().unwrap();
                g.status[t] = Status::Running;
                g.woke[t] = false;
                g.go[t] = true;
                s.cv.notify_all();
            }
            match settle_b(t) {
                None => hang(t, i as i64, 1),
                Some(None) => { blocked[t] = true; ys.push(996); }
                Some(Some(Status::Parked(id))) => ys.push(id),
                Some(Some(_)) => ys.push(0),
            }
            // threads that were blocked may have been woken by this step: wait until each is parked again, done, or asleep again
            for u in 0..nthreads {
                if u != t && blocked[u] {
                    match settle_b(u) { None => hang(u, i as i64, 1), Some(None) => {}, Some(Some(_)) => {} }
                }
            }
            // every unfinished thread asleep on a lock, nobody left to release one: a deadlock
            let all_stuck = {
                let g = s.m.lock().unwrap();
                (0..nthreads).all(|u| g.status[u] == Status::Done || (blocked[u] && g.status[u] == Status::Running))
                    && (0..nthreads).any(|u| g.status[u] != Status::Done)
            };
            if all_stuck {
                out(format!("{{\"k\":\"yields\",\"y\":[{}]}}", ys.iter().map(|x| x.to_string()).collect::<Vec<_>>().join(",")));
                let g = s.m.lock().unwrap();
                let stv: Vec<String> = g.status.iter().map(|x| format!("{:?}", x)).collect();
                out(format!("{{\"k\":\"hang\",\"t\":{},\"after_entry\":{},\"phase\":1,\"deadlock\":true,\"status\":{}}}", t, i,
                            jstr(&format!("every unfinished thread is asleep on a lock: {}", stv.join(" ")))));
                std::process::exit(3)
            }
        }
        let all_done = s.m.lock().unwrap().status.iter().all(|x| *x == Status::Done);
        out(format!("{{\"k\":\"yields\",\"y\":[{}]}}", ys.iter().map(|x| x.to_string()).collect::<Vec<_>>().join(",")));
        out(format!("{{\"k\":\"sched_log\",\"ev\":{}}}", jev(&LOG.lock().unwrap()[log0..])));
        let stuck = !all_done && {
            let (can_read, can_write) = lock_probe().unwrap_or((true, true));
            s.m.lock().unwrap().status.iter().all(|x| match x {
                Status::Done => true,
                Status::Parked(10) => !(if EXCL[0].load(Ordering::SeqCst) || EXCL[1].load(Ordering::SeqCst) { can_write } else { can_read }),
                Status::Parked(20) => !(if EXCL[2].load(Ordering::SeqCst) { can_write } else { can_read }),
                _ => false,
            })
        };
        out(format!("{{\"k\":\"finished\",\"v\":{},\"max\":{},\"deadlock\":{},\"probe\":{}}}", all_done, lf_rank(LevelFilter::current()), stuck, lock_probe().is_some()));
        {
            let mut g = s.m.lock().unwrap();
            g.free = true;
            s.cv.notify_all();
        }
        if !all_done {
            // let everybody run freely to the end of its program so that phase 2 can use the threads
            let deadline = Instant::now() + WAIT;
            let mut g = s.m.lock().unwrap();
            while !g.status.iter().all(|x| *x == Status::Done) {
                let now = Instant::now();
                if now >= deadline { drop(g); hang(0, sched.len() as i64, 1); }
                g = s.cv.wait_timeout(g, deadline - now).unwrap().0;
            }
            drop(g);
            out("{\"k\":\"drained\"}".to_string());
        }
    }

    run_hist(&hist, 2);
    {
        let g = s.m.lock().unwrap();
        let core = g.seen.iter().any(|&x| x >= 10 && x != 81);
        out(format!("{{\"k\":\"hooks\",\"core\":{},\"seen\":[{}]}}", core, g.seen.iter().map(|x| x.to_string()).collect::<Vec<_>>().join(",")));
    }
    std::process::exit(0);
}
