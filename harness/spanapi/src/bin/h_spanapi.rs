//! C03 harness: interprets span-API programs (data) through the REAL `tracing` / `tracing-futures` API under
//! recording collectors, one OS thread per program thread, driven op by op by a controller.
//!
//! stdin : one JSON case per line  {"id":k,"threads":T,"collectors":K,"wraps":[w1..wK],"ops":[[t,code,a,b,c,d,e],...]}
//!         collector k is installed as Dispatch::new(Rec) (w = 0), Box<Rec> (1), Arc<Rec> (2), Box<dyn Collect + Send + Sync>
//!         (3) or Arc<dyn Collect + Send + Sync> (4); collectors 3.. hand out a fresh id per handle from clone_span and
//!         do not track the current span; "own_ids": true = every collector numbers its spans from 1 (the ids tracing sees
//!         overlap between collectors); the log always shows the global sequence number of an id
//! stdout: one JSON line per case  {"id":k,"rejected_at":-1|i,"ops":[{"e":[[c,t,tag,id,x,y],..],"res":r,"dr":d,"pre":p}],"fatal":null|".."}
//!
//! Design choices (see notes/C03.md):
//!  * every `Span` lives in a `Box` whose address is stable; `Entered<'_>` guards are created from a raw pointer to
//!    that box (so their lifetime is unconstrained) and kept in a per-thread arena, which lets the program drop them
//!    in any order.  This is sound because the controller validates every op against the same ownership rules the
//!    Coq model's `compile` encodes (a holder is never dropped / moved / consumed while anything borrows it), and
//!    refuses the first op that rustc would refuse.
//!  * `in_scope` bodies and `Instrumented::poll` bodies are *re-entrant op loops*: the closure / the inner future's
//!    `poll` keeps executing controller commands until the matching ScopeEnd / PollEnd arrives, then returns, or
//!    unwinds with a panic, as the op says.
//!  * the recording collectors share one id counter (ids of different collectors are disjoint) and one log.
use std::cell::{Cell, RefCell};
use std::collections::{HashMap, HashSet};
use std::future::Future;
use std::io::{BufRead, Write};
use std::panic::{self, AssertUnwindSafe};
use std::pin::Pin;
use std::sync::atomic::{AtomicBool, AtomicU64, Ordering};
use std::sync::mpsc::{channel, Receiver, Sender};
use std::sync::{Arc, Mutex};
use std::task::{Context, Poll, Waker};
use std::time::Duration;

use tracing::dispatch::{self, DefaultGuard};
use tracing::span::{Attributes, Entered, EnteredSpan, Id, Record};
use tracing::{Dispatch, Level, Metadata, Span};
use tracing_core::collect::{Collect, Interest};
use tracing_core::span::Current;

type LogE = [u64; 6];

struct Shared {
    log: Mutex<Vec<LogE>>,
    next_id: AtomicU64,
    recording: AtomicBool,
    /// every collector hands tracing ids from its own counter (1, 2, ..); the log is written in global sequence numbers
    own_ids: bool,
    /// one-shot fault: the next `exit` callback any recording collector receives unwinds (after it has recorded the call
    /// and updated its stack); armed by the fault ops 30..33, disarmed when it fires
    armed: AtomicBool,
}

thread_local! {
    static TID: Cell<u64> = Cell::new(99);
    static ENABLED: Cell<bool> = Cell::new(true);
}

impl Shared {
    fn push(&self, e: LogE) {
        if self.recording.load(Ordering::SeqCst) {
            self.log.lock().unwrap().push(e);
        }
    }
}

struct Rec {
    name: u64,
    /// clone_span returns a fresh id (an alias of the same span) and current_span is the trait's default (unknown)
    per_handle: bool,
    shared: Arc<Shared>,
    stacks: Mutex<HashMap<u64, Vec<u64>>>,
    metas: Mutex<HashMap<u64, &'static Metadata<'static>>>,
    local_next: AtomicU64,
    l2g: Mutex<HashMap<u64, u64>>,
    /// alias collectors: id -> the id new_span returned for its span; span -> its aliases in order of issue; ids closed
    roots: Mutex<HashMap<u64, u64>>,
    aliases: Mutex<HashMap<u64, Vec<u64>>>,
    closed: Mutex<HashSet<u64>>,
}

impl Rec {
    fn new(name: u64, per_handle: bool, shared: Arc<Shared>) -> Rec {
        Rec {
            name,
            per_handle,
            shared,
            stacks: Mutex::new(HashMap::new()),
            metas: Mutex::new(HashMap::new()),
            local_next: AtomicU64::new(1),
            l2g: Mutex::new(HashMap::new()),
            roots: Mutex::new(HashMap::new()),
            aliases: Mutex::new(HashMap::new()),
            closed: Mutex::new(HashSet::new()),
        }
    }
    fn call(&self, tag: u64, id: u64, x: u64, y: u64) {
        self.shared.push([self.name, TID.with(|t| t.get()), tag, id, x, y]);
    }
    /// the span an id denotes (the id itself for a collector that hands out no aliases)
    fn root(&self, id: u64) -> u64 {
        self.roots.lock().unwrap().get(&id).copied().unwrap_or(id)
    }
    /// the global sequence number of an id this collector handed out (the id itself when ids are shared)
    fn g(&self, id: u64) -> u64 {
        if self.shared.own_ids {
            self.l2g.lock().unwrap().get(&id).copied().unwrap_or(id)
        } else {
            id
        }
    }
    /// a fresh id: (what tracing gets, its global sequence number)
    fn fresh(&self) -> (u64, u64) {
        let global = self.shared.next_id.fetch_add(1, Ordering::SeqCst);
        if self.shared.own_ids {
            let local = self.local_next.fetch_add(1, Ordering::SeqCst);
            self.l2g.lock().unwrap().insert(local, global);
            (local, global)
        } else {
            (global, global)
        }
    }
}

impl Collect for Rec {
    fn register_callsite(&self, _: &'static Metadata<'static>) -> Interest {
        Interest::sometimes()
    }
    fn enabled(&self, _: &Metadata<'_>) -> bool {
        ENABLED.with(|e| e.get())
    }
    fn new_span(&self, attrs: &Attributes<'_>) -> Id {
        let (id, global) = self.fresh();
        let (x, y) = if attrs.is_root() {
            (0, 0)
        } else if attrs.is_contextual() {
            (1, 0)
        } else {
            // with own ids the parent may be an id of another collector: it cannot be named globally (the driver masks it)
            (2, if self.shared.own_ids { 0 } else { attrs.parent().map(|p| p.into_u64()).unwrap_or(0) })
        };
        self.metas.lock().unwrap().insert(id, attrs.metadata());
        if self.per_handle {
            self.roots.lock().unwrap().insert(id, id);
            self.aliases.lock().unwrap().insert(id, vec![id]);
        }
        self.call(1, global, x, y);
        Id::from_u64(id)
    }
    fn clone_span(&self, id: &Id) -> Id {
        if self.per_handle {
            let (new, global) = self.fresh();
            let meta = self.metas.lock().unwrap().get(&id.into_u64()).copied();
            if let Some(m) = meta {
                self.metas.lock().unwrap().insert(new, m);
            }
            let root = self.root(id.into_u64());
            self.roots.lock().unwrap().insert(new, root);
            self.aliases.lock().unwrap().entry(root).or_default().push(new);
            self.call(2, self.g(id.into_u64()), global, 0);
            Id::from_u64(new)
        } else {
            self.call(2, self.g(id.into_u64()), self.g(id.into_u64()), 0);
            id.clone()
        }
    }
    fn try_close(&self, id: Id) -> bool {
        self.call(3, self.g(id.into_u64()), 0, 0);
        if self.per_handle {
            self.closed.lock().unwrap().insert(id.into_u64());
        }
        false
    }
    fn enter(&self, id: &Id) {
        self.call(4, self.g(id.into_u64()), 0, 0);
        let t = TID.with(|t| t.get());
        // the stack is a stack of SPANS (for a collector without aliases a span is its id)
        self.stacks.lock().unwrap().entry(t).or_default().push(self.root(id.into_u64()));
    }
    fn exit(&self, id: &Id) {
        self.call(5, self.g(id.into_u64()), 0, 0);
        let t = TID.with(|t| t.get());
        let mut st = self.stacks.lock().unwrap();
        let v = st.entry(t).or_default();
        let span = self.root(id.into_u64());
        if let Some(p) = v.iter().rposition(|x| *x == span) {
            v.remove(p);
        }
        drop(st);
        if self.shared.armed.swap(false, Ordering::SeqCst) {
            panic::resume_unwind(Box::new(Unwind)); // no panic hook, no message: a collector whose exit hook panics
        }
    }
    fn record(&self, id: &Id, _: &Record<'_>) {
        self.call(6, self.g(id.into_u64()), 0, 0);
    }
    fn record_follows_from(&self, id: &Id, from: &Id) {
        self.call(7, self.g(id.into_u64()), if self.shared.own_ids { 0 } else { from.into_u64() }, 0);
    }
    fn event(&self, _: &tracing::Event<'_>) {}
    fn current_span(&self) -> Current {
        let t = TID.with(|t| t.get());
        let st = self.stacks.lock().unwrap();
        let top = st.get(&t).and_then(|v| v.last().copied());
        // an alias collector names the current span by the newest alias it issued for it and has not seen closed
        let top = match top {
            Some(span) if self.per_handle => {
                let closed = self.closed.lock().unwrap();
                let al = self.aliases.lock().unwrap();
                Some(al.get(&span).and_then(|v| v.iter().rev().find(|a| !closed.contains(a)).copied()).unwrap_or(span))
            }
            other => other,
        };
        match top {
            Some(id) => match self.metas.lock().unwrap().get(&id) {
                Some(m) => Current::new(Id::from_u64(id), m),
                None => Current::none(),
            },
            None => Current::none(),
        }
    }
}

// ---------------------------------------------------------------------------------------------------------------
// futures

struct Inner {
    name: u64,
    shared: Arc<Shared>,
}

thread_local! {
    /// the name the next `Inner::clone` gives its result (Clone for Instrumented / WithDispatch clones the inner future)
    static CLONE_NAME: Cell<u64> = Cell::new(0);
}

impl Clone for Inner {
    fn clone(&self) -> Self {
        Inner { name: CLONE_NAME.with(|c| c.get()), shared: self.shared.clone() }
    }
}

impl Inner {
    fn touch(&self) {
        self.shared.push([0, TID.with(|t| t.get()), 10, self.name, 0, 0]);
    }
    fn touch_mut(&mut self) {
        self.shared.push([0, TID.with(|t| t.get()), 10, self.name, 0, 0]);
    }
}

impl Future for Inner {
    type Output = ();
    fn poll(self: Pin<&mut Self>, _: &mut Context<'_>) -> Poll<()> {
        // the body of the poll: a marker, then whatever ops the controller sends until PollEnd
        self.shared.push([0, TID.with(|t| t.get()), 8, self.name, 0, 0]);
        let ctx = CTX.with(|c| c.borrow().clone()).expect("poll outside a worker");
        ctx.ack(Ack::Done(0, 0, 0));
        match run_loop(&ctx) {
            Exit::Poll(r, ls) => {
                // the holders this body owns as locals: dropped when it returns — or by the unwind
                let _locals: Vec<Local> = ls.iter().map(|n| take_local(&ctx, *n)).collect();
                match r {
                    0 => Poll::Pending,
                    1 => Poll::Ready(()),
                    _ => panic::resume_unwind(Box::new(Unwind)),
                }
            }
            Exit::Teardown => {
                ctx.teardown.set(true);
                Poll::Pending
            }
            Exit::Scope(..) => unreachable!("controller validates frames"),
        }
    }
}

impl Drop for Inner {
    fn drop(&mut self) {
        self.shared.push([0, TID.with(|t| t.get()), 9, self.name, 0, 0]);
    }
}

/// Every statically typed shape of an instrumented future the op language can build.
trait Fut: Send {
    fn span(&self) -> &Span;
    fn span_mut(&mut self) -> &mut Span;
    fn poll_once(&mut self) -> Poll<()>;
    fn into_inner_drop(self: Box<Self>);
    /// inner() / inner_mut() / inner_pin_ref() / inner_pin_mut()  (k = 0..3), down to the innermost future
    fn touch(&mut self, k: u64);
    fn clone_box(&self) -> Box<dyn Fut>;
    /// `.with_collector(d)` / `.with_current_collector()` around a plain Instrumented
    fn wrap(self: Box<Self>, d: Option<Dispatch>) -> Box<dyn Fut>;
}

fn poll_unpin<F: Future<Output = ()> + Unpin>(f: &mut F) -> Poll<()> {
    let w: &Waker = Waker::noop();
    let mut cx = Context::from_waker(w);
    Pin::new(f).poll(&mut cx)
}

type TI<T> = tracing::instrument::Instrumented<T>;
type TW<T> = tracing::instrument::WithDispatch<T>;
type FI<T> = tracing_futures::Instrumented<T>;
type FW<T> = tracing_futures::WithDispatch<T>;

impl Fut for TI<Inner> {
    fn span(&self) -> &Span {
        TI::span(self)
    }
    fn span_mut(&mut self) -> &mut Span {
        TI::span_mut(self)
    }
    fn poll_once(&mut self) -> Poll<()> {
        poll_unpin(self)
    }
    fn into_inner_drop(self: Box<Self>) {
        let inner = (*self).into_inner();
        drop(inner);
    }
    fn touch(&mut self, k: u64) {
        match k {
            0 => self.inner().touch(),
            1 => self.inner_mut().touch_mut(),
            2 => Pin::new(&*self).inner_pin_ref().get_ref().touch(),
            _ => Pin::new(self).inner_pin_mut().get_mut().touch_mut(),
        }
    }
    fn clone_box(&self) -> Box<dyn Fut> {
        Box::new(self.clone())
    }
    fn wrap(self: Box<Self>, d: Option<Dispatch>) -> Box<dyn Fut> {
        use tracing::instrument::WithCollector;
        match d {
            Some(d) => Box::new((*self).with_collector(d)),
            None => Box::new((*self).with_current_collector()),
        }
    }
}

impl Fut for FI<Inner> {
    fn span(&self) -> &Span {
        FI::span(self)
    }
    fn span_mut(&mut self) -> &mut Span {
        FI::span_mut(self)
    }
    fn poll_once(&mut self) -> Poll<()> {
        poll_unpin(self)
    }
    fn into_inner_drop(self: Box<Self>) {
        let inner = (*self).into_inner();
        drop(inner);
    }
    fn touch(&mut self, k: u64) {
        match k {
            0 => self.inner().touch(),
            1 => self.inner_mut().touch_mut(),
            2 => Pin::new(&*self).inner_pin_ref().get_ref().touch(),
            _ => Pin::new(self).inner_pin_mut().get_mut().touch_mut(),
        }
    }
    fn clone_box(&self) -> Box<dyn Fut> {
        Box::new(self.clone())
    }
    fn wrap(self: Box<Self>, d: Option<Dispatch>) -> Box<dyn Fut> {
        use tracing_futures::WithCollector;
        match d {
            Some(d) => Box::new((*self).with_collector(d)),
            None => Box::new((*self).with_current_collector()),
        }
    }
}

/// Instrumented<WithDispatch<Inner>>
impl Fut for TI<TW<Inner>> {
    fn span(&self) -> &Span {
        TI::span(self)
    }
    fn span_mut(&mut self) -> &mut Span {
        TI::span_mut(self)
    }
    fn poll_once(&mut self) -> Poll<()> {
        poll_unpin(self)
    }
    fn into_inner_drop(self: Box<Self>) {
        let wd = (*self).into_inner();
        drop(wd.into_inner());
    }
    fn touch(&mut self, k: u64) {
        match k {
            0 => self.inner().inner().touch(),
            1 => self.inner_mut().inner_mut().touch_mut(),
            2 => Pin::new(&*self).inner_pin_ref().inner_pin_ref().get_ref().touch(),
            _ => Pin::new(self).inner_pin_mut().inner_pin_mut().get_mut().touch_mut(),
        }
    }
    fn clone_box(&self) -> Box<dyn Fut> {
        Box::new(self.clone())
    }
    fn wrap(self: Box<Self>, _: Option<Dispatch>) -> Box<dyn Fut> {
        panic!("validated: only a plain Instrumented is wrapped")
    }
}

impl Fut for FI<FW<Inner>> {
    fn span(&self) -> &Span {
        FI::span(self)
    }
    fn span_mut(&mut self) -> &mut Span {
        FI::span_mut(self)
    }
    fn poll_once(&mut self) -> Poll<()> {
        poll_unpin(self)
    }
    fn into_inner_drop(self: Box<Self>) {
        let wd = (*self).into_inner();
        drop(wd.into_inner());
    }
    fn touch(&mut self, k: u64) {
        match k {
            0 => self.inner().inner().touch(),
            1 => self.inner_mut().inner_mut().touch_mut(),
            2 => Pin::new(&*self).inner_pin_ref().inner_pin_ref().get_ref().touch(),
            _ => Pin::new(self).inner_pin_mut().inner_pin_mut().get_mut().touch_mut(),
        }
    }
    fn clone_box(&self) -> Box<dyn Fut> {
        Box::new(self.clone())
    }
    fn wrap(self: Box<Self>, _: Option<Dispatch>) -> Box<dyn Fut> {
        panic!("validated: only a plain Instrumented is wrapped")
    }
}

/// WithDispatch<Instrumented<Inner>>
impl Fut for TW<TI<Inner>> {
    fn span(&self) -> &Span {
        self.inner().span()
    }
    fn span_mut(&mut self) -> &mut Span {
        self.inner_mut().span_mut()
    }
    fn poll_once(&mut self) -> Poll<()> {
        poll_unpin(self)
    }
    fn into_inner_drop(self: Box<Self>) {
        let instrumented = (*self).into_inner();
        drop(instrumented.into_inner());
    }
    fn touch(&mut self, k: u64) {
        match k {
            0 => self.inner().inner().touch(),
            1 => self.inner_mut().inner_mut().touch_mut(),
            2 => Pin::new(&*self).inner_pin_ref().inner_pin_ref().get_ref().touch(),
            _ => Pin::new(self).inner_pin_mut().inner_pin_mut().get_mut().touch_mut(),
        }
    }
    fn clone_box(&self) -> Box<dyn Fut> {
        Box::new(self.clone())
    }
    fn wrap(self: Box<Self>, _: Option<Dispatch>) -> Box<dyn Fut> {
        panic!("validated: only a plain Instrumented is wrapped")
    }
}

impl Fut for FW<FI<Inner>> {
    fn span(&self) -> &Span {
        self.inner().span()
    }
    fn span_mut(&mut self) -> &mut Span {
        self.inner_mut().span_mut()
    }
    fn poll_once(&mut self) -> Poll<()> {
        poll_unpin(self)
    }
    fn into_inner_drop(self: Box<Self>) {
        let instrumented = (*self).into_inner();
        drop(instrumented.into_inner());
    }
    fn touch(&mut self, k: u64) {
        match k {
            0 => self.inner().inner().touch(),
            1 => self.inner_mut().inner_mut().touch_mut(),
            2 => Pin::new(&*self).inner_pin_ref().inner_pin_ref().get_ref().touch(),
            _ => Pin::new(self).inner_pin_mut().inner_pin_mut().get_mut().touch_mut(),
        }
    }
    fn clone_box(&self) -> Box<dyn Fut> {
        Box::new(self.clone())
    }
    fn wrap(self: Box<Self>, _: Option<Dispatch>) -> Box<dyn Fut> {
        panic!("validated: only a plain Instrumented is wrapped")
    }
}

// ---------------------------------------------------------------------------------------------------------------
// holders shared by all threads (Span: Send + Sync; &EnteredSpan: Sync; Instrumented<Inner>: Send + Sync)

enum Holder {
    Handle(Box<Span>),
    Owned(*const Span, *const EnteredSpan), // the EnteredSpan itself lives in its thread's arena (it is !Send)
    Fut(Box<dyn Fut>),
    Polling, // taken out of the table by the running poll
}

struct Tables {
    holders: HashMap<u64, Holder>,
}
unsafe impl Send for Tables {}

struct Case {
    shared: Arc<Shared>,
    tables: Mutex<Tables>,
    dispatches: Vec<Dispatch>,
}

impl Case {
    fn span_ptr(&self, r: u64) -> *const Span {
        let t = self.tables.lock().unwrap();
        match t.holders.get(&r).expect("validated: live") {
            Holder::Handle(b) => &**b as *const Span,
            Holder::Owned(p, _) => *p,
            Holder::Fut(f) => f.span() as *const Span,
            Holder::Polling => panic!("validated: not polling"),
        }
    }
    fn put(&self, n: u64, s: Span) {
        self.tables.lock().unwrap().holders.insert(n, Holder::Handle(Box::new(s)));
    }
    fn take(&self, n: u64) -> Holder {
        self.tables.lock().unwrap().holders.remove(&n).expect("validated: live")
    }
    fn take_span(&self, n: u64) -> Span {
        match self.take(n) {
            Holder::Handle(b) => *b,
            _ => panic!("validated: plain handle"),
        }
    }
}

// ---------------------------------------------------------------------------------------------------------------
// worker threads

#[derive(Clone, Debug)]
enum Cmd {
    Op(Vec<u64>),
    Teardown,
}
enum Ack {
    Done(u64, u64, u64), // res, dropped, pre   (id+1, 0 = none)
    Fatal(String),
}
enum Exit {
    Scope(bool, Vec<u64>), // unwind?, the holders the closure owns as locals
    Poll(u64, Vec<u64>),
    Teardown,
}

/// A holder moved into a stack frame: dropped when that frame returns or unwinds.
#[allow(dead_code)]
enum Local {
    Handle(Box<Span>),
    Owned(Box<EnteredSpan>),
    Fut(Box<dyn Fut>),
}

fn take_local(ctx: &WorkerCtx, n: u64) -> Local {
    match ctx.case.take(n) {
        Holder::Handle(b) => Local::Handle(b),
        Holder::Owned(..) => Local::Owned(ctx.owned.borrow_mut().remove(&n).expect("validated: owned by this thread")),
        Holder::Fut(f) => Local::Fut(f),
        Holder::Polling => panic!("validated: not polling"),
    }
}
struct Unwind;

struct WorkerCtx {
    case: Arc<Case>,
    rx: Receiver<Cmd>,
    tx: Sender<Ack>,
    guards: RefCell<HashMap<u64, Entered<'static>>>,
    guard_order: RefCell<Vec<u64>>,
    owned: RefCell<HashMap<u64, Box<EnteredSpan>>>,
    defaults: RefCell<Vec<DefaultGuard>>,
    teardown: Cell<bool>,
}

impl WorkerCtx {
    fn ack(&self, a: Ack) {
        let _ = self.tx.send(a);
    }
}

thread_local! {
    static CTX: RefCell<Option<std::rc::Rc<WorkerCtx>>> = RefCell::new(None);
}

struct Metas {
    ctx: &'static Metadata<'static>,
    root: &'static Metadata<'static>,
    child: &'static Metadata<'static>,
}
static METAS: std::sync::OnceLock<Metas> = std::sync::OnceLock::new();

fn mk_ctx() -> Span {
    tracing::span!(Level::INFO, "ctx", f = tracing::field::Empty)
}
fn mk_root() -> Span {
    tracing::span!(parent: None, Level::INFO, "root", f = tracing::field::Empty)
}
fn mk_child(p: &Span) -> Span {
    tracing::span!(parent: p, Level::INFO, "child", f = tracing::field::Empty)
}
fn mk_child_id(p: &Span) -> Span {
    tracing::span!(parent: p.id(), Level::INFO, "child", f = tracing::field::Empty)
}

/// Span::id() + 1 (0 = none), as a global sequence number when the collectors number their spans themselves
fn idp(s: &Span) -> u64 {
    s.with_collector(|(id, d)| match d.downcast_ref::<Rec>() {
        Some(r) => r.g(id.into_u64()) + 1,
        None => id.into_u64() + 1,
    })
    .unwrap_or(0)
}

/// Executes controller commands until the frame this loop runs in is told to end.
fn run_loop(ctx: &std::rc::Rc<WorkerCtx>) -> Exit {
    loop {
        let cmd = match ctx.rx.recv() {
            Ok(c) => c,
            Err(_) => return Exit::Teardown,
        };
        let op = match cmd {
            Cmd::Teardown => return Exit::Teardown,
            Cmd::Op(op) => op,
        };
        let case = &ctx.case;
        let (code, a, b, c, d, e) = (op[1], op[2], op[3], op[4], op[5], op[6]);
        match code {
            0 => {
                // New n how en pkind r
                ENABLED.with(|x| x.set(c != 0));
                let parent: Option<&Span> = if d == 2 || d == 3 { Some(unsafe { &*case.span_ptr(e) }) } else { None };
                let m = METAS.get().unwrap();
                let span = if b == 0 {
                    match d {
                        0 | 4 => mk_root(), // span!(parent: None, ..)
                        1 => mk_ctx(),
                        2 => mk_child(parent.unwrap()),
                        _ => mk_child_id(parent.unwrap()),
                    }
                } else {
                    match d {
                        0 => Span::new_root(m.root, &m.root.fields().value_set(&[])),
                        1 => Span::new(m.ctx, &m.ctx.fields().value_set(&[])),
                        2 => Span::child_of(parent.unwrap(), m.child, &m.child.fields().value_set(&[])),
                        3 => Span::child_of(parent.unwrap().id(), m.child, &m.child.fields().value_set(&[])),
                        _ => Span::child_of(None, m.root, &m.root.fields().value_set(&[])),
                    }
                };
                ENABLED.with(|x| x.set(true));
                let r = idp(&span);
                case.put(a, span);
                ctx.ack(Ack::Done(r, 0, 0));
            }
            1 => {
                let src = unsafe { &*case.span_ptr(a) };
                let s2 = src.clone();
                let r = idp(&s2);
                case.put(b, s2);
                ctx.ack(Ack::Done(r, 0, 0));
            }
            2 => {
                let s = Span::current();
                let r = idp(&s);
                case.put(a, s);
                ctx.ack(Ack::Done(r, 0, 0));
            }
            3 => {
                let s = case.take_span(a);
                let pre = idp(&s);
                let s = s.or_current();
                let r = idp(&s);
                case.put(a, s);
                ctx.ack(Ack::Done(r, 0, pre));
            }
            4 => {
                // Drop n: plain handle / EnteredSpan of this thread / Instrumented future
                let h = case.take(a);
                let dr = match h {
                    Holder::Handle(bx) => {
                        let dr = idp(&bx);
                        drop(bx);
                        dr
                    }
                    Holder::Owned(..) => {
                        let es = ctx.owned.borrow_mut().remove(&a).expect("validated: owned by this thread");
                        let dr = idp(&es);
                        drop(es);
                        dr
                    }
                    Holder::Fut(f) => {
                        let dr = idp(f.span());
                        drop(f);
                        dr
                    }
                    Holder::Polling => panic!("validated"),
                };
                ctx.ack(Ack::Done(0, dr, 0));
            }
            5 => {
                let sp: &'static Span = unsafe { &*case.span_ptr(a) };
                let g: Entered<'static> = sp.enter();
                ctx.guards.borrow_mut().insert(b, g);
                ctx.guard_order.borrow_mut().push(b);
                ctx.ack(Ack::Done(0, 0, 0));
            }
            6 => {
                let g = ctx.guards.borrow_mut().remove(&a).expect("validated: guard of this thread");
                ctx.guard_order.borrow_mut().retain(|x| *x != a);
                drop(g);
                ctx.ack(Ack::Done(0, 0, 0));
            }
            7 => {
                let s = case.take_span(a);
                let es = Box::new(s.entered());
                let p: *const Span = &**es;
                let pe: *const EnteredSpan = &*es;
                ctx.owned.borrow_mut().insert(a, es);
                case.tables.lock().unwrap().holders.insert(a, Holder::Owned(p, pe));
                ctx.ack(Ack::Done(0, 0, 0));
            }
            8 => {
                let _ = case.take(a);
                let es = ctx.owned.borrow_mut().remove(&a).expect("validated: owned by this thread");
                let s = (*es).exit();
                let r = idp(&s);
                case.put(a, s);
                ctx.ack(Ack::Done(r, 0, 0));
            }
            30 | 31 => {
                // fault ops on an EnteredSpan of this thread, the collectors' exit hook armed to unwind, inside catch_unwind:
                // 30 = drop(guard.exit()), 31 = drop(guard).  Either way the handle inside the guard is gone afterwards.
                let _ = case.take(a);
                let es = ctx.owned.borrow_mut().remove(&a).expect("validated: owned by this thread");
                let dr = idp(&es);
                case.shared.armed.store(true, Ordering::SeqCst);
                let res = panic::catch_unwind(AssertUnwindSafe(move || {
                    if code == 30 {
                        let s = (*es).exit();
                        drop(s);
                    } else {
                        drop(es);
                    }
                }));
                case.shared.armed.store(false, Ordering::SeqCst);
                let fired = match res {
                    Ok(()) => 0,
                    Err(p) if p.is::<Unwind>() => 1,
                    Err(p) => panic::resume_unwind(p),
                };
                ctx.ack(Ack::Done(fired, dr, 0));
            }
            32 => {
                // drop of a borrowed guard (Entered<'_>) with the exit hook armed
                let g = ctx.guards.borrow_mut().remove(&a).expect("validated: guard of this thread");
                ctx.guard_order.borrow_mut().retain(|x| *x != a);
                case.shared.armed.store(true, Ordering::SeqCst);
                let res = panic::catch_unwind(AssertUnwindSafe(move || drop(g)));
                case.shared.armed.store(false, Ordering::SeqCst);
                let fired = match res {
                    Ok(()) => 0,
                    Err(p) if p.is::<Unwind>() => 1,
                    Err(p) => panic::resume_unwind(p),
                };
                ctx.ack(Ack::Done(fired, 0, 0));
            }
            33 => {
                // span.in_scope(|| ()) with the exit hook armed
                let sp: &Span = unsafe { &*case.span_ptr(a) };
                case.shared.armed.store(true, Ordering::SeqCst);
                let res = panic::catch_unwind(AssertUnwindSafe(|| sp.in_scope(|| ())));
                case.shared.armed.store(false, Ordering::SeqCst);
                let fired = match res {
                    Ok(()) => 0,
                    Err(p) if p.is::<Unwind>() => 1,
                    Err(p) => panic::resume_unwind(p),
                };
                ctx.ack(Ack::Done(fired, 0, 0));
            }
            9 => {
                let sp: &Span = unsafe { &*case.span_ptr(a) };
                let c2 = ctx.clone();
                let res = panic::catch_unwind(AssertUnwindSafe(|| {
                    sp.in_scope(|| {
                        c2.ack(Ack::Done(0, 0, 0));
                        match run_loop(&c2) {
                            Exit::Scope(unwind, ls) => {
                                let _locals: Vec<Local> = ls.iter().map(|n| take_local(&c2, *n)).collect();
                                if unwind {
                                    panic::resume_unwind(Box::new(Unwind));
                                }
                            }
                            Exit::Teardown => c2.teardown.set(true),
                            Exit::Poll(..) => unreachable!("controller validates frames"),
                        }
                    })
                }));
                if let Err(p) = res {
                    if !p.is::<Unwind>() {
                        panic::resume_unwind(p);
                    }
                }
                if ctx.teardown.get() {
                    return Exit::Teardown;
                }
                ctx.ack(Ack::Done(0, 0, 0)); // the ScopeEnd op is complete only now
            }
            10 => return Exit::Scope(a != 0, Vec::new()),
            27 => return Exit::Scope(a != 0, [c, d, e][..(b.min(3) as usize)].to_vec()),
            28 => return Exit::Poll(a, [c, d, e][..(b.min(3) as usize)].to_vec()),
            11 => {
                // a chain r.record(..).record(..)...: b = length (0 = one call on the existing field), bit i of c = the
                // i-th call names a field the span has
                let mut sp: &Span = unsafe { &*case.span_ptr(a) };
                let (len, mask) = if b == 0 { (1, 1) } else { (b, c) };
                for i in 0..len {
                    sp = if (mask >> i) & 1 == 1 { sp.record("f", i) } else { sp.record("no_such_field", i) };
                }
                ctx.ack(Ack::Done(0, 0, 0));
            }
            12 => {
                let sp: &Span = unsafe { &*case.span_ptr(a) };
                match c {
                    0 => {
                        let from: &Span = unsafe { &*case.span_ptr(b) };
                        sp.follows_from(from);
                    }
                    1 => {
                        let from: &Span = unsafe { &*case.span_ptr(b) };
                        let id: Option<Id> = from.id();
                        sp.follows_from(id);
                    }
                    _ => {
                        sp.follows_from(None::<Id>);
                    }
                }
                ctx.ack(Ack::Done(0, 0, 0));
            }
            13 => {
                // c: 0 = plain, 1 = the inner future .with_current_collector(), 2 + k = .with_collector(k)
                let s = case.take_span(a);
                let inner = Inner { name: a, shared: case.shared.clone() };
                let disp = |k: u64| if k == 0 { Dispatch::none() } else { case.dispatches[(k - 1) as usize].clone() };
                let f: Box<dyn Fut> = match (b, c) {
                    (0, 0) => Box::new(tracing::Instrument::instrument(inner, s)),
                    (_, 0) => Box::new(tracing_futures::Instrument::instrument(inner, s)),
                    (0, 1) => {
                        use tracing::instrument::WithCollector;
                        Box::new(tracing::Instrument::instrument(inner.with_current_collector(), s))
                    }
                    (_, 1) => {
                        use tracing_futures::WithCollector;
                        Box::new(tracing_futures::Instrument::instrument(inner.with_current_collector(), s))
                    }
                    (0, k) => {
                        use tracing::instrument::WithCollector;
                        Box::new(tracing::Instrument::instrument(inner.with_collector(disp(k - 2)), s))
                    }
                    (_, k) => {
                        use tracing_futures::WithCollector;
                        Box::new(tracing_futures::Instrument::instrument(inner.with_collector(disp(k - 2)), s))
                    }
                };
                case.tables.lock().unwrap().holders.insert(a, Holder::Fut(f));
                ctx.ack(Ack::Done(0, 0, 0));
            }
            14 => {
                let mut f = match case.tables.lock().unwrap().holders.insert(a, Holder::Polling) {
                    Some(Holder::Fut(f)) => f,
                    _ => panic!("validated: future"),
                };
                let res = panic::catch_unwind(AssertUnwindSafe(|| f.poll_once()));
                case.tables.lock().unwrap().holders.insert(a, Holder::Fut(f));
                if let Err(p) = res {
                    if !p.is::<Unwind>() {
                        panic::resume_unwind(p);
                    }
                }
                if ctx.teardown.get() {
                    return Exit::Teardown;
                }
                ctx.ack(Ack::Done(0, 0, 0)); // the PollEnd op
            }
            15 => return Exit::Poll(a, Vec::new()),
            16 => {
                let f = match case.take(a) {
                    Holder::Fut(f) => f,
                    _ => panic!("validated: future"),
                };
                let dr = idp(f.span());
                f.into_inner_drop();
                ctx.ack(Ack::Done(0, dr, 0));
            }
            17 => {
                let d = if a == 0 { Dispatch::none() } else { case.dispatches[(a - 1) as usize].clone() };
                let g = dispatch::set_default(&d);
                ctx.defaults.borrow_mut().push(g);
                ctx.ack(Ack::Done(0, 0, 0));
            }
            18 => {
                let g = ctx.defaults.borrow_mut().pop();
                drop(g);
                ctx.ack(Ack::Done(0, 0, 0));
            }
            19 => {
                // pure accessors
                let sp: &Span = unsafe { &*case.span_ptr(a) };
                let r = match b {
                    0 => sp.is_none() as u64,
                    1 => sp.is_disabled() as u64,
                    2 => idp(sp),
                    _ => sp.metadata().is_some() as u64,
                };
                ctx.ack(Ack::Done(r, 0, 0));
            }
            20 => {
                let mut t = case.tables.lock().unwrap();
                match t.holders.get_mut(&a) {
                    Some(Holder::Fut(f)) => f.touch(b),
                    _ => panic!("validated: future"),
                }
                drop(t);
                ctx.ack(Ack::Done(0, 0, 0));
            }
            21 => {
                // mem::swap(f.span_mut(), &mut n)
                let mut bx = match case.take(b) {
                    Holder::Handle(bx) => bx,
                    _ => panic!("validated: plain handle"),
                };
                let pre = {
                    let mut t = case.tables.lock().unwrap();
                    match t.holders.get_mut(&a) {
                        Some(Holder::Fut(f)) => {
                            std::mem::swap(f.span_mut(), &mut *bx);
                            idp(f.span())
                        }
                        _ => panic!("validated: future"),
                    }
                };
                let r = idp(&bx);
                case.tables.lock().unwrap().holders.insert(b, Holder::Handle(bx));
                ctx.ack(Ack::Done(r, 0, pre));
            }
            22 => {
                CLONE_NAME.with(|x| x.set(b));
                let g = {
                    let t = case.tables.lock().unwrap();
                    match t.holders.get(&a) {
                        Some(Holder::Fut(f)) => f.clone_box(),
                        _ => panic!("validated: future"),
                    }
                };
                let r = idp(g.span());
                case.tables.lock().unwrap().holders.insert(b, Holder::Fut(g));
                ctx.ack(Ack::Done(r, 0, 0));
            }
            23 => {
                // b: 0 = with_current_collector(), 1 + k = with_collector(k)
                let f = match case.take(a) {
                    Holder::Fut(f) => f,
                    _ => panic!("validated: future"),
                };
                let d = if b == 0 {
                    None
                } else if b == 1 {
                    Some(Dispatch::none())
                } else {
                    Some(case.dispatches[(b - 2) as usize].clone())
                };
                let g = f.wrap(d);
                case.tables.lock().unwrap().holders.insert(a, Holder::Fut(g));
                ctx.ack(Ack::Done(0, 0, 0));
            }
            26 => {
                // the holder is a local of a frame that unwinds (a contained panic): dropped while the thread is panicking
                let dr = idp(unsafe { &*case.span_ptr(a) });
                let local = take_local(ctx, a);
                let r = panic::catch_unwind(AssertUnwindSafe(move || {
                    let _local = local;
                    panic::resume_unwind(Box::new(Unwind));
                }));
                if let Err(p) = r {
                    if !p.is::<Unwind>() {
                        panic::resume_unwind(p);
                    }
                }
                ctx.ack(Ack::Done(0, dr, 0));
            }
            29 => {
                // fut.in_current_span()
                let inner = Inner { name: a, shared: case.shared.clone() };
                let f: Box<dyn Fut> = if b == 0 {
                    Box::new(tracing::Instrument::in_current_span(inner))
                } else {
                    Box::new(tracing_futures::Instrument::in_current_span(inner))
                };
                let r = idp(f.span());
                case.tables.lock().unwrap().holders.insert(a, Holder::Fut(f));
                ctx.ack(Ack::Done(r, 0, 0));
            }
            24 => {
                // drop(r.clone()) with `.clone()` written on the holder itself: on an EnteredSpan guard method resolution
                // finds no Clone for the guard and auto-derefs to Span::clone (a plain, un-entered Span)
                enum Src {
                    Span(*const Span),
                    Guard(*const EnteredSpan),
                }
                let src = {
                    let t = case.tables.lock().unwrap();
                    match t.holders.get(&a).expect("validated: live") {
                        Holder::Handle(bx) => Src::Span(&**bx as *const Span),
                        Holder::Owned(_, pe) => Src::Guard(*pe),
                        Holder::Fut(f) => Src::Span(f.span() as *const Span),
                        Holder::Polling => panic!("validated: not polling"),
                    }
                };
                match src {
                    Src::Span(p) => {
                        let sp: &Span = unsafe { &*p };
                        drop(sp.clone());
                    }
                    Src::Guard(p) => {
                        let g: &EnteredSpan = unsafe { &*p };
                        #[allow(clippy::explicit_auto_deref)]
                        drop((*g).clone());
                    }
                }
                ctx.ack(Ack::Done(0, 0, 0));
            }
            25 => {
                // a.clone_from(&b), directly (e = 0) or through Box / Option / Vec ::clone_from (e = 1, 2, 3); the source
                // containers hold a bitwise copy of b that is forgotten afterwards
                let mut bx = match case.take(a) {
                    Holder::Handle(bx) => bx,
                    _ => panic!("validated: plain handle"),
                };
                let pre = idp(&bx);
                let bp = case.span_ptr(b);
                match d % 4 {
                    0 => (*bx).clone_from(unsafe { &*bp }),
                    1 => {
                        let tmp: Box<Span> = Box::new(unsafe { std::ptr::read(bp) });
                        bx.clone_from(&tmp);
                        std::mem::forget(*tmp);
                    }
                    2 => {
                        let mut oa: Option<Span> = Some(*bx);
                        let ob: Option<Span> = Some(unsafe { std::ptr::read(bp) });
                        oa.clone_from(&ob);
                        std::mem::forget(ob);
                        bx = Box::new(oa.unwrap());
                    }
                    _ => {
                        let mut va: Vec<Span> = vec![*bx];
                        let mut vb: Vec<Span> = vec![unsafe { std::ptr::read(bp) }];
                        va.clone_from(&vb);
                        std::mem::forget(vb.pop());
                        bx = Box::new(va.pop().unwrap());
                    }
                }
                let r = idp(&bx);
                case.tables.lock().unwrap().holders.insert(a, Holder::Handle(bx));
                ctx.ack(Ack::Done(r, 0, pre));
            }
            _ => ctx.ack(Ack::Fatal(format!("unknown op code {}", code))),
        }
    }
}

fn worker(t: u64, case: Arc<Case>, rx: Receiver<Cmd>, tx: Sender<Ack>) {
    TID.with(|x| x.set(t));
    let ctx = std::rc::Rc::new(WorkerCtx {
        case,
        rx,
        tx: tx.clone(),
        guards: RefCell::new(HashMap::new()),
        guard_order: RefCell::new(Vec::new()),
        owned: RefCell::new(HashMap::new()),
        defaults: RefCell::new(Vec::new()),
        teardown: Cell::new(false),
    });
    CTX.with(|c| *c.borrow_mut() = Some(ctx.clone()));
    let r = panic::catch_unwind(AssertUnwindSafe(|| run_loop(&ctx)));
    if let Err(p) = r {
        let msg = p
            .downcast_ref::<String>()
            .cloned()
            .or_else(|| p.downcast_ref::<&str>().map(|s| s.to_string()))
            .unwrap_or_else(|| "panic".into());
        let _ = tx.send(Ack::Fatal(msg));
    }
    // teardown (not recorded): borrowed guards (newest first), owned guards, default scopes
    let order: Vec<u64> = ctx.guard_order.borrow().clone();
    for g in order.iter().rev() {
        let x = ctx.guards.borrow_mut().remove(g);
        drop(x);
    }
    // phase 2 only after EVERY thread has dropped its borrowed guards and left its scopes: another thread's
    // `Entered<'_>` may borrow (through Deref) the Span inside one of this thread's EnteredSpans.
    let _ = tx.send(Ack::Done(0, 0, 0));
    let _ = ctx.rx.recv();
    ctx.owned.borrow_mut().clear();
    loop {
        let g = ctx.defaults.borrow_mut().pop();
        if g.is_none() {
            break;
        }
    }
    CTX.with(|c| *c.borrow_mut() = None);
    let _ = tx.send(Ack::Done(0, 0, 0));
}

// ---------------------------------------------------------------------------------------------------------------
// controller-side ownership tracker: the same rules as SpanApi.Model.compile (what rustc would accept)

#[derive(Clone, PartialEq, Debug)]
enum EK {
    Guard(u64),
    Scope,
    Poll,
    Owned,
}
#[derive(Clone, Debug)]
struct Ent {
    k: EK,
    h: u64,
    t: u64,
}
#[derive(Default)]
struct OwnSt {
    kinds: HashMap<u64, u8>, // name -> 0 handle, 1 Instrumented, 2 WithDispatch<Instrumented>, 3 Instrumented<WithDispatch>
    ents: Vec<Ent>,          // oldest first
}

impl OwnSt {
    fn live(&self, n: u64) -> bool {
        self.kinds.contains_key(&n)
    }
    fn on(&self, n: u64) -> Vec<&Ent> {
        self.ents.iter().filter(|e| e.h == n).collect()
    }
    fn readable(&self, n: u64) -> bool {
        self.live(n) && !self.on(n).iter().any(|e| e.k == EK::Poll)
    }
    fn free(&self, n: u64) -> bool {
        self.live(n) && self.on(n).is_empty()
    }
    fn is_handle(&self, n: u64) -> bool {
        self.kinds.get(&n) == Some(&0)
    }
    fn is_fut(&self, n: u64) -> bool {
        self.kinds.get(&n) == Some(&1)
    }
    fn is_anyfut(&self, n: u64) -> bool {
        matches!(self.kinds.get(&n), Some(&k) if k >= 1)
    }
    fn in_wd_poll(&self, t: u64) -> bool {
        self.ents.iter().any(|e| e.t == t && e.k == EK::Poll && matches!(self.kinds.get(&e.h), Some(&k) if k >= 2))
    }
    fn top_frame(&self, t: u64) -> Option<usize> {
        self.ents.iter().rposition(|e| e.t == t && (e.k == EK::Scope || e.k == EK::Poll))
    }
    fn find_guard(&self, g: u64) -> Option<usize> {
        self.ents.iter().rposition(|e| e.k == EK::Guard(g))
    }
    /// drop holder n on thread t (a plain handle, an EnteredSpan of that thread, an unborrowed future)
    fn drop_one(&mut self, t: u64, a: u64) -> bool {
        if !self.live(a) {
            return false;
        }
        let (owned_here, empty) = {
            let on = self.on(a);
            (on.len() == 1 && on[0].k == EK::Owned && on[0].t == t, on.is_empty())
        };
        if self.is_handle(a) && owned_here {
            self.ents.retain(|x| x.h != a);
        } else if !empty {
            return false;
        }
        self.kinds.remove(&a);
        true
    }
    /// Validate and apply.  false = rustc would reject the program here.
    fn apply(&mut self, op: &[u64]) -> bool {
        let (t, code, a, b, c, d, e) = (op[0], op[1], op[2], op[3], op[4], op[5], op[6]);
        match code {
            0 => {
                if self.live(a) || ((d == 2 || d == 3) && !self.readable(e)) || d > 4 {
                    return false;
                }
                self.kinds.insert(a, 0);
            }
            1 => {
                if !self.readable(a) || self.live(b) {
                    return false;
                }
                self.kinds.insert(b, 0);
            }
            2 => {
                if self.live(a) {
                    return false;
                }
                self.kinds.insert(a, 0);
            }
            3 => {
                if !(self.is_handle(a) && self.free(a)) {
                    return false;
                }
            }
            4 => {
                if !self.live(a) {
                    return false;
                }
                let (owned_here, empty) = {
                    let on = self.on(a);
                    (on.len() == 1 && on[0].k == EK::Owned && on[0].t == t, on.is_empty())
                };
                if self.is_handle(a) && owned_here {
                    self.ents.retain(|x| x.h != a);
                } else if !empty {
                    return false;
                }
                self.kinds.remove(&a);
            }
            5 => {
                if !self.readable(a) || self.find_guard(b).is_some() {
                    return false;
                }
                self.ents.push(Ent { k: EK::Guard(b), h: a, t });
            }
            6 => match self.find_guard(a) {
                Some(i) if self.ents[i].t == t => {
                    self.ents.remove(i);
                }
                _ => return false,
            },
            7 => {
                if !(self.is_handle(a) && self.free(a)) {
                    return false;
                }
                self.ents.push(Ent { k: EK::Owned, h: a, t });
            }
            8 => {
                let ok = {
                    let on = self.on(a);
                    on.len() == 1 && on[0].k == EK::Owned && on[0].t == t
                };
                if !ok {
                    return false;
                }
                self.ents.retain(|x| x.h != a);
            }
            9 => {
                if !self.readable(a) {
                    return false;
                }
                self.ents.push(Ent { k: EK::Scope, h: a, t });
            }
            10 => match self.top_frame(t) {
                Some(i) if self.ents[i].k == EK::Scope => {
                    self.ents.remove(i);
                }
                _ => return false,
            },
            11 => {
                if !self.readable(a) {
                    return false;
                }
            }
            12 => {
                if !(self.readable(a) && (c >= 2 || self.readable(b))) {
                    return false;
                }
            }
            13 => {
                if !(self.is_handle(a) && self.free(a)) {
                    return false;
                }
                self.kinds.insert(a, if c == 0 { 1 } else { 3 });
            }
            14 => {
                if !(self.is_anyfut(a) && self.free(a)) {
                    return false;
                }
                self.ents.push(Ent { k: EK::Poll, h: a, t });
            }
            15 => match self.top_frame(t) {
                Some(i) if self.ents[i].k == EK::Poll => {
                    self.ents.remove(i);
                }
                _ => return false,
            },
            16 => {
                if !(self.is_anyfut(a) && self.free(a)) {
                    return false;
                }
                self.kinds.remove(&a);
            }
            17 | 18 => {
                if self.in_wd_poll(t) {
                    return false;
                }
            }
            19 => {
                if !self.readable(a) {
                    return false;
                }
            }
            20 => {
                if !(self.is_anyfut(a) && if b % 2 == 0 { self.readable(a) } else { self.free(a) }) {
                    return false;
                }
            }
            21 => {
                if !(self.is_anyfut(a) && self.free(a) && self.is_handle(b) && self.free(b)) {
                    return false;
                }
            }
            22 => {
                if !(self.is_anyfut(a) && self.readable(a) && !self.live(b)) {
                    return false;
                }
                let k = self.kinds[&a];
                self.kinds.insert(b, k);
            }
            23 => {
                if !(self.is_fut(a) && self.free(a)) {
                    return false;
                }
                self.kinds.insert(a, 2);
            }
            24 => {
                if !(self.readable(a) && !self.live(b)) {
                    return false;
                }
            }
            26 => return self.drop_one(t, a),
            27 | 28 => {
                if b > 3 {
                    return false;
                }
                for n in [c, d, e].iter().take(b as usize) {
                    if !self.drop_one(t, *n) {
                        return false;
                    }
                }
                let want = if code == 27 { EK::Scope } else { EK::Poll };
                match self.top_frame(t) {
                    Some(i) if self.ents[i].k == want => {
                        self.ents.remove(i);
                    }
                    _ => return false,
                }
            }
            29 => {
                if self.live(a) {
                    return false;
                }
                self.kinds.insert(a, 1);
            }
            25 => {
                if !(self.is_handle(a) && self.free(a) && self.readable(b) && a != b && !self.live(c)) {
                    return false;
                }
            }
            30 | 31 => {
                let ok = {
                    let on = self.on(a);
                    self.is_handle(a) && on.len() == 1 && on[0].k == EK::Owned && on[0].t == t
                };
                if !ok {
                    return false;
                }
                self.ents.retain(|x| x.h != a);
                self.kinds.remove(&a);
            }
            32 => match self.find_guard(a) {
                Some(i) if self.ents[i].t == t => {
                    self.ents.remove(i);
                }
                _ => return false,
            },
            33 => {
                if !self.readable(a) {
                    return false;
                }
            }
            _ => return false,
        }
        true
    }
}

fn run_case(v: &serde_json::Value) -> serde_json::Value {
    let id = v["id"].clone();
    let nthreads = v["threads"].as_u64().unwrap_or(1);
    let ncoll = v["collectors"].as_u64().unwrap_or(2);
    let ops: Vec<Vec<u64>> = v["ops"]
        .as_array()
        .unwrap()
        .iter()
        .map(|o| {
            let mut x: Vec<u64> = o.as_array().unwrap().iter().map(|n| n.as_u64().unwrap()).collect();
            x.resize(7, 0);
            x
        })
        .collect();
    let shared = Arc::new(Shared {
        log: Mutex::new(Vec::new()),
        next_id: AtomicU64::new(1),
        recording: AtomicBool::new(true),
        own_ids: v["own_ids"].as_bool().unwrap_or(false),
        armed: AtomicBool::new(false),
    });
    let wraps: Vec<u64> = v["wraps"].as_array().map(|a| a.iter().map(|x| x.as_u64().unwrap_or(0)).collect()).unwrap_or_default();
    let dispatches: Vec<Dispatch> = (1..=ncoll)
        .map(|k| {
            let rec = Rec::new(k, k >= 3, shared.clone());
            match wraps.get((k - 1) as usize).copied().unwrap_or(0) {
                0 => Dispatch::new(rec),
                1 => Dispatch::new(Box::new(rec)),
                2 => Dispatch::new(Arc::new(rec)),
                3 => {
                    let b: Box<dyn Collect + Send + Sync> = Box::new(rec);
                    Dispatch::new(b)
                }
                _ => {
                    let a: Arc<dyn Collect + Send + Sync> = Arc::new(rec);
                    Dispatch::new(a)
                }
            }
        })
        .collect();
    let case = Arc::new(Case { shared: shared.clone(), tables: Mutex::new(Tables { holders: HashMap::new() }), dispatches });
    let mut txs = Vec::new();
    let mut rxs = Vec::new();
    let mut joins = Vec::new();
    for t in 0..nthreads {
        let (ctx_tx, ctx_rx) = channel::<Cmd>();
        let (ack_tx, ack_rx) = channel::<Ack>();
        let c = case.clone();
        joins.push(std::thread::spawn(move || worker(t, c, ctx_rx, ack_tx)));
        txs.push(ctx_tx);
        rxs.push(ack_rx);
    }
    let mut own = OwnSt::default();
    let mut out_ops = Vec::new();
    let mut rejected_at: i64 = -1;
    let mut fatal: Option<String> = None;
    let mut mark = 0usize;
    for (i, op) in ops.iter().enumerate() {
        let t = op[0];
        if t >= nthreads || !own.apply(op) {
            rejected_at = i as i64;
            break;
        }
        if (op[1] == 17 && op[2] > ncoll) || (op[1] == 23 && op[3] > ncoll + 1) || (op[1] == 13 && op[4] > ncoll + 2) {
            rejected_at = i as i64;
            break;
        }
        txs[t as usize].send(Cmd::Op(op.clone())).unwrap();
        match rxs[t as usize].recv_timeout(Duration::from_secs(30)) {
            Ok(Ack::Done(res, dr, pre)) => {
                let log = shared.log.lock().unwrap();
                let seg: Vec<serde_json::Value> = log[mark..].iter().map(|e| serde_json::json!(e.to_vec())).collect();
                mark = log.len();
                out_ops.push(serde_json::json!({"e": seg, "res": res, "dr": dr, "pre": pre}));
            }
            Ok(Ack::Fatal(m)) => {
                fatal = Some(format!("op {}: {}", i, m));
                break;
            }
            Err(_) => {
                fatal = Some(format!("op {}: timeout", i));
                break;
            }
        }
    }
    // teardown, unrecorded
    shared.recording.store(false, Ordering::SeqCst);
    for tx in &txs {
        let _ = tx.send(Cmd::Teardown);
    }
    for (k, rx) in rxs.iter().enumerate() {
        match rx.recv_timeout(Duration::from_secs(30)) {
            Ok(Ack::Fatal(m)) if fatal.is_none() => fatal = Some(format!("teardown {}: {}", k, m)),
            Ok(_) => {}
            Err(_) => {
                if fatal.is_none() {
                    fatal = Some(format!("teardown {}: timeout", k))
                }
            }
        }
    }
    for tx in &txs {
        let _ = tx.send(Cmd::Teardown);
    }
    for (k, rx) in rxs.iter().enumerate() {
        if rx.recv_timeout(Duration::from_secs(30)).is_err() && fatal.is_none() {
            fatal = Some(format!("teardown phase 2 of thread {}: timeout", k));
        }
    }
    if fatal.is_none() {
        for j in joins {
            let _ = j.join();
        }
    }
    case.tables.lock().unwrap().holders.clear();
    serde_json::json!({"id": id, "rejected_at": rejected_at, "ops": out_ops, "fatal": fatal})
}

fn main() {
    panic::set_hook(Box::new(|_| {}));
    // Capture the three callsites' metadata once (for the direct Span::new* calls) under a throw-away collector.
    {
        let sh = Arc::new(Shared { log: Mutex::new(Vec::new()), next_id: AtomicU64::new(1), recording: AtomicBool::new(false), own_ids: false, armed: AtomicBool::new(false) });
        let d = Dispatch::new(Rec::new(9, false, sh));
        dispatch::with_default(&d, || {
            let a = mk_ctx();
            let b = mk_root();
            let c = mk_child(&a);
            let _ = METAS.set(Metas { ctx: a.metadata().unwrap(), root: b.metadata().unwrap(), child: c.metadata().unwrap() });
        });
    }
    let stdin = std::io::stdin();
    let stdout = std::io::stdout();
    for line in stdin.lock().lines() {
        let line = line.unwrap();
        if line.trim().is_empty() {
            continue;
        }
        let v: serde_json::Value = match serde_json::from_str(&line) {
            Ok(v) => v,
            Err(e) => {
                println!("{}", serde_json::json!({"id": null, "fatal": format!("bad case: {}", e)}));
                continue;
            }
        };
        let r = run_case(&v);
        let mut o = stdout.lock();
        writeln!(o, "{}", r).unwrap();
        o.flush().unwrap();
    }
}
