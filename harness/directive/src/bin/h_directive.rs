//! C11 harness: drives the real `Targets` / `EnvFilter` on cases read from stdin (one JSON object per line) and
//! prints one JSON object per case.  All byte strings travel hex-encoded.
//!
//!  {"k":"pool","metas":[{"t":hex,"l":1..5,"kind":"e"|"s"|"h","n":hex,"f":[hex..]}],"targets":[hex..]}
//!        defines the metadata pool (leaked `'static` metadata + callsites built by hand) used by later cases
//!  {"k":"targets","id":n,"s":hex}                       Targets::from_str
//!  {"k":"tapi","id":n,"entries":[[hex|null,0..5]..]}    Targets::new().with_target / with_default
//!  {"k":"env","id":n,"s":hex,"regex":bool,"lossy":bool} EnvFilter builder parse / parse_lossy
//!  {"k":"hist","id":n,"s":hex,"regex":bool,"cfg":"probe"|"plain"|"filter","ops":[..]}
//!        an enter/exit/record history through the real macros (fixed callsite pools below), observed by a
//!        recording layer behind the filter; "probe"/"filter" wrap the filter so that `enabled` is consulted on
//!        every hit and its verbatim answer is logged.
//!  {"k":"pools"}                                        prints the macro callsite pools
//!  {"k":"static_max"}                                   prints tracing's STATIC_MAX_LEVEL in this build (0..5)
use std::collections::HashMap;
use std::panic::{catch_unwind, AssertUnwindSafe};
use std::sync::{mpsc, Arc, Mutex};

use serde_json::{json, Value as J};
use tracing::field::Value;
use tracing::{Level, Span};
use tracing_core::{
    callsite::Callsite,
    collect::{Collect, Interest},
    dispatch::Dispatch,
    field::FieldSet,
    metadata::Kind,
    span, Event, LevelFilter, Metadata,
};
use tracing_subscriber::filter::{EnvFilter, Targets};
use tracing_subscriber::prelude::*;
use tracing_subscriber::registry::{LookupSpan, Registry};
use tracing_subscriber::subscribe::{Context, Filter, Subscribe};

// ---------------------------------------------------------------------------------------------- helpers
fn hex(s: &str) -> Vec<u8> {
    (0..s.len() / 2).map(|i| u8::from_str_radix(&s[2 * i..2 * i + 2], 16).unwrap()).collect()
}
fn hexs(s: &str) -> String {
    String::from_utf8(hex(s)).expect("case strings are valid UTF-8")
}
fn tohex(b: &[u8]) -> String {
    b.iter().map(|x| format!("{:02x}", x)).collect()
}
const LEVELS: [Level; 5] = [Level::ERROR, Level::WARN, Level::INFO, Level::DEBUG, Level::TRACE];
const FILTERS: [LevelFilter; 6] =
    [LevelFilter::OFF, LevelFilter::ERROR, LevelFilter::WARN, LevelFilter::INFO, LevelFilter::DEBUG, LevelFilter::TRACE];
fn enc_f(f: &LevelFilter) -> i64 {
    // position in the public constant array, found through the derived Hash (not through the operators under test)
    use std::collections::hash_map::DefaultHasher;
    use std::hash::{Hash, Hasher};
    let h = |x: &LevelFilter| {
        let mut s = DefaultHasher::new();
        x.hash(&mut s);
        s.finish()
    };
    FILTERS.iter().position(|c| h(c) == h(f)).unwrap() as i64
}
fn enc_hint(h: Option<LevelFilter>) -> i64 {
    h.map(|f| enc_f(&f)).unwrap_or(-1)
}
fn enc_interest(i: &Interest) -> i64 {
    if i.is_never() {
        0
    } else if i.is_sometimes() {
        1
    } else {
        2
    }
}

// ---------------------------------------------------------------------------------------------- hand-built metadata
struct Cs(std::sync::OnceLock<&'static Metadata<'static>>);
impl Callsite for Cs {
    fn set_interest(&self, _: Interest) {}
    fn metadata(&self) -> &Metadata<'_> {
        self.0.get().unwrap()
    }
}
fn leak_meta(target: String, level: Level, kind: &str, name: String, fields: Vec<String>) -> &'static Metadata<'static> {
    let cs: &'static Cs = Box::leak(Box::new(Cs(std::sync::OnceLock::new())));
    let names: Vec<&'static str> = fields.into_iter().map(|f| &*Box::leak(f.into_boxed_str())).collect();
    let names: &'static [&'static str] = Box::leak(names.into_boxed_slice());
    let kind = match kind {
        "e" => Kind::EVENT,
        "s" => Kind::SPAN,
        _ => Kind::HINT,
    };
    let meta: &'static Metadata<'static> = Box::leak(Box::new(Metadata::new(
        Box::leak(name.into_boxed_str()),
        Box::leak(target.into_boxed_str()),
        level,
        None,
        None,
        None,
        FieldSet::new(names, tracing_core::callsite::Identifier(cs)),
        kind,
    )));
    cs.0.set(meta).ok();
    meta
}

// ---------------------------------------------------------------------------------------------- probes and recorder
#[derive(Clone, Default)]
struct Log(Arc<Mutex<Vec<J>>>);
impl Log {
    fn push(&self, v: J) {
        self.0.lock().unwrap().push(v)
    }
    fn drain(&self) -> Vec<J> {
        std::mem::take(&mut *self.0.lock().unwrap())
    }
}

/// Forwards every callback the filters use; logs the inner `enabled` / `register_callsite` answers.  With
/// `force` the wrapper itself answers `sometimes` / no hint, so the inner `enabled` is consulted on every hit.
struct ProbeS<S> {
    inner: S,
    log: Log,
    force: bool,
}
impl<C, S> Subscribe<C> for ProbeS<S>
where
    C: Collect + for<'a> LookupSpan<'a>,
    S: Subscribe<C>,
{
    fn register_callsite(&self, m: &'static Metadata<'static>) -> Interest {
        let i = self.inner.register_callsite(m);
        self.log.push(json!({"reg": enc_interest(&i)}));
        if self.force {
            Interest::sometimes()
        } else {
            i
        }
    }
    fn enabled(&self, m: &Metadata<'_>, ctx: Context<'_, C>) -> bool {
        let r = self.inner.enabled(m, ctx);
        self.log.push(json!({"en": r}));
        r
    }
    fn max_level_hint(&self) -> Option<LevelFilter> {
        if self.force {
            None
        } else {
            self.inner.max_level_hint()
        }
    }
    fn on_new_span(&self, a: &span::Attributes<'_>, id: &span::Id, ctx: Context<'_, C>) {
        self.inner.on_new_span(a, id, ctx)
    }
    fn on_record(&self, id: &span::Id, v: &span::Record<'_>, ctx: Context<'_, C>) {
        self.inner.on_record(id, v, ctx)
    }
    fn on_enter(&self, id: &span::Id, ctx: Context<'_, C>) {
        self.inner.on_enter(id, ctx)
    }
    fn on_exit(&self, id: &span::Id, ctx: Context<'_, C>) {
        self.inner.on_exit(id, ctx)
    }
    fn on_close(&self, id: span::Id, ctx: Context<'_, C>) {
        self.inner.on_close(id, ctx)
    }
}
struct ProbeF<F> {
    inner: F,
    log: Log,
    force: bool,
}
impl<C, F> Filter<C> for ProbeF<F>
where
    F: Filter<C>,
{
    fn enabled(&self, m: &Metadata<'_>, cx: &Context<'_, C>) -> bool {
        let r = self.inner.enabled(m, cx);
        self.log.push(json!({"en": r}));
        r
    }
    fn callsite_enabled(&self, m: &'static Metadata<'static>) -> Interest {
        let i = self.inner.callsite_enabled(m);
        self.log.push(json!({"reg": enc_interest(&i)}));
        if self.force {
            Interest::sometimes()
        } else {
            i
        }
    }
    fn max_level_hint(&self) -> Option<LevelFilter> {
        if self.force {
            None
        } else {
            self.inner.max_level_hint()
        }
    }
    fn on_new_span(&self, a: &span::Attributes<'_>, id: &span::Id, ctx: Context<'_, C>) {
        self.inner.on_new_span(a, id, ctx)
    }
    fn on_record(&self, id: &span::Id, v: &span::Record<'_>, ctx: Context<'_, C>) {
        self.inner.on_record(id, v, ctx)
    }
    fn on_enter(&self, id: &span::Id, ctx: Context<'_, C>) {
        self.inner.on_enter(id, ctx)
    }
    fn on_exit(&self, id: &span::Id, ctx: Context<'_, C>) {
        self.inner.on_exit(id, ctx)
    }
    fn on_close(&self, id: span::Id, ctx: Context<'_, C>) {
        self.inner.on_close(id, ctx)
    }
}
/// The recording layer behind the filter.
struct Rec(Log);
impl<C: Collect + for<'a> LookupSpan<'a>> Subscribe<C> for Rec {
    fn on_new_span(&self, a: &span::Attributes<'_>, id: &span::Id, _: Context<'_, C>) {
        self.0.push(json!({"new": id.into_u64(), "name": a.metadata().name()}));
    }
    fn on_event(&self, e: &Event<'_>, _: Context<'_, C>) {
        self.0.push(json!({"event": e.metadata().target()}));
    }
    fn on_close(&self, id: span::Id, _: Context<'_, C>) {
        self.0.push(json!({"close": id.into_u64()}));
    }
}

// ---------------------------------------------------------------------------------------------- macro callsite pools
macro_rules! span_pool {
    ($( ($idx:expr, $target:expr, $lvl:ident, $name:expr) ),* $(,)?) => {
        const SPAN_POOL: &[(usize, &str, &str, &str)] = &[ $( ($idx, $target, stringify!($lvl), $name) ),* ];
        fn mk_span(i: usize, x: &dyn Value, y: &dyn Value) -> Span {
            match i {
                $( $idx => tracing::span!(target: $target, parent: None, Level::$lvl, $name, x = x, y = y), )*
                _ => panic!("bad span index"),
            }
        }
    };
}
macro_rules! span0_pool {
    ($( ($idx:expr, $target:expr, $lvl:ident, $name:expr) ),* $(,)?) => {
        const SPAN0_POOL: &[(usize, &str, &str, &str)] = &[ $( ($idx, $target, stringify!($lvl), $name) ),* ];
        fn mk_span0(i: usize) -> Span {
            match i {
                $( $idx => tracing::span!(target: $target, parent: None, Level::$lvl, $name), )*
                _ => panic!("bad span0 index"),
            }
        }
    };
}
macro_rules! event_pool {
    ($( ($idx:expr, $target:expr, $lvl:ident) ),* $(,)?) => {
        const EVENT_POOL: &[(usize, &str, &str)] = &[ $( ($idx, $target, stringify!($lvl)) ),* ];
        fn mk_event(i: usize) {
            match i {
                $( $idx => tracing::event!(target: $target, Level::$lvl, "ev"), )*
                _ => panic!("bad event index"),
            }
        }
    };
}
macro_rules! eventx_pool {
    ($( ($idx:expr, $target:expr, $lvl:ident) ),* $(,)?) => {
        const EVENTX_POOL: &[(usize, &str, &str)] = &[ $( ($idx, $target, stringify!($lvl)) ),* ];
        fn mk_eventx(i: usize, x: &dyn Value) {
            match i {
                $( $idx => tracing::event!(target: $target, Level::$lvl, x = x), )*
                _ => panic!("bad eventx index"),
            }
        }
    };
}
// spans with fields x, y
span_pool! {
    (0, "app", ERROR, "sp"), (1, "app", INFO, "sp"), (2, "app", DEBUG, "sp"), (3, "app", TRACE, "sp"),
    (4, "app", INFO, "sq"), (5, "app", TRACE, "sq"),
    (6, "app::db", INFO, "sp"), (7, "app::db", DEBUG, "sp"), (8, "app::db", TRACE, "sq"),
    (9, "application", INFO, "sp"), (10, "application", DEBUG, "sq"),
    (11, "other", WARN, "sp"), (12, "other", INFO, "sq"), (13, "other", TRACE, "sp"),
    (14, "ab", INFO, "sp"), (15, "a::b", DEBUG, "sq"),
}
// spans without fields
span0_pool! {
    (0, "app", INFO, "sp"), (1, "app", TRACE, "sp"), (2, "other", DEBUG, "sq"), (3, "app::db", INFO, "bare"),
}
// events carrying only a message
event_pool! {
    (0, "app", ERROR), (1, "app", WARN), (2, "app", INFO), (3, "app", DEBUG), (4, "app", TRACE),
    (5, "app::db", ERROR), (6, "app::db", WARN), (7, "app::db", INFO), (8, "app::db", DEBUG), (9, "app::db", TRACE),
    (10, "application", ERROR), (11, "application", INFO), (12, "application", DEBUG), (13, "application", TRACE),
    (14, "other", ERROR), (15, "other", WARN), (16, "other", INFO), (17, "other", DEBUG), (18, "other", TRACE),
    (19, "a", INFO), (20, "ab", DEBUG), (21, "a::b", TRACE), (22, "a", TRACE), (23, "ab", WARN),
}
// events with a field x
eventx_pool! {
    (0, "app", ERROR), (1, "app", INFO), (2, "app", DEBUG), (3, "app", TRACE), (4, "other", INFO), (5, "app::db", DEBUG),
}

struct RawDebug(String);
impl std::fmt::Debug for RawDebug {
    fn fmt(&self, f: &mut std::fmt::Formatter<'_>) -> std::fmt::Result {
        f.write_str(&self.0)
    }
}
/// A value whose `Debug` impl panics as soon as it is formatted.
struct PanicDebug;
impl std::fmt::Debug for PanicDebug {
    fn fmt(&self, _: &mut std::fmt::Formatter<'_>) -> std::fmt::Result {
        panic!("PanicDebug formatted")
    }
}
/// {"b":bool} | {"u":n} | {"i":n} | {"s":hex} | {"d":hex} | {"f":float} | {"p":1} (Debug panics) | null (= Empty)
fn mk_value(v: &J) -> Box<dyn Value> {
    if v.get("p").is_some() {
        Box::new(tracing::field::debug(PanicDebug))
    } else if let Some(b) = v.get("b") {
        Box::new(b.as_bool().unwrap())
    } else if let Some(u) = v.get("u") {
        Box::new(u.as_u64().unwrap())
    } else if let Some(i) = v.get("i") {
        Box::new(i.as_i64().unwrap())
    } else if let Some(s) = v.get("s") {
        Box::new(hexs(s.as_str().unwrap()))
    } else if let Some(d) = v.get("d") {
        Box::new(tracing::field::debug(RawDebug(hexs(d.as_str().unwrap()))))
    } else if let Some(f) = v.get("f") {
        Box::new(f.as_f64().unwrap())
    } else {
        Box::new(tracing::field::Empty)
    }
}
fn field_val(vals: &J, name: &str) -> Box<dyn Value> {
    for e in vals.as_array().map(|a| a.as_slice()).unwrap_or(&[]) {
        if e[0].as_str() == Some(name) {
            return mk_value(&e[1]);
        }
    }
    Box::new(tracing::field::Empty)
}

// ---------------------------------------------------------------------------------------------- worker threads
type Job = Box<dyn FnOnce() + Send>;
struct Worker {
    tx: mpsc::Sender<(Job, mpsc::Sender<bool>)>,
}
impl Worker {
    fn new() -> Self {
        let (tx, rx) = mpsc::channel::<(Job, mpsc::Sender<bool>)>();
        std::thread::spawn(move || {
            for (job, done) in rx {
                let panicked = catch_unwind(AssertUnwindSafe(job)).is_err();
                let _ = done.send(panicked);
            }
        });
        Worker { tx }
    }
    /// runs the job on the worker thread; true = it panicked (the panic is caught there, as an application would)
    fn run(&self, job: Job) -> bool {
        let (dtx, drx) = mpsc::channel();
        self.tx.send((job, dtx)).unwrap();
        drx.recv().unwrap()
    }
}

// ---------------------------------------------------------------------------------------------- cases
struct Pool {
    metas: Vec<&'static Metadata<'static>>,
    targets: Vec<String>,
}

fn targets_report(id: &J, kind: &str, t: Targets, pool: &Pool) -> J {
    let display = t.to_string();
    let hint = enc_hint(<Targets as Subscribe<Registry>>::max_level_hint(&t));
    let (rt, rt_display, rt_hint) = match display.parse::<Targets>() {
        Ok(t2) => (
            if t == t2 { 1 } else { 0 },
            tohex(t2.to_string().as_bytes()),
            enc_hint(<Targets as Subscribe<Registry>>::max_level_hint(&t2)),
        ),
        Err(_) => (2, String::new(), -2),
    };
    let iter: Vec<J> = t.iter().map(|(s, l)| json!([tohex(s.as_bytes()), enc_f(&l)])).collect();
    let default = t.default_level().map(|f| enc_f(&f)).unwrap_or(-1);
    let would: Vec<i64> = pool
        .targets
        .iter()
        .flat_map(|tg| LEVELS.iter().map(move |l| (tg, l)))
        .map(|(tg, l)| t.would_enable(tg, l) as i64)
        .collect();
    // Subscribe impl, observed through a probe in a real stack
    let log = Log::default();
    let c = tracing_subscriber::registry().with(ProbeS { inner: t.clone(), log: log.clone(), force: false });
    let mut en_sub = Vec::new();
    let mut interest = Vec::new();
    for m in &pool.metas {
        log.drain();
        let _ = Collect::register_callsite(&c, m);
        interest.push(log.drain().iter().filter_map(|e| e.get("reg").and_then(|x| x.as_i64())).last().unwrap_or(-1));
        let _ = Collect::enabled(&c, m);
        en_sub.push(log.drain().iter().filter_map(|e| e.get("en").and_then(|x| x.as_bool())).last().map(|b| b as i64).unwrap_or(-1));
    }
    // Filter impl
    let flog = Log::default();
    let c2 = tracing_subscriber::registry()
        .with(Rec(Log::default()).with_filter(ProbeF { inner: t.clone(), log: flog.clone(), force: false }));
    let mut en_filt = Vec::new();
    let mut interest_f = Vec::new();
    for m in &pool.metas {
        flog.drain();
        let _ = Collect::register_callsite(&c2, m);
        interest_f.push(flog.drain().iter().filter_map(|e| e.get("reg").and_then(|x| x.as_i64())).last().unwrap_or(-1));
        let _ = Collect::enabled(&c2, m);
        en_filt.push(flog.drain().iter().filter_map(|e| e.get("en").and_then(|x| x.as_bool())).last().map(|b| b as i64).unwrap_or(-1));
    }
    let hint_f = enc_hint(<Targets as Filter<Registry>>::max_level_hint(&t));
    json!({"k": kind, "id": id, "ok": true, "display": tohex(display.as_bytes()), "hint": hint, "hint_f": hint_f,
           "rt": rt, "rt_display": rt_display, "rt_hint": rt_hint, "iter": iter, "default": default,
           "would": would, "en_sub": en_sub, "en_filt": en_filt, "interest": interest, "interest_f": interest_f})
}

fn env_probe(f: EnvFilter, pool: &Pool, as_filter: bool) -> (Vec<i64>, Vec<i64>) {
    let log = Log::default();
    let mut reg = Vec::new();
    let mut en = Vec::new();
    let mut go = |c: &dyn Collect| {
        for m in &pool.metas {
            log.drain();
            let _ = c.register_callsite(m);
            reg.push(log.drain().iter().filter_map(|e| e.get("reg").and_then(|x| x.as_i64())).last().unwrap_or(-1));
            let _ = c.enabled(m);
            en.push(log.drain().iter().filter_map(|e| e.get("en").and_then(|x| x.as_bool())).last().map(|b| b as i64).unwrap_or(-1));
        }
    };
    if as_filter {
        let c = tracing_subscriber::registry().with(Rec(Log::default()).with_filter(ProbeF { inner: f, log: log.clone(), force: false }));
        go(&c);
    } else {
        let c = tracing_subscriber::registry().with(ProbeS { inner: f, log: log.clone(), force: false });
        go(&c);
    }
    (reg, en)
}

fn env_parse(s: &str, regex: bool, lossy: bool) -> Result<EnvFilter, String> {
    let b = EnvFilter::builder().with_regex(regex);
    if lossy {
        Ok(b.parse_lossy(s))
    } else {
        b.parse(s).map_err(|e| e.to_string())
    }
}

fn env_case(c: &J, pool: &Pool) -> J {
    let s = hexs(c["s"].as_str().unwrap());
    let regex = c["regex"].as_bool().unwrap_or(true);
    let lossy = c["lossy"].as_bool().unwrap_or(false);
    let f = match env_parse(&s, regex, lossy) {
        Ok(f) => f,
        Err(e) => return json!({"k": "env", "id": c["id"], "ok": false, "err": e}),
    };
    let display = f.to_string();
    let hint = enc_hint(f.max_level_hint());
    let (reg, en) = env_probe(env_parse(&s, regex, lossy).unwrap(), pool, false);
    let (reg_f, en_f) = env_probe(env_parse(&s, regex, lossy).unwrap(), pool, true);
    // round trip: Display -> parse (strict, same regex mode)
    let rt = match env_parse(&display, regex, false) {
        Ok(f2) => {
            let d2 = f2.to_string();
            let h2 = enc_hint(f2.max_level_hint());
            let (reg2, en2) = env_probe(f2, pool, false);
            json!({"ok": true, "display": tohex(d2.as_bytes()), "hint": h2, "reg": reg2, "en": en2})
        }
        Err(e) => json!({"ok": false, "err": e}),
    };
    json!({"k": "env", "id": c["id"], "ok": true, "display": tohex(display.as_bytes()), "hint": hint,
           "reg": reg, "en": en, "reg_f": reg_f, "en_f": en_f, "rt": rt})
}

fn hist_case(c: &J, workers: &[Worker]) -> J {
    let s = hexs(c["s"].as_str().unwrap());
    let regex = c["regex"].as_bool().unwrap_or(true);
    let cfg = c["cfg"].as_str().unwrap_or("probe").to_string();
    let f = match env_parse(&s, regex, false) {
        Ok(f) => f,
        Err(e) => return json!({"k": "hist", "id": c["id"], "ok": false, "err": e}),
    };
    let hint = enc_hint(f.max_level_hint());
    let plog = Log::default(); // probe answers
    let rlog = Log::default(); // recorder
    let dispatch = match cfg.as_str() {
        "plain" => Dispatch::new(tracing_subscriber::registry().with(Rec(rlog.clone())).with(f)),
        "filter" => Dispatch::new(
            tracing_subscriber::registry().with(Rec(rlog.clone()).with_filter(ProbeF { inner: f, log: plog.clone(), force: true })),
        ),
        _ => Dispatch::new(tracing_subscriber::registry().with(Rec(rlog.clone())).with(ProbeS { inner: f, log: plog.clone(), force: true })),
    };
    let spans: Arc<Mutex<HashMap<u64, Span>>> = Arc::new(Mutex::new(HashMap::new()));
    let ids: Arc<Mutex<HashMap<u64, u64>>> = Arc::new(Mutex::new(HashMap::new())); // registry id -> case id
    let mut obs = Vec::new();
    for op in c["ops"].as_array().unwrap() {
        let op = op.clone();
        let kind = op[0].as_str().unwrap().to_string();
        let tid = op[1].as_u64().unwrap_or(0) as usize;
        let d = dispatch.clone();
        let spans2 = spans.clone();
        let ids2 = ids.clone();
        let job: Job = Box::new(move || {
            tracing::dispatch::with_default(&d, || match kind.as_str() {
                "span" => {
                    let i = op[2].as_u64().unwrap() as usize;
                    let id = op[3].as_u64().unwrap();
                    let x = field_val(&op[4], "x");
                    let y = field_val(&op[4], "y");
                    let sp = mk_span(i, &*x, &*y);
                    if let Some(rid) = sp.id() {
                        ids2.lock().unwrap().insert(rid.into_u64(), id);
                    }
                    spans2.lock().unwrap().insert(id, sp);
                }
                "span0" => {
                    let i = op[2].as_u64().unwrap() as usize;
                    let id = op[3].as_u64().unwrap();
                    let sp = mk_span0(i);
                    if let Some(rid) = sp.id() {
                        ids2.lock().unwrap().insert(rid.into_u64(), id);
                    }
                    spans2.lock().unwrap().insert(id, sp);
                }
                "record" => {
                    let id = op[2].as_u64().unwrap();
                    let sp = spans2.lock().unwrap().get(&id).cloned();
                    if let Some(sp) = sp {
                        for e in op[3].as_array().unwrap() {
                            let v = mk_value(&e[1]);
                            sp.record(e[0].as_str().unwrap(), &*v);
                        }
                    }
                }
                "enter" | "exit" => {
                    let id = op[2].as_u64().unwrap();
                    let sp = spans2.lock().unwrap().get(&id).cloned();
                    if let Some(sp) = sp {
                        sp.with_collector(|(sid, disp)| if kind == "enter" { disp.enter(sid) } else { disp.exit(sid) });
                    }
                }
                "drop" => {
                    let id = op[2].as_u64().unwrap();
                    let sp = spans2.lock().unwrap().remove(&id);
                    drop(sp);
                }
                "event" => mk_event(op[2].as_u64().unwrap() as usize),
                "eventx" => {
                    let x = mk_value(&op[3]);
                    mk_eventx(op[2].as_u64().unwrap() as usize, &*x)
                }
                _ => {}
            })
        });
        plog.drain();
        rlog.drain();
        let panicked = if tid == 0 { catch_unwind(AssertUnwindSafe(job)).is_err() } else { workers[tid - 1].run(job) };
        let answers: Vec<bool> = plog.drain().iter().filter_map(|e| e.get("en").and_then(|x| x.as_bool())).collect();
        let rec = rlog.drain();
        let delivered = rec.iter().any(|e| e.get("new").is_some() || e.get("event").is_some());
        let idmap = ids.lock().unwrap();
        let closed: Vec<u64> = rec.iter().filter_map(|e| e.get("close").and_then(|x| x.as_u64())).filter_map(|r| idmap.get(&r).copied()).collect();
        obs.push(json!({"en": answers.last().copied(), "n_en": answers.len(), "delivered": delivered, "closed": closed, "panicked": panicked}));
    }
    // tidy: drop every remaining span before the dispatcher goes away
    spans.lock().unwrap().clear();
    drop(dispatch);
    json!({"k": "hist", "id": c["id"], "ok": true, "hint": hint, "obs": obs})
}

/// Runs `f` on a new thread and returns its result; a panic inside is re-raised here (the caller reports it).
fn on_fresh_thread<F: FnOnce() -> J + Send>(f: F) -> J {
    std::thread::scope(|s| match s.spawn(f).join() {
        Ok(v) => v,
        Err(e) => std::panic::resume_unwind(e),
    })
}

pub fn main() {
    std::panic::set_hook(Box::new(|_| {}));
    let workers = vec![Worker::new(), Worker::new()];
    let stdin = std::io::stdin();
    let mut pool = Pool { metas: Vec::new(), targets: Vec::new() };
    let mut line = String::new();
    use std::io::{BufRead, Write};
    let out = std::io::stdout();
    let mut out = std::io::BufWriter::new(out.lock());
    loop {
        line.clear();
        if stdin.lock().read_line(&mut line).unwrap() == 0 {
            break;
        }
        let l = line.trim();
        if l.is_empty() {
            continue;
        }
        let c: J = serde_json::from_str(l).expect("case line is JSON");
        let k = c["k"].as_str().unwrap_or("").to_string();
        let r = catch_unwind(AssertUnwindSafe(|| match k.as_str() {
            "pools" => json!({"k": "pools",
                "spans": SPAN_POOL.iter().map(|(i, t, l, n)| json!([i, t, l, n])).collect::<Vec<_>>(),
                "spans0": SPAN0_POOL.iter().map(|(i, t, l, n)| json!([i, t, l, n])).collect::<Vec<_>>(),
                "events": EVENT_POOL.iter().map(|(i, t, l)| json!([i, t, l])).collect::<Vec<_>>(),
                "eventsx": EVENTX_POOL.iter().map(|(i, t, l)| json!([i, t, l])).collect::<Vec<_>>()}),
            // the compile-time level cap of this build of `tracing` (TRACE unless a max_level_* feature is on)
            "static_max" => json!({"k": "static_max", "level": enc_f(&tracing::level_filters::STATIC_MAX_LEVEL)}),
            "pool" => {
                pool.metas = c["metas"]
                    .as_array()
                    .unwrap()
                    .iter()
                    .map(|m| {
                        leak_meta(
                            hexs(m["t"].as_str().unwrap()),
                            LEVELS[m["l"].as_u64().unwrap() as usize - 1],
                            m["kind"].as_str().unwrap(),
                            hexs(m["n"].as_str().unwrap()),
                            m["f"].as_array().unwrap().iter().map(|f| hexs(f.as_str().unwrap())).collect(),
                        )
                    })
                    .collect();
                pool.targets = c["targets"].as_array().unwrap().iter().map(|t| hexs(t.as_str().unwrap())).collect();
                json!({"k": "pool", "n": pool.metas.len()})
            }
            // The probing cases call `Collect::enabled` on stacks with per-subscriber filters without dispatching anything
            // afterwards; that leaves the thread's filter state as it is (C07's finding F3), and a later span creation on the
            // same thread would trip a debug assertion inside the registry.  Each of them therefore runs on a thread of its
            // own, so the history cases (main thread + two workers) always start from a clean thread-local state.
            "targets" => on_fresh_thread(|| {
                let s = hexs(c["s"].as_str().unwrap());
                match s.parse::<Targets>() {
                    Ok(t) => targets_report(&c["id"], "targets", t, &pool),
                    Err(e) => json!({"k": "targets", "id": c["id"], "ok": false, "err": e.to_string()}),
                }
            }),
            "tapi" => on_fresh_thread(|| {
                let mut t = Targets::new();
                for e in c["entries"].as_array().unwrap() {
                    let lvl = FILTERS[e[1].as_u64().unwrap() as usize];
                    t = match e[0].as_str() {
                        Some(h) => t.with_target(hexs(h), lvl),
                        None => t.with_default(lvl),
                    };
                }
                targets_report(&c["id"], "tapi", t, &pool)
            }),
            "env" => on_fresh_thread(|| env_case(&c, &pool)),
            "hist" => hist_case(&c, &workers),
            _ => json!({"k": "unknown"}),
        }));
        let v = match r {
            Ok(v) => v,
            Err(_) => json!({"k": k, "id": c["id"], "panic": true}),
        };
        writeln!(out, "{}", v).unwrap();
        out.flush().unwrap();
    }
}
